#!/usr/bin/env python3
"""seedtest.py ID WORKTREE PROP [PROP...]
Confirms a seeded change produced in WORKTREE (patch.diff, verif_demo_test.go, meta.json):
  (a) with the change the repository's own suite (demo excluded) passes,
  (b) the demonstration fails with the change, (c) passes without it;
then applies the patch to /repo, runs ./check for each PROP, undoes the patch, and stores
everything under /verif/seeded/ID/.  Not used by any registered check."""
import json, os, shutil, subprocess, sys, glob
ENV = dict(os.environ, GOFLAGS="-mod=mod", GOPROXY="off", GOSUMDB="off", GOTOOLCHAIN="local")
def sh(cmd, cwd=None):
    r = subprocess.run(cmd, shell=True, cwd=cwd, env=ENV, stdout=subprocess.PIPE, stderr=subprocess.STDOUT, text=True)
    return r.returncode, r.stdout
sid, wt, props = sys.argv[1], sys.argv[2], sys.argv[3:]
demo = [p for p in glob.glob(wt + "/**/verif_demo_test.go", recursive=True)]
assert demo, "no demo test"
demo = demo[0]; pkg = "./" + os.path.relpath(os.path.dirname(demo), wt)
ran = []
rc, out = sh("go build ./... && go test -vet=off -count=1 -skip '^TestVerifDemo$' ./... 2>&1 | grep -v 'no test files'", wt)
suite_ok = rc == 0 and "FAIL" not in out
ran.append(("suite with change (demo skipped)", suite_ok))
rc, out = sh(f"go test -vet=off -count=1 -run '^TestVerifDemo$' {pkg}", wt)
demo_fails = rc != 0
ran.append(("demo with change fails", demo_fails))
# (git stash is shared between worktrees: revert with the patch instead)
rc0, out0 = sh("git apply -R patch.diff", wt)
rc, out = sh(f"go test -vet=off -count=1 -run '^TestVerifDemo$' {pkg}", wt)
demo_passes = rc0 == 0 and rc == 0
ran.append(("demo without change passes", demo_passes))
sh("git apply patch.diff", wt)
confirmed = suite_ok and demo_fails and demo_passes
results = {}
if confirmed:
    rc, out = sh(f"git -C /repo apply {wt}/patch.diff")
    if rc != 0:
        print("patch does not apply to /repo:", out); confirmed = False
    else:
        try:
            for p in props:
                rc, out = sh(f"./check {p} --no-search", "/verif")
                lines = [l for l in out.splitlines() if l.strip()]
                msgs = sorted(set(l.strip()[3:].strip() for l in lines if l.strip().startswith("->")))
                results[p] = {"exit": rc, "caught": rc != 0, "summary": lines[-1] if lines else "", "messages": msgs[:6]}
                print(p, "CAUGHT" if rc != 0 else "missed", "|", (msgs[0][:160] if msgs else ""))
        finally:
            sh("git -C /repo checkout -- .")
            rc, out = sh("git -C /repo status --short")
            assert out.strip() == "", "repo not clean: " + out
d = f"/verif/seeded/{sid}"
if confirmed:
    os.makedirs(d, exist_ok=True)
    shutil.copy(wt + "/patch.diff", d)
    shutil.copy(demo, d + "/verif_demo_test.go.txt")
    meta = json.load(open(wt + "/meta.json")) if os.path.exists(wt + "/meta.json") else {}
    meta.update({"id": sid, "demo_package": pkg, "confirmed": ran, "checks": results,
                 "ran": ["go test -vet=off -count=1 -skip '^TestVerifDemo$' ./... (with change)",
                         f"go test -run '^TestVerifDemo$' {pkg} (with change: fails; change stashed: passes)",
                         "git -C /repo apply patch.diff; ./check <props> --no-search; git -C /repo checkout -- ."]})
    json.dump(meta, open(d + "/meta.json", "w"), indent=1)
print("confirmed" if confirmed else "NOT CONFIRMED", ran)
