#!/usr/bin/env python3
"""Regenerates MANIFEST.json from manifest_src.json (per-property texts) so that the
file stays valid and uniform.  Not used by any check."""
import json
src = json.load(open("manifest_src.json"))
props = [json.loads(l) for l in open("properties.jsonl")]
checks, na = [], []
for p in props:
    pid = p["id"]
    s = src["props"].get(pid)
    if not s or not s.get("claimed"):
        na.append({"property_id": pid, "reason": (s or {}).get("reason", "check not built yet in this session; see DESIGN.md section 8")})
        continue
    checks.append({
        "property_id": pid,
        "quick_cmd": f"./check {pid} --tier quick",
        "thorough_cmd": f"./check {pid} --tier thorough",
        "evidence_file": f"/verif/evidence/{pid}.json",
        "replay_cmd_template": f"./check {pid} --replay {{path}}",
        "engine": "coq-model+correspondence",
        "level_claimed": {"category": "proof", "text": s["text"], "design_ref": "DESIGN.md 4." + pid},
        "level_note": s["note"],
        "technique": s.get("technique", "Coq theorems about a hand-written Gallina model; extracted model and property checker run against the implementation on generated inputs (correspondence + direct oracle)"),
    })
m = {
    "version": 1,
    "setup_cmd": "./setup.sh",
    "hooks": {"guard": "verif", "enable": "go build -tags verif (no hook files exist; the tag is reserved)",
              "baseline_off_cmd": "cd /repo && GOFLAGS=-mod=mod GOPROXY=off GOSUMDB=off go test -vet=off -count=1 ./...",
              "source_commits": [], "add_only": True},
    "engines": [{"name": "coq-model+correspondence", "path": "/verif/check",
                 "serves_properties": [c["property_id"] for c in checks],
                 "kind_free_text": "Coq 8.16.1 development (coq/), model and checkers extracted to OCaml (ocaml/driver), Go harness (harness/) driving /repo, python orchestrator (check)"}],
    "checks": checks,
    "notes": src.get("notes", ""),
    "not_applicable": na,
}
json.dump(m, open("MANIFEST.json", "w"), indent=1)
print(len(checks), "claimed,", len(na), "not claimed")
