(* S-expressions exchanged between the Go harness and the extracted model, with the
   decimal codec for integers.  The reader (text -> sexp) is the hand-written OCaml
   glue; everything from sexp onwards is Gallina. *)
From Coq Require Import List ZArith String Ascii Bool.
Import ListNotations.
Open Scope string_scope.

Inductive sexp : Type :=
| SAtom (s : string)
| SList (l : list sexp).

Definition digit_of (c : ascii) : option Z :=
  let n := Z.of_N (N_of_ascii c) in
  if (Z.leb 48 n && Z.leb n 57)%bool then Some (n - 48)%Z else None.

Fixpoint parse_digits (s : string) (acc : Z) : option Z :=
  match s with
  | EmptyString => Some acc
  | String c rest =>
      match digit_of c with
      | Some d => parse_digits rest (acc * 10 + d)%Z
      | None => None
      end
  end.

Definition parse_Z (s : string) : option Z :=
  match s with
  | EmptyString => None
  | String "-"%char rest =>
      match rest with
      | EmptyString => None
      | _ => match parse_digits rest 0%Z with Some z => Some (- z)%Z | None => None end
      end
  | _ => parse_digits s 0%Z
  end.

Definition digit_char (d : Z) : ascii := ascii_of_N (Z.to_N (d + 48)).

Fixpoint show_pos_fuel (fuel : nat) (z : Z) (acc : string) : string :=
  match fuel with
  | O => acc
  | S f =>
      if Z.ltb z 10 then String (digit_char z) acc
      else show_pos_fuel f (Z.div z 10) (String (digit_char (Z.modulo z 10)) acc)
  end.

Definition show_Z (z : Z) : string :=
  if Z.ltb z 0 then String "-"%char (show_pos_fuel (S (Z.to_nat (Z.log2 (- z)))) (- z) "")
  else show_pos_fuel (S (Z.to_nat (Z.log2 z))) z "".

Definition show_nat (n : nat) : string := show_Z (Z.of_nat n).

(* printing: atoms are written quoted, with backslash escapes for the quote, the
   backslash and non-printable bytes (xHH), unless made of plain symbol characters *)
Definition hex_char (n : N) : ascii :=
  if N.ltb n 10 then ascii_of_N (n + 48) else ascii_of_N (n + 87).

Definition plain_char (c : ascii) : bool :=
  let n := N_of_ascii c in
  ((N.leb 48 n && N.leb n 57) || (N.leb 65 n && N.leb n 90) || (N.leb 97 n && N.leb n 122)
   || N.eqb n 45 || N.eqb n 95 || N.eqb n 61 || N.eqb n 62)%bool.

Fixpoint all_plain (s : string) : bool :=
  match s with
  | EmptyString => true
  | String c r => (plain_char c && all_plain r)%bool
  end.

Fixpoint escape (s : string) : string :=
  match s with
  | EmptyString => EmptyString
  | String c r =>
      let n := N_of_ascii c in
      if (N.eqb n 34 || N.eqb n 92)%bool then String "\"%char (String c (escape r))
      else if (N.ltb n 32 || N.leb 127 n)%bool then
        String "\"%char (String "x"%char (String (hex_char (N.div n 16)) (String (hex_char (N.modulo n 16)) (escape r))))
      else String c (escape r)
  end.

Definition show_atom (s : string) : string :=
  match s with
  | EmptyString => """"""
  | _ => if all_plain s then s else """" ++ escape s ++ """"
  end.

Fixpoint show_sexp (x : sexp) : string :=
  match x with
  | SAtom s => show_atom s
  | SList l =>
      "(" ++
      (fix go (l : list sexp) (first : bool) : string :=
         match l with
         | [] => ""
         | y :: t => (if first then "" else " ") ++ show_sexp y ++ go t false
         end) l true
      ++ ")"
  end.

Definition sym (s : string) := SAtom s.
Definition sZ (z : Z) := SAtom (show_Z z).
Definition sbool (b : bool) := SAtom (if b then "t" else "f").
