(* sort.Search / sort.Find of the Go standard library, as the real bisection, so that an
   inconsistent ordering shows up as a wrong lookup exactly as it would in Go. *)
From Coq Require Import Arith List.
Import ListNotations.

(* for i < j { h := (i+j)/2; if !f(h) { i = h+1 } else { j = h } }; return i *)
Fixpoint search_go (fuel : nat) (f : nat -> bool) (i j : nat) : nat :=
  match fuel with
  | O => i
  | S fuel' =>
      if Nat.ltb i j then
        let h := Nat.div2 (i + j) in
        if f h then search_go fuel' f i h else search_go fuel' f (S h) j
      else i
  end.

Definition search (n : nat) (f : nat -> bool) : nat := search_go (S n) f 0 n.

(* sort.Find(n, cmp): smallest i with cmp(i) <= 0, found iff i < n && cmp(i) == 0.
   cmp i is the comparison of the TARGET against element i in Go's documentation; SMD's
   sortedMemberMatcher.Find passes s[i].Path.Compare(p), i.e. element against target,
   which is modelled at the call site. *)
Fixpoint find_go (fuel : nat) (cmp : nat -> comparison) (i j : nat) : nat :=
  match fuel with
  | O => i
  | S fuel' =>
      if Nat.ltb i j then
        let h := Nat.div2 (i + j) in
        match cmp h with
        | Gt => find_go fuel' cmp (S h) j
        | _ => find_go fuel' cmp i h
        end
      else i
  end.

Definition find (n : nat) (cmp : nat -> comparison) : nat * bool :=
  let i := find_go (S n) cmp 0 n in
  (i, Nat.ltb i n && match cmp i with Eq => true | _ => false end)%bool.

(* positional helpers *)
Definition insert_at {A} (i : nat) (x : A) (l : list A) : list A :=
  firstn i l ++ x :: skipn i l.

Definition replace_at {A} (i : nat) (x : A) (l : list A) : list A :=
  firstn i l ++ x :: skipn (S i) l.
