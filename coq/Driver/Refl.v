(* Driver: C18 (a value means the same in every representation). *)
From Coq Require Import List ZArith String Ascii Bool Arith.
From SMD Require Import Base.Sexp Model.Value Model.Order Model.Schema Model.Reflect Model.MapOps Model.Codec
  Driver.Common.
Import ListNotations.
Open Scope string_scope.
Open Scope bool_scope.
Infix "@@" := (@app string) (at level 60, right associativity).

Fixpoint dec_gtype (fuel : nat) (x : sexp) : option gtype :=
  match fuel with
  | O => None
  | S f =>
      match x with
      | SAtom "bool" => Some GBool
      | SAtom "int" => Some GInt
      | SAtom "float" => Some GFloat
      | SAtom "string" => Some GString
      | SAtom "bytes" => Some GBytes
      | SAtom "iface" => Some GIface
      | SList [SAtom "ptr"; t] => do t <- dec_gtype f t; Some (GPtr t)
      | SList [SAtom "slice"; t] => do t <- dec_gtype f t; Some (GSlice t)
      | SList [SAtom "map"; t] => do t <- dec_gtype f t; Some (GMap t)
      | SList (SAtom "struct" :: fs) =>
          do fs <- map_opt (fun fd =>
                      match fd with
                      | SList [SAtom "field"; SAtom g; SAtom tg; sk; il; oe; oz; em; t] =>
                          do sk <- dec_bool sk; do il <- dec_bool il; do oe <- dec_bool oe;
                          do oz <- dec_bool oz; do em <- dec_bool em; do t <- dec_gtype f t;
                          Some (GF g tg sk il oe oz em t)
                      | _ => None
                      end) fs;
          Some (GStruct fs)
      | _ => None
      end
  end.

Fixpoint dec_gval (fuel : nat) (x : sexp) : option gval :=
  match fuel with
  | O => None
  | S f =>
      match x with
      | SAtom "nil" => Some GVNil
      | SList [SAtom "b"; b] => do b <- dec_bool b; Some (GVBool b)
      | SList [SAtom "i"; SAtom z] => do z <- parse_Z z; Some (GVInt z)
      | SList [SAtom "f"; SAtom n; SAtom d] =>
          do n <- parse_Z n; do d <- parse_Z d;
          match d with Zpos p => Some (GVFloat (QArith_base.Qmake n p)) | _ => None end
      | SList [SAtom "s"; SAtom s] => Some (GVString s)
      | SList [SAtom "bytes"; SAtom s] => Some (GVBytes s)
      | SList [SAtom "ptr"; v] => do v <- dec_gval f v; Some (GVPtr v)
      | SList (SAtom "slice" :: vs) => do vs <- map_opt (dec_gval f) vs; Some (GVSlice vs)
      | SList (SAtom "map" :: kvs) =>
          do kvs <- map_opt (fun kv => match kv with SList [SAtom k; v] => do v <- dec_gval f v; Some (k, v) | _ => None end) kvs;
          Some (GVMap kvs)
      | SList [SAtom "iface"; u] => do u <- dec_value u; Some (GVIface u)
      | SList (SAtom "struct" :: vs) => do vs <- map_opt (dec_gval f) vs; Some (GVStruct vs)
      | _ => None
      end
  end.

Definition veq2 (a b : value) : bool := veqb a b && veqb b a.

Definition run_c18_view (t v smd js eq cmp : sexp) : outcome :=
  match dec_gtype (S (sexp_depth t)) t, dec_gval (S (sexp_depth v)) v with
  | Some t, Some v =>
      let fam := family_t 64 t in
      let m_smd := reflect_view t v in
      let m_js := json_view t v in
      let obs_smd : option (option value) :=
        match smd with SAtom "panic" => Some None | SAtom "err" => None | _ => do x <- dec_value smd; Some (Some x) end in
      let obs_js := match js with SAtom "err" => None | _ => dec_value js end in
      match obs_smd with
      | None => out_bad "c18 smd view"
      | Some osmd =>
          let corr :=
            chk (match m_smd, osmd with
                 | Some a, Some b => value_deep_eqb a b
                 | None, None => true
                 | _, _ => false
                 end) "corr reflection view" @@
            chk (match m_js, obs_js with
                 | Some a, Some b => veq2 a b      (* 1.0 is encoded as 1 and decoded as an integer *)
                 | _, _ => false
                 end) "corr JSON view (the specification against encoding/json)" in
          let prop :=
            if fam then
              match osmd, obs_js with
              | Some a, Some b =>
                  chk (veq2 a b) "prop C18 the reflected value converts to the same unstructured data as the JSON round trip" @@
                  chk (match eq with SAtom "t" => true | _ => false end) "prop C18 Equals between the reflected value and the JSON round trip" @@
                  chk (match cmp with SAtom "0" => true | _ => false end) "prop C18 Compare between the reflected value and the JSON round trip is 0"
              | None, _ => ["prop C18 the reflection view panicked on a type of the family"]
              | _, None => ["prop C18 the JSON encoder failed"]
              end
            else [] in
          mkOut (corr @@ prop) 1 (if fam then 1 else 0) [if fam then "family" else "outside-family"]
      end
  | _, _ => out_bad "c18.view decode"
  end.

(* two reflected values of one Go type: the library's equality and ordering on the reflected
   representation against the model's on their generic views *)
Definition run_rpair (ua ub eqab eqba cmpab cmpba : sexp) : outcome :=
  match dec_value ua, dec_value ub, dec_bool eqab, dec_bool eqba, dec_int cmpab, dec_int cmpba with
  | Some a, Some b, Some eab, Some eba, Some cab, Some cba =>
      let me := veqb a b in
      let mc := vcmp a b in
      let sg (z : Z) : comparison := (z ?= 0)%Z in
      mkOut (chk (Bool.eqb eab me && Bool.eqb eba me) "corr equals of two reflected values = equals of their generic views" @@
             chk (cmp_eqb (sg cab) mc) "corr compare of two reflected values = compare of their generic views" @@
             chk (Bool.eqb (Z.eqb cab 0) eab && Bool.eqb (Z.eqb cba 0) eba) "prop compare=0 iff equals (two reflected values)" @@
             chk (cmp_eqb (sg cba) (CompOpp (sg cab))) "prop compare is antisymmetric (two reflected values)")
            4 (if me then 1 else 2) [if me then "rpair-equal" else "rpair-different"]
  | _, _, _, _, _, _ => out_bad "rpair"
  end.

Definition run_c18_codec (v j y : sexp) : outcome :=
  match dec_bool j, dec_bool y with
  | Some j, Some y =>
      mkOut (chk j "prop C18 JSON encode/decode gives back an equal value" @@
             chk y "prop C18 YAML encode/decode gives back an equal value") 2 1 []
  | _, _ => out_bad "c18.codec"
  end.

(* ---- Set / Delete through the Map interface ---- *)
Definition dec_mstep (x : sexp) : option mstep :=
  match x with
  | SList [SAtom "k"; SAtom k] => Some (MKey k)
  | SList [SAtom "i"; n] => do z <- dec_int n; Some (MIdx (Z.to_nat z))
  | _ => None
  end.

(* what encoding/json's omitempty calls empty *)
Definition empty_for_omit (v : value) : bool :=
  match v with
  | VNull | VBool false | VStr "" | VList [] | VMap [] => true
  | VInt z => Z.eqb z 0
  | VFloat q => Z.eqb (QArith_base.Qnum q) 0
  | _ => false
  end.

Definition run_c18_mut (kind before path op key val omit after : sexp) : outcome :=
  match dec_value before, path, op, key, dec_bool omit with
  | Some before, SList (SAtom "path" :: steps), SAtom op, SAtom key, Some omit =>
      match map_opt dec_mstep steps with
      | None => out_bad "c18.mut path"
      | Some p =>
          match after with
          | SAtom "panic" => mkOut ["prop C18 Set/Delete through the Map interface panicked"] 1 1 ["mut"; op]
          | _ =>
              match dec_value after, (match val with SAtom "-" => Some VNull | _ => dec_value val end) with
              | Some after, Some val =>
                  let removes := String.eqb op "delete" || (String.eqb op "set" && omit && empty_for_omit val) in
                  let f (m : list (string * value)) :=
                    if removes then vmap_delete key m
                    else if String.eqb op "nullify" then vmap_set key VNull m
                    else vmap_set key val m in
                  let corr :=
                    chk (match update_at p f before with
                         | Some e => value_deep_eqb e after
                         | None => false
                         end) "corr Set/Delete on the unstructured view" in
                  let prop_msgs :=
                    match lookup_at p before, lookup_at p after with
                    | Some (VMap m), Some (VMap m') =>
                        chk (value_deep_eqb (VMap (vmap_delete key m)) (VMap (vmap_delete key m')))
                            "prop C18 Set/Delete through the Map interface changes exactly that entry: another entry of the same map changed" @@
                        chk (match update_at p (fun _ => m) after with
                             | Some back => value_deep_eqb back before
                             | None => false
                             end)
                            "prop C18 Set/Delete through the Map interface changes exactly that entry: something outside the map changed" @@
                        chk (match vmap_get key m' with
                             | None => removes
                             | Some x => negb removes && value_deep_eqb x (if String.eqb op "nullify" then VNull else val)
                             end)
                            "prop C18 after Set the entry holds the value, after Delete it is gone"
                    | _, _ => ["prop C18 Set/Delete through the Map interface: the map is no longer where it was"]
                    end in
                  mkOut (corr @@ prop_msgs) 4 1 ["mut"; op]
              | _, _ => out_bad "c18.mut values"
              end
          end
      end
  | _, _, _, _, _ => out_bad "c18.mut"
  end.

(* two Sets on different fields through one handle *)
Definition run_c18_mut2 (kind before path k1 v1 o1 k2 v2 o2 after : sexp) : outcome :=
  match dec_value before, path, k1, dec_value v1, dec_bool o1 with
  | Some before, SList (SAtom "path" :: steps), SAtom k1, Some v1, Some o1 =>
      match map_opt dec_mstep steps, k2, dec_value v2, dec_bool o2 with
      | Some p, SAtom k2, Some v2, Some o2 =>
          match after with
          | SAtom "panic" => mkOut ["prop C18 Set/Delete through the Map interface panicked"] 1 1 ["mut2"]
          | _ =>
              match dec_value after with
              | Some after =>
                  let setf k v o (m : list (string * value)) :=
                    if o && empty_for_omit v then vmap_delete k m else vmap_set k v m in
                  let expected :=
                    match update_at p (setf k1 v1 o1) before with
                    | Some x => update_at p (setf k2 v2 o2) x
                    | None => None
                    end in
                  mkOut (chk (match expected with Some e => value_deep_eqb e after | None => false end)
                             "prop C18 two Sets through one handle change exactly those two entries (the second does not undo the first)")
                        2 1 ["mut2"]
              | None => out_bad "c18.mut2 after"
              end
          end
      | _, _, _, _ => out_bad "c18.mut2 args"
      end
  | _, _, _, _, _ => out_bad "c18.mut2"
  end.
