(* Driver: C17 (orderings, containers, schema equality) and C15 (set algebra). *)
From Coq Require Import List ZArith String Ascii Bool Arith.
From SMD Require Import Base.Search Base.Sexp Model.Value Model.Order Model.PathElem
  Model.PathSet Model.Schema Model.Walk Model.Matcher Model.Codec Spec.PathsAsSets Driver.Common.
Import ListNotations.
Open Scope string_scope.
Open Scope bool_scope.
Infix "@@" := (@app string) (at level 60, right associativity).

(* ------------------------------------------------------------------ *)
(* C17: comparison matrices                                            *)

Definition obs3 := (comparison * bool * bool)%type.   (* Compare, Equals, Less *)

Definition dec_obs3 (x : sexp) : option obs3 :=
  match x with
  | SList [c; e; l] => do c <- dec_cmp c; do e <- dec_bool e; do l <- dec_bool l; Some (c, e, l)
  | _ => None
  end.

Definition dec_rows (x : sexp) : option (list (list obs3)) :=
  match x with
  | SList (SAtom "rows" :: rs) =>
      map_opt (fun r => match r with SList cells => map_opt dec_obs3 cells | _ => None end) rs
  | _ => None
  end.

(* what c_ik must be, given c_ij and c_jk, in a total preorder *)
Definition trans_ok (cij cjk cik : comparison) : bool :=
  match cij, cjk with
  | Eq, _ => cmp_eqb cik cjk
  | _, Eq => cmp_eqb cik cij
  | Lt, Lt => cmp_eqb cik Lt
  | Gt, Gt => cmp_eqb cik Gt
  | _, _ => true
  end.

Definition idx (i j : nat) : string := show_nat i ++ "," ++ show_nat j.

Section matrix.
  Variable A : Type.
  Variable cmpf : A -> A -> comparison.
  Variable eqf : A -> A -> bool.
  Variable lessf : A -> A -> bool.
  Variable ntf : A -> A -> bool.

  Definition check_matrix (items : list A) (rows : list (list obs3)) : outcome :=
    let n := List.length items in
    if negb (Nat.eqb (List.length rows) n && forallb (fun r => Nat.eqb (List.length r) n) rows)
    then out_bad "matrix shape" else
    let irows := zip_with_index 0 (combine items rows) in
    (* correspondence: the model computes the same three answers *)
    let corr :=
      flat_map (fun ir : nat * (A * list obs3) =>
        let '(i, (a, row)) := ir in
        flat_map (fun jb : nat * (A * obs3) =>
          let '(j, (b, (c, e, l))) := jb in
          chk (cmp_eqb (cmpf a b) c) ("corr compare " ++ idx i j) @@
          chk (Bool.eqb (eqf a b) e) ("corr equals " ++ idx i j) @@
          chk (Bool.eqb (lessf a b) l) ("corr less " ++ idx i j))
          (zip_with_index 0 (combine items row))) irows in
    (* property on the observed answers alone *)
    let crows := map (fun r => map (fun o : obs3 => fst (fst o)) r) rows in
    let law1 :=
      flat_map (fun ir : nat * list obs3 =>
        let '(i, row) := ir in
        flat_map (fun jo : nat * obs3 =>
          let '(j, (c, e, l)) := jo in
          chk (Bool.eqb e (cmp_eqb c Eq)) ("prop compare=0 iff equals " ++ idx i j) @@
          chk (Bool.eqb l (cmp_eqb c Lt)) ("prop less iff compare<0 " ++ idx i j) @@
          chk (negb (Nat.eqb i j) || e) ("prop equals reflexive " ++ idx i j))
          (zip_with_index 0 row)) (zip_with_index 0 rows) in
    let law2 :=
      flat_map (fun ir : nat * list comparison =>
        let '(i, rowi) := ir in
        flat_map (fun jr : nat * (comparison * list comparison) =>
          let '(j, (cij, rowj)) := jr in
          (* antisymmetry: c_ji = -c_ij, read from row j column i *)
          chk (cmp_eqb (nth i rowj Eq) (CompOpp cij)) ("prop antisymmetric " ++ idx i j) @@
          chk (forallb2 (fun cjk cik => trans_ok cij cjk cik) rowj rowi) ("prop transitive " ++ idx i j))
          (zip_with_index 0 (combine rowi crows))) (zip_with_index 0 crows) in
    let nt := fold_right (fun a acc => count (ntf a) items + acc) 0 items in
    mkOut (corr @@ law1 @@ law2) (n * n) nt [].
End matrix.

Definition value_kind (v : value) : nat :=
  match v with
  | VNull => 0 | VBool _ => 1 | VInt _ => 2 | VFloat _ => 3 | VStr _ => 4 | VList _ => 5 | VMap _ => 6
  end.

(* C17 NT rule: pairs of different kind, or numerically equal in different representation *)
Definition nt_values (a b : value) : bool := negb (Nat.eqb (value_kind a) (value_kind b)).
Definition pe_kind (e : pe) : nat :=
  match e with PEField _ => 0 | PEKey _ => 1 | PEValue _ => 2 | PEIndex _ => 3 end.
Definition nt_pes (a b : pe) : bool :=
  negb (Nat.eqb (pe_kind a) (pe_kind b)) ||
  match a, b with PEValue x, PEValue y => nt_values x y | _, _ => false end.

Definition run_c17_matrix (kind : string) (items rows : sexp) : outcome :=
  match dec_rows rows, items with
  | Some rows, SList (SAtom "items" :: its) =>
      if String.eqb kind "value" then
        match map_opt dec_value its with
        | Some vs => check_matrix value vcmp veqb vless nt_values vs rows
        | None => out_bad "values"
        end
      else if String.eqb kind "pe" then
        match map_opt dec_pe its with
        | Some vs => check_matrix pe pecmp peeqb peless nt_pes vs rows
        | None => out_bad "pes"
        end
      else if String.eqb kind "path" then
        match map_opt dec_path its with
        | Some vs =>
            check_matrix path pathcmp patheqb
              (fun a b => cmp_eqb (pathcmp a b) Lt)
              (fun a b => negb (Nat.eqb (List.length a) (List.length b))) vs rows
        | None => out_bad "paths"
        end
      else if String.eqb kind "fl" then
        match map_opt (fun x => match x with SList kvs => map_opt dec_kv kvs | _ => None end) its with
        | Some vs =>
            check_matrix fieldlist fl_cmp fl_eqb fl_less
              (fun a b => negb (Nat.eqb (List.length a) (List.length b))) vs rows
        | None => out_bad "fieldlists"
        end
      else if String.eqb kind "pm" then
        match map_opt dec_pm its with
        | Some vs =>
            check_matrix pematcher pm_cmp pm_eqb pm_less
              (fun a b => match a, b with PMWild, _ | _, PMWild => true | _, _ => false end) vs rows
        | None => out_bad "matchers"
        end
      else out_bad "matrix kind"
  | _, _ => out_bad "matrix"
  end.

(* C17: PathElementSet after shuffled inserts: observed Iterate and Has over a universe *)
Definition run_c17_pes (ins univ iter has : sexp) : outcome :=
  match ins, univ, iter, has with
  | SList ins, SList univ, SList iter, SList has =>
      match map_opt dec_pe ins, map_opt dec_pe univ, map_opt dec_pe iter, map_opt dec_bool has with
      | Some ins, Some univ, Some iter, Some has =>
          let model := fold_left (fun s e => pes_insert e s) ins [] in
          let corr :=
            chk (pes_equals model iter && Nat.eqb (List.length model) (List.length iter)) "corr pes iterate" @@
            chk (forallb2 (fun u h => Bool.eqb (pes_has u model) h) univ has) "corr pes has" in
          let prop :=
            chk (forallb2 (fun u h => Bool.eqb h (existsb (peeqb u) ins)) univ has)
                "prop pes has = inserted" @@
            chk (forallb (fun e => existsb (peeqb e) iter) ins &&
                 forallb (fun e => existsb (peeqb e) ins) iter)
                "prop pes iterate = inserted (as sets)" @@
            chk ((fix nodup (l : list pe) : bool :=
                    match l with [] => true | x :: t => negb (existsb (peeqb x) t) && nodup t end) iter)
                "prop pes iterate without repetition" in
          mkOut (corr @@ prop) (List.length univ) (count (fun u => existsb (peeqb u) ins) univ) []
      | _, _, _, _ => out_bad "pes decode"
      end
  | _, _, _, _ => out_bad "pes"
  end.

(* C17: PathElementMap: Get returns the last value inserted under an equal key *)
Definition run_c17_pem (ins univ gets : sexp) : outcome :=
  match ins, univ, gets with
  | SList ins, SList univ, SList gets =>
      let dec_ins (x : sexp) := match x with SList [e; v] => do e <- dec_pe e; do v <- dec_int v; Some (e, v) | _ => None end in
      match map_opt dec_ins ins, map_opt dec_pe univ, map_opt (dec_opt dec_int) gets with
      | Some ins, Some univ, Some gets =>
          let model := fold_left (fun m ev => pem_insert (fst ev) (snd ev) m) ins [] in
          let last (u : pe) : option Z :=
            fold_left (fun acc ev => if peeqb (fst ev) u then Some (snd ev) else acc) ins None in
          let oz_eqb := opt_eqb Z.eqb in
          mkOut (chk (forallb2 (fun u g => oz_eqb (pem_get u model) g) univ gets) "corr pem get" @@
                 chk (forallb2 (fun u g => oz_eqb (last u) g) univ gets) "prop pem get = last inserted")
                (List.length univ)
                (count (fun u => Nat.ltb 1 (count (fun ev => peeqb (fst ev) u) ins)) univ) []
      | _, _, _ => out_bad "pem decode"
      end
  | _, _, _ => out_bad "pem"
  end.

(* C17: schema equality *)
Definition run_c17_schemaeq (a b obs : sexp) : outcome :=
  match dec_schema a, dec_schema b, obs with
  | Some _, Some _, SAtom "panic" => mkOut ["prop schema Equals panicked"] 1 1 []
  | Some a, Some b, obs =>
      match dec_bool obs with
      | Some obs =>
          mkOut (chk (Bool.eqb (schema_eqb a b) obs) "corr/prop schema equals = structural equality")
                1 (if schema_eqb a b then 1 else 0) []
      | None => out_bad "schemaeq"
      end
  | _, _, _ => out_bad "schemaeq"
  end.

(* ------------------------------------------------------------------ *)
(* C15: set algebra against plain sets of paths                        *)

Definition paths_eqb (a b : list path) : bool := forallb2 patheqb a b.

Definition run_c15_setops (xs : list sexp) : outcome :=
  match xs with
  | [a; b; univ; pfx; u; i; d; r; lv; wp; sz; em; eq; has; it; ita2] =>
      match dec_paths a, dec_paths b, dec_paths univ, dec_pe pfx,
            dec_paths u, dec_paths i, dec_paths d, dec_paths r, dec_paths lv, dec_paths wp,
            dec_int sz, dec_bool em, dec_bool eq with
      | Some a, Some b, Some univ, Some pfx, Some u, Some i, Some d, Some r, Some lv, Some wp,
        Some sz, Some em, Some eq =>
          match has, dec_paths it, dec_paths ita2 with
          | SList has, Some it, Some ita2 =>
              match map_opt dec_bool has with
              | None => out_bad "setops has"
              | Some has =>
                  let sa := ps_of_paths a in
                  let sb := ps_of_paths b in
                  let corr :=
                    chk (paths_eqb (ps_elems (ps_union sa sb)) u) "corr union" @@
                    chk (paths_eqb (ps_elems (ps_inter sa sb)) i) "corr intersection" @@
                    chk (paths_eqb (ps_elems (ps_diff sa sb)) d) "corr difference" @@
                    chk (paths_eqb (ps_elems (ps_rdiff sa sb)) r) "corr recursive difference" @@
                    chk (paths_eqb (ps_elems (ps_leaves sa)) lv) "corr leaves" @@
                    chk (paths_eqb (ps_elems (ps_with_prefix pfx sa)) wp) "corr with-prefix" @@
                    chk (Z.eqb (Z.of_nat (ps_size sa)) sz) "corr size" @@
                    chk (Bool.eqb (ps_empty sa) em) "corr empty" @@
                    chk (Bool.eqb (ps_equals sa sb) eq) "corr equals" @@
                    chk (forallb2 (fun p h => Bool.eqb (ps_has p sa) h) univ has) "corr has" @@
                    chk (paths_eqb (ps_elems sa) it) "corr iterate" in
                  let prop :=
                    chk (psame u (p_union a b)) "prop union = set union" @@
                    chk (psame i (p_inter a b)) "prop intersection = set intersection" @@
                    chk (psame d (p_diff a b)) "prop difference = set difference" @@
                    chk (psame r (p_rdiff a b)) "prop recursive difference" @@
                    chk (psame lv (p_leaves a)) "prop leaves" @@
                    chk (psame wp (p_with_prefix pfx a)) "prop prefix selection" @@
                    chk (psame it a) "prop iterate = members" @@
                    chk (pnodup it && pnodup u && pnodup i && pnodup d && pnodup r && pnodup lv) "prop each member once" @@
                    chk (iter_sorted it && iter_sorted u && iter_sorted i && iter_sorted d && iter_sorted r) "prop fixed total order" @@
                    chk (Z.eqb sz (Z.of_nat (List.length it))) "prop size = number of members" @@
                    chk (Bool.eqb em (match it with [] => true | _ => false end)) "prop empty iff no members" @@
                    chk (Bool.eqb eq (psame a b)) "prop equals iff same members" @@
                    chk (forallb2 (fun p h => Bool.eqb h (pmem p a)) univ has) "prop has = membership" @@
                    chk (paths_eqb it ita2) "prop same iteration however built" in
                  let nt :=
                    match a, b with
                    | _ :: _, _ :: _ =>
                        if existsb (fun p => existsb (fun q => proper_prefix p q || proper_prefix q p) b) a
                        then 1 else 0
                    | _, _ => 0
                    end in
                  mkOut (corr @@ prop) 1 nt []
              end
          | _, _, _ => out_bad "setops has/iter"
          end
      | _, _, _, _, _, _, _, _, _, _, _, _, _ => out_bad "setops decode"
      end
  | _ => out_bad "setops arity"
  end.

