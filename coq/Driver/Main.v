(* Dispatch of case lines to the per-property drivers. *)
From Coq Require Import List ZArith String Ascii Bool Arith.
From SMD Require Import Base.Sexp Model.Value Model.Schema Model.Codec
  Driver.Common Driver.Algebra Driver.Typed Driver.Hist Driver.Serial Driver.Effects Driver.Refl.
Import ListNotations.
Open Scope string_scope.

Definition with_conf (st : dstate) (cid : string) : option hconf :=
  match assoc_get cid (ds_confs st) with
  | Some (vs, ms, ign) => dec_hconf vs ms ign
  | None => None
  end.

Definition run_case (st : dstate) (x : sexp) : dstate * outcome :=
  match x with
  | SList [SAtom "defschema"; SAtom id; sch] =>
      match dec_schema sch with
      | Some s => (mkDS (assoc_set id s (ds_schemas st)) (ds_prop st) (ds_confs st), mkOut [] 0 0 ["defschema"])
      | None => (st, out_bad "schema")
      end
  | SList [SAtom "setprop"; SAtom p] => (mkDS (ds_schemas st) p (ds_confs st), mkOut [] 0 0 ["setprop"])
  | SList [SAtom "defconf"; SAtom id; vs; ms; ign] =>
      (mkDS (ds_schemas st) (ds_prop st) (assoc_set id (vs, ms, ign) (ds_confs st)), mkOut [] 0 0 ["defconf"])
  | SList [SAtom "hist.apply"; SAtom cid; live; mobs; mgr; ver; cfg; a; b; c; d; pv] =>
      match with_conf st cid with
      | Some hc => (st, run_hist_apply (ds_prop st) (ds_schemas st) hc live mobs mgr ver cfg a b c d pv)
      | None => (st, out_bad "unknown conf")
      end
  | SList [SAtom "hist.update"; SAtom cid; live; mobs; mgr; ver; obj; o] =>
      match with_conf st cid with
      | Some hc => (st, run_hist_update (ds_prop st) (ds_schemas st) hc live mobs mgr ver obj o)
      | None => (st, out_bad "unknown conf")
      end
  | SList [SAtom "hist.extract"; SAtom cid; live; mobs; mgr; ext; o] =>
      match with_conf st cid with
      | Some hc => (st, run_hist_extract (ds_prop st) (ds_schemas st) hc live mobs mgr ext o)
      | None => (st, out_bad "unknown conf")
      end
  | SList [SAtom "c20.sim"; SAtom cid; lm; mm; ls; ms] =>
      match with_conf st cid with
      | Some hc => (st, run_c20_sim (ds_schemas st) hc lm mm ls ms)
      | None => (st, out_bad "unknown conf")
      end
  | SList [SAtom "c20.reconcile"; SAtom sid; tr; set; res; again] =>
      match ds_schema st sid with
      | Some s => (st, run_c20_reconcile s tr set res again)
      | None => (st, out_bad "unknown schema")
      end
  | SList [SAtom "c20.diverged"; SAtom why] => (st, mkOut ["prop C20 " ++ why] 1 1 [])
  | SList [SAtom "c08.call"; SAtom cid; a; b; c; d; e; f] =>
      match with_conf st cid with
      | Some hc => (st, run_c08_call (ds_schemas st) hc a b c d e f)
      | None => (st, out_bad "unknown conf")
      end
  | SList [SAtom "c08.fault"; SAtom cid; a; b; c; d; e; f] =>
      match with_conf st cid with
      | Some hc => (st, run_c08_fault (ds_schemas st) hc a b c d e f)
      | None => (st, out_bad "unknown conf")
      end
  | SList [SAtom "c08.typed"; a; b] => (st, run_c08_typed a b)
  | SList [SAtom "c09.repeat"; SAtom cid; a; b; c; d; e; f; g] =>
      match with_conf st cid with
      | Some hc => (st, run_c09_repeat (ds_schemas st) hc a b c d e f g)
      | None => (st, out_bad "unknown conf")
      end
  | SList [SAtom "c09.allocators"; a; b] => (st, run_c09_allocators a b)
  | SList [SAtom "c09.typed"; a; b] => (st, run_c09_typed a b)
  | SList [SAtom "c10.run"; a; b; c] => (st, run_c10 a b c)
  | SList [SAtom "c18.view"; a; b; c; d; e; f] => (st, run_c18_view a b c d e f)
  | SList [SAtom "c18.codec"; a; b; c] => (st, run_c18_codec a b c)
  | SList [SAtom "rpair"; a; b; c; d; e; f] => (st, run_rpair a b c d e f)
  | SList [SAtom "c18.mut"; k; a; b; c; d; e; f; g] => (st, run_c18_mut k a b c d e f g)
  | SList [SAtom "c18.mut2"; k; a; b; c; d; e; f; g; h; i] => (st, run_c18_mut2 k a b c d e f g h i)
  | SList [SAtom "c16.roundtrip"; a; b; c; d; e] => (st, run_c16_roundtrip a b c d e)
  | SList (SAtom "c16.perm" :: a :: b :: res) => (st, run_c16_perm a b res)
  | SList (SAtom "c16.parse" :: a :: res) => (st, run_c16_parse a res)
  | SList (SAtom "c16.fuzz" :: res) => (st, run_c16_fuzz res)
  | SList [SAtom "c16.pe"; a; b; c] => (st, run_c16_pe a b c)
  | SList (SAtom "c16.keyorder" :: a :: b :: c :: d :: res) => (st, run_c16_keyorder a b c d res)
  | SList [SAtom "c16.error"; SAtom why] => (st, mkOut ["prop C16 " ++ why] 1 1 [])
  | SList [SAtom "c19.include"; pats; set; res] => (st, run_c19_include pats set res)
  | SList [SAtom "c19.exclude"; ex; set; res] => (st, run_c19_exclude ex set res)
  | SList [SAtom "c19.same"; a; b; obs] => (st, run_c19_same a b obs)
  | SList [SAtom "c17.matrix"; SAtom kind; items; rows] => (st, run_c17_matrix kind items rows)
  | SList [SAtom "c17.pes"; ins; univ; iter; has] => (st, run_c17_pes ins univ iter has)
  | SList [SAtom "c17.pem"; ins; univ; gets] => (st, run_c17_pem ins univ gets)
  | SList [SAtom "c17.schemaeq"; a; b; obs] => (st, run_c17_schemaeq a b obs)
  | SList (SAtom "c15.setops" :: xs) => (st, run_c15_setops xs)
  | SList [SAtom "c13.validate"; sid; tr; dup; v; obs] => (st, run_c13_validate st sid tr dup v obs)
  | SList [SAtom "c13.total"; sid; tr; a; b; res] => (st, run_c13_total st sid tr a b res)
  | SList [SAtom "c11"; sid; tr; l; r; a; b; c] => (st, run_c11 st sid tr l r a b c)
  | SList (SAtom "c12" :: xs) => (st, run_c12 st xs)
  | SList (SAtom "c14" :: xs) => (st, run_c14 st xs)
  | SList (SAtom "c14.interior" :: xs) => (st, run_c14_interior st xs)
  | SList (SAtom op :: _) => (st, out_bad ("unknown op " ++ op))
  | _ => (st, out_bad "not a case")
  end.
