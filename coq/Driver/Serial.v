(* Driver: C16 (field-set serialisation at tree level). *)
From Coq Require Import List ZArith String Ascii Bool Arith.
From SMD Require Import Base.Sexp Model.Value Model.Order Model.PathElem Model.PathSet
  Model.Serialize Model.Codec Spec.PathsAsSets Driver.Common Driver.Typed.
Import ListNotations.
Open Scope string_scope.
Open Scope bool_scope.
Infix "@@" := (@app string) (at level 60, right associativity).

Fixpoint dec_jtree (fuel : nat) (x : sexp) : option jtree :=
  match fuel with
  | O => None
  | S f =>
      match x with
      | SList (SAtom "o" :: ms) =>
          do l <- map_opt (fun m => match m with
                                    | SList [k; sub] =>
                                        do k <- match k with
                                                | SAtom "." => Some JSelf
                                                | SAtom "?" => Some JUnknown
                                                | SAtom "!" => Some JBad
                                                | _ => do e <- dec_pe k; Some (JPe e)
                                                end;
                                        do t <- dec_jtree f sub; Some (k, t)
                                    | _ => None
                                    end) ms;
          Some (JObj l)
      | _ => None
      end
  end.

Definition dec_tree (x : sexp) : option jtree := dec_jtree (S (sexp_depth x)) x.

Definition wf_observed (ps : list path) : bool := iter_sorted ps && pnodup ps.

Definition run_c16_roundtrip (set tree parsed err same : sexp) : outcome :=
  match dec_paths set, dec_tree tree, dec_paths parsed, dec_bool err, dec_bool same with
  | Some set, Some tree, Some parsed, Some err, Some same =>
      let s := ps_of_paths set in
      let '(ms, merr) := from_json tree in
      mkOut (chk (jtree_eqb (to_json s) tree) "corr ToJSON tree" @@
             chk (paths_eqb (ps_elems ms) parsed && Bool.eqb merr err) "corr FromJSON of the serialisation" @@
             chk (psame parsed set && negb err) "prop serialising and parsing back yields an equal set" @@
             chk same "prop equal sets serialise to identical bytes however they were built")
            2 (if existsb (fun p => existsb (fun q => proper_prefix p q) set) set then 1 else 0) []
  | _, _, _, _, _ => out_bad "c16.roundtrip"
  end.

Definition dec_from (xs : list sexp) : option (option (list path * bool)) :=
  match xs with
  | [SAtom "panic"] => Some None
  | [s; e] => do s <- dec_paths s; do e <- dec_bool e; Some (Some (s, e))
  | _ => None
  end.

Definition run_c16_perm (set tree : sexp) (res : list sexp) : outcome :=
  match dec_paths set, dec_tree tree, dec_from res with
  | Some set, Some tree, Some obs =>
      match obs with
      | None => mkOut ["prop parsing panicked"] 1 1 []
      | Some (parsed, err) =>
          let '(ms, merr) := from_json tree in
          mkOut (chk (paths_eqb (ps_elems ms) parsed && Bool.eqb merr err) "corr FromJSON of permuted members" @@
                 chk (psame parsed set && negb err) "prop parsing accepts members in any order")
                1 (match set with _ :: _ :: _ => 1 | _ => 0 end) []
      end
  | _, _, _ => out_bad "c16.perm"
  end.

Definition run_c16_parse (tree : sexp) (res : list sexp) : outcome :=
  match dec_tree tree, dec_from res with
  | Some tree, Some obs =>
      match obs with
      | None => mkOut ["prop parsing panicked"] 1 1 []
      | Some (parsed, err) =>
          let '(ms, merr) := from_json tree in
          mkOut ((* after an error the partial set depends on jsoniter internals: only the error is compared *)
                 chk (Bool.eqb merr err && (merr || paths_eqb (ps_elems ms) parsed)) "corr FromJSON with repeated / unknown / bad keys" @@
                 chk (wf_observed parsed) "prop parsing returns a well-formed set")
                1 1 [if err then "error" else "accepted"]
      end
  | _, _ => out_bad "c16.parse"
  end.

Definition run_c16_fuzz (res : list sexp) : outcome :=
  match dec_from res with
  | Some None => mkOut ["prop parsing arbitrary bytes panicked"] 1 1 []
  | Some (Some (parsed, err)) =>
      mkOut (chk (wf_observed parsed) "prop arbitrary bytes give an error or a well-formed set") 1 1
            [if err then "error" else "accepted"]
  | None => out_bad "c16.fuzz"
  end.

Definition run_c16_pe (e back ind : sexp) : outcome :=
  match dec_pe e with
  | Some e =>
      match back with
      | SAtom "err" => mkOut ["prop a path element failed to round-trip"] 1 1 []
      | SAtom "panic" => mkOut ["prop path element codec panicked"] 1 1 []
      | _ =>
          match dec_pe back with
          | Some b =>
              mkOut (chk (peeqb e b && peeqb b e) "prop deserialising a serialised path element yields an equal one" @@
                     chk (match dec_pe ind with Some i => peeqb i e | None => false end)
                         "prop the serialised form is the documented one (independent reader)")
                    1 1 []
          | None => out_bad "c16.pe back"
          end
      end
  | None => out_bad "c16.pe"
  end.

(* the fields of a key in any order: the element read back is the same element, it
   re-serialises to the canonical text, and a set holding it parses to the set it denotes *)
Definition run_c16_keyorder (e back again paths : sexp) (res : list sexp) : outcome :=
  match dec_pe e, dec_paths paths, dec_from res with
  | Some e, Some expect, Some obs =>
      match back with
      | SAtom "err" => mkOut ["prop a key with its fields in another order is rejected"] 1 1 []
      | SAtom "panic" => mkOut ["prop path element codec panicked"] 1 1 []
      | _ =>
          match dec_pe back with
          | Some b =>
              mkOut (chk (peeqb e b && peeqb b e) "prop the fields of a key may come in any order: the element read is the same element" @@
                     chk (match again with SAtom "t" => true | _ => false end)
                         "prop equal elements serialise to identical text" @@
                     match obs with
                     | None => ["prop parsing panicked"]
                     | Some (parsed, err) =>
                         chk (psame parsed expect && negb err) "prop a set whose key has its fields in another order parses to the set it denotes"
                     end)
                    3 1 []
          | None => out_bad "c16.keyorder back"
          end
      end
  | _, _, _ => out_bad "c16.keyorder"
  end.
