(* Driver: the typed layer -- C13 (validation), C11 (compare), C12 (merge), C14 (field
   set / removal / extraction). *)
From Coq Require Import List ZArith String Ascii Bool Arith.
From SMD Require Import Base.Sexp Model.Value Model.Order Model.PathElem Model.PathSet
  Model.Schema Model.Walk Model.Validate Model.FieldSet Model.Remove Model.Merge Model.Compare
  Model.Codec Spec.PathsAsSets Spec.Resolve Spec.RefValid Spec.RefDiff Spec.Agree Driver.Common.
Import ListNotations.
Open Scope string_scope.
Open Scope bool_scope.
Infix "@@" := (@app string) (at level 60, right associativity).

Inductive tres : Type := TOk (v : option value) | TErr | TPanic | TSkip.

Definition dec_tres (x : sexp) : option tres :=
  match x with
  | SAtom "err" => Some TErr
  | SAtom "panic" => Some TPanic
  | SAtom "-" => Some TSkip
  | SList [SAtom "ok"; SAtom "-"] => Some (TOk None)
  | SList [SAtom "ok"; v] => do v <- dec_value v; Some (TOk (Some v))
  | _ => None
  end.

Inductive cres3 : Type := COk3 (r m a : list path) | CErr3 | CPanic3.

Definition dec_cres3 (x : sexp) : option cres3 :=
  match x with
  | SAtom "err" => Some CErr3
  | SAtom "panic" => Some CPanic3
  | SList [SAtom "ok"; r; m; a] =>
      do r <- dec_paths r; do m <- dec_paths m; do a <- dec_paths a; Some (COk3 r m a)
  | _ => None
  end.

Definition paths_eqb (a b : list path) : bool := forallb2 patheqb a b.
Definition nonroot (l : list path) : list path := filter (fun p => match p with [] => false | _ => true end) l.

Definition ovalue_eqb (a b : option value) : bool :=
  match a, b with
  | Some x, Some y => value_deep_eqb x y
  | None, None => true
  | _, _ => false
  end.

(* model merge result against an observed one *)
Definition merge_matches (s : schema) (tr : typeref) (l r : value) (obs : tres) : bool :=
  match merge s tr l r, obs with
  | None, TErr => true
  | Some o, TOk o' => ovalue_eqb o o'
  | _, TSkip => true
  | _, _ => false
  end.

Definition compare_matches (s : schema) (tr : typeref) (l r : value) (obs : cres3) : bool :=
  match compare s tr l r, obs with
  | None, CErr3 => true
  | Some c, COk3 rm md ad =>
      paths_eqb (ps_elems (removed c)) rm && paths_eqb (ps_elems (modified c)) md && paths_eqb (ps_elems (added c)) ad
  | _, _ => false
  end.

(* ---------------- C13 ---------------- *)

Definition run_c13_validate (st : dstate) (sid tr dup v obs : sexp) : outcome :=
  match sid, dec_typeref tr, dec_bool dup, dec_value v with
  | SAtom sid, Some tr, Some dup, Some v =>
      match ds_schema st sid with
      | None => out_bad "unknown schema"
      | Some s =>
          match obs with
          | SAtom "panic" => mkOut ["prop validation panicked"] 1 1 ["panic"]
          | _ =>
              match dec_bool obs with
              | None => out_bad "c13 obs"
              | Some ok =>
                  let model_ok := negb (validate s dup tr v) in
                  let ref_ok := conforms s tr dup v in
                  mkOut (chk (Bool.eqb model_ok ok) "corr validate" @@
                         chk (Bool.eqb ref_ok ok) "prop accepted iff conforms (reference validator)")
                        1 (if is_map v || is_list v then 1 else 0)
                        [if ok then "accept" else "reject"]
              end
          end
      end
  | _, _, _, _ => out_bad "c13 decode"
  end.

(* ---------------- C11 ---------------- *)

Definition sets_disjoint (a b : list path) : bool := negb (existsb (fun p => pmem p b) a).

Definition last_is_member (p : path) : bool :=
  match rev p with (PEKey _ | PEValue _) :: _ => true | _ => false end.

Definition run_c11 (st : dstate) (sid tr l r cLR cRL cNR : sexp) : outcome :=
  match sid, dec_typeref tr, dec_value l, dec_value r, dec_cres3 cLR, dec_cres3 cRL, dec_cres3 cNR with
  | SAtom sid, Some tr, Some l, Some r, Some cLR, Some cRL, Some cNR =>
      match ds_schema st sid with
      | None => out_bad "unknown schema"
      | Some s =>
          let corr :=
            chk (compare_matches s tr l r cLR) "corr compare l r" @@
            chk (compare_matches s tr r l cRL) "corr compare r l" @@
            chk (compare_matches s tr VNull r cNR) "corr compare null r" in
          let prop :=
            match cLR, cRL, cNR with
            | COk3 rm md ad, COk3 rm' md' ad', COk3 nrm nmd nad =>
                let d := ref_diff s tr l r in
                let root_leaf_change :=
                  match kind_of s tr l, kind_of s tr r with
                  | KLeaf, KLeaf => negb (veqb l r)
                  | _, _ => false
                  end in
                chk (psame rm (nonroot (rd_removed d))) ("prop removed = reference diff; reference: " ++ show_sexp (enc_paths (nonroot (rd_removed d)))) @@
                chk (psame md (nonroot (rd_modified d))) ("prop modified = reference diff; reference: " ++ show_sexp (enc_paths (nonroot (rd_modified d)))) @@
                chk (psame ad (nonroot (rd_added d))) ("prop added = reference diff; reference: " ++ show_sexp (enc_paths (nonroot (rd_added d)))) @@
                chk (negb (dup_free s tr l && dup_free s tr r) ||
                     (sets_disjoint rm md && sets_disjoint rm ad && sets_disjoint md ad))
                    "prop pairwise disjoint" @@
                (let same := match rm, md, ad with [], [], [] => true | _, _, _ => false end in
                 if root_leaf_change then
                   chk (negb same) "prop all empty iff equal: difference at the root path itself is not reported"
                 else chk (Bool.eqb same (veq_assoc s tr l r)) "prop all empty iff equal up to member order") @@
                chk (psame rm ad' && psame ad rm' && psame md md') "prop swapping operands swaps added/removed" @@
                chk (match nrm, nmd with [], [] => true | _, _ => false end &&
                     psame nad (map fst (nodes s tr r)))
                    "prop comparing nothing with X reports X's nodes as added"
            | CPanic3, _, _ | _, CPanic3, _ | _, _, CPanic3 => ["prop compare panicked on valid operands"]
            | _, _, _ => ["prop compare failed on valid operands"]
            end in
          let nt :=
            match cLR with
            | COk3 rm md ad => if existsb last_is_member (rm ++ ad ++ md)%list then 1 else 0
            | _ => 0
            end in
          mkOut (corr @@ prop) 3 nt
            (match cLR with COk3 [] [] [] => ["same"] | COk3 _ _ _ => ["differ"] | _ => ["error"] end)
      end
  | _, _, _, _, _, _, _ => out_bad "c11 decode"
  end.

(* ---------------- C12 ---------------- *)

Definition is_nonempty_leaf (s : schema) (n : rnode) : bool :=
  match n with
  | RNode tr v =>
      match kind_of s tr v with
      | KLeaf => match v with VNull | VList [] | VMap [] => false | _ => true end
      | _ => false
      end
  | RDup _ _ => true
  end.

(* every proper prefix (and the path itself) *)
Fixpoint prefixes (p : path) : list path :=
  match p with
  | [] => [[]]
  | e :: rest => [] :: map (cons e) (prefixes rest)
  end.

(* the kind of value R gives at q differs from L's: scalar vs list vs map (null has no kind of its own; an empty
   list is still a list, an empty map still a map) *)
Definition kclass (v : value) : nat :=
  match v with
  | VNull => 0
  | VList _ => 2
  | VMap _ => 3
  | _ => 1
  end.

Definition kind_changed (s : schema) (tr : typeref) (l r : value) (q : path) : bool :=
  match resolve_path s tr l q, resolve_path s tr r q with
  | Some (RNode _ vl), Some (RNode _ vr) =>
      negb (Nat.eqb (kclass vl) 0) && negb (Nat.eqb (kclass vr) 0) && negb (Nat.eqb (kclass vl) (kclass vr))
  | _, _ => false
  end.

Definition tres_value (t : tres) : option value := match t with TOk (Some v) => Some v | _ => None end.

Definition merge_laws (s : schema) (tr : typeref) (plainDom : bool) (l r out : value) : list string :=
  (* (a) nothing of l is removed, except beneath a field to which r gives a leaf value *)
  chk (forallb (fun pn : path * bool =>
                  present s tr out (fst pn) ||
                  existsb (fun q => negb (Nat.eqb (List.length q) (List.length (fst pn))) && kind_changed s tr l r q)
                          (prefixes (fst pn)))
               (nodes s tr l))
      "prop merge removes no field of L (except beneath a value of another kind)" @@
  (* (b) every field of r has r's value *)
  chk (if plainDom then agrees s tr r out
       else forallb (fun pn : path * bool =>
                       match resolve_path s tr r (fst pn) with
                       | Some n => negb (snd pn) || negb (is_nonempty_leaf s n) || has_leaf s tr out (fst pn) n
                       | None => true
                       end) (nodes s tr r))
      "prop every field of R carries R's value" @@
  (* (c) nothing outside r's fields changes: every leaf of the result comes from r or from l *)
  chk (forallb (fun pn : path * rnode =>
                  has_leaf s tr r (fst pn) (snd pn) || has_leaf s tr l (fst pn) (snd pn))
               (leaf_nodes s tr out))
      "prop every leaf of the result is R's or L's" @@
  (* (d) the result is valid *)
  chk (conforms s tr true out) "prop merged object is valid".

Definition run_c12 (st : dstate) (xs : list sexp) : outcome :=
  match xs with
  | [SAtom sid; tr; dom; l; r; x; mLR; mLL; mLN; mNR; mLRR; mLRX; mRX; mLRXb] =>
      match dec_typeref tr, dec_int dom, dec_value l, dec_value r, dec_value x with
      | Some tr, Some dom, Some l, Some r, Some x =>
          match dec_tres mLR, dec_tres mLL, dec_tres mLN, dec_tres mNR, dec_tres mLRR, dec_tres mLRX, dec_tres mRX, dec_tres mLRXb, ds_schema st sid with
          | Some mLR, Some mLL, Some mLN, Some mNR, Some mLRR, Some mLRX, Some mRX, Some mLRXb, Some s =>
              let plainDom := Z.eqb dom 0 in
              let dupDom := Z.eqb dom 2 in
              let oLR := tres_value mLR in
              let corr :=
                chk (merge_matches s tr l r mLR) "corr merge l r" @@
                chk (merge_matches s tr l l mLL) "corr merge l l" @@
                chk (merge_matches s tr l VNull mLN) "corr merge l null" @@
                chk (merge_matches s tr VNull r mNR) "corr merge null r" @@
                match oLR with
                | Some o => chk (merge_matches s tr o r mLRR) "corr merge (l r) r" @@
                            chk (merge_matches s tr o x mLRX) "corr merge (l r) x"
                | None => []
                end @@
                chk (merge_matches s tr r x mRX) "corr merge r x" @@
                match tres_value mRX with
                | Some o => chk (merge_matches s tr l o mLRXb) "corr merge l (r x)"
                | None => []
                end in
              let eqv (t : tres) (v : value) := match t with TOk (Some o) => veqb o v && veqb v o | _ => false end in
              let prop :=
                match mLR with
                | TPanic => ["prop merge panicked"]
                | TErr => if dupDom then [] else ["prop merge failed on valid operands"]
                | TOk None => ["prop merge returned no value"]
                | TSkip => []
                | TOk (Some out) =>
                    merge_laws s tr plainDom l r out @@
                    (if plainDom then
                       match to_field_set s tr out, to_field_set s tr l, to_field_set s tr r with
                       | Some fo, Some fl, Some fr =>
                           chk (psubset (ps_elems fr) (ps_elems fo) &&
                                psubset (ps_elems fo) (ps_elems fl ++ ps_elems fr)%list &&
                                forallb (fun p => pmem p (ps_elems fo) ||
                                                  existsb (fun q => kind_changed s tr l r q) (prefixes p))
                                        (ps_elems fl))
                               "prop field set of the result is the union of both (minus what lies beneath a value of another kind)"
                       | _, _, _ => ["prop field set failed"]
                       end @@
                       chk (order_ok (merge_fuel l out) s tr (Some l) (Some r) (Some out))
                           "prop members of R keep R's order, members only in L keep L's order" @@
                       chk (negb (veq_assoc s tr out l && same_relative_order (merge_fuel l r) s tr (Some l) (Some r))
                            || value_deep_eqb out l || veqb out l)
                           "prop a merge that adds or changes nothing leaves L's order intact" @@
                       match mLRX, mLRXb with
                       | TOk (Some a), TOk (Some b) =>
                           (* a deep merge cannot be associative across a change of kind: in
                              (L.R).X the scalar of R has already replaced the map of L when X
                              brings a map again, in L.(R.X) it never appears *)
                           let all_paths := ([] :: map fst (nodes s tr l) ++ map fst (nodes s tr r) ++ map fst (nodes s tr x))%list in
                           (* only a change of kind between R and X can break it (C12_merge_is_associative_up_to_member_order) *)
                           let kc := existsb (fun q => kind_changed s tr r x q) all_paths in
                           chk (veq_assoc s tr a b)
                               (if kc then "prop merge is associative up to member order: not when one operand gives a field a value of another kind (scalar / list / map) than another operand holds there"
                                else "prop merge is associative up to member order")
                       | _, _ => []
                       end
                     else []) @@
                    (if dupDom then []
                     else
                       chk (eqv mLRR out) "prop merging R again is a no-op")
                end @@
                (if dupDom then []
                 else
                   chk (eqv mLL l) "prop merging with itself is the identity" @@
                   (match kind_of s tr l, mLN with
                    | KLeaf, TOk (Some VNull) =>
                        chk (is_null l) "prop merging with nothing is the identity: a root that is itself a leaf (scalar, atomic or empty container) becomes null"
                    | _, _ => chk (eqv mLN l) "prop merging with nothing (on the right) is the identity"
                    end) @@
                   chk (eqv mNR r) "prop merging with nothing (on the left) is the identity") in
              let nt :=
                match oLR with
                | Some out =>
                    if existsb (fun pn : path * bool => last_is_member (fst pn)) (nodes s tr out) then 1 else 0
                | None => if dupDom then 1 else 0
                end in
              mkOut (corr @@ prop) 8 nt
                [match mLR with TOk _ => "merged" | TErr => "error" | _ => "other" end;
                 if plainDom then "plain" else if dupDom then "rhs-dups" else "degenerate"]
          | _, _, _, _, _, _, _, _, _ => out_bad "c12 results"
          end
      | _, _, _, _, _ => out_bad "c12 decode"
      end
  | _ => out_bad "c12 arity"
  end.

(* ---------------- C14 ---------------- *)

Definition is_key_field_path (p : path) : bool :=
  match rev p with
  | PEField n :: PEKey k :: _ => existsb (fun kv => String.eqb (fst kv) n) k
  | _ => false
  end.

(* selections that name INTERIOR nodes (outside the property's domain of leaf sets):
   correspondence only -- what is taken from beneath a selected node *)
Definition run_c14_interior (st : dstate) (xs : list sexp) : outcome :=
  match xs with
  | [SAtom sid; tr; v; sub; rem; ext; extk] =>
      match dec_typeref tr, dec_value v, dec_paths sub, dec_tres rem, dec_tres ext, dec_tres extk, ds_schema st sid with
      | Some tr, Some v, Some sub, Some rem, Some ext, Some extk, Some s =>
          let sset := ps_of_paths sub in
          let teq (t : tres) (m : value) := match t with TOk (Some o) => value_deep_eqb o m | _ => false end in
          mkOut (chk (teq rem (remove s tr v sset)) "corr remove (selection with interior nodes)" @@
                 chk (teq ext (extract s tr false v sset)) "corr extract (selection with interior nodes)" @@
                 chk (teq extk (extract s tr true v sset)) "corr extract with keys (selection with interior nodes)")
                3 1 ["interior"]
      | _, _, _, _, _, _, _ => out_bad "c14.interior decode"
      end
  | _ => out_bad "c14.interior"
  end.

Definition run_c14 (st : dstate) (xs : list sexp) : outcome :=
  match xs with
  | [SAtom sid; tr; v; fs; sub; rem; ext; merged; extall] =>
      match dec_typeref tr, dec_value v, dec_paths sub, dec_tres rem, dec_tres ext, dec_tres merged, dec_tres extall, ds_schema st sid with
      | Some tr, Some v, Some sub, Some rem, Some ext, Some merged, Some extall, Some s =>
          match dec_paths fs with
          | None => out_bad "c14 field set"
          | Some fs =>
              let sset := ps_of_paths sub in
              let mfs := to_field_set s tr v in
              let m_rem := remove s tr v sset in
              let m_ext := extract s tr true v sset in
              let teq (t : tres) (m : value) := match t with TOk (Some o) => value_deep_eqb o m | _ => false end in
              let corr :=
                chk (match mfs with Some f => paths_eqb (ps_elems f) fs | None => false end) "corr field set" @@
                chk (teq rem m_rem) "corr remove" @@
                chk (teq ext m_ext) "corr extract with keys" @@
                chk (merge_matches s tr m_rem m_ext merged) "corr merge of the two" @@
                chk (match mfs with Some f => teq extall (extract s tr false v (ps_leaves f)) | None => false end) "corr extract all leaves" in
              let beneath_sub (p : path) := existsb (fun q => is_prefix q p) sub in
              let prop :=
                chk (forallb (present s tr v) fs) "prop every path of the field set designates a node" @@
                chk (match extall with TOk (Some o) => veqb o v && veqb v o | _ => false end)
                    "prop extracting all leaf paths reproduces the object" @@
                match rem with
                | TOk (Some ro) =>
                    chk (forallb (fun p => negb (present s tr ro p)) sub) "prop removal leaves no member of S" @@
                    chk (forallb (fun pn : path * rnode => beneath_sub (fst pn) || has_leaf s tr ro (fst pn) (snd pn))
                                 (leaf_nodes s tr v))
                        "prop removal keeps every other leaf" @@
                    chk (forallb (fun pn : path * rnode =>
                                    has_leaf s tr v (fst pn) (snd pn) ||
                                    match snd pn with
                                    | RNode _ VNull => present s tr v (fst pn)
                                    | _ => false
                                    end) (leaf_nodes s tr ro))
                        "prop removal adds nothing"
                | _ => ["prop removal failed"]
                end @@
                match ext with
                | TOk (Some eo) =>
                    chk (conforms s tr false eo || match sub with [] => true | _ => false end) "prop extraction is valid" @@
                    chk (forallb (fun pn : path * rnode =>
                                    (beneath_sub (fst pn) || is_key_field_path (fst pn))
                                    && has_leaf s tr v (fst pn) (snd pn))
                                 (leaf_nodes s tr eo))
                        "prop extraction contains only S and the keys that locate it" @@
                    chk (forallb (fun p => present s tr eo p) sub) "prop extraction contains S"
                | _ => ["prop extraction failed"]
                end @@
                match merged with
                | TOk (Some mo) => chk (veq_assoc s tr mo v) "prop merging removal and extraction gives back the original"
                | _ => ["prop merging removal and extraction failed"]
                end in
              let nt :=
                if existsb (fun p => existsb (fun q => negb (pmem q sub) &&
                                              match rev p, rev q with
                                              | _ :: pr, _ :: qr => patheqb pr qr && existsb (fun e => match e with PEKey _ => true | _ => false end) pr
                                              | _, _ => false
                                              end) fs) sub
                then 1 else 0 in
              mkOut (corr @@ prop) 5 nt []
          end
      | _, _, _, _, _, _, _, _ => out_bad "c14 decode"
      end
  | _ => out_bad "c14 arity"
  end.

(* C13, "makes every operation total": merge, compare, field set, remove/extract and
   re-validation of two accepted values of one type; the model must succeed too *)
Definition run_c13_total (st : dstate) (sid tr a b res : sexp) : outcome :=
  match sid, dec_typeref tr, dec_value a, dec_value b, res with
  | SAtom sid, Some tr, Some a, Some b, SList rs =>
      match ds_schema st sid with
      | None => out_bad "c13.total schema"
      | Some s =>
          let names := ["merge"; "compare"; "field set"; "remove / extract"; "validate"]%string in
          let bad := flat_map (fun nr : string * sexp =>
                                 match snd nr with
                                 | SAtom "ok" => []
                                 | SAtom "panic" => [("prop C13 an operation on accepted values panicked: " ++ fst nr)%string]
                                 | _ => [("prop C13 an operation on accepted values failed: " ++ fst nr)%string]
                                 end) (combine names rs) in
          let corr :=
            chk (match merge s tr a b with Some (Some _) => true | _ => false end) "corr the model merges accepted values" @@
            chk (match compare s tr a b with Some _ => true | None => false end) "corr the model compares accepted values" @@
            chk (match to_field_set s tr a with Some _ => true | None => false end) "corr the model builds the field set of an accepted value" in
          mkOut (corr @@ bad) 5 1 ["total"]
      end
  | _, _, _, _, _ => out_bad "c13.total"
  end.
