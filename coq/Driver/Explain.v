(* Diagnostic only (VERIF_EXPLAIN=1 in the driver's environment): prints what the MODEL
   computes for a history case, in the notation of the case lines.  No check uses it. *)
From Coq Require Import List ZArith QArith String Ascii Bool Arith.
From SMD Require Import Base.Sexp Model.Value Model.PathElem Model.PathSet Model.Schema Model.Updater Model.Codec Model.Merge Model.Matcher
  Driver.Common Driver.Hist.
Import ListNotations.
Local Open Scope nat_scope.
Open Scope string_scope.

Fixpoint enc_value (v : value) : sexp :=
  match v with
  | VNull => SAtom "n"
  | VBool b => sbool b
  | VInt z => SList [SAtom "i"; sZ z]
  | VFloat q => SList [SAtom "d"; sZ (Qnum q); sZ (Zpos (Qden q))]
  | VStr s => SList [SAtom "s"; SAtom s]
  | VList l => SList (SAtom "l" :: map enc_value l)
  | VMap kvs => SList (SAtom "m" :: map (fun kv => SList [SAtom (fst kv); enc_value (snd kv)]) kvs)
  end.

Definition enc_pe (e : pe) : sexp :=
  match e with
  | PEField n => SList [SAtom "F"; SAtom n]
  | PEKey k => SList (SAtom "K" :: map (fun kv => SList [SAtom (fst kv); enc_value (snd kv)]) k)
  | PEValue v => SList [SAtom "V"; enc_value v]
  | PEIndex i => SList [SAtom "I"; sZ i]
  end.

Definition enc_path (p : path) : sexp := SList (SAtom "p" :: map enc_pe p).

Definition enc_managed (m : managed) : sexp :=
  SList (SAtom "M" :: map (fun r : string * mrec =>
                             SList [SAtom (fst r); SAtom (mr_ver (snd r)); sbool (mr_applied (snd r));
                                    SList (SAtom "S" :: map enc_path (ps_elems (mr_set (snd r))))]) m).

Definition enc_tv (t : tv) : sexp := SList [SAtom "tv"; SAtom (fst t); enc_value (snd t)].

Definition enc_err (e : uerr) : sexp :=
  match e with
  | EConflict cs => SList (SAtom "conflict" :: map (fun c : string * path => SList [SAtom (fst c); enc_path (snd c)]) cs)
  | EOther => SAtom "err"
  | EPanic => SAtom "panic"
  end.

Definition enc_apply (r : ures (option tv * managed)) : string :=
  show_sexp match r with
            | UOk (o, m) => SList [SAtom "ok"; match o with Some t => enc_tv t | None => SAtom "-" end; enc_managed m]
            | UErr e => enc_err e
            end.

Definition enc_update (r : ures (tv * managed)) : string :=
  show_sexp match r with
            | UOk (o, m) => SList [SAtom "ok"; enc_tv o; enc_managed m]
            | UErr e => enc_err e
            end.

Definition explain_case (st : dstate) (x : sexp) : list string :=
  let conf cid := match assoc_get cid (ds_confs st) with
                  | Some (vs, ms, ign) => dec_hconf vs ms ign
                  | None => None
                  end in
  match x with
  | SList [SAtom "hist.apply"; SAtom cid; live; mobs; SAtom mgr; SAtom ver; cfg; _; _; _; _; _] =>
      match conf cid, dec_tv live, dec_managed mobs, dec_value cfg with
      | Some hc, Some live, Some mobs, Some cfg =>
          let c := make_config (ds_schemas st) hc None false (fun l => l) in
          ["model reconcile    : " ++ match reconcile_managed c O live (managed_of mobs) with
                                         | UOk (m, _) => show_sexp (enc_managed m) | UErr e => show_sexp (enc_err e) end;
           "model merge        : " ++ match merge (schema_of c (fst live)) (tr_of c (fst live)) (snd live) cfg with
                                         | None => "error" | Some None => "panic" | Some (Some v) => show_sexp (enc_value v) end;
           "model config set   : " ++ match to_fs c (ver, cfg) with
                                         | Some f => show_sexp (SList (map enc_path (ps_elems f))) | None => "error" end;
           "model prune        : " ++ match reconcile_managed c O live (managed_of mobs),
                                              merge (schema_of c (fst live)) (tr_of c (fst live)) (snd live) cfg,
                                              to_fs c (ver, cfg), ignore_filter_for c ver with
                                         | UOk (mf0, n0), Some (Some nv), Some set0, Some f =>
                                             let mf1 := mf_set mgr (mkRec (filter_set f set0) ver true) mf0 in
                                             match prune c n0 (fst live, nv) mf1 mgr (mf_get mgr mf0) with
                                             | UOk (p, _) => show_sexp (enc_tv p)
                                             | UErr e => show_sexp (enc_err e)
                                             end
                                         | _, _, _, _ => "-"
                                         end;
           "model prune steps  : " ++ match reconcile_managed c O live (managed_of mobs),
                                              merge (schema_of c (fst live)) (tr_of c (fst live)) (snd live) cfg,
                                              to_fs c (ver, cfg), ignore_filter_for c ver with
                                         | UOk (mf0, n0), Some (Some nv), Some set0, Some f =>
                                             let mf1 := mf_set mgr (mkRec (filter_set f set0) ver true) mf0 in
                                             match mf_get mgr mf0 with
                                             | Some last =>
                                                 let version := mr_ver last in
                                                 match fst (convert c n0 (fst live, nv) version) with
                                                 | COk mv =>
                                                     let cm := (version, mv) in
                                                     let pruned0 := remove_tv c cm (en c version (mr_set last)) in
                                                     "pruned0=" ++ show_sexp (enc_tv pruned0) ++ " fs(pruned0)=" ++
                                                     match to_fs c pruned0 with Some f => show_sexp (SList (map enc_path (ps_elems f))) | None => "error" end ++
                                                     " fs(merged)=" ++
                                                     match to_fs c cm with Some f => show_sexp (SList (map enc_path (ps_elems f))) | None => "error" end ++
                                                     " rounds=" ++
                                                     (let mav := managed_at_version mf1 in
                                                      let vs := List.app (match assoc_get version mav with Some _ => [version] | None => [] end)
                                                                         (map fst (assoc_remove version mav)) in
                                                      (fix go (k : nat) (m p : tv) : string :=
                                                         match k with
                                                         | O => ""
                                                         | S k' =>
                                                             match add_back_round c mav vs n0 m p with
                                                             | UOk (m', p', ch, _) =>
                                                                 "[" ++ (if ch then "changed " else "same ") ++ show_sexp (enc_tv p') ++ "]" ++
                                                                 (if ch then go k' m' p' else "")
                                                             | UErr e => "[" ++ show_sexp (enc_err e) ++ "]"
                                                             end
                                                         end) 4 cm pruned0) ++
                                                     " addback=" ++
                                                     match add_back_owned c n0 cm pruned0 version mf1 with
                                                     | UOk (p, _) => show_sexp (enc_tv p)
                                                     | UErr e => show_sexp (enc_err e)
                                                     end
                                                 | _ => "convert failed"
                                                 end
                                             | None => "no last"
                                             end
                                         | _, _, _, _ => "-"
                                         end;
           "model apply        : " ++ enc_apply (apply_op c live (ver, cfg) ver (managed_of mobs) mgr false);
           "model forced apply : " ++ enc_apply (apply_op c live (ver, cfg) ver (managed_of mobs) mgr true)]
      | _, _, _, _ => ["explain: cannot decode"]
      end
  | SList [SAtom "hist.update"; SAtom cid; live; mobs; SAtom mgr; SAtom ver; obj; _] =>
      match conf cid, dec_tv live, dec_managed mobs, dec_value obj with
      | Some hc, Some live, Some mobs, Some obj =>
          let c := make_config (ds_schemas st) hc None false (fun l => l) in
          ["model update : " ++ enc_update (update_op c live (ver, obj) ver (managed_of mobs) mgr)]
      | _, _, _, _ => ["explain: cannot decode"]
      end
  | _ => []
  end.
