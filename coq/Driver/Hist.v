(* Driver: operation histories against the Updater model -- C01..C07 (C19, C20 use the
   same cases with ignore configurations / several versions). *)
From Coq Require Import List ZArith String Ascii Bool Arith.
From SMD Require Import Proofs.SetCheckers Base.Sexp Model.Value Model.Order Model.PathElem Model.PathSet
  Model.Schema Model.Walk Model.Validate Model.FieldSet Model.Remove Model.Merge Model.Compare
  Model.Matcher Model.Reconcile Model.Updater Model.Codec
  Spec.PathsAsSets Spec.Resolve Spec.RefValid Spec.RefDiff Spec.Agree Spec.Patterns Spec.TypeAt Driver.Common Driver.Typed.
Import ListNotations.
Open Scope string_scope.
Open Scope bool_scope.
Infix "@@" := (@app string) (at level 60, right associativity).

(* ---------- configuration of a run ---------- *)

Record hversion : Type := mkHV { hv_name : string; hv_sid : string; hv_tr : typeref; hv_rename : list (string * string) }.

Inductive hignore : Type :=
| HIgnNone
| HIgnSets (viaFilter : bool) (sets : list (string * pset))
| HIgnPatterns (pats : list (string * list (list pematcher))).

Record hconf : Type := mkHC { hc_versions : list hversion; hc_missing : list string; hc_ignore : hignore }.

Definition dec_hversion (x : sexp) : option hversion :=
  match x with
  | SList [SAtom n; SAtom sid; tr; SList (SAtom "rename" :: rs)] =>
      do tr <- dec_typeref tr;
      do rs <- map_opt (fun r => match r with SList [SAtom a; SAtom b] => Some (a, b) | _ => None end) rs;
      Some (mkHV n sid tr rs)
  | _ => None
  end.

Definition dec_hignore (x : sexp) : option hignore :=
  match x with
  | SList [SAtom "ignore-none"] => Some HIgnNone
  | SList (SAtom "ignore-sets" :: vs) =>
      do l <- map_opt (fun v => match v with SList [SAtom ver; s] => do s <- dec_pset s; Some (ver, s) | _ => None end) vs;
      Some (HIgnSets false l)
  | SList (SAtom "ignore-filter-sets" :: vs) =>
      do l <- map_opt (fun v => match v with SList [SAtom ver; s] => do s <- dec_pset s; Some (ver, s) | _ => None end) vs;
      Some (HIgnSets true l)
  | SList (SAtom "ignore-patterns" :: vs) =>
      do l <- map_opt (fun v => match v with
                                | SList (SAtom ver :: pats) => do ps <- map_opt dec_pattern pats; Some (ver, ps)
                                | _ => None
                                end) vs;
      Some (HIgnPatterns l)
  | _ => None
  end.

Definition dec_hconf (vs ms ign : sexp) : option hconf :=
  match vs, ms with
  | SList (SAtom "versions" :: vs), SList (SAtom "missing" :: ms) =>
      do vs <- map_opt dec_hversion vs;
      do ms <- map_opt dec_str ms;
      do ign <- dec_hignore ign;
      Some (mkHC vs ms ign)
  | _, _ => None
  end.

Fixpoint rename_value (f : string -> string) (v : value) : value :=
  match v with
  | VList l => VList (map (rename_value f) l)
  | VMap m =>
      (* re-sort: renaming may change the order of keys *)
      VMap (fold_left (fun acc kv => assoc_set (f (fst kv)) (rename_value f (snd kv)) acc) m [])
  | _ => v
  end.

Definition find_version (hc : hconf) (n : string) : option hversion :=
  find (fun v => String.eqb (hv_name v) n) (hc_versions hc).

Definition rename_key (from to : hversion) (k : string) : string :=
  let base := match find (fun ab => String.eqb (snd ab) k) (hv_rename from) with
              | Some (a, _) => a
              | None => k
              end in
  match assoc_get base (hv_rename to) with Some n => n | None => base end.

(* failAt: index of the Convert call that fails with an ordinary error (None = never) *)
Definition make_config (schemas : list (string * schema)) (hc : hconf) (failAt : option nat)
  (returnInput : bool) (vorder : list string -> list string) : config :=
  mkConfig
    (fun ver => match find_version hc ver with
                | Some v => (match assoc_get (hv_sid v) schemas with Some s => s | None => [] end, hv_tr v)
                | None => ([], empty_tr)
                end)
    (fun n from to v =>
       if match failAt with Some k => Nat.eqb k n | None => false end then CFail
       else if existsb (String.eqb to) (hc_missing hc) then CMissing
       else match find_version hc from, find_version hc to with
            | Some f, Some t =>
                if String.eqb from to then COk v else COk (rename_value (rename_key f t) v)
            | _, None => CMissing
            | None, _ => CFail
            end)
    (match hc_ignore hc with HIgnSets false l => Some l | _ => None end)
    (match hc_ignore hc with
     | HIgnSets true l => Some (map (fun vs => (fst vs, FExclude (snd vs))) l)
     | HIgnPatterns l => Some (map (fun vp => (fst vp, FInclude (include_matcher (map prefix_matcher (snd vp))))) l)
     | _ => None
     end)
    returnInput
    vorder.

(* is p ignored at version ver under the run's ignore configuration? *)
Definition ignored_at_h (hc : hconf) (ver : string) (p : path) : bool :=
  match hc_ignore hc with
  | HIgnNone => false
  | HIgnSets _ sets =>
      match assoc_get ver sets with
      | Some ex => existsb (fun q => is_prefix q p) (ps_elems ex)
      | None => false
      end
  | HIgnPatterns pats =>
      match assoc_get ver pats with
      | Some ps => negb (include_keeps ps p)
      | None => false
      end
  end.

(* ---------- states and outcomes ---------- *)

Definition dec_tv (x : sexp) : option tv :=
  match x with
  | SList [SAtom "tv"; SAtom ver; v] => do v <- dec_value v; Some (ver, v)
  | _ => None
  end.

Definition dec_managed (x : sexp) : option (list (string * (string * bool * list path))) :=
  match x with
  | SList (SAtom "M" :: ms) =>
      map_opt (fun m => match m with
                        | SList [SAtom n; SAtom ver; ap; s] =>
                            do ap <- dec_bool ap; do ps <- dec_paths s; Some (n, (ver, ap, ps))
                        | _ => None
                        end) ms
  | _ => None
  end.

Definition managed_of (l : list (string * (string * bool * list path))) : managed :=
  fold_left (fun acc (m : string * (string * bool * list path)) =>
               let '(n, (ver, ap, ps)) := m in assoc_set n (mkRec (ps_of_paths ps) ver ap) acc) l [].

Inductive hout : Type :=
| HOk (obj : option tv) (mf : list (string * (string * bool * list path)))
| HConflict (cs : list (string * path))
| HErr
| HPanic
| HNone.

Definition dec_hout (x : sexp) : option hout :=
  match x with
  | SAtom "err" => Some HErr
  | SAtom "panic" => Some HPanic
  | SAtom "-" => Some HNone
  | SList (SAtom "conflict" :: cs) =>
      do cs <- map_opt (fun c => match c with SList [SAtom m; p] => do p <- dec_path p; Some (m, p) | _ => None end) cs;
      Some (HConflict cs)
  | SList [SAtom "ok"; o; m] =>
      do o <- dec_opt dec_tv o; do m <- dec_managed m; Some (HOk o m)
  | _ => None
  end.

Definition tv_eqb (a b : tv) : bool := String.eqb (fst a) (fst b) && value_deep_eqb (snd a) (snd b).

Definition managed_matches (m : managed) (obs : list (string * (string * bool * list path))) : bool :=
  Nat.eqb (List.length m) (List.length obs) &&
  forallb (fun o : string * (string * bool * list path) =>
             let '(n, (ver, ap, ps)) := o in
             match mf_get n m with
             | Some r => String.eqb (mr_ver r) ver && Bool.eqb (mr_applied r) ap && paths_eqb (ps_elems (mr_set r)) ps
             | None => false
             end) obs.

Definition conflicts_same (a b : list (string * path)) : bool :=
  let inb (x : string * path) (l : list (string * path)) :=
    existsb (fun y => String.eqb (fst x) (fst y) && patheqb (snd x) (snd y)) l in
  forallb (fun x => inb x b) a && forallb (fun x => inb x a) b.

Definition ures_matches (r : ures (option tv * managed)) (obs : hout) : bool :=
  match r, obs with
  | UOk (o, m), HOk o' m' => opt_eqb tv_eqb o o' && managed_matches m m'
  | UErr (EConflict cs), HConflict cs' => conflicts_same cs cs'
  | UErr EOther, HErr => true
  | UErr EPanic, HPanic => true
  | _, _ => false
  end.

Definition upd_matches (r : ures (tv * managed)) (obs : hout) : bool :=
  match r, obs with
  | UOk (o, m), HOk (Some o') m' => tv_eqb o o' && managed_matches m m'
  | UErr EOther, HErr => true
  | UErr EPanic, HPanic => true
  | _, _ => false
  end.

(* ---------- oracles shared by the history properties ---------- *)

Section oracles.
  Variable s : schema.
  Variable tr : typeref.

  Definition record_paths (m : list (string * (string * bool * list path))) (n : string) : list path :=
    match assoc_get n m with Some (_, _, ps) => ps | None => [] end.

  Definition others_paths (m : list (string * (string * bool * list path))) (n : string) : list path :=
    flat_map (fun o : string * (string * bool * list path) =>
                if String.eqb (fst o) n then [] else snd (snd o)) m.

  (* C06: the executable invariant *)
  (* [inherited]: owned paths that were already absent from the object before the step (a
     deviation is reported at the step that creates it, not at every later state) *)
  Definition dangling_paths (live : value) (m : list (string * (string * bool * list path))) : list path :=
    flat_map (fun o : string * (string * bool * list path) =>
                filter (fun p => negb (present s tr live p)) (snd (snd o))) m.

  Definition inv_msgs_from (inherited : list path) (live : value) (m : list (string * (string * bool * list path))) : list string :=
    chk (conforms s tr true live) "prop C06 live object is valid under its schema" @@
    (let dangling := filter (fun p => negb (pmem p inherited)) (dangling_paths live m) in
     match dangling with
     | [] => []
     | _ => ["prop C06 every owned path designates something present in the live object: " ++ show_sexp (enc_paths dangling)]
     end) @@
    chk (forallb (fun o : string * (string * bool * list path) =>
                    match snd (snd o) with [] => false | _ => true end) m)
        "prop C06 no manager with an empty record".

  Definition inv_msgs (live : value) (m : list (string * (string * bool * list path))) : list string :=
    inv_msgs_from [] live m.

  (* abandoned q: in the applier's earlier record, not in FS cfg, not in EN(others) *)
  Definition abandoned (last fscfg enothers : pset) (q : path) : bool :=
    ps_has q last && negb (ps_has q fscfg) && negb (ps_has q enothers).
End oracles.

Definition union_sets (l : list pset) : pset := fold_left ps_union l ps_empty_set.

(* ---------- hist.apply ---------- *)

Definition out_obj (live : tv) (o : hout) : option value :=
  match o with
  | HOk (Some t) _ => Some (snd t)
  | HOk None _ => Some (snd live)
  | _ => None
  end.

Definition out_managed (o : hout) : option (list (string * (string * bool * list path))) :=
  match o with HOk _ m => Some m | _ => None end.

Definition is_ok (o : hout) : bool := match o with HOk _ _ => true | _ => false end.

Definition apply_oracles (gone : string -> bool) (vers : list string) (ign : string -> path -> bool) (prop : string) (s : schema) (tr : typeref) (live : tv)
  (mobs : list (string * (string * bool * list path))) (mgr ver : string) (cfg : value)
  (noforce force reapply rion : hout) (prevcfg : option value) : list string :=
  let lv := snd live in
  let mf := managed_of mobs in
  let isplain := plain cfg in
  let fscfg := match to_field_set s tr cfg with Some f => f | None => ps_empty_set end in
  let last := match mf_get mgr mf with Some r => mr_set r | None => ps_empty_set end in
  let others := union_sets (map (fun mr : string * mrec => mr_set (snd mr)) (filter (fun mr : string * mrec => negb (String.eqb (fst mr) mgr)) mf)) in
  let enothers := ps_en s tr others in
  let aband := abandoned last fscfg enothers in
  let chosen := if is_ok noforce then noforce else force in
  if String.eqb prop "C01" then
    if isplain then
      flat_map (fun o => match out_obj live o with
                         | Some res => chk (agrees s tr cfg res) "prop C01 the result agrees with the applied configuration"
                         | None => []
                         end) [noforce; force]
    else []
  else if String.eqb prop "C02" then
    match out_obj live chosen with
    | Some res =>
        if isplain && dup_free s tr lv then
          let d := ref_diff s tr lv res in
          let cfgnodes := map fst (nodes s tr cfg) in
          let removedp := nonroot (rd_removed d) in
          chk (forallb (fun p => pmem p cfgnodes) (nonroot (rd_modified d ++ rd_added d)%list))
              "prop C02 only fields of the configuration are added or changed" @@
          (let empty_unowned (q : path) : bool :=
             match resolve_path s tr lv q with
             (* hollow: a null or an empty container, owned or not -- no field set of an
                object mentions an empty list, so prune cannot see it *)
             | Some (RNode _ (VMap [])) | Some (RNode _ (VList [])) | Some (RNode _ VNull) => true
             | _ => false
             end in
           let ok (lenient : bool) (p : path) : bool :=
             existsb (fun q => aband q) (prefixes p)
             || (negb (existsb (fun pn : path * bool => snd pn && patheqb (fst pn) p) (nodes s tr lv))
                 && forallb (fun pn : path * bool =>
                               negb (snd pn) || negb (proper_prefix p (fst pn)) || pmem (fst pn) removedp
                               || (lenient && empty_unowned (fst pn)))
                            (nodes s tr lv))
             || existsb (fun q => negb (Nat.eqb (List.length q) (List.length p)) && kind_changed s tr lv cfg q) (prefixes p)
             || (lenient && empty_unowned p
                 && existsb (fun q => negb (Nat.eqb (List.length q) (List.length p)) && pmem q removedp) (prefixes p)) in
           let bad := filter (fun p => negb (ok false p)) removedp in
           let worse := filter (fun p => negb (ok true p)) bad in
           match bad, worse with
           | [], _ => []
           | _ :: _, [] =>
               ["prop C02 a null or an empty map or list disappears together with the container emptied around it: "
                  ++ show_sexp (enc_paths bad)]
           | _, _ :: _ =>
               ["prop C02 only abandoned fields (or containers emptied by that, or fields beneath a kind change) are removed: "
                  ++ show_sexp (enc_paths worse)]
           end) @@
          chk (forallb (fun o : string * (string * bool * list path) =>
                          String.eqb (fst o) mgr ||
                          forallb (fun p =>
                                     pmem p cfgnodes
                                     || match resolve_path s tr lv p, resolve_path s tr res p with
                                        | Some a, Some b => negb (rnode_is_leaf s a) || rnode_eqb a b
                                        | None, _ => true
                                        | Some a, None =>
                                            negb (rnode_is_leaf s a) ||
                                            existsb (fun q => negb (Nat.eqb (List.length q) (List.length p)) && aband q) (prefixes p)
                                            || existsb (fun q => negb (Nat.eqb (List.length q) (List.length p)) && kind_changed s tr lv cfg q) (prefixes p)
                                            (* a hollow node that went with its container: reported above (F17) *)
                                            || (match a with RNode _ (VMap []) | RNode _ (VList []) | RNode _ VNull => true | _ => false end
                                                && existsb (fun q => negb (Nat.eqb (List.length q) (List.length p)) && pmem q removedp) (prefixes p))
                                        end) (snd (snd o))) mobs)
              "prop C02 fields owned by other managers keep their value"
        else []
    | None => []
    end
  else if String.eqb prop "C03" then
    match out_obj live chosen, out_managed chosen with
    | Some res, Some mafter =>
        if isplain && dup_free s tr lv then
          let cfgnodes := map fst (nodes s tr cfg) in
          (* what the manager APPLIED before: its record if the record is an applied one;
             after an intervening update by the same identity, the part of the record that
             lies in the field set of the configuration it applied last *)
          let applied_before (p : path) : bool :=
            match assoc_get mgr mobs with
            | Some (_, true, _) => true
            | _ => match prevcfg with
                   | Some pc => match to_field_set s tr pc with Some f => ps_has p f | None => false end
                   | None => false
                   end
            end in
          let gone := filter (fun p => aband p && applied_before p && negb (existsb (fun n => is_prefix p n) cfgnodes)) (ps_elems last) in
          chk (forallb (fun p => negb (present s tr res p)) gone)
              "prop C03 a field the manager stopped applying (and nobody else owns) is absent" @@
          chk (forallb (fun p => forallb (fun o : string * (string * bool * list path) =>
                                            negb (existsb (fun q => is_prefix p q) (snd (snd o)))) mafter) gone)
              "prop C03 the abandoned field left every record" @@
          chk (negb (ps_empty last) ||
               forallb (fun pn : path * bool =>
                          present s tr res (fst pn) ||
                          existsb (fun q => negb (Nat.eqb (List.length q) (List.length (fst pn))) && kind_changed s tr lv cfg q)
                                  (prefixes (fst pn)))
                       (nodes s tr lv))
              "prop C03 a manager's first apply removes nothing" @@
          (* "containers left without content by this disappear too": a map or list with
             content in the live object that the result holds as an explicit null (known
             finding F26: RemoveItems writes the nil of an emptied container back into its
             parent, as the repository's own remove tests expect) *)
          (let nulled :=
             filter (fun p =>
                       match resolve_path s tr res p, resolve_path s tr lv p with
                       | Some (RNode _ VNull), Some (RNode _ (VMap (_ :: _)))
                       | Some (RNode _ VNull), Some (RNode _ (VList (_ :: _))) => negb (pmem p cfgnodes)
                       | _, _ => false
                       end) (map fst (nodes s tr res)) in
           match nulled with
           | [] => []
           | _ => ["prop C03 a container emptied by the apply stays behind as an explicit null: " ++ show_sexp (enc_paths nulled)]
           end)
        else []
    | _, _ => []
    end
  else if String.eqb prop "C04" then
    match force with
    | HConflict _ => ["prop C04 a forced apply reported a conflict"]
    | HOk fo fm =>
        let res := match fo with Some t => snd t | None => lv end in
        let d := ref_diff s tr lv res in
        let changed := nonroot (rd_modified d ++ rd_added d)%list in
        let pairs := flat_map (fun o : string * (string * bool * list path) =>
                                 if String.eqb (fst o) mgr then []
                                 else map (fun p => (fst o, p)) (filter (fun p => pmem p changed) (snd (snd o)))) mobs in
        match noforce with
        | HConflict cs =>
            chk (conflicts_same cs pairs) "prop C04 the conflict error lists exactly the changed or created fields owned by others"
        | HOk no nm =>
            chk (match pairs with [] => true | _ => false end) "prop C04 a conflicting apply succeeded without force" @@
            chk (opt_eqb tv_eqb no fo && Nat.eqb (List.length nm) (List.length fm) &&
                 forallb (fun o : string * (string * bool * list path) =>
                            match assoc_get (fst o) fm with
                            | Some (v2, a2, p2) => String.eqb (fst (fst (snd o))) v2 && Bool.eqb (snd (fst (snd o))) a2 && paths_eqb (snd (snd o)) p2
                            | None => false
                            end) nm)
                "prop C04 non-forced and forced apply return the same object and ownership"
        | _ => []
        end
    | _ => []
    end
  else if String.eqb prop "C05" then
    match out_obj live chosen, out_managed chosen with
    | Some res, Some mafter =>
        let d := ref_diff s tr lv res in
        let touched := nonroot (rd_modified d ++ rd_added d ++ rd_removed d)%list in
        chk (psame (record_paths mafter mgr) (ps_elems fscfg) &&
             match assoc_get mgr mafter with
             | Some (v, ap, _) => String.eqb v ver && ap
             | None => ps_empty fscfg
             end)
            "prop C05 the applier owns exactly the fields of its configuration, marked applied" @@
        chk (forallb (fun o : string * (string * bool * list path) =>
                        String.eqb (fst o) mgr ||
                        let '(v, ap, ps) := snd o in
                        let expect := p_diff ps touched in
                        match assoc_get (fst o) mafter with
                        | Some (v2, a2, p2) => String.eqb v v2 && Bool.eqb ap a2 && psame p2 expect
                        | None => match expect with [] => true | _ => false end
                        end) mobs)
            "prop C05 every other record loses exactly the changed, created and removed fields" @@
        chk (forallb (fun o : string * (string * bool * list path) =>
                        String.eqb (fst o) mgr || match assoc_get (fst o) mobs with Some _ => true | None => false end) mafter)
            "prop C05 no other manager gains a record" @@
        chk (forallb (fun o : string * (string * bool * list path) => match snd (snd o) with [] => false | _ => true end) mafter)
            "prop C05 no manager with an empty record remains"
    | _, _ => []
    end
  else if String.eqb prop "C06" then
    flat_map (fun o => match o with
                       | HErr => ["prop C06 an operation on valid inputs failed without a conflict"]
                       | HPanic => ["prop C06 an operation on valid inputs panicked"]
                       | HOk ob m =>
                           let res := match ob with Some t => snd t | None => lv end in
                           (* the one known deviation (F21): the configuration gives an EMPTY map or
                              list at p where the live object holds content that the applier abandons:
                              prune leaves p as a container of nothing a field set can mention and the
                              dangling stage removes it, while the applier's record keeps p *)
                           let inherited := dangling_paths s tr lv mobs in
                           let dangling := filter (fun p => negb (pmem p inherited)) (dangling_paths s tr res m) in
                           let empty_in_cfg (p : path) :=
                             match resolve_path s tr cfg p with
                             | Some (RNode _ (VMap [])) | Some (RNode _ (VList [])) | Some (RNode _ VNull) => true
                             | _ => false
                             end in
                           match dangling with
                           | _ :: _ =>
                               if forallb (fun p => empty_in_cfg p && present s tr lv p) dangling
                                  && forallb (fun p => pmem p (record_paths m mgr)) dangling
                               then
                                 filter (fun x => negb (prefix "prop C06 every owned path" x)) (inv_msgs_from s tr inherited res m) @@
                                 ["prop C06 a null or an empty map or list of the configuration, laid over content the applier abandons, is owned but absent from the result: " ++ show_sexp (enc_paths dangling)]
                               else inv_msgs_from s tr inherited res m
                           | [] => inv_msgs_from s tr inherited res m
                           end
                       | _ => []
                       end) [noforce; force]
  else if String.eqb prop "C07" then
    (if isplain && dup_free s tr lv then
       match chosen, reapply with
       | HOk _ m1, HOk o2 m2 =>
           chk (match o2 with None => true | Some _ => false end) "prop C07 re-applying returns no object (nothing changed)" @@
           chk (Nat.eqb (List.length m1) (List.length m2) &&
                forallb (fun o : string * (string * bool * list path) =>
                           match assoc_get (fst o) m2 with
                           | Some (v2, a2, p2) => String.eqb (fst (fst (snd o))) v2 && Bool.eqb (snd (fst (snd o))) a2 && paths_eqb (snd (snd o)) p2
                           | None => false
                           end) m1)
               "prop C07 re-applying changes no ownership record"
       | HOk _ _, (HConflict _ | HErr | HPanic) => ["prop C07 re-applying the same configuration failed"]
       | _, _ => []
       end
     else []) @@
    (match force, rion with
     | HOk fo _, HOk (Some computed) _ =>
         chk (Bool.eqb (match fo with None => true | Some _ => false end) (veqb (snd computed) lv && veqb lv (snd computed)))
             "prop C07 no object is returned exactly when the result equals the live object"
     | _, _ => []
     end)
  else if String.eqb prop "C19" then
    match out_obj live chosen, out_managed chosen with
    | Some res, Some mafter =>
        let d := ref_diff s tr lv res in
        let touched := nonroot (rd_modified d ++ rd_added d ++ rd_removed d)%list in
        chk (forallb (fun o : string * (string * bool * list path) =>
                        forallb (fun p => negb (ign (fst (fst (snd o))) p)) (snd (snd o))) mafter)
            "prop C19 no record contains an ignored field or anything beneath it" @@
        chk (forallb (fun o : string * (string * bool * list path) =>
                        String.eqb (fst o) mgr ||
                        negb (forallb (ign (fst (fst (snd o)))) touched) ||
                        match assoc_get (fst o) mafter with
                        | Some (v2, a2, p2) => paths_eqb (snd (snd o)) p2
                        | None => false
                        end) mobs)
            "prop C19 changes confined to ignored fields take ownership away from nobody" @@
        chk (match noforce with
             | HConflict cs =>
                 forallb (fun mp : string * path =>
                            match assoc_get (fst mp) mobs with
                            | Some (v, _, _) => negb (ign v (snd mp))
                            | None => true
                            end) cs
             | _ => true
             end)
            "prop C19 ignored fields never cause conflicts" @@
        (* only for ignore configurations that treat the configuration's fields alike in
           every version of the run: a field ignored at one version and owned at another
           is pruned when the manager switches version, by design of the per-version sets *)
        (if isplain && forallb (fun pn : path * bool => forallb (fun v => Bool.eqb (ign v (fst pn)) (ign ver (fst pn))) vers) (nodes s tr cfg)
         then
           (let bad := filter (fun pn : path * bool =>
                                 match resolve_path s tr res (fst pn), resolve_path s tr cfg (fst pn) with
                                 | Some o, Some c => if snd pn then negb (rnode_eqb c o) else false
                                 | _, _ => true
                                 end) (nodes s tr cfg) in
            (* the one known deviation (F19): the applier abandons its last owned field
               inside a struct; prune removes the struct (EnsureNamedFieldsAreMembers) and
               the ignored fields of the configuration inside it, which nobody can own,
               are not added back *)
            let pruned_with_struct (p : path) : bool :=
              ign ver p &&
              existsb (fun q => negb (Nat.eqb (List.length q) (List.length p)) && negb (Nat.eqb (List.length q) 0)
                                && existsb (fun l => is_prefix q l) (ps_elems last)) (prefixes p) in
            if agrees s tr cfg res then []
            else if forallb (fun pn : path * bool => pruned_with_struct (fst pn) || negb (ign ver (fst pn))) bad
                    && existsb (fun pn : path * bool => pruned_with_struct (fst pn)) bad
                    && forallb (fun pn : path * bool => ign ver (fst pn) ||
                                                        existsb (fun b : path * bool => ign ver (fst b) && is_prefix (fst pn) (fst b)) bad) bad
            then ["prop C19 values of ignored fields are merged like any other: an ignored field of the configuration is pruned together with the struct in which the applier abandons its last owned field"]
            else ["prop C19 values of ignored fields are merged like any other"])
         else [])
    | _, _ => []
    end
  else if String.eqb prop "C20" then
    flat_map (fun o => match o with
                       | HErr => ["prop C20 an operation failed although every remaining version converts"]
                       | HPanic => ["prop C20 an operation panicked"]
                       | HOk _ m =>
                           chk (forallb (fun r : string * (string * bool * list path) => negb (gone (fst (fst (snd r))))) m)
                               "prop C20 a record at a version reported as gone is dropped"
                       | _ => []
                       end) [noforce; force]
  else [].

Definition run_hist_apply (prop : string) (schemas : list (string * schema)) (hc : hconf)
  (live mobs mgr ver cfg noforce force reapply rion prev : sexp) : outcome :=
  match dec_tv live, dec_managed mobs, mgr, ver, dec_value cfg with
  | Some live, Some mobs, SAtom mgr, SAtom ver, Some cfg =>
      match dec_hout noforce, dec_hout force, dec_hout reapply, dec_hout rion with
      | Some noforce, Some force, Some reapply, Some rion =>
          let c := make_config schemas hc None false (fun l => l) in
          let crion := make_config schemas hc None true (fun l => l) in
          let mf := managed_of mobs in
          let s := schema_of c ver in
          let tr := tr_of c ver in
          let corr :=
            chk (ures_matches (apply_op c live (ver, cfg) ver mf mgr false) noforce) "corr apply" @@
            chk (ures_matches (apply_op c live (ver, cfg) ver mf mgr true) force) "corr forced apply" @@
            chk (ures_matches (apply_op crion live (ver, cfg) ver mf mgr true) rion) "corr forced apply (return input on no-op)" @@
            match (if is_ok noforce then noforce else force), reapply with
            | HOk o m, (HOk _ _ | HConflict _ | HErr | HPanic) =>
                let live' := match o with Some t => t | None => live end in
                chk (ures_matches (apply_op c live' (ver, cfg) ver (managed_of m) mgr false) reapply) "corr re-apply"
            | _, _ => []
            end in
          let prop_msgs := apply_oracles (fun v => existsb (String.eqb v) (hc_missing hc)) (map hv_name (hc_versions hc)) (ignored_at_h hc) prop s tr live mobs mgr ver cfg noforce force reapply rion
                             (match prev with SAtom "-" => None | _ => dec_value prev end) in
          let nt :=
            (* >= 2 managers before the step and the apply drops or changes something *)
            if Nat.leb 2 (List.length mobs) then 1 else 0 in
          (* do the side conditions of the general theorem C01_apply_takes_effect hold in
             this (implementation-produced) state?  Reported as a tag, decides nothing. *)
          let thm_hyps :=
            Nat.eqb (List.length (hc_versions hc)) 1 &&
            match hc_ignore hc with HIgnNone => true | _ => false end &&
            negb (existsb (fun td : string * atom =>
                             match snd td with
                             | Atom _ _ (Some (MapT fs _ _)) =>
                                 existsb (fun f => match f with SField _ _ (Some _) => true | _ => false end) fs
                             | _ => false
                             end) s) &&
            match mf_get mgr mf with Some r => keys_closed_b (mr_set r) | None => true end &&
            forallb (fun mr : string * mrec =>
                       String.eqb (fst mr) mgr || owns_live_keys_b s tr (snd live) (mr_set (snd mr))) mf &&
            match kind_of s tr cfg with KMap _ _ | KList _ _ => true | _ => false end &&
            plain cfg in
          mkOut (corr @@ prop_msgs) 4 nt
            ([match noforce with HOk None _ => "noop" | HOk _ _ => "applied" | HConflict _ => "conflict" | _ => "failed" end]
             ++ (if String.eqb prop "C01" then [if thm_hyps then "theorem-hypotheses-hold" else "theorem-hypotheses-do-not-hold"] else []))%list
      | _, _, _, _ => out_bad "hist.apply outcomes"
      end
  | _, _, _, _, _ => out_bad "hist.apply decode"
  end.

(* ---------- hist.update ---------- *)

Definition run_hist_update (prop : string) (schemas : list (string * schema)) (hc : hconf)
  (live mobs mgr ver obj out : sexp) : outcome :=
  match dec_tv live, dec_managed mobs, mgr, ver, dec_value obj, dec_hout out with
  | Some live, Some mobs, SAtom mgr, SAtom ver, Some obj, Some out =>
      let c := make_config schemas hc None false (fun l => l) in
      let mf := managed_of mobs in
      let s := schema_of c ver in
      let tr := tr_of c ver in
      let lv := snd live in
      let corr := chk (upd_matches (update_op c live (ver, obj) ver mf mgr) out) "corr update" in
      let prop_msgs :=
        match out with
        | HOk ro mafter =>
            if String.eqb prop "C05" then
              let d := ref_diff s tr lv obj in
              let touched := nonroot (rd_modified d ++ rd_added d ++ rd_removed d)%list in
              let before := record_paths mobs mgr in
              let expect_self := (p_diff before (nonroot (rd_removed d)) ++ nonroot (rd_modified d) ++ nonroot (rd_added d))%list in
              chk (match ro with Some t => value_deep_eqb (snd t) obj | None => false end)
                  "prop C05 update returns the submitted object unaltered" @@
              chk (psame (record_paths mafter mgr) expect_self &&
                   match assoc_get mgr mafter with
                   | Some (v, ap, _) => String.eqb v ver && negb ap
                   | None => match expect_self with [] => true | _ => false end
                   end)
                  "prop C05 the updater owns what it owned minus removed plus changed and added" @@
              chk (forallb (fun o : string * (string * bool * list path) =>
                              String.eqb (fst o) mgr ||
                              let '(v, ap, ps) := snd o in
                              let expect := p_diff ps touched in
                              match assoc_get (fst o) mafter with
                              | Some (v2, a2, p2) => String.eqb v v2 && Bool.eqb ap a2 && psame p2 expect
                              | None => match expect with [] => true | _ => false end
                              end) mobs)
                  "prop C05 every other record loses exactly the changed, created and removed fields" @@
              chk (forallb (fun o : string * (string * bool * list path) => match snd (snd o) with [] => false | _ => true end) mafter)
                  "prop C05 no manager with an empty record remains"
            else if String.eqb prop "C06" then
              inv_msgs_from s tr (dangling_paths s tr lv mobs) (match ro with Some t => snd t | None => lv end) mafter
            else if String.eqb prop "C19" then
              let d := ref_diff s tr lv obj in
              let touched := nonroot (rd_modified d ++ rd_added d ++ rd_removed d)%list in
              chk (forallb (fun o : string * (string * bool * list path) =>
                              forallb (fun p => negb (ignored_at_h hc (fst (fst (snd o))) p)) (snd (snd o))) mafter)
                  "prop C19 no record contains an ignored field or anything beneath it" @@
              chk (forallb (fun o : string * (string * bool * list path) =>
                              String.eqb (fst o) mgr ||
                              negb (forallb (ignored_at_h hc (fst (fst (snd o)))) touched) ||
                              match assoc_get (fst o) mafter with
                              | Some (v2, a2, p2) => paths_eqb (snd (snd o)) p2
                              | None => false
                              end) mobs)
                  "prop C19 changes confined to ignored fields take ownership away from nobody"
            else if String.eqb prop "C20" then
              chk (forallb (fun r : string * (string * bool * list path) =>
                              negb (existsb (String.eqb (fst (fst (snd r)))) (hc_missing hc))) mafter)
                  "prop C20 a record at a version reported as gone is dropped"
            else []
        | HErr => if String.eqb prop "C06" then ["prop C06 an operation on valid inputs failed without a conflict"]
                  else if String.eqb prop "C20" then ["prop C20 an operation failed although every remaining version converts"] else []
        | HPanic => if String.eqb prop "C06" then ["prop C06 an operation on valid inputs panicked"] else []
        | HConflict _ => ["prop C04 an update reported a conflict"]
        | HNone => []
        end in
      mkOut (corr @@ prop_msgs) 1 (if Nat.leb 2 (List.length mobs) then 1 else 0) ["update"]
  | _, _, _, _, _, _ => out_bad "hist.update decode"
  end.

(* ---------- hist.extract (C07: applying back what was extracted) ---------- *)

Definition run_hist_extract (prop : string) (schemas : list (string * schema)) (hc : hconf)
  (live mobs mgr ext out : sexp) : outcome :=
  match dec_tv live, dec_managed mobs, mgr, dec_tv ext, dec_hout out with
  | Some live, Some mobs, SAtom mgr, Some ext, Some out =>
      let ver := fst live in
      let c := make_config schemas hc None false (fun l => l) in
      let mf := managed_of mobs in
      let s := schema_of c ver in
      let tr := tr_of c ver in
      let model_ext :=
        match mf_get mgr mf with
        | Some r => extract s tr true (snd live) (ps_leaves (mr_set r))
        | None => VNull
        end in
      let corr :=
        chk (value_deep_eqb model_ext (snd ext)) "corr extract owned fields" @@
        chk (ures_matches (apply_op c live ext ver mf mgr true) out) "corr apply extracted" in
      let prop_msgs :=
        if String.eqb prop "C07" && plain (snd ext) && dup_free s tr (snd live) then
          match out with
          | HOk o m =>
              chk (match o with None => true | Some _ => false end) "prop C07 applying back what was extracted changes no field" @@
              (let same_rec (o : string * (string * bool * list path)) :=
                 match assoc_get (fst o) m with
                 | Some (v2, a2, p2) => String.eqb (fst (fst (snd o))) v2 && Bool.eqb (snd (fst (snd o))) a2 && paths_eqb (snd (snd o)) p2
                 | None => false
                 end in
               let all_same := Nat.eqb (List.length m) (List.length mobs) && forallb same_rec mobs in
               (* the one known deviation: the extract spells out a defaulted key field
                  that the live object holds but the manager never applied *)
               let only_default_keys :=
                 Nat.eqb (List.length m) (List.length mobs) &&
                 forallb (fun o : string * (string * bool * list path) => String.eqb (fst o) mgr || same_rec o) mobs &&
                 psubset (record_paths mobs mgr) (record_paths m mgr) &&
                 forallb (fun p => pmem p (record_paths mobs mgr) || is_key_field_path p) (record_paths m mgr) in
               if all_same then []
               else if only_default_keys then
                 ["prop C07 applying back what was extracted adds a defaulted key field to the manager's record"]
               else ["prop C07 applying back what was extracted changes no ownership record"])
          | _ => ["prop C07 applying back what was extracted failed"]
          end
        else [] in
      mkOut (corr @@ prop_msgs) 2 (if plain (snd ext) then 1 else 0) ["extract"]
  | _, _, _, _, _ => out_bad "hist.extract decode"
  end.

(* ---------- C19 stand-alone filters ---------- *)

Definition run_c19_include (pats set res : sexp) : outcome :=
  match pats, dec_paths set with
  | SList (SAtom "pats" :: ps), Some set =>
      match map_opt dec_pattern ps with
      | None => out_bad "c19 patterns"
      | Some ps =>
          match res with
          | SAtom "panic" => mkOut ["prop C19 include filter panicked"] 1 1 []
          | _ =>
              match dec_paths res with
              | None => out_bad "c19 include result"
              | Some res =>
                  let m := include_matcher (map prefix_matcher ps) in
                  let model := ps_elems (ps_filter_include (ps_of_paths set) m) in
                  mkOut (chk (paths_eqb model res) "corr include filter" @@
                         chk (psame res (filter (include_keeps ps) set))
                             "prop C19 an include filter keeps exactly the paths compatible with one of its patterns")
                        1 (if Nat.ltb 1 (List.length ps) then 1 else 0) []
              end
          end
      end
  | _, _ => out_bad "c19.include"
  end.

Definition run_c19_exclude (ex set res : sexp) : outcome :=
  match dec_paths ex, dec_paths set, dec_paths res with
  | Some ex, Some set, Some res =>
      let model := ps_elems (ps_rdiff (ps_of_paths set) (ps_of_paths ex)) in
      mkOut (chk (paths_eqb model res) "corr exclude filter" @@
             chk (psame res (p_rdiff set ex)) "prop C19 an exclusion filter drops exactly the paths at or beneath an excluded path")
            1 (match ex with [] => 0 | _ => 1 end) []
  | _, _, _ => out_bad "c19.exclude"
  end.

Definition run_c19_same (a b obs : sexp) : outcome :=
  match dec_bool obs with
  | Some ok => mkOut (chk ok "prop C19 exclusion set and equivalent filter give identical results") 1 1 []
  | None => out_bad "c19.same"
  end.

(* ---------- C20: multi-version run against its single-version replay ---------- *)

Definition rename_pe (f : string -> string) (e : pe) : pe :=
  match e with
  | PEField n => PEField (f n)
  | PEKey k => PEKey (fl_sort (map (fun kv => (f (fst kv), rename_value f (snd kv))) k))
  | PEValue v => PEValue (rename_value f v)
  | PEIndex i => PEIndex i
  end.

Definition run_c20_sim (schemas : list (string * schema)) (hc : hconf) (lm mm ls ms : sexp) : outcome :=
  match dec_tv lm, dec_managed mm, dec_tv ls, dec_managed ms with
  | Some lm, Some mm, Some ls, Some ms =>
      match find_version hc "v1" with
      | None => out_bad "c20.sim base version"
      | Some base =>
          let s := match assoc_get (hv_sid base) schemas with Some s => s | None => [] end in
          let tr := hv_tr base in
          let to_base (ver : string) (p : path) : path :=
            match find_version hc ver with
            | Some v => map (rename_pe (rename_key v base)) p
            | None => p
            end in
          (* the known shape in which the version-by-version add-back is not transparent
             (F8): a path owned at one version beneath a list item or map entry that no
             record of that same version contains *)
          let is_member_path (q : path) := match rev q with (PEKey _ | PEValue _) :: _ => true | _ => false end in
          let owned_at (ver : string) (q : path) :=
            existsb (fun r : string * (string * bool * list path) =>
                       String.eqb (fst (fst (snd r))) ver && pmem q (map (to_base ver) (snd (snd r)))) mm in
          let f8_shape :=
            existsb (fun r : string * (string * bool * list path) =>
                       let ver := fst (fst (snd r)) in
                       existsb (fun p =>
                                  existsb (fun q => negb (Nat.eqb (List.length q) (List.length p)) &&
                                                    negb (Nat.eqb (List.length q) 0) &&
                                                    negb (owned_at ver q) &&
                                                    existsb (fun r2 : string * (string * bool * list path) =>
                                                               negb (String.eqb (fst (fst (snd r2))) ver) &&
                                                               pmem q (map (to_base (fst (fst (snd r2)))) (snd (snd r2)))) mm)
                                          (prefixes (to_base ver p)))
                               (snd (snd r))) mm in
          let same :=
            veq_assoc s tr (snd lm) (snd ls) &&
            Nat.eqb (List.length mm) (List.length ms) &&
            forallb (fun r : string * (string * bool * list path) =>
                       let '(ver, ap, ps) := snd r in
                       match assoc_get (fst r) ms with
                       | Some (_, ap2, ps2) => Bool.eqb ap ap2 && psame (map (to_base ver) ps) ps2
                       | None => false
                       end) mm in
          (* the one known deviation (F23): the two runs differ only in HOLLOW nodes -- null,
             empty containers, containers of such -- which no field set mentions and which the
             version-by-version add-back keeps or drops depending on which pass comes last,
             and in who owns them *)
          let fix hollow (fuel : nat) (v : value) : bool :=
            match fuel with
            | O => false
            | S f =>
                match v with
                | VNull => true
                | VList l => forallb (hollow f) l
                | VMap m => forallb (fun kv : string * value => hollow f (snd kv)) m
                | _ => false
                end
            end in
          let d := ref_diff s tr (snd lm) (snd ls) in
          let differing := nonroot (rd_removed d ++ rd_modified d ++ rd_added d)%list in
          let hollow_at (v : value) (q : path) :=
            match resolve_path s tr v q with
            | Some (RNode _ x) => hollow (S (vdepth x)) x
            | Some (RDup _ _) => false
            | None => true
            end in
          let hollow_only :=
            match differing with [] => false | _ => true end &&
            forallb (fun q => hollow_at (snd lm) q && hollow_at (snd ls) q) differing &&
            forallb (fun r : string * (string * bool * list path) =>
                       let '(ver, ap, ps) := snd r in
                       let ps1 := map (to_base ver) ps in
                       let ps2 := match assoc_get (fst r) ms with Some (_, _, x) => x | None => [] end in
                       forallb (fun q => pmem q ps2 || existsb (fun w => is_prefix w q || is_prefix q w) differing) ps1 &&
                       forallb (fun q => pmem q ps1 || existsb (fun w => is_prefix w q || is_prefix q w) differing) ps2) mm &&
            forallb (fun r : string * (string * bool * list path) =>
                       match assoc_get (fst r) mm with
                       | Some _ => true
                       | None => forallb (fun q => existsb (fun w => is_prefix w q || is_prefix q w) differing) (snd (snd r))
                       end) ms in
          mkOut (if same then []
                 else if hollow_only then
                   ["prop C20 the multi-version run equals the single-version run: they differ only in hollow nodes (null, empty containers) and their owners: " ++ show_sexp (enc_paths differing)]
                 else ["prop C20 the multi-version run, translated to one version, equals the single-version run"])
                1 (if Nat.leb 2 (List.length (nodup String.string_dec (map (fun r : string * (string * bool * list path) => fst (fst (snd r))) mm))) then 1 else 0)
                (if f8_shape then ["cross-version-nesting"] else [])
      end
  | _, _, _, _ => out_bad "c20.sim decode"
  end.

(* ---------- C20: reconcile with a schema in which fields turned atomic ---------- *)

Definition run_c20_reconcile (s : schema) (tr set res again : sexp) : outcome :=
  match dec_typeref tr, dec_paths set with
  | Some tr, Some set =>
      let fs := ps_of_paths set in
      let model := reconcile_field_set s tr fs in
      let obs_paths : option (option (list path)) :=
        match res with
        | SAtom "unchanged" => Some None
        | SAtom "err" | SAtom "panic" => None
        | _ => match dec_paths res with Some p => Some (Some p) | None => None end
        end in
      match obs_paths with
      | None => mkOut ["prop C20 reconcile failed"] 1 0 []
      | Some obs =>
          let result := match obs with Some p => p | None => set end in
          let expect := reconcile_ref s tr set in
          mkOut
            (chk (match model, obs with
                  | Some None, None => true
                  | Some (Some m), Some p => paths_eqb (ps_elems m) p
                  | _, _ => false
                  end) "corr reconcile" @@
             chk (psame result expect)
                 "prop C20 each owner of a field that turned atomic (or of anything beneath it) owns exactly the atomic field" @@
             chk (forallb (fun p => negb (beneath_atomic s tr p)) result)
                 "prop C20 no record keeps a path beneath an atomic field" @@
             chk (match obs with None => psame set expect | Some _ => true end)
                 "prop C20 records without such a path are untouched" @@
             chk (match again with
                  | SAtom "unchanged" => true
                  | _ => match dec_paths again with Some p => psame p result | None => false end
                  end) "prop C20 reconciling again changes nothing")
            1 (if existsb (fun p => beneath_atomic s tr p) set then 1 else 0)
            [match obs with None => "unchanged" | Some _ => "reconciled" end]
      end
  | _, _ => out_bad "c20.reconcile decode"
  end.
