(* Shared by the driver files.  The executable side of the correspondence check: for every case line produced by the
   Go harness, evaluate the model on the same input and compare with the observed
   outcome ("corr" messages), and evaluate the property's own checker on the observed
   outcome ("prop" messages).  Extracted to OCaml; also runs inside Coq by vm_compute. *)
From Coq Require Import List ZArith String Ascii Bool Arith.
From SMD Require Import Base.Search Base.Sexp Model.Value Model.Order Model.PathElem
  Model.PathSet Model.Schema Model.Walk Model.Matcher Model.Codec Spec.PathsAsSets.
Import ListNotations.
Open Scope string_scope.
Open Scope bool_scope.
Infix "@@" := (@app string) (at level 60, right associativity).

Record outcome : Type := mkOut {
  o_msgs : list string;   (* empty = the case passed *)
  o_evals : nat;          (* elementary evaluations in this case *)
  o_nt : nat;             (* how many of them are non-trivial by the property's rule *)
  o_tags : list string    (* branch / distribution tags *)
}.

Definition out_bad (m : string) : outcome := mkOut ["bad-case " ++ m] 0 0 [].
Definition chk (b : bool) (m : string) : list string := if b then [] else [m].
Definition count {A} (f : A -> bool) (l : list A) : nat := List.length (filter f l).

Definition cmp_eqb (a b : comparison) : bool :=
  match a, b with Lt, Lt | Eq, Eq | Gt, Gt => true | _, _ => false end.

Fixpoint forallb2 {A B} (f : A -> B -> bool) (a : list A) (b : list B) : bool :=
  match a, b with
  | [], [] => true
  | x :: xs, y :: ys => f x y && forallb2 f xs ys
  | _, _ => false
  end.

Fixpoint zip_with_index {A} (n : nat) (l : list A) : list (nat * A) :=
  match l with [] => [] | x :: t => (n, x) :: zip_with_index (S n) t end.


Record dstate : Type := mkDS {
  ds_schemas : list (string * schema);
  ds_prop : string;                              (* the property under check *)
  ds_confs : list (string * (sexp * sexp * sexp)) (* run configurations, undecoded *)
}.
Definition ds_init : dstate := mkDS [] "" [].
Definition ds_schema (st : dstate) (id : string) : option schema := assoc_get id (ds_schemas st).
