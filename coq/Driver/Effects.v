(* Driver: C08 (arguments untouched, conversion failures surface as errors) and C09
   (equal inputs give equal outputs whatever ran before). *)
From Coq Require Import List ZArith String Ascii Bool Arith.
From SMD Require Import Base.Sexp Model.Value Model.Order Model.PathElem Model.PathSet
  Model.Schema Model.Updater Model.Codec Driver.Common Driver.Typed Driver.Hist.
Import ListNotations.
Open Scope string_scope.
Open Scope bool_scope.
Infix "@@" := (@app string) (at level 60, right associativity).

Inductive hop : Type :=
| HApply (mgr ver : string) (cfg : value) (force : bool)
| HUpdate (mgr ver : string) (obj : value).

Definition dec_hop (x : sexp) : option hop :=
  match x with
  | SList [SAtom "apply"; SAtom m; SAtom v; c; f] => do c <- dec_value c; do f <- dec_bool f; Some (HApply m v c f)
  | SList [SAtom "update"; SAtom m; SAtom v; o] => do o <- dec_value o; Some (HUpdate m v o)
  | _ => None
  end.

Definition model_step (c : config) (live : tv) (mf : managed) (op : hop) : ures (option tv * managed) :=
  match op with
  | HApply m v cfg f => apply_op c live (v, cfg) v mf m f
  | HUpdate m v o =>
      match update_op c live (v, o) v mf m with
      | UOk (ob, mf') => UOk (Some ob, mf')
      | UErr e => UErr e
      end
  end.

Definition step_matches (r : ures (option tv * managed)) (obs : hout) : bool := ures_matches r obs.

(* a clean call: outcome as the model's, arguments untouched *)
Definition run_c08_call (schemas : list (string * schema)) (hc : hconf) (live mobs op out same calls : sexp) : outcome :=
  match dec_tv live, dec_managed mobs, dec_hop op, dec_hout out, dec_bool same with
  | Some live, Some mobs, Some op, Some out, Some same =>
      let c := make_config schemas hc None false (fun l => l) in
      mkOut (chk (step_matches (model_step c live (managed_of mobs) op) out) "corr operation" @@
             chk same "prop C08 the operation left its arguments (objects, map, sets) untouched")
            1 (match out with HConflict _ => 1 | HOk _ _ => if Nat.leb 2 (List.length mobs) then 1 else 0 | _ => 1 end)
            [match out with HOk _ _ => "ok" | HConflict _ => "conflict" | _ => "failed" end]
  | _, _, _, _, _ => out_bad "c08.call"
  end.

(* the converter fails at call k: an error, no object, arguments untouched *)
Definition run_c08_fault (schemas : list (string * schema)) (hc : hconf) (live mobs op k out same : sexp) : outcome :=
  match dec_tv live, dec_managed mobs, dec_hop op, dec_int k, dec_hout out, dec_bool same with
  | Some live, Some mobs, Some op, Some k, Some out, Some same =>
      let c := make_config schemas hc (Some (Z.to_nat k)) false (fun l => l) in
      let model := model_step c live (managed_of mobs) op in
      (* Go visits managers and versions in map order, the model in sorted order, so the
         two runs need not make the same number of conversions: when the model makes fewer
         than k+1 calls its result is the clean one *)
      let clean := model_step (make_config schemas hc None false (fun l => l)) live (managed_of mobs) op in
      let same_as_clean :=
        match model, clean with
        | UOk (o1, m1), UOk (o2, m2) =>
            opt_eqb tv_eqb o1 o2 && Nat.eqb (List.length m1) (List.length m2) &&
            forallb (fun mr : string * mrec =>
                       match mf_get (fst mr) m2 with
                       | Some r => ps_equals (mr_set (snd mr)) (mr_set r) && String.eqb (mr_ver (snd mr)) (mr_ver r)
                       | None => false
                       end) m1
        | UErr (EConflict a), UErr (EConflict b) => conflicts_same a b
        | _, _ => false
        end in
      mkOut (chk (match model with UErr EOther => true | _ => same_as_clean end)
                 "corr the model reports the injected conversion failure as an error" @@
             chk (match out with HErr => true | _ => false end)
                 "prop C08 a conversion failure surfaces as an error with no object returned" @@
             chk same "prop C08 the failed operation left its arguments untouched")
            1 1 ["fault"]
  | _, _, _, _, _, _ => out_bad "c08.fault"
  end.

Definition run_c08_typed (n same : sexp) : outcome :=
  match dec_int n, dec_bool same with
  | Some n, Some same =>
      mkOut (chk same "prop C08 typed and field-set operations left their operands untouched") (Z.to_nat n) 1 []
  | _, _ => out_bad "c08.typed"
  end.

(* C09 *)
Definition run_c09_repeat (schemas : list (string * schema)) (hc : hconf) (live mobs op out same nm nv : sexp) : outcome :=
  match dec_tv live, dec_managed mobs, dec_hop op, dec_hout out, dec_bool same, dec_int nm, dec_int nv with
  | Some live, Some mobs, Some op, Some out, Some same, Some nm, Some nv =>
      let c := make_config schemas hc None false (fun l => l) in
      (* the model's result must not depend on the order in which versions are visited *)
      let crev := make_config schemas hc None false (fun l => rev l) in
      let r1 := model_step c live (managed_of mobs) op in
      let r2 := model_step crev live (managed_of mobs) op in
      (* the implementation visits the versions in sorted order (third repair of the add-back
         loop), which is the model's order [fun l => l]; whether the reverse order would give
         another result is reported as a tag: it can, when the merged object holds an empty
         list beneath structs owned at different versions (finding F20) *)
      mkOut (chk (step_matches r1 out) "corr operation" @@
             chk same "prop C09 five identical calls separated by other (failing, conflicting, invalid) calls give identical object, records and bytes")
            5 (if Z.leb 3 nm && Z.leb 2 nv then 1 else 0)
            [if step_matches r2 out then "order-insensitive" else "order-sensitive"]
  | _, _, _, _, _, _, _ => out_bad "c09.repeat"
  end.

Definition run_c09_typed (same why : sexp) : outcome :=
  match dec_bool same, why with
  | Some same, SAtom why =>
      mkOut (if same then [] else [("prop C09 typed operations are functions of their arguments: " ++ why)%string]) 3 1 ["typed-repeat"]
  | _, _ => out_bad "c09.typed"
  end.

Definition run_c09_allocators (n same : sexp) : outcome :=
  match dec_int n, dec_bool same with
  | Some n, Some same =>
      mkOut (chk same "prop C09 equality and ordering do not depend on the allocator") (Z.to_nat n) 1 []
  | _, _ => out_bad "c09.allocators"
  end.

(* C10 *)
Definition run_c10 (nw nops same : sexp) : outcome :=
  match dec_int nw, dec_int nops, dec_bool same with
  | Some nw, Some nops, Some same =>
      mkOut (chk same "prop C10 every concurrent worker got the result it gets running alone")
            (Z.to_nat nops) (if Z.leb 2 nw then Z.to_nat nw else 0) []
  | _, _, _ => out_bad "c10.run"
  end.
