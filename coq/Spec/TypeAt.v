(* The type a path designates in a schema (no object involved), and the reference
   result of reconciling a field set with a schema in which fields turned atomic (C20). *)
From Coq Require Import List ZArith String Bool.
From SMD Require Import Model.Value Model.Order Model.PathElem Model.Schema Model.Walk Spec.PathsAsSets.
Import ListNotations.
Open Scope bool_scope.

Fixpoint type_at (s : schema) (tr : typeref) (p : path) : option typeref :=
  match p with
  | [] => Some tr
  | e :: rest =>
      match resolve s tr with
      | None => None
      | Some (Atom _ li ma) =>
          match e, ma, li with
          | PEField k, Some m, _ =>
              let t := field_type m k in
              if is_empty_tr t then None else type_at s t rest
          | (PEKey _ | PEValue _ | PEIndex _), None, Some l => type_at s (list_elem l) rest
          | _, _, _ => None
          end
      end
  end.

Definition is_atomic_type (s : schema) (tr : typeref) : bool :=
  match resolve s tr with
  | Some (Atom _ _ (Some m)) => rel_is_atomic (map_rel m)
  | Some (Atom _ (Some l) None) => rel_is_atomic (list_rel l)
  | _ => false
  end.

(* the outermost non-root prefix of p whose type is atomic, if any *)
Fixpoint atomic_root_from (s : schema) (tr : typeref) (done rest : path) : option path :=
  match rest with
  | [] => None
  | e :: rest' =>
      let q := done ++ [e] in
      match type_at s tr q with
      | Some t => if is_atomic_type s t then Some q else atomic_root_from s tr q rest'
      | None => None
      end
  end.

Definition reconcile_path (s : schema) (tr : typeref) (p : path) : path :=
  match atomic_root_from s tr [] p with Some q => q | None => p end.

(* each manager that owned the field or anything beneath it owns exactly the atomic field *)
Definition reconcile_ref (s : schema) (tr : typeref) (paths : list path) : list path :=
  map (reconcile_path s tr) paths.

Definition beneath_atomic (s : schema) (tr : typeref) (p : path) : bool :=
  match atomic_root_from s tr [] p with
  | Some q => negb (Nat.eqb (List.length q) (List.length p))
  | None => false
  end.
