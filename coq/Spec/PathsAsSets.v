(* Reference semantics of field sets: plain lists of paths used as finite sets, with
   membership decided by Path.Equals.  Nothing here mentions the trie. *)
From Coq Require Import List ZArith String Bool.
From SMD Require Import Model.Value Model.Order Model.PathElem.
Import ListNotations.
Open Scope bool_scope.

Definition pmem (p : path) (l : list path) : bool := existsb (patheqb p) l.

Definition psubset (a b : list path) : bool := forallb (fun p => pmem p b) a.
Definition psame (a b : list path) : bool := psubset a b && psubset b a.

Fixpoint pnodup (l : list path) : bool :=
  match l with
  | [] => true
  | p :: t => negb (pmem p t) && pnodup t
  end.

Definition p_union (a b : list path) : list path := a ++ b.
Definition p_inter (a b : list path) : list path := filter (fun p => pmem p b) a.
Definition p_diff (a b : list path) : list path := filter (fun p => negb (pmem p b)) a.

(* q is a prefix of p (possibly equal) *)
Fixpoint is_prefix (q p : path) : bool :=
  match q, p with
  | [], _ => true
  | x :: xs, y :: ys => peeqb x y && is_prefix xs ys
  | _ :: _, [] => false
  end.

Definition proper_prefix (q p : path) : bool :=
  is_prefix q p && negb (Nat.eqb (List.length q) (List.length p)).

(* recursive difference: drop members at or beneath a member of b *)
Definition p_rdiff (a b : list path) : list path :=
  filter (fun p => negb (existsb (fun q => is_prefix q p) b)) a.

(* leaves: members with no member strictly beneath them *)
Definition p_leaves (a : list path) : list path :=
  filter (fun p => negb (existsb (fun q => proper_prefix p q) a)) a.

(* prefix selection: paths that begin with e (and are longer), e stripped *)
Definition p_with_prefix (e : pe) (a : list path) : list path :=
  flat_map (fun p => match p with
                     | x :: (_ :: _) as rest => if peeqb x e then [tl p] else []
                     | _ => []
                     end) a.

(* the fixed total order in which a set is iterated: at every level the paths that
   end there come first (ordered by their last element), then the longer ones grouped
   by their first element *)
Fixpoint itercmp (p q : path) : comparison :=
  match p, q with
  | [], [] => Eq
  | [], _ :: _ => Lt
  | _ :: _, [] => Gt
  | [x], [y] => pecmp x y
  | [_], _ :: _ :: _ => Lt
  | _ :: _ :: _, [_] => Gt
  | x :: xs, y :: ys => match pecmp x y with Eq => itercmp xs ys | c => c end
  end.

Fixpoint iter_sorted (l : list path) : bool :=
  match l with
  | [] => true
  | p :: t =>
      match t with
      | [] => true
      | q :: _ => match itercmp p q with Lt => iter_sorted t | _ => false end
      end
  end.
