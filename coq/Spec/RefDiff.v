(* Reference diff of property C11, by joint recursion over the two objects and the node
   kinds of Spec/Resolve.v -- independent of the comparing walker.  A path is added or
   removed when it designates a node present on one side only (atomic values and groups
   of duplicate members are single nodes); modified when present on both sides as leaves
   with different values, or when the kind changes (leaf vs container, list vs map,
   single member vs group of duplicates).  An explicit null, and an empty
   container of the same kind, stand for "no content": against a granular container they
   are compared as the empty container of that kind (nothing is modified at the path
   itself, the members are one-sided). *)
From Coq Require Import List ZArith String Bool Arith.
From SMD Require Import Model.Value Model.Order Model.PathElem Model.Schema Model.Walk
  Model.Merge Spec.Resolve.
Import ListNotations.
Open Scope bool_scope.

Record rdiff : Type := mkRD { rd_removed : list path; rd_modified : list path; rd_added : list path }.
Definition rd_empty := mkRD [] [] [].
Definition rd_app (a b : rdiff) := mkRD (rd_removed a ++ rd_removed b) (rd_modified a ++ rd_modified b) (rd_added a ++ rd_added b).

(* every node at or beneath p on one side only *)
Definition one_sided (added : bool) (s : schema) (tr : typeref) (v : value) (p : path) : rdiff :=
  let ns := p :: map fst (nodes_fuel (S (vdepth v)) s tr v p) in
  if added then mkRD [] [] ns else mkRD ns [] [].

Definition strip_root (d : rdiff) (p : path) : rdiff :=
  (* nodes strictly beneath p only *)
  mkRD (tl (rd_removed d)) (rd_modified d) (tl (rd_added d)).

Fixpoint values_eqb_dup (a b : list value) : bool :=
  match a, b with
  | [], [] => true
  | x :: xs, y :: ys => veqb x y && values_eqb_dup xs ys
  | _, _ => false
  end.

Fixpoint ref_diff_fuel (fuel : nat) (s : schema) (tr : typeref) (p : path) (l r : value) : rdiff :=
  match fuel with
  | O => rd_empty
  | S f =>
      let beneath (added : bool) (v : value) : rdiff :=
        let ns := map fst (nodes_fuel (S (vdepth v)) s tr v p) in
        if added then mkRD [] [] ns else mkRD ns [] [] in
      let maps (t : mapT) (lm rm : list (string * value)) : rdiff :=
        fold_left (fun acc k =>
                     let q := p ++ [PEField k] in
                     let ct := field_type t k in
                     rd_app acc
                       match assoc_get k lm, assoc_get k rm with
                       | Some x, Some y => ref_diff_fuel f s ct q x y
                       | Some x, None => one_sided false s ct x q
                       | None, Some y => one_sided true s ct y q
                       | None, None => rd_empty
                       end)
                  (keys_union (map fst lm) (map fst rm)) rd_empty in
      let lists (t : listT) (ll rl : list value) : rdiff :=
        match group_items s t ll [], group_items s t rl [] with
        | Some gl, Some gr =>
            let all := map fst gl ++ map fst (filter (fun ex => match lookup_group (fst ex) gl with Some _ => false | None => true end) gr) in
            fold_left (fun acc e =>
                         let q := p ++ [e] in
                         let et := list_elem t in
                         rd_app acc
                           match lookup_group e gl, lookup_group e gr with
                           | Some [x], Some [y] => ref_diff_fuel f s et q x y
                           | Some [x], None => one_sided false s et x q
                           | None, Some [y] => one_sided true s et y q
                           | Some ((_ :: _ :: _) as xs), Some ((_ :: _ :: _) as ys) =>
                               if values_eqb_dup xs ys then rd_empty else mkRD [] [q] []
                           | Some (_ :: _ :: _), None => mkRD [q] [] []
                           | None, Some (_ :: _ :: _) => mkRD [] [] [q]
                           | Some (_ :: _ :: _), Some [y] =>
                               (* the group disappears, a single member appears *)
                               rd_app (mkRD [q] [] []) (one_sided true s et y q)
                           | Some [x], Some (_ :: _ :: _) =>
                               rd_app (one_sided false s et x q) (mkRD [] [] [q])
                           | _, _ => rd_empty
                           end)
                      all rd_empty
        | _, _ => rd_empty
        end in
      match kind_of s tr l, kind_of s tr r with
      | KMap t lm, KMap _ rm => maps t lm rm
      | KList t ll, KList _ rl => lists t ll rl
      | KLeaf, KLeaf => if veqb r l then rd_empty else mkRD [] [p] []
      (* null against a granular container: the empty container of that kind *)
      | KLeaf, KMap t rm =>
          match l with VNull | VMap [] => maps t [] rm | _ => rd_app (mkRD [] [p] []) (beneath true r) end
      | KMap t lm, KLeaf =>
          match r with VNull | VMap [] => maps t lm [] | _ => rd_app (mkRD [] [p] []) (beneath false l) end
      | KLeaf, KList t rl =>
          match l with VNull | VList [] => lists t [] rl | _ => rd_app (mkRD [] [p] []) (beneath true r) end
      | KList t ll, KLeaf =>
          match r with VNull | VList [] => lists t ll [] | _ => rd_app (mkRD [] [p] []) (beneath false l) end
      | KMap _ _, KList _ _ | KList _ _, KMap _ _ =>
          rd_app (mkRD [] [p] []) (rd_app (beneath false l) (beneath true r))
      | _, _ => rd_empty
      end
  end.

(* root-level diff: the root path itself cannot be a member of a set *)
Definition ref_diff (s : schema) (tr : typeref) (l r : value) : rdiff :=
  ref_diff_fuel (merge_fuel l r) s tr [] l r.
