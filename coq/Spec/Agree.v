(* Agreement of an object with a configuration (C01, C12 "right wins"), leaf
   enumeration with values, and the ordering laws of C12 -- all over the reference
   notions of Spec/Resolve.v. *)
From Coq Require Import List ZArith String Bool Arith.
From SMD Require Import Model.Value Model.Order Model.PathElem Model.Schema Model.Walk
  Spec.Resolve Spec.PathsAsSets.
Import ListNotations.
Open Scope bool_scope.

Fixpoint values_eqb' (a b : list value) : bool :=
  match a, b with
  | [], [] => true
  | x :: xs, y :: ys => veqb x y && values_eqb' xs ys
  | _, _ => false
  end.

Definition rnode_eqb (a b : rnode) : bool :=
  match a, b with
  | RNode _ x, RNode _ y => veqb x y
  | RDup _ xs, RDup _ ys => values_eqb' xs ys
  | _, _ => false
  end.

(* obj agrees with cfg: every node of cfg is present in obj, leaves carry cfg's value *)
Definition agrees (s : schema) (tr : typeref) (cfg obj : value) : bool :=
  forallb (fun pn : path * bool =>
             match resolve_path s tr obj (fst pn), resolve_path s tr cfg (fst pn) with
             | Some o, Some c => if snd pn then rnode_eqb c o else true
             | _, _ => false
             end) (nodes s tr cfg)
  && match kind_of s tr cfg with
     | KLeaf => veqb cfg obj          (* the configuration is a leaf at the root *)
     | _ => true
     end.

(* the leaf nodes of v with what they designate *)
Definition leaf_nodes (s : schema) (tr : typeref) (v : value) : list (path * rnode) :=
  flat_map (fun pn : path * bool =>
              if snd pn then match resolve_path s tr v (fst pn) with Some n => [(fst pn, n)] | None => [] end
              else []) (nodes s tr v).

Definition rnode_is_leaf (s : schema) (n : rnode) : bool :=
  match n with
  | RDup _ _ => true
  | RNode tr v => match kind_of s tr v with KLeaf | KBad => true | _ => false end
  end.

(* v has at p a leaf designating the same thing as n *)
Definition has_leaf (s : schema) (tr : typeref) (v : value) (p : path) (n : rnode) : bool :=
  match resolve_path s tr v p with
  | Some m => rnode_is_leaf s m && rnode_eqb m n
  | None => false
  end.

(* ---- ordering laws of merge over sets and associative lists (C12) ---- *)

Fixpoint pes_of_items (s : schema) (t : listT) (l : list value) : list pe :=
  match l with
  | [] => []
  | x :: rest =>
      match list_item_to_pe s t x with
      | Some e => e :: pes_of_items s t rest
      | None => pes_of_items s t rest
      end
  end.

Definition pe_in (e : pe) (l : list pe) : bool := existsb (peeqb e) l.

Fixpoint pes_eqb (a b : list pe) : bool :=
  match a, b with
  | [], [] => true
  | x :: xs, y :: ys => peeqb x y && pes_eqb xs ys
  | _, _ => false
  end.

Fixpoint dedup_pes (l : list pe) : list pe :=
  match l with
  | [] => []
  | x :: t => x :: filter (fun y => negb (peeqb x y)) (dedup_pes t)
  end.

(* is [a] a subsequence of [b] (by peeqb)? *)
Fixpoint subseq_pes (a b : list pe) : bool :=
  match a, b with
  | [], _ => true
  | _ :: _, [] => false
  | x :: xs, y :: ys => if peeqb x y then subseq_pes xs ys else subseq_pes a ys
  end.

Definition find_item (s : schema) (t : listT) (e : pe) (l : list value) : option value :=
  find (fun x => match list_item_to_pe s t x with Some e' => peeqb e' e | None => false end) l.

(* In every set / associative list of [out]: members of r keep r's relative order,
   members only in l keep l's relative order.  Walks the three objects jointly. *)
Fixpoint order_ok (fuel : nat) (s : schema) (tr : typeref) (l r out : option value) : bool :=
  match fuel with
  | O => true
  | S f =>
      match out with
      | None => true
      | Some o =>
          match kind_of s tr o with
          | KMap t om =>
              let lm := match l with Some (VMap m) => m | _ => [] end in
              let rm := match r with Some (VMap m) => m | _ => [] end in
              forallb (fun kv : string * value =>
                         order_ok f s (field_type t (fst kv)) (assoc_get (fst kv) lm) (assoc_get (fst kv) rm) (Some (snd kv))) om
          | KList t ol =>
              let ll := match l with Some (VList x) => x | _ => [] end in
              let rl := match r with Some (VList x) => x | _ => [] end in
              let lp := pes_of_items s t ll in
              let rp := pes_of_items s t rl in
              let op := pes_of_items s t ol in
              pes_eqb (filter (fun e => pe_in e rp) op) (dedup_pes rp)
              && pes_eqb (filter (fun e => negb (pe_in e rp)) op) (filter (fun e => negb (pe_in e rp)) lp)
              && forallb (fun x => match list_item_to_pe s t x with
                                   | Some e => order_ok f s (list_elem t) (find_item s t e ll) (find_item s t e rl) (Some x)
                                   | None => true
                                   end) ol
          | _ => true
          end
      end
  end.

(* r lists the members of every list it mentions in l's relative order *)
Fixpoint same_relative_order (fuel : nat) (s : schema) (tr : typeref) (l r : option value) : bool :=
  match fuel with
  | O => true
  | S f =>
      match r with
      | None => true
      | Some rv =>
          match kind_of s tr rv with
          | KMap t rm =>
              let lm := match l with Some (VMap m) => m | _ => [] end in
              forallb (fun kv : string * value =>
                         same_relative_order f s (field_type t (fst kv)) (assoc_get (fst kv) lm) (Some (snd kv))) rm
          | KList t rl =>
              let ll := match l with Some (VList x) => x | _ => [] end in
              subseq_pes (pes_of_items s t rl) (pes_of_items s t ll)
              && forallb (fun x => match list_item_to_pe s t x with
                                   | Some e => same_relative_order f s (list_elem t) (find_item s t e ll) (Some x)
                                   | None => true
                                   end) rl
          | _ => true
          end
      end
  end.
