(* Reference notions the properties speak about, written independently of the walkers:
   node kinds, the path resolver, node enumeration, equality up to member order,
   the plain and duplicate-free domains. *)
From Coq Require Import List ZArith String Bool Arith.
From SMD Require Import Model.Value Model.Order Model.PathElem Model.Schema Model.Walk.
Import ListNotations.
Open Scope bool_scope.

(* how a (non-absent) value of type tr is seen: a leaf, a granular map or a granular list *)
Inductive vkind : Type :=
| KLeaf
| KMap (t : mapT) (m : list (string * value))
| KList (t : listT) (l : list value)
| KBad.

Definition kind_of (s : schema) (tr : typeref) (v : value) : vkind :=
  match resolve s tr with
  | None => KBad
  | Some (Atom sc li ma) =>
      match v with
      | VNull => KLeaf
      | VMap m =>
          match ma with
          | Some t => if rel_is_atomic (map_rel t) then KLeaf
                      else match m with [] => KLeaf | _ => KMap t m end
          | None => KBad
          end
      | VList l =>
          match li with
          | Some t => if rel_is_atomic (list_rel t) then KLeaf
                      else match l with [] => KLeaf | _ => KList t l end
          | None => KBad
          end
      | _ => match sc with Some _ => KLeaf | None => KBad end
      end
  end.

(* items of an associative list grouped by path element, in first-occurrence order *)
Fixpoint group_items (s : schema) (t : listT) (l : list value) (acc : list (pe * list value))
  : option (list (pe * list value)) :=
  match l with
  | [] => Some acc
  | x :: rest =>
      match list_item_to_pe s t x with
      | None => None
      | Some e =>
          let fix ins (acc : list (pe * list value)) : list (pe * list value) :=
              match acc with
              | [] => [(e, [x])]
              | (e', xs) :: t' => if peeqb e' e then (e', xs ++ [x]) :: t' else (e', xs) :: ins t'
              end in
          group_items s t rest (ins acc)
      end
  end.

Definition lookup_group (e : pe) (g : list (pe * list value)) : option (list value) :=
  match find (fun ex => peeqb (fst ex) e) g with Some (_, xs) => Some xs | None => None end.

(* the path resolver: what a path designates inside v.
   RNode tr v: a single node; RDup: a group of duplicate members (opaque) *)
Inductive rnode : Type :=
| RNode (tr : typeref) (v : value)
| RDup (tr : typeref) (vs : list value).

Fixpoint resolve_path (s : schema) (tr : typeref) (v : value) (p : path) {struct p} : option rnode :=
  match p with
  | [] => Some (RNode tr v)
  | e :: rest =>
      match kind_of s tr v, e with
      | KMap t m, PEField k =>
          match assoc_get k m with
          | Some child => resolve_path s (field_type t k) child rest
          | None => None
          end
      | KList t l, (PEKey _ | PEValue _) =>
          match group_items s t l [] with
          | None => None
          | Some g =>
              match lookup_group e g with
              | Some [x] => resolve_path s (list_elem t) x rest
              | Some (x :: y :: more) =>
                  match rest with [] => Some (RDup (list_elem t) (x :: y :: more)) | _ => None end
              | _ => None
              end
          end
      | _, _ => None
      end
  end.

Definition present (s : schema) (tr : typeref) (v : value) (p : path) : bool :=
  match resolve_path s tr v p with Some _ => true | None => false end.

(* all nodes strictly beneath the root, tagged leaf (true) / interior (false);
   a duplicate group is a single leaf node *)
Fixpoint nodes_fuel (fuel : nat) (s : schema) (tr : typeref) (v : value) (prefix : path)
  : list (path * bool) :=
  match fuel with
  | O => []
  | S f =>
      match kind_of s tr v with
      | KMap t m =>
          flat_map (fun kv : string * value =>
                      let p := prefix ++ [PEField (fst kv)] in
                      let ct := field_type t (fst kv) in
                      let sub := nodes_fuel f s ct (snd kv) p in
                      (p, match kind_of s ct (snd kv) with KLeaf | KBad => true | _ => false end) :: sub) m
      | KList t l =>
          match group_items s t l [] with
          | None => []
          | Some g =>
              flat_map (fun ex : pe * list value =>
                          let p := prefix ++ [fst ex] in
                          match snd ex with
                          | [x] =>
                              (p, match kind_of s (list_elem t) x with KLeaf | KBad => true | _ => false end)
                              :: nodes_fuel f s (list_elem t) x p
                          | _ => [(p, true)]
                          end) g
          end
      | _ => []
      end
  end.

Definition nodes (s : schema) (tr : typeref) (v : value) : list (path * bool) :=
  nodes_fuel (S (vdepth v)) s tr v [].

(* ---- equality up to the order of members of sets and associative lists ---- *)

Fixpoint insert_by_pe (x : pe * value) (l : list (pe * value)) : list (pe * value) :=
  match l with
  | [] => [x]
  | y :: t => if peless (fst y) (fst x) then y :: insert_by_pe x t
              else x :: l
  end.

(* canonical form: items of associative lists sorted by path element (stable).  A group
   of duplicate members counts as a single node, compared as a whole like an atomic value:
   its members are left as they are (and the stable sort keeps their order). *)
Fixpoint canon_fuel (fuel : nat) (s : schema) (tr : typeref) (v : value) : value :=
  match fuel with
  | O => v
  | S f =>
      match kind_of s tr v with
      | KMap t m => VMap (map (fun kv => (fst kv, canon_fuel f s (field_type t (fst kv)) (snd kv))) m)
      | KList t l =>
          let pe_of x := match list_item_to_pe s t x with Some e => e | None => PEIndex 0 end in
          let occurs e := List.length (filter (fun y => peeqb (pe_of y) e) l) in
          let keyed := map (fun x => (pe_of x,
                                      if Nat.leb 2 (occurs (pe_of x)) then x
                                      else canon_fuel f s (list_elem t) x)) l in
          VList (map snd (fold_right insert_by_pe [] keyed))
      | _ => v
      end
  end.

Definition canon (s : schema) (tr : typeref) (v : value) : value :=
  canon_fuel (S (vdepth v)) s tr v.

Definition veq_assoc (s : schema) (tr : typeref) (a b : value) : bool :=
  veqb (canon s tr a) (canon s tr b).

(* ---- domains ---- *)

(* plain: no explicit null, no empty list or map anywhere, the root included *)
Fixpoint plain (v : value) : bool :=
  match v with
  | VNull => false
  | VList [] => false
  | VMap [] => false
  | VList l => forallb plain l
  | VMap m => forallb (fun kv => plain (snd kv)) m
  | _ => true
  end.

(* no set or associative list holds two members with the same path element *)
Fixpoint dup_free_fuel (fuel : nat) (s : schema) (tr : typeref) (v : value) : bool :=
  match fuel with
  | O => false
  | S f =>
      match kind_of s tr v with
      | KMap t m => forallb (fun kv => dup_free_fuel f s (field_type t (fst kv)) (snd kv)) m
      | KList t l =>
          match group_items s t l [] with
          | None => false
          | Some g =>
              forallb (fun ex => match snd ex with [_] => true | _ => false end) g
              && forallb (dup_free_fuel f s (list_elem t)) l
          end
      | _ => true
      end
  end.

Definition dup_free (s : schema) (tr : typeref) (v : value) : bool :=
  dup_free_fuel (S (vdepth v)) s tr v.
