(* A small concrete schema used by the Examples / refutation witnesses in Properties/. *)
From Coq Require Import List ZArith String Bool.
From SMD Require Import Model.Value Model.Schema.
Import ListNotations.
Open Scope string_scope.

Definition ex_str := TR None (Atom (Some SString) None None) None.
Definition ex_num := TR None (Atom (Some SNumeric) None None) None.
Definition ex_named (n : string) := TR (Some n) empty_atom None.
Definition ex_item : atom :=
  Atom None None (Some (MapT [SField "name" ex_str None; SField "vv" ex_num None;
                              SField "tags" (TR None (Atom None (Some (ListT ex_str RAssociative [])) None) None) None]
                             empty_tr RUnset)).
Definition ex_root : atom :=
  Atom None None
    (Some (MapT [SField "aa" ex_num None;
                 SField "items" (TR None (Atom None (Some (ListT (ex_named "item") RAssociative ["name"])) None) None) None;
                 SField "mm" (TR None (Atom None None (Some (MapT [] ex_num RUnset))) None) None]
                empty_tr RUnset)).
Definition ex_schema : schema := [("root", ex_root); ("item", ex_item)].
Definition ex_rt := ex_named "root".

(* a single-version updater configuration over ex_schema: identity converter, nothing ignored *)
From SMD Require Import Model.PathSet Model.Matcher Model.Updater.
Definition ex_config : config :=
  mkConfig (fun _ => (ex_schema, ex_rt)) (fun _ _ _ v => COk v) None None false (fun l => l).
