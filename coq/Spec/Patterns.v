(* Reference semantics of the include-pattern filter (C19): a path is kept when it is
   compatible with one of the patterns -- every element up to the shorter length matches,
   wildcards matching anything and shadowing specific patterns at the same position. *)
From Coq Require Import List ZArith String Bool.
From SMD Require Import Model.Value Model.Order Model.PathElem Model.Matcher.
Import ListNotations.
Open Scope bool_scope.

Definition is_wild (m : pematcher) : bool := match m with PMWild => true | _ => false end.

Definition head_matches (e : pe) (pat : list pematcher) : bool :=
  match pat with
  | PMElem x :: _ => peeqb x e
  | _ => false
  end.

Definition head_wild (pat : list pematcher) : bool :=
  match pat with PMWild :: _ => true | _ => false end.

(* pats: the patterns still compatible with the part of the path consumed so far *)
Fixpoint keep_path (pats : list (list pematcher)) (p : path) {struct p} : bool :=
  match p with
  | [] => false
  | e :: rest =>
      (* an exhausted pattern matches every suffix *)
      if existsb (fun pat => match pat with [] => true | _ => false end) pats then true
      else
        let wild := filter head_wild pats in
        let cands := match wild with [] => filter (head_matches e) pats | _ => wild end in
        match cands with
        | [] => false
        | _ =>
            match rest with
            | [] => true
            | _ => keep_path (map (@tl pematcher) cands) rest
            end
        end
  end.

(* no pattern at all: the filter includes everything *)
Definition include_keeps (pats : list (list pematcher)) (p : path) : bool :=
  match pats with
  | [] => true
  | _ => keep_path pats p
  end.
