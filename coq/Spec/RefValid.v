(* Independent reference validator, written from the text of property C13: scalar kinds,
   declared or element-typed map fields, lists and maps of the right shape, key fields
   present or defaulted in keyed lists, only scalars as set members, member uniqueness
   unless duplicates are explicitly allowed, null accepted in place of any value except
   as a member of a set or keyed list. *)
From Coq Require Import List ZArith String Bool Arith.
From SMD Require Import Model.Value Model.Order Model.PathElem Model.Schema Model.Walk.
Import ListNotations.
Open Scope bool_scope.

Definition scalar_ok (t : scalar) (v : value) : bool :=
  match t, v with
  | SNumeric, (VInt _ | VFloat _) => true
  | SString, VStr _ => true
  | SBoolean, VBool _ => true
  | SUntyped, (VInt _ | VFloat _ | VStr _ | VBool _) => true
  | _, _ => false
  end.

Fixpoint all_distinct (l : list pe) : bool :=
  match l with
  | [] => true
  | e :: t => negb (existsb (peeqb e) t) && all_distinct t
  end.

Definition atom_nonempty (a : atom) : bool :=
  match a with Atom None None None => false | _ => true end.

Fixpoint conforms (s : schema) (tr : typeref) (dup : bool) (v : value) {struct v} : bool :=
  match resolve s tr with
  | None => false
  | Some (Atom sc li ma as a) =>
      match v with
      | VNull => atom_nonempty a
      | VList l =>
          match li with
          | None => false
          | Some t =>
              match list_rel t with
              | RAssociative =>
                  (* every member has a path element (keyed: a map with its key fields
                     present or defaulted; set: a scalar), conforms, and is unique *)
                  forallb (fun x => match list_item_to_pe s t x with Some _ => true | None => false end) l
                  && (fix each (l : list value) : bool :=
                        match l with
                        | [] => true
                        | x :: rest => conforms s (list_elem t) dup x && each rest
                        end) l
                  && (dup || all_distinct (flat_map (fun x => match list_item_to_pe s t x with Some e => [e] | None => [] end) l))
              | _ =>
                  (fix each (l : list value) : bool :=
                     match l with
                     | [] => true
                     | x :: rest => conforms s (list_elem t) dup x && each rest
                     end) l
              end
          end
      | VMap m =>
          match ma with
          | None => false
          | Some t =>
              (fix each (m : list (string * value)) : bool :=
                 match m with
                 | [] => true
                 | (k, x) :: rest =>
                     (if has_field t k then conforms s (field_type t k) dup x
                      else negb (is_empty_tr (map_elem t)) && conforms s (map_elem t) dup x)
                     && each rest
                 end) m
          end
      | _ =>
          match sc with
          | Some t => scalar_ok t v
          | None => false
          end
      end
  end.
