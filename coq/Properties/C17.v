(* C17 — Equalities and orderings are lawful and agree with each other.
   Only theorem statements closed by [exact]; the proofs are in Proofs/. *)
From Coq Require Import List ZArith QArith String Bool.
From SMD Require Import Model.Value Model.Order Model.PathElem Model.Matcher.

(* integers and floats compare numerically *)
Theorem C17_int_float_numeric : forall z q,
  vcmp (VInt z) (VFloat q) = Qcompare (inject_Z z) q /\
  vcmp (VFloat q) (VInt z) = Qcompare q (inject_Z z) /\
  veqb (VInt z) (VFloat q) = Qeq_bool (inject_Z z) q.
Proof. intros z q. repeat split. Qed.
Print Assumptions C17_int_float_numeric.
