(* C17 — Equalities and orderings are lawful and agree with each other.
   This file holds only statements; every theorem is closed by [exact] of a lemma
   proved in Proofs/OrderLaws.v, followed by Print Assumptions.

   The model's comparison functions (Model/Order.v, Model/PathElem.v, Model/Matcher.v)
   are transliterations of value.Compare/Equals/Less, FieldList.Compare/Equals,
   PathElement.Compare/Equals/Less, Path.Compare/Equals and
   PathElementMatcher.Compare/Equals/Less.  [wf_value] is the representation invariant
   of model maps (unique, sorted keys) which Go maps satisfy by construction. *)
From Coq Require Import List ZArith QArith String Bool.
From SMD Require Import Model.Value Model.Order Model.PathElem Model.Matcher Model.Schema Proofs.OrderLaws Proofs.SchemaEqLaws.
Import ListNotations.

(* ---- a lawful total preorder, stated once ---- *)
Definition lawful {A} (cmp : A -> A -> comparison) : Prop :=
  (forall a b, cmp a b = CompOpp (cmp b a)) /\                       (* antisymmetric *)
  (forall a b c, cmp a b = Lt -> cmp b c = Lt -> cmp a c = Lt) /\    (* transitive *)
  (forall a b c, cmp a b = Eq -> cmp a c = cmp b c) /\               (* equal elements *)
  (forall a b c, cmp b c = Eq -> cmp a b = cmp a c).                 (* are interchangeable *)

(* ---- values ---- *)
Theorem C17_value_order_lawful : lawful vcmp.
Proof. exact (conj vcmp_antisym (conj vcmp_trans_lt (conj vcmp_eq_l vcmp_eq_r))). Qed.
Print Assumptions C17_value_order_lawful.

Theorem C17_value_compare_zero_iff_equals : forall a b,
  wf_value a = true -> wf_value b = true -> (vcmp a b = Eq <-> veqb a b = true).
Proof. exact vcmp_eq_iff_veqb. Qed.
Print Assumptions C17_value_compare_zero_iff_equals.

Theorem C17_value_less_iff_negative : forall a b, vless a b = true <-> vcmp a b = Lt.
Proof. exact vless_iff. Qed.
Print Assumptions C17_value_less_iff_negative.

Theorem C17_value_equals_reflexive : forall a, wf_value a = true -> veqb a a = true.
Proof. exact veqb_refl. Qed.
Print Assumptions C17_value_equals_reflexive.

Theorem C17_value_equals_symmetric : forall a b,
  wf_value a = true -> wf_value b = true -> veqb a b = veqb b a.
Proof. exact veqb_sym. Qed.
Print Assumptions C17_value_equals_symmetric.

(* integers and floats compare numerically (exact rational comparison; it coincides
   with Go's float64(int) comparison for |int| <= 2^53, the domain of the property) *)
Theorem C17_int_float_numeric : forall z q,
  vcmp (VInt z) (VFloat q) = Qcompare (inject_Z z) q /\
  vcmp (VFloat q) (VInt z) = Qcompare q (inject_Z z) /\
  veqb (VInt z) (VFloat q) = Qeq_bool (inject_Z z) q.
Proof. exact (fun z q => conj (vcmp_int_float z q) (conj (vcmp_float_int z q) (veqb_int_float z q))). Qed.
Print Assumptions C17_int_float_numeric.

(* ---- key lists ---- *)
Theorem C17_keylist_order_lawful : lawful fl_cmp.
Proof. exact (conj fl_cmp_antisym (conj fl_cmp_trans_lt (conj fl_cmp_eq_l fl_cmp_eq_r))). Qed.
Print Assumptions C17_keylist_order_lawful.

Theorem C17_keylist_compare_zero_iff_equals : forall a b,
  wf_fl a = true -> wf_fl b = true -> (fl_cmp a b = Eq <-> fl_eqb a b = true).
Proof. exact fl_cmp_eq_iff. Qed.
Print Assumptions C17_keylist_compare_zero_iff_equals.

Theorem C17_keylist_equals_refl_sym : forall a b, wf_fl a = true -> wf_fl b = true ->
  fl_eqb a a = true /\ fl_eqb a b = fl_eqb b a.
Proof. exact (fun a b Ha Hb => conj (fl_eqb_refl a Ha) (fl_eqb_sym a b Ha Hb)). Qed.
Print Assumptions C17_keylist_equals_refl_sym.

(* ---- path elements ---- *)
Theorem C17_pathelement_order_lawful : lawful pecmp.
Proof. exact (conj pecmp_antisym (conj pecmp_trans_lt (conj pecmp_eq_l pecmp_eq_r))). Qed.
Print Assumptions C17_pathelement_order_lawful.

Theorem C17_pathelement_compare_zero_iff_equals : forall a b,
  wf_pe a = true -> wf_pe b = true -> (pecmp a b = Eq <-> peeqb a b = true).
Proof. exact pecmp_eq_iff. Qed.
Print Assumptions C17_pathelement_compare_zero_iff_equals.

Theorem C17_pathelement_less_iff_negative : forall a b, peless a b = true <-> pecmp a b = Lt.
Proof. exact peless_iff. Qed.
Print Assumptions C17_pathelement_less_iff_negative.

Theorem C17_pathelement_equals_refl_sym : forall a b, wf_pe a = true -> wf_pe b = true ->
  peeqb a a = true /\ peeqb a b = peeqb b a.
Proof. exact (fun a b Ha Hb => conj (peeqb_refl a Ha) (peeqb_sym a b Ha Hb)). Qed.
Print Assumptions C17_pathelement_equals_refl_sym.

(* ---- paths ---- *)
Theorem C17_path_order_lawful : lawful pathcmp.
Proof. exact (conj pathcmp_antisym (conj pathcmp_trans_lt (conj pathcmp_eq_l pathcmp_eq_r))). Qed.
Print Assumptions C17_path_order_lawful.

Theorem C17_path_compare_zero_iff_equals : forall a b,
  wf_path a = true -> wf_path b = true -> (pathcmp a b = Eq <-> patheqb a b = true).
Proof. exact pathcmp_eq_iff. Qed.
Print Assumptions C17_path_compare_zero_iff_equals.

Theorem C17_path_equals_refl_sym : forall a b, wf_path a = true -> wf_path b = true ->
  patheqb a a = true /\ patheqb a b = patheqb b a.
Proof. exact (fun a b Ha Hb => conj (patheqb_refl a Ha) (patheqb_sym a b Ha Hb)). Qed.
Print Assumptions C17_path_equals_refl_sym.

(* ---- path-element matchers (the code as repaired by the fix: commits 88a4998) ---- *)
Theorem C17_matcher_order_lawful : lawful pm_cmp.
Proof. exact (conj pm_cmp_antisym (conj pm_cmp_trans_lt (conj pm_cmp_eq_l pm_cmp_eq_r))). Qed.
Print Assumptions C17_matcher_order_lawful.

Theorem C17_matcher_compare_zero_iff_equals : forall a b,
  wf_pm a = true -> wf_pm b = true -> (pm_cmp a b = Eq <-> pm_eqb a b = true).
Proof. exact pm_cmp_eq_iff. Qed.
Print Assumptions C17_matcher_compare_zero_iff_equals.

Theorem C17_matcher_less_iff_negative : forall a b, pm_less a b = true <-> pm_cmp a b = Lt.
Proof. exact pm_less_iff. Qed.
Print Assumptions C17_matcher_less_iff_negative.

(* ---- schemas (schema/equals.go as repaired by 96c9872 and 7dfbd34): equality of type
   references, atoms and schemas is an equivalence relation, and equal schemas resolve
   every reference to equal atoms ---- *)
Theorem C17_typeref_equals_reflexive :
  forall a : typeref, tr_eqb a a = true.
Proof. exact tr_eqb_refl. Qed.
Print Assumptions C17_typeref_equals_reflexive.

Theorem C17_typeref_equals_symmetric :
  forall a b : typeref, tr_eqb a b = tr_eqb b a.
Proof. exact tr_eqb_sym. Qed.
Print Assumptions C17_typeref_equals_symmetric.

Theorem C17_typeref_equals_transitive :
  forall a b c : typeref, tr_eqb a b = true -> tr_eqb b c = true -> tr_eqb a c = true.
Proof. exact tr_eqb_trans. Qed.
Print Assumptions C17_typeref_equals_transitive.

Theorem C17_atom_equals_reflexive :
  forall a : atom, atom_eqb a a = true.
Proof. exact atom_eqb_refl. Qed.
Print Assumptions C17_atom_equals_reflexive.

Theorem C17_atom_equals_symmetric :
  forall a b : atom, atom_eqb a b = atom_eqb b a.
Proof. exact atom_eqb_sym. Qed.
Print Assumptions C17_atom_equals_symmetric.

Theorem C17_atom_equals_transitive :
  forall a b c : atom, atom_eqb a b = true -> atom_eqb b c = true -> atom_eqb a c = true.
Proof. exact atom_eqb_trans. Qed.
Print Assumptions C17_atom_equals_transitive.

Theorem C17_schema_equals_reflexive :
  forall a : schema, schema_eqb a a = true.
Proof. exact schema_eqb_refl. Qed.
Print Assumptions C17_schema_equals_reflexive.

Theorem C17_schema_equals_symmetric :
  forall a b : schema, schema_eqb a b = schema_eqb b a.
Proof. exact schema_eqb_sym. Qed.
Print Assumptions C17_schema_equals_symmetric.

Theorem C17_schema_equals_transitive :
  forall a b c : schema,
         schema_eqb a b = true -> schema_eqb b c = true -> schema_eqb a c = true.
Proof. exact schema_eqb_trans. Qed.
Print Assumptions C17_schema_equals_transitive.

Theorem C17_equal_schemas_resolve_alike :
  forall (s1 s2 : schema) (tr : typeref),
         schema_eqb s1 s2 = true ->
         match resolve s1 tr with
         | Some a1 =>
             match resolve s2 tr with
             | Some a2 => atom_eqb a1 a2 = true
             | None => False
             end
         | None => match resolve s2 tr with
                   | Some _ => False
                   | None => True
                   end
         end.
Proof. exact schema_eqb_resolve. Qed.
Print Assumptions C17_equal_schemas_resolve_alike.


(* ---- non-vacuity: the hypotheses are met by concrete, non-trivial data ---- *)
Example C17_wf_example :
  let a := VMap [("a"%string, VInt 1); ("b"%string, VList [VFloat (1 # 2); VNull])] in
  let b := VMap [("a"%string, VFloat (2 # 2)); ("b"%string, VList [VFloat (2 # 4); VNull])] in
  wf_value a = true /\ wf_value b = true /\ veqb a b = true /\ vcmp a b = Eq /\ a <> b.
Proof. repeat split; try reflexivity. discriminate. Qed.
