(* C05 — Ownership records are updated exactly.  Statements only; proofs in
   Proofs/UpdaterLaws.v and Proofs/UpdaterLaws2.v.  Single-version case without ignore
   configuration.  Hypotheses: [compare_ok_wf], [fs_ok_wf], [conv_wf] say that comparing
   and field-set extraction of WELL-FORMED objects yield well-formed sets and that the
   converter preserves well-formedness (discharged for schemas satisfying schema_ok by
   C11/C14, shown satisfiable at the end); [mf0] is the ownership map after the
   schema reconciliation that opens every operation (C20). *)
From Coq Require Import List ZArith String Bool.
From SMD Require Import Model.Value Model.Order Model.PathElem Model.PathSet Model.Schema Model.Walk
  Model.FieldSet Model.Compare Model.Matcher Model.Updater Spec.PathsAsSets Spec.Examples
  Proofs.OrderLaws Proofs.PathSetLaws Proofs.UpdaterLaws Proofs.UpdaterLaws2.
Import ListNotations.
Open Scope list_scope.

Theorem C05_apply_actor_record :
  forall (c : config) (live cfg : string * value) (ver : string) 
           (mf mf0 : managed) (n0 : nat) (mgr : string) (force : bool) 
           (o : option tv) (mf' : managed),
         no_ignore c ->
         compare_ok_wf c ->
         fs_ok_wf c ->
         conv_wf c ->
         wf_value (snd live) = true ->
         wf_value (snd cfg) = true ->
         reconcile_managed c 0 live mf = UOk (mf0, n0) ->
         mf_ok mf0 ->
         single_version ver mf0 ->
         apply_op c live cfg ver mf mgr force = UOk (o, mf') ->
         exists fs : pset,
           to_fs c cfg = Some fs /\
           mf_get mgr mf' =
           (if ps_empty fs
            then None
            else Some {| mr_set := fs; mr_ver := ver; mr_applied := true |}).
Proof. exact apply_op_actor_record. Qed.
Print Assumptions C05_apply_actor_record.

Theorem C05_update_actor_record :
  forall (c : config) (live new : string * value) (ver : string) 
           (mf mf0 : managed) (n0 : nat) (mgr : string) (o : tv) (mf' : managed),
         no_ignore c ->
         compare_ok_wf c ->
         wf_value (snd live) = true ->
         wf_value (snd new) = true ->
         reconcile_managed c 0 live mf = UOk (mf0, n0) ->
         mf_ok mf0 ->
         single_version ver mf0 ->
         update_op c live new ver mf mgr = UOk (o, mf') ->
         o = new /\
         (exists cmp : comparison3,
            compare_tv c live new = Some cmp /\
            (let before :=
               fun p : path =>
               match mf_get mgr mf0 with
               | Some r => ps_has p (mr_set r)
               | None => false
               end in
             let after :=
               fun p : path =>
               before p && negb (ps_has p (removed cmp)) || ps_has p (modified cmp)
               || ps_has p (added cmp) in
             match mf_get mgr mf' with
             | Some r' =>
                 mr_ver r' = ver /\
                 mr_applied r' = false /\
                 ps_ok (mr_set r') = true /\
                 (forall p : path, wf_path p = true -> p <> [] -> ps_has p (mr_set r') = after p)
             | None => forall p : path, wf_path p = true -> p <> [] -> after p = false
             end)).
Proof. exact update_op_actor_record. Qed.
Print Assumptions C05_update_actor_record.

Theorem C05_other_records :
  forall (c : config) (n : nat) (old new : tv) (ver : string) 
           (mf : managed) (w : string) (force : bool) (mf' : managed) 
           (cmp : comparison3) (n' : nat),
         no_ignore c ->
         single_version ver mf ->
         mf_ok mf ->
         (forall cmp0 : comparison3, compare_tv c old new = Some cmp0 -> cmp_ok cmp0) ->
         update_core c n old new ver mf w force = UOk (mf', cmp, n') ->
         compare_tv c old new = Some cmp /\
         n' = n /\
         mf_ok mf' /\
         single_version ver mf' /\
         (forall (m : string) (r : mrec), mf_get m mf' = Some r -> ps_empty (mr_set r) = false) /\
         mf_get w mf' =
         match mf_get w mf with
         | Some r => if ps_empty (mr_set r) then None else Some r
         | None => None
         end /\
         (forall m : string,
          m <> w ->
          match mf_get m mf with
          | Some r =>
              match mf_get m mf' with
              | Some r' =>
                  mr_ver r' = mr_ver r /\
                  mr_applied r' = mr_applied r /\
                  (forall p : path,
                   wf_path p = true -> p <> [] -> ps_has p (mr_set r') = keeps r cmp p)
              | None => forall p : path, wf_path p = true -> p <> [] -> keeps r cmp p = false
              end
          | None => mf_get m mf' = None
          end).
Proof. exact update_core_records. Qed.
Print Assumptions C05_other_records.

Theorem C05_hypotheses_satisfiable_compare :
  compare_ok_wf ex_config.
Proof. exact ex_config_compare_ok. Qed.
Print Assumptions C05_hypotheses_satisfiable_compare.

Theorem C05_hypotheses_satisfiable_fs :
  fs_ok_wf ex_config.
Proof. exact ex_config_fs_ok. Qed.
Print Assumptions C05_hypotheses_satisfiable_fs.

Theorem C05_hypotheses_satisfiable_conv :
  conv_wf ex_config.
Proof. exact ex_config_conv_wf. Qed.
Print Assumptions C05_hypotheses_satisfiable_conv.

Theorem C05_hypotheses_satisfiable_noignore :
  no_ignore ex_config.
Proof. exact ex_config_no_ignore. Qed.
Print Assumptions C05_hypotheses_satisfiable_noignore.

