(* C05 — Ownership records are updated exactly.  Statements only; proofs in
   Proofs/UpdaterLaws.v and Proofs/UpdaterLaws2.v.  Single-version case without ignore
   configuration.  Hypotheses: [compare_ok_wf], [fs_ok_wf], [conv_wf] say that comparing
   and field-set extraction of WELL-FORMED objects yield well-formed sets and that the
   converter preserves well-formedness (discharged for schemas satisfying schema_ok by
   C11/C14, shown satisfiable at the end); [mf0] is the ownership map after the
   schema reconciliation that opens every operation (C20). *)
From Coq Require Import List ZArith String Bool.
From SMD Require Import Model.Value Model.Order Model.PathElem Model.PathSet Model.Schema Model.Walk
  Model.FieldSet Model.Compare Model.Matcher Model.Updater Spec.PathsAsSets Spec.Examples
  Proofs.OrderLaws Proofs.PathSetLaws Proofs.UpdaterLaws Proofs.UpdaterLaws2.
Import ListNotations.
Open Scope list_scope.

Theorem C05_apply_actor_record :
  forall (c : config) (live cfg : string * value) (ver : string) 
           (mf mf0 : managed) (n0 : nat) (mgr : string) (force : bool) 
           (o : option tv) (mf' : managed),
         no_ignore c ->
         compare_ok_wf c ->
         fs_ok_wf c ->
         conv_wf c ->
         wf_value (snd live) = true ->
         wf_value (snd cfg) = true ->
         reconcile_managed c 0 live mf = UOk (mf0, n0) ->
         mf_ok mf0 ->
         single_version ver mf0 ->
         apply_op c live cfg ver mf mgr force = UOk (o, mf') ->
         exists fs : pset,
           to_fs c cfg = Some fs /\
           mf_get mgr mf' =
           (if ps_empty fs
            then None
            else Some {| mr_set := fs; mr_ver := ver; mr_applied := true |}).
Proof. exact apply_op_actor_record. Qed.
Print Assumptions C05_apply_actor_record.

Theorem C05_update_actor_record :
  forall (c : config) (live new : string * value) (ver : string) 
           (mf mf0 : managed) (n0 : nat) (mgr : string) (o : tv) (mf' : managed),
         no_ignore c ->
         compare_ok_wf c ->
         wf_value (snd live) = true ->
         wf_value (snd new) = true ->
         reconcile_managed c 0 live mf = UOk (mf0, n0) ->
         mf_ok mf0 ->
         single_version ver mf0 ->
         update_op c live new ver mf mgr = UOk (o, mf') ->
         o = new /\
         (exists cmp : comparison3,
            compare_tv c live new = Some cmp /\
            (let before :=
               fun p : path =>
               match mf_get mgr mf0 with
               | Some r => ps_has p (mr_set r)
               | None => false
               end in
             let after :=
               fun p : path =>
               before p && negb (ps_has p (removed cmp)) || ps_has p (modified cmp)
               || ps_has p (added cmp) in
             match mf_get mgr mf' with
             | Some r' =>
                 mr_ver r' = ver /\
                 mr_applied r' = false /\
                 ps_ok (mr_set r') = true /\
                 (forall p : path, wf_path p = true -> p <> [] -> ps_has p (mr_set r') = after p)
             | None => forall p : path, wf_path p = true -> p <> [] -> after p = false
             end)).
Proof. exact update_op_actor_record. Qed.
Print Assumptions C05_update_actor_record.

Theorem C05_other_records :
  forall (c : config) (n : nat) (old new : tv) (ver : string) 
           (mf : managed) (w : string) (force : bool) (mf' : managed) 
           (cmp : comparison3) (n' : nat),
         no_ignore c ->
         single_version ver mf ->
         mf_ok mf ->
         (forall cmp0 : comparison3, compare_tv c old new = Some cmp0 -> cmp_ok cmp0) ->
         update_core c n old new ver mf w force = UOk (mf', cmp, n') ->
         compare_tv c old new = Some cmp /\
         n' = n /\
         mf_ok mf' /\
         single_version ver mf' /\
         (forall (m : string) (r : mrec), mf_get m mf' = Some r -> ps_empty (mr_set r) = false) /\
         mf_get w mf' =
         match mf_get w mf with
         | Some r => if ps_empty (mr_set r) then None else Some r
         | None => None
         end /\
         (forall m : string,
          m <> w ->
          match mf_get m mf with
          | Some r =>
              match mf_get m mf' with
              | Some r' =>
                  mr_ver r' = mr_ver r /\
                  mr_applied r' = mr_applied r /\
                  (forall p : path,
                   wf_path p = true -> p <> [] -> ps_has p (mr_set r') = keeps r cmp p)
              | None => forall p : path, wf_path p = true -> p <> [] -> keeps r cmp p = false
              end
          | None => mf_get m mf' = None
          end).
Proof. exact update_core_records. Qed.
Print Assumptions C05_other_records.

Theorem C05_hypotheses_satisfiable_compare :
  compare_ok_wf ex_config.
Proof. exact ex_config_compare_ok. Qed.
Print Assumptions C05_hypotheses_satisfiable_compare.

Theorem C05_hypotheses_satisfiable_fs :
  fs_ok_wf ex_config.
Proof. exact ex_config_fs_ok. Qed.
Print Assumptions C05_hypotheses_satisfiable_fs.

Theorem C05_hypotheses_satisfiable_conv :
  conv_wf ex_config.
Proof. exact ex_config_conv_wf. Qed.
Print Assumptions C05_hypotheses_satisfiable_conv.

Theorem C05_hypotheses_satisfiable_noignore :
  no_ignore ex_config.
Proof. exact ex_config_no_ignore. Qed.
Print Assumptions C05_hypotheses_satisfiable_noignore.


(* ---- C05 at the level of Apply and Update, along every history (Proofs/RecordsHistory.v):
   at every state satisfying the invariant of Proofs/History.v -- hence at every reachable
   state -- the records are rewritten exactly as the property says, the sets being described
   through the INDEPENDENT reference diff between the live object and the result:
   the updater owns (before \ removed) + modified + added, not flagged as applied, and gets
   the submitted object back; the applier owns exactly the field set of its configuration,
   flagged as applied; every other manager loses exactly the removed, modified and added
   paths and keeps version and flag; a record that becomes empty disappears. ---- *)
From Coq Require Import List ZArith String Bool Arith Lia.
From SMD Require Import Model.Value Model.Order Model.PathElem Model.PathSet Model.Schema Model.Walk
  Model.Validate Model.FieldSet Model.Remove Model.Merge Model.Compare Model.Matcher Model.Reconcile
  Model.Updater
  Spec.PathsAsSets Spec.RefValid Spec.Resolve Spec.Agree Spec.RefDiff Spec.Examples
  Proofs.OrderLaws Proofs.PathSetLaws Proofs.SchemaOk Proofs.FieldSetBase Proofs.FieldSetPaths
  Proofs.FieldSetWf Proofs.FieldSetLaws Proofs.RemoveAbsent Proofs.RemoveWf Proofs.ResolveLaws
  Proofs.UpdaterLaws Proofs.UpdaterLaws2 Proofs.MergeLaws Proofs.MergeAgree
  Proofs.RemoveFrame Proofs.EnLaws Proofs.NodeSet Proofs.KeyFields Proofs.VeqbResolve
  Proofs.SetCheckers Proofs.ApplyEffect Proofs.RefDiffBoth Proofs.RefDiffLaws Proofs.RefDiffPresent
  Proofs.ApplyInv Proofs.History.
From SMD Require Import Proofs.RecordsHistory.
Theorem C05_update_records_exact :
  forall (c : config) (R : typeref -> Prop) (ver : string) (live : value) 
           (mf : managed) (mgr : string) (obj : value) (o : tv) (mf' : managed),
         setting_ok c R ver ->
         state_ok c ver live mf ->
         op_ok c ver (HUpdate mgr obj) ->
         update_op c (ver, live) (ver, obj) ver mf mgr = UOk (o, mf') ->
         let d := ref_diff (schema_of c ver) (tr_of c ver) live obj in
         let touched :=
           fun p : path => pmem p (rd_removed d) || pmem p (rd_modified d) || pmem p (rd_added d)
           in
         o = (ver, obj) /\
         (forall p : path,
          wf_path p = true ->
          p <> nil ->
          let before :=
            match mf_get mgr mf with
            | Some r => ps_has p (mr_set r)
            | None => false
            end in
          let after :=
            before && negb (pmem p (rd_removed d)) || pmem p (rd_modified d)
            || pmem p (rd_added d) in
          match mf_get mgr mf' with
          | Some r' => mr_applied r' = false /\ mr_ver r' = ver /\ ps_has p (mr_set r') = after
          | None => after = false
          end) /\
         (forall m : string,
          m <> mgr ->
          forall p : path,
          wf_path p = true ->
          p <> nil ->
          match mf_get m mf with
          | Some r =>
              match mf_get m mf' with
              | Some r' =>
                  mr_applied r' = mr_applied r /\
                  mr_ver r' = mr_ver r /\
                  ps_has p (mr_set r') = ps_has p (mr_set r) && negb (touched p)
              | None => ps_has p (mr_set r) && negb (touched p) = false
              end
          | None => mf_get m mf' = None
          end) /\
         (forall (m : string) (r' : mrec), mf_get m mf' = Some r' -> ps_empty (mr_set r') = false).
Proof. exact update_records_exact. Qed.
Print Assumptions C05_update_records_exact.

Theorem C05_apply_records_exact :
  forall (c : config) (R : typeref -> Prop) (ver : string) (live : value) 
           (mf : managed) (mgr : string) (cfg : value) (force : bool) 
           (o : option tv) (mf' : managed) (fs : pset),
         setting_ok c R ver ->
         state_ok c ver live mf ->
         op_ok c ver (HApply mgr cfg force) ->
         apply_op c (ver, live) (ver, cfg) ver mf mgr force = UOk (o, mf') ->
         to_field_set (schema_of c ver) (tr_of c ver) cfg = Some fs ->
         let res := match o with
                    | Some t => snd t
                    | None => live
                    end in
         let d := ref_diff (schema_of c ver) (tr_of c ver) live res in
         let touched :=
           fun p : path => pmem p (rd_removed d) || pmem p (rd_modified d) || pmem p (rd_added d)
           in
         match mf_get mgr mf' with
         | Some r' =>
             mr_applied r' = true /\
             mr_ver r' = ver /\
             (forall p : path, wf_path p = true -> p <> nil -> ps_has p (mr_set r') = ps_has p fs)
         | None => ps_empty fs = true
         end /\
         (forall m : string,
          m <> mgr ->
          forall p : path,
          wf_path p = true ->
          p <> nil ->
          match mf_get m mf with
          | Some r =>
              match mf_get m mf' with
              | Some r' =>
                  mr_applied r' = mr_applied r /\
                  mr_ver r' = mr_ver r /\
                  ps_has p (mr_set r') = ps_has p (mr_set r) && negb (touched p)
              | None => ps_has p (mr_set r) && negb (touched p) = false
              end
          | None => mf_get m mf' = None
          end).
Proof. exact apply_records_exact. Qed.
Print Assumptions C05_apply_records_exact.

Theorem C05_update_records_exact_along_every_history :
  forall (c : config) (R : typeref -> Prop) (ver : string) (ops : list hop) 
           (mgr : string) (obj : value) (o : tv) (mf' : managed),
         setting_ok c R ver ->
         Forall (op_ok c ver) ops ->
         op_ok c ver (HUpdate mgr obj) ->
         let live := fst (run c ver ops) in
         let mf := snd (run c ver ops) in
         update_op c (ver, live) (ver, obj) ver mf mgr = UOk (o, mf') ->
         let d := ref_diff (schema_of c ver) (tr_of c ver) live obj in
         let touched :=
           fun p : path => pmem p (rd_removed d) || pmem p (rd_modified d) || pmem p (rd_added d)
           in
         o = (ver, obj) /\
         (forall p : path,
          wf_path p = true ->
          p <> nil ->
          let before :=
            match mf_get mgr mf with
            | Some r => ps_has p (mr_set r)
            | None => false
            end in
          let after :=
            before && negb (pmem p (rd_removed d)) || pmem p (rd_modified d)
            || pmem p (rd_added d) in
          match mf_get mgr mf' with
          | Some r' => mr_applied r' = false /\ mr_ver r' = ver /\ ps_has p (mr_set r') = after
          | None => after = false
          end) /\
         (forall m : string,
          m <> mgr ->
          forall p : path,
          wf_path p = true ->
          p <> nil ->
          match mf_get m mf with
          | Some r =>
              match mf_get m mf' with
              | Some r' =>
                  mr_applied r' = mr_applied r /\
                  mr_ver r' = mr_ver r /\
                  ps_has p (mr_set r') = ps_has p (mr_set r) && negb (touched p)
              | None => ps_has p (mr_set r) && negb (touched p) = false
              end
          | None => mf_get m mf' = None
          end) /\
         (forall (m : string) (r' : mrec), mf_get m mf' = Some r' -> ps_empty (mr_set r') = false).
Proof. exact update_records_exact_along_histories. Qed.
Print Assumptions C05_update_records_exact_along_every_history.

Theorem C05_apply_records_exact_along_every_history :
  forall (c : config) (R : typeref -> Prop) (ver : string) (ops : list hop) 
           (mgr : string) (cfg : value) (force : bool) (o : option tv) 
           (mf' : managed) (fs : pset),
         setting_ok c R ver ->
         Forall (op_ok c ver) ops ->
         op_ok c ver (HApply mgr cfg force) ->
         let live := fst (run c ver ops) in
         let mf := snd (run c ver ops) in
         apply_op c (ver, live) (ver, cfg) ver mf mgr force = UOk (o, mf') ->
         to_field_set (schema_of c ver) (tr_of c ver) cfg = Some fs ->
         let res := match o with
                    | Some t => snd t
                    | None => live
                    end in
         let d := ref_diff (schema_of c ver) (tr_of c ver) live res in
         let touched :=
           fun p : path => pmem p (rd_removed d) || pmem p (rd_modified d) || pmem p (rd_added d)
           in
         match mf_get mgr mf' with
         | Some r' =>
             mr_applied r' = true /\
             mr_ver r' = ver /\
             (forall p : path, wf_path p = true -> p <> nil -> ps_has p (mr_set r') = ps_has p fs)
         | None => ps_empty fs = true
         end /\
         (forall m : string,
          m <> mgr ->
          forall p : path,
          wf_path p = true ->
          p <> nil ->
          match mf_get m mf with
          | Some r =>
              match mf_get m mf' with
              | Some r' =>
                  mr_applied r' = mr_applied r /\
                  mr_ver r' = mr_ver r /\
                  ps_has p (mr_set r') = ps_has p (mr_set r) && negb (touched p)
              | None => ps_has p (mr_set r) && negb (touched p) = false
              end
          | None => mf_get m mf' = None
          end).
Proof. exact apply_records_exact_along_histories. Qed.
Print Assumptions C05_apply_records_exact_along_every_history.

Theorem C05_example_update :
  setting_ok ex_config FieldSetLaws.ex_R "v1" /\
         Forall (op_ok ex_config "v1") hx_ops /\
         run ex_config "v1" hx_ops = (hx_obj, hx_mf) /\
         op_ok ex_config "v1" (HUpdate "e" rx_obj) /\
         update_op ex_config ("v1", hx_obj) ("v1", rx_obj) "v1" hx_mf "e" =
         UOk ("v1", rx_obj, rx_mf_update) /\
         (forall (o : tv) (mf' : managed),
          update_op ex_config ("v1", hx_obj) ("v1", rx_obj) "v1" hx_mf "e" = UOk (o, mf') ->
          o = ("v1", rx_obj) /\
          (exists re : mrec,
             mf_get "e" mf' = Some re /\
             mr_applied re = false /\
             ps_has (PEField "items" :: PEKey (("name", VStr "z") :: nil) :: PEField "vv" :: nil)
               (mr_set re) = true /\
             ps_has (PEField "mm" :: PEField "k" :: nil) (mr_set re) = false /\
             ps_has (PEField "items" :: PEKey (("name", VStr "z") :: nil) :: nil) (mr_set re) =
             false) /\
          (exists rb : mrec,
             mf_get "b" mf' = Some rb /\
             mr_applied rb = false /\
             ps_has (PEField "items" :: PEKey (("name", VStr "z") :: nil) :: PEField "vv" :: nil)
               (mr_set rb) = false /\
             ps_has (PEField "items" :: PEKey (("name", VStr "z") :: nil) :: nil) (mr_set rb) =
             true /\
             ps_has
               (PEField "items" :: PEKey (("name", VStr "z") :: nil) :: PEField "name" :: nil)
               (mr_set rb) = true) /\
          mf_get "c" mf' = None /\
          (exists ra : mrec,
             mf_get "a" mf' = Some ra /\
             mr_applied ra = true /\ ps_has (PEField "aa" :: nil) (mr_set ra) = true)).
Proof. exact records_example_update. Qed.
Print Assumptions C05_example_update.

Theorem C05_example_apply :
  op_ok ex_config "v1" (HApply "a" rx_cfg true) /\
         apply_op ex_config ("v1", hx_obj) ("v1", rx_cfg) "v1" hx_mf "a" true =
         UOk (Some ("v1", rx_res), rx_mf_apply) /\
         (forall mf' : managed,
          apply_op ex_config ("v1", hx_obj) ("v1", rx_cfg) "v1" hx_mf "a" true =
          UOk (Some ("v1", rx_res), mf') ->
          (exists ra : mrec,
             mf_get "a" mf' = Some ra /\
             mr_applied ra = true /\
             ps_has (PEField "items" :: PEKey (("name", VStr "z") :: nil) :: PEField "vv" :: nil)
               (mr_set ra) = true /\
             ps_has (PEField "aa" :: nil) (mr_set ra) = false /\
             ps_has (PEField "items" :: PEKey (("name", VStr "y") :: nil) :: nil) (mr_set ra) =
             false) /\
          (exists rb : mrec,
             mf_get "b" mf' = Some rb /\
             mr_applied rb = false /\
             ps_has (PEField "items" :: PEKey (("name", VStr "z") :: nil) :: PEField "vv" :: nil)
               (mr_set rb) = false /\
             ps_has (PEField "items" :: PEKey (("name", VStr "z") :: nil) :: nil) (mr_set rb) =
             true) /\
          (exists rc : mrec,
             mf_get "c" mf' = Some rc /\
             mr_applied rc = true /\
             ps_has (PEField "mm" :: PEField "k" :: nil) (mr_set rc) = true) /\
          mf_get "d" mf' = None).
Proof. exact records_example_apply. Qed.
Print Assumptions C05_example_apply.


(* ---- the same along MULTI-VERSION histories under the identity converter (Proofs/MultiVersion.v,
   corollaries of the transparency theorem of C20): every operation of the history at its own
   version label (one schema behind every label, any visiting order of the versions), the
   last operation at an arbitrary label; updates inside the history submit neither empty
   lists nor duplicate members (the restriction of Proofs/Transparent.v). ---- *)
From Coq Require Import List ZArith String Bool Arith Lia Permutation.
From SMD Require Import Model.Value Model.Order Model.PathElem Model.PathSet Model.Schema Model.Walk
  Model.Validate Model.FieldSet Model.Remove Model.Merge Model.Compare Model.Matcher Model.Reconcile
  Model.Updater
  Spec.PathsAsSets Spec.RefValid Spec.Resolve Spec.Agree Spec.RefDiff Spec.Examples
  Proofs.OrderLaws Proofs.PathSetLaws Proofs.SchemaOk Proofs.FieldSetBase Proofs.FieldSetPaths
  Proofs.FieldSetWf Proofs.FieldSetLaws Proofs.RemoveAbsent Proofs.RemoveWf Proofs.ResolveLaws
  Proofs.UpdaterLaws Proofs.UpdaterLaws2 Proofs.MergeLaws Proofs.MergeAgree
  Proofs.RemoveFrame Proofs.EnLaws Proofs.NodeSet Proofs.KeyFields Proofs.VeqbResolve
  Proofs.SetCheckers Proofs.ApplyEffect Proofs.Visible Proofs.ApplyInv Proofs.History
  Proofs.TransparentPrune Proofs.TransparentCore Proofs.TransparentStep Proofs.Transparent
  Proofs.Reapply Proofs.ConflictsApply Proofs.NoOtherFailure Proofs.RecordsHistory
  Proofs.MultiVersionBase.
From SMD Require Proofs.ApplyPrune.
From SMD Require Import Proofs.MultiVersion.
Theorem C05_apply_records_exact_multi_version :
  forall (c : config) (R : typeref -> Prop) (ver : string) (ops : list vhop)
           (v mgr : string) (cfg : value) (force : bool) (o : option tv) 
           (mf' : managed) (fs : pset),
         setting_ok c R ver ->
         one_schema c ver ->
         order_perm c ->
         Forall (vop_ok c ver) ops ->
         op_ok c ver (HApply mgr cfg force) ->
         let live := snd (fst (vrun c ver ops)) in
         let mf := snd (vrun c ver ops) in
         apply_op c (fst (vrun c ver ops)) (v, cfg) v mf mgr force = UOk (o, mf') ->
         to_field_set (schema_of c ver) (tr_of c ver) cfg = Some fs ->
         let res := match o with
                    | Some t => snd t
                    | None => live
                    end in
         let d := ref_diff (schema_of c ver) (tr_of c ver) live res in
         let touched :=
           fun p : path => pmem p (rd_removed d) || pmem p (rd_modified d) || pmem p (rd_added d)
           in
         match mf_get mgr mf' with
         | Some r' =>
             mr_applied r' = true /\
             mr_ver r' = v /\
             (forall p : path, wf_path p = true -> p <> nil -> ps_has p (mr_set r') = ps_has p fs)
         | None => ps_empty fs = true
         end /\
         (forall m : string,
          m <> mgr ->
          forall p : path,
          wf_path p = true ->
          p <> nil ->
          match mf_get m mf with
          | Some r =>
              match mf_get m mf' with
              | Some r' =>
                  mr_applied r' = mr_applied r /\
                  mr_ver r' = mr_ver r /\
                  ps_has p (mr_set r') = ps_has p (mr_set r) && negb (touched p)
              | None => ps_has p (mr_set r) && negb (touched p) = false
              end
          | None => mf_get m mf' = None
          end).
Proof. exact mv_apply_records_exact. Qed.
Print Assumptions C05_apply_records_exact_multi_version.

Theorem C05_update_records_exact_multi_version :
  forall (c : config) (R : typeref -> Prop) (ver : string) (ops : list vhop)
           (v mgr : string) (obj : value) (t : tv) (mf' : managed),
         setting_ok c R ver ->
         one_schema c ver ->
         order_perm c ->
         Forall (vop_ok c ver) ops ->
         op_ok c ver (HUpdate mgr obj) ->
         let live := snd (fst (vrun c ver ops)) in
         let mf := snd (vrun c ver ops) in
         update_op c (fst (vrun c ver ops)) (v, obj) v mf mgr = UOk (t, mf') ->
         let d := ref_diff (schema_of c ver) (tr_of c ver) live obj in
         let touched :=
           fun p : path => pmem p (rd_removed d) || pmem p (rd_modified d) || pmem p (rd_added d)
           in
         t = (v, obj) /\
         (forall p : path,
          wf_path p = true ->
          p <> nil ->
          let before :=
            match mf_get mgr mf with
            | Some r => ps_has p (mr_set r)
            | None => false
            end in
          let after :=
            before && negb (pmem p (rd_removed d)) || pmem p (rd_modified d)
            || pmem p (rd_added d) in
          match mf_get mgr mf' with
          | Some r' => mr_applied r' = false /\ mr_ver r' = v /\ ps_has p (mr_set r') = after
          | None => after = false
          end) /\
         (forall m : string,
          m <> mgr ->
          forall p : path,
          wf_path p = true ->
          p <> nil ->
          match mf_get m mf with
          | Some r =>
              match mf_get m mf' with
              | Some r' =>
                  mr_applied r' = mr_applied r /\
                  mr_ver r' = mr_ver r /\
                  ps_has p (mr_set r') = ps_has p (mr_set r) && negb (touched p)
              | None => ps_has p (mr_set r) && negb (touched p) = false
              end
          | None => mf_get m mf' = None
          end) /\
         (forall (m : string) (r' : mrec), mf_get m mf' = Some r' -> ps_empty (mr_set r') = false).
Proof. exact mv_update_records_exact. Qed.
Print Assumptions C05_update_records_exact_multi_version.

Theorem C05_labels_after_an_apply :
  forall (c : config) (R : typeref -> Prop) (ver : string) (ops : list vhop)
           (v mgr : string) (cfg : value) (force : bool) (o : option tv) 
           (mf' : managed),
         setting_ok c R ver ->
         one_schema c ver ->
         order_perm c ->
         Forall (vop_ok c ver) ops ->
         apply_op c (fst (vrun c ver ops)) (v, cfg) v (snd (vrun c ver ops)) mgr force =
         UOk (o, mf') ->
         (forall r' : mrec, mf_get mgr mf' = Some r' -> mr_ver r' = v) /\
         (forall (m : string) (r' : mrec),
          m <> mgr ->
          mf_get m mf' = Some r' ->
          exists r : mrec, mf_get m (snd (vrun c ver ops)) = Some r /\ mr_ver r' = mr_ver r).
Proof. exact mv_apply_labels. Qed.
Print Assumptions C05_labels_after_an_apply.

