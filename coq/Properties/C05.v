(* C05 — Ownership records are updated exactly.  Statements only; proofs in
   Proofs/UpdaterLaws.v.  Single-version case without ignore configuration. *)
From Coq Require Import List ZArith String Bool.
From SMD Require Import Model.Value Model.Order Model.PathElem Model.PathSet Model.Schema
  Model.Compare Model.Updater Proofs.OrderLaws Proofs.PathSetLaws Proofs.UpdaterLaws.
Import ListNotations.

(* after a successful update step: every other manager's record only shrinks -- it loses
   exactly the fields whose value the operation changed, created or removed ([keeps]),
   keeps its version and applied/updated status; the actor's own record is left to the
   caller (Apply has already set it to the configuration's field set, Update rewrites it
   afterwards); no manager with an empty record remains *)
Theorem C05_records_after_update_core : forall c n old new ver mf w force mf' cmp n',
  no_ignore c -> single_version ver mf -> mf_ok mf ->
  (forall cmp0, compare_tv c old new = Some cmp0 -> cmp_ok cmp0) ->
  update_core c n old new ver mf w force = UOk (mf', cmp, n') ->
  compare_tv c old new = Some cmp /\ n' = n /\ mf_ok mf' /\ single_version ver mf' /\
  (forall m r, mf_get m mf' = Some r -> ps_empty (mr_set r) = false) /\
  (mf_get w mf' = match mf_get w mf with
                  | Some r => if ps_empty (mr_set r) then None else Some r
                  | None => None
                  end) /\
  (forall m, m <> w ->
     match mf_get m mf with
     | None => mf_get m mf' = None
     | Some r =>
         match mf_get m mf' with
         | None => forall p, wf_path p = true -> p <> [] -> keeps r cmp p = false
         | Some r' =>
             mr_ver r' = mr_ver r /\ mr_applied r' = mr_applied r /\
             forall p, wf_path p = true -> p <> [] -> ps_has p (mr_set r') = keeps r cmp p
         end
     end).
Proof. exact update_core_records. Qed.
Print Assumptions C05_records_after_update_core.
