(* C09 — Results are deterministic and independent of call history.  Statements only.
   PARTIAL (DESIGN.md 4.C09): determinism is vacuous for Gallina functions, so each source
   of nondeterminism is a parameter and the theorem says the result does not depend on
   it.  Modelled: the order in which the add-back loop visits the API versions
   ([cfg_version_order]; every other range over a Go map feeds a set or a map, which the
   model represents as sorted association lists).  Proved: with at most one version besides
   the pruned one the order cannot matter.  With more versions the repaired algorithm
   (commit 7abda2a) iterates to a fixed point; its order independence is not proved, the
   correspondence run evaluates the model with the versions in both orders against the
   implementation.  Walker pools, the freelist allocator and value-map iteration order are
   covered by repeated runs only. *)
From Coq Require Import List ZArith String Bool Permutation.
From SMD Require Import Model.Value Model.Order Model.PathSet Model.Updater Proofs.OrderIndep.
Import ListNotations.

Theorem C09_version_order_irrelevant_le1 : forall c pi1 pi2 n merged pruned pv mf,
  (forall l, Permutation l (pi1 l)) -> (forall l, Permutation l (pi2 l)) ->
  List.length (assoc_remove pv (managed_at_version mf)) <= 1 ->
  add_back_owned (with_order c pi1) n merged pruned pv mf
  = add_back_owned (with_order c pi2) n merged pruned pv mf.
Proof. exact add_back_order_irrelevant_le1. Qed.
Print Assumptions C09_version_order_irrelevant_le1.
