(* C09 — Results are deterministic and independent of call history.  Statements only.
   PARTIAL (DESIGN.md 4.C09): determinism is vacuous for Gallina functions, so each source
   of nondeterminism is a parameter and the theorem says the result does not depend on it.
   Modelled: the order in which the add-back loop visits the API versions
   ([cfg_version_order]; every other range over a Go map feeds a set or a map, which the
   model represents as sorted association lists).
   Proved (Proofs/OrderIndepN.v ...): for ANY number of versions (identity converter, one
   schema), for a merged object without empty lists, the add-back loop terminates within
   the model's fuel and the pruned object does not depend on the order -- by showing that
   one pass is the monotone operator K |-> {q in nodes(M) : every prefix of q is in K or
   owned at that version} and that every run stops exactly at the least common fixed
   point; hence prune does not depend on the order either.  With empty lists this is FALSE
   (refutation and the witness found on the way: findings F20 -- the loop as first repaired
   did not terminate -- and F22 -- what it left depended on the order; the implementation
   now visits the versions in sorted order, which is the model's order).  The case of at
   most one other version (first theorem) needs no hypothesis at all.
   Walker pools, the freelist allocator and value-map iteration order are covered by
   repeated runs only. *)
From Coq Require Import List ZArith String Bool Permutation.
From SMD Require Import Model.Value Model.Order Model.PathSet Model.Updater Proofs.OrderIndep.
Import ListNotations.

Theorem C09_version_order_irrelevant_le1 : forall c pi1 pi2 n merged pruned pv mf,
  (forall l, Permutation l (pi1 l)) -> (forall l, Permutation l (pi2 l)) ->
  List.length (assoc_remove pv (managed_at_version mf)) <= 1 ->
  add_back_owned (with_order c pi1) n merged pruned pv mf
  = add_back_owned (with_order c pi2) n merged pruned pv mf.
Proof. exact add_back_order_irrelevant_le1. Qed.
Print Assumptions C09_version_order_irrelevant_le1.

(* ---- any number of versions ---- *)
From Coq Require Import Arith Lia.
From SMD Require Import Model.PathElem Model.Schema Model.Walk Model.Validate Model.FieldSet Model.Remove Model.Merge
  Model.Compare Model.Matcher Model.Reconcile Spec.PathsAsSets Spec.RefValid Spec.Resolve Spec.Agree Spec.Examples
  Proofs.OrderLaws Proofs.PathSetLaws Proofs.SchemaOk Proofs.FieldSetBase Proofs.FieldSetShape
  Proofs.FieldSetPaths Proofs.FieldSetWf Proofs.FieldSetLaws Proofs.RemoveAbsent Proofs.RemoveWf
  Proofs.ResolveLaws Proofs.ReconcileBase Proofs.MergeBase
  Proofs.RemoveFrame Proofs.RemoveMono Proofs.EnLaws Proofs.NodeSet Proofs.KeyFields Proofs.VeqbResolve
  Proofs.ApplyEffect Proofs.PruneShape Proofs.RemoveExt Proofs.Visible Proofs.NodeCount Proofs.OrderIndepN.
Theorem C09_add_back_order_independent :
  forall (c : config) (s : schema) (R : typeref -> Prop) (tr : typeref),
         conv_id c ->
         (forall v : string, cfg_schema c v = (s, tr)) ->
         schema_ok s R ->
         family_refs s R ->
         R tr ->
         keys_nodefault s R ->
         keys_scalar s R ->
         forall (M : value) (T0 : pset) (mf : managed),
         wf_value M = true ->
         conforms s tr false M = true ->
         no_empty_list M = true ->
         nice s tr M T0 ->
         (forall (v : string) (U : pset),
          assoc_get v (managed_at_version mf) = Some U ->
          ps_ok U = true /\ owns_live_keys s tr M U) ->
         forall pi1 pi2 : list string -> list string,
         (forall l : list string, Permutation l (pi1 l)) ->
         (forall l : list string, Permutation l (pi2 l)) ->
         forall (n : nat) (lm lp pv : string) (r1 : tv) (n1 : nat) (r2 : tv) (n2 : nat),
         add_back_owned (with_order c pi1) n (lm, M) (lp, remove s tr M T0) pv mf = UOk (r1, n1) ->
         add_back_owned (with_order c pi2) n (lm, M) (lp, remove s tr M T0) pv mf = UOk (r2, n2) ->
         snd r1 = snd r2.
Proof. exact add_back_owned_order_independent. Qed.
Print Assumptions C09_add_back_order_independent.

Theorem C09_add_back_terminates :
  forall (c : config) (s : schema) (R : typeref -> Prop) (tr : typeref),
         conv_id c ->
         (forall v : string, cfg_schema c v = (s, tr)) ->
         schema_ok s R ->
         family_refs s R ->
         R tr ->
         keys_nodefault s R ->
         keys_scalar s R ->
         forall (M : value) (T0 : pset) (mf : managed),
         wf_value M = true ->
         conforms s tr false M = true ->
         no_empty_list M = true ->
         nice s tr M T0 ->
         (forall (v : string) (U : pset),
          assoc_get v (managed_at_version mf) = Some U ->
          ps_ok U = true /\ owns_live_keys s tr M U) ->
         forall (pi : list string -> list string) (n : nat) (lm lp pv : string),
         (forall l : list string, Permutation l (pi l)) ->
         exists (T' : pset) (lp' : string) (n' : nat),
           nice s tr M T' /\
           add_back_owned (with_order c pi) n (lm, M) (lp, remove s tr M T0) pv mf =
           UOk (lp', remove s tr M T', n').
Proof. exact add_back_owned_total. Qed.
Print Assumptions C09_add_back_terminates.

Theorem C09_prune_order_independent :
  forall (c : config) (s : schema) (R : typeref -> Prop) (tr : typeref),
         conv_id c ->
         (forall v : string, cfg_schema c v = (s, tr)) ->
         schema_ok s R ->
         family_refs s R ->
         R tr ->
         keys_nodefault s R ->
         keys_scalar s R ->
         forall (M : value) (mf : managed) (last : mrec),
         wf_value M = true ->
         conforms s tr false M = true ->
         no_empty_list M = true ->
         ps_ok (mr_set last) = true ->
         applier_record_ok s tr (mr_set last) ->
         (forall (v : string) (U : pset),
          assoc_get v (managed_at_version mf) = Some U ->
          ps_ok U = true /\ owns_live_keys s tr M U) ->
         forall pi1 pi2 : list string -> list string,
         (forall l : list string, Permutation l (pi1 l)) ->
         (forall l : list string, Permutation l (pi2 l)) ->
         forall (n : nat) (lm mgr : string),
         exists (o : tv) (n1 n2 : nat),
           prune (with_order c pi1) n (lm, M) mf mgr (Some last) = UOk (o, n1) /\
           prune (with_order c pi2) n (lm, M) mf mgr (Some last) = UOk (o, n2).
Proof. exact prune_order_independent. Qed.
Print Assumptions C09_prune_order_independent.

Theorem C09_three_version_example :
  forall pi1 pi2 : list string -> list string,
         (forall l : list string, Permutation l (pi1 l)) ->
         (forall l : list string, Permutation l (pi2 l)) ->
         exists (P : value) (lp1 : string) (n1 : nat) (lp2 : string) 
         (n2 : nat),
           ex3_run pi1 = UOk (lp1, P, n1) /\
           ex3_run pi2 = UOk (lp2, P, n2) /\
           (exists T' : pset,
              nice ex_schema ex_rt ex3_merged T' /\ P = remove ex_schema ex_rt ex3_merged T').
Proof. exact ex3_by_theorem. Qed.
Print Assumptions C09_three_version_example.

Theorem C09_order_matters_with_empty_lists :
  ~ prune_order_independent_with_empty_lists.
Proof. exact prune_order_independence_needs_no_empty_list. Qed.
Print Assumptions C09_order_matters_with_empty_lists.

Theorem C09_apply_order_dependent_witness :
  let a1 :=
           apply_op cx_config ("v1", VMap nil) ("v2", VMap (("g", VMap nil) :: nil)) "v2" nil
             "m2" false in
         let mf1 :=
           ("m2",
            {|
              mr_set := ps_of_paths ((PEField "g" :: nil) :: nil);
              mr_ver := "v2";
              mr_applied := true
            |}) :: nil in
         let live1 := ("v1", VMap (("g", VMap nil) :: nil)) in
         let a2 :=
           apply_op cx_config live1 ("v1", VMap (("g", VMap (("c", VMap nil) :: nil)) :: nil))
             "v1" mf1 "m1" false in
         let mf2 :=
           ("m1",
            {|
              mr_set := ps_of_paths ((PEField "g" :: PEField "c" :: nil) :: nil);
              mr_ver := "v1";
              mr_applied := true
            |})
           :: ("m2",
               {|
                 mr_set := ps_of_paths ((PEField "g" :: nil) :: nil);
                 mr_ver := "v2";
                 mr_applied := true
               |}) :: nil in
         let live2 := ("v1", VMap (("g", VMap (("c", VMap nil) :: nil)) :: nil)) in
         let a3 := apply_op cx_config live2 ("v3", cx_merged) "v3" mf2 "m3" false in
         a1 = UOk (Some live1, mf1) /\
         a2 = UOk (Some live2, mf2) /\
         a3 = UOk (Some cx_live3, cx_mf3) /\
         apply_op (with_order cx_config (fun l : list string => l)) cx_live3
           ("v3", VMap (("z", VInt 1) :: nil)) "v3" cx_mf3 "m3" false =
         UOk
           (Some ("v3", VMap (("g", VNull) :: ("z", VInt 1) :: nil)),
            ("m2",
             {|
               mr_set := ps_of_paths ((PEField "g" :: nil) :: nil);
               mr_ver := "v2";
               mr_applied := true
             |})
            :: ("m3",
                {|
                  mr_set := ps_of_paths ((PEField "z" :: nil) :: nil);
                  mr_ver := "v3";
                  mr_applied := true
                |}) :: nil) /\
         apply_op (with_order cx_config (rev (A:=string))) cx_live3
           ("v3", VMap (("z", VInt 1) :: nil)) "v3" cx_mf3 "m3" false =
         UOk
           (Some ("v3", VMap (("z", VInt 1) :: nil)),
            ("m3",
             {|
               mr_set := ps_of_paths ((PEField "z" :: nil) :: nil);
               mr_ver := "v3";
               mr_applied := true
             |}) :: nil).
Proof. exact apply_order_dependent_empty_list. Qed.
Print Assumptions C09_apply_order_dependent_witness.

