(* C03 — Fields a manager stops applying are removed.  Statements only; proofs in
   Proofs/{RemoveMono,TreeFacts,MergeKeeps,PruneShape,ApplyPruneBase,ApplyPrune}.v on top of
   the lemmas of C01 (Proofs/ApplyEffect.v ...).

   GENERAL THEOREM (C03_abandoned_fields_are_removed), in the setting and with the side
   conditions of C01_apply_takes_effect: a path p of the applier's previous record, with no
   node of the new configuration at or beneath it and not in the
   EnsureNamedFieldsAreMembers closure of the other managers' records, is ABSENT from the
   result of a successful apply.  Proviso: if the live object has p, it has at or beneath
   p a leaf other than an empty list -- an empty granular list is a node of the object that
   no field set can mention, so prune adds it back and never sees it again
   (C03_needs_a_visible_leaf refutes the statement without the proviso; such a path enters
   a record only through an update or a configuration with an empty list, i.e. outside the
   plain-configuration domain of C03).  The "merged form" states the proviso on the merged
   object instead. *)
From Coq Require Import List ZArith String Bool.
From SMD Require Import Model.Value Model.PathSet Model.Updater.
Import ListNotations.

(* A manager's first apply removes nothing: without an earlier record (or with an empty
   one) pruning returns the merged object unchanged, and performs no conversion *)
Theorem C03_first_apply_prunes_nothing : forall c n merged mf mgr,
  prune c n merged mf mgr None = UOk (merged, n) /\
  forall r, ps_empty (mr_set r) = true -> prune c n merged mf mgr (Some r) = UOk (merged, n).
Proof.
  intros c n merged mf mgr. split; [reflexivity|].
  intros r Hr. unfold prune. rewrite Hr. reflexivity.
Qed.
Print Assumptions C03_first_apply_prunes_nothing.

(* ---- the general theorem ---- *)
From Coq Require Import Arith Lia.
From SMD Require Import Model.Order Model.PathElem Model.Schema Model.Walk Model.Validate Model.FieldSet Model.Remove Model.Merge Model.Compare
  Model.Matcher Model.Reconcile Spec.PathsAsSets Spec.RefValid Spec.Resolve Spec.Agree Spec.Examples
  Proofs.OrderLaws Proofs.PathSetLaws Proofs.SchemaOk Proofs.FieldSetBase Proofs.FieldSetPaths
  Proofs.FieldSetWf Proofs.FieldSetLaws Proofs.RemoveAbsent Proofs.RemoveWf Proofs.ResolveLaws
  Proofs.UpdaterLaws Proofs.UpdaterLaws2 Proofs.MergeLaws Proofs.MergeAgree
  Proofs.RemoveFrame Proofs.EnLaws Proofs.NodeSet Proofs.KeyFields Proofs.VeqbResolve
  Proofs.SetCheckers Proofs.ApplyEffect
  Proofs.RemoveMono Proofs.TreeFacts Proofs.MergeKeeps Proofs.PruneShape Proofs.ApplyPruneBase Proofs.ApplyPrune.
Theorem C03_abandoned_fields_are_removed :
  forall (c : config) (R : typeref -> Prop) (ver : string) (live cfg : string * value)
           (mf : managed) (mgr : string) (force : bool) (o : option tv) 
           (mf' : managed) (last : mrec) (fscfg : pset) (p : path),
         no_ignore c ->
         conv_id c ->
         schema_ok (schema_of c ver) R ->
         family_refs (schema_of c ver) R ->
         R (tr_of c ver) ->
         keys_plain (schema_of c ver) R ->
         fst live = ver ->
         fst cfg = ver ->
         single_version ver mf ->
         mf_ok mf ->
         records_current c ver mf ->
         (forall r : mrec,
          mf_get mgr mf = Some r -> applier_record_ok (schema_of c ver) (tr_of c ver) (mr_set r)) ->
         (forall (m : string) (r : mrec),
          m <> mgr ->
          mf_get m mf = Some r ->
          owns_live_keys (schema_of c ver) (tr_of c ver) (snd live) (mr_set r)) ->
         wf_value (snd live) = true ->
         wf_value (snd cfg) = true ->
         conforms (schema_of c ver) (tr_of c ver) true (snd live) = true ->
         conforms (schema_of c ver) (tr_of c ver) false (snd cfg) = true ->
         plain (snd cfg) = true ->
         granular (schema_of c ver) (tr_of c ver) (snd cfg) ->
         apply_op c live cfg ver mf mgr force = UOk (o, mf') ->
         mf_get mgr mf = Some last ->
         to_field_set (schema_of c ver) (tr_of c ver) (snd cfg) = Some fscfg ->
         wf_path p = true ->
         p <> nil ->
         ps_has p (mr_set last) = true ->
         (forall q : path,
          In q (map fst (nodes (schema_of c ver) (tr_of c ver) (snd cfg))) ->
          is_prefix p q = false) ->
         ps_has p (ps_en (schema_of c ver) (tr_of c ver) (others_union mgr mf)) = false ->
         (present (schema_of c ver) (tr_of c ver) (snd live) p = true ->
          exists (r : path) (tr' : typeref) (x : value),
            wf_path r = true /\
            resolve_path (schema_of c ver) (tr_of c ver) (snd live) (p ++ r) = Some (RNode tr' x) /\
            leafy (schema_of c ver) tr' x /\ x <> VList nil) ->
         present (schema_of c ver) (tr_of c ver)
           match o with
           | Some t => snd t
           | None => snd live
           end p = false.
Proof. exact apply_removes_abandoned. Qed.
Print Assumptions C03_abandoned_fields_are_removed.

Theorem C03_abandoned_fields_are_removed_merged_form :
  forall (c : config) (R : typeref -> Prop) (ver : string) (live cfg : string * value)
           (mf : managed) (mgr : string) (force : bool) (o : option tv) 
           (mf' : managed) (last : mrec) (p : path),
         no_ignore c ->
         conv_id c ->
         schema_ok (schema_of c ver) R ->
         family_refs (schema_of c ver) R ->
         R (tr_of c ver) ->
         keys_plain (schema_of c ver) R ->
         fst live = ver ->
         fst cfg = ver ->
         single_version ver mf ->
         mf_ok mf ->
         records_current c ver mf ->
         (forall r : mrec,
          mf_get mgr mf = Some r -> applier_record_ok (schema_of c ver) (tr_of c ver) (mr_set r)) ->
         (forall (m : string) (r : mrec),
          m <> mgr ->
          mf_get m mf = Some r ->
          owns_live_keys (schema_of c ver) (tr_of c ver) (snd live) (mr_set r)) ->
         wf_value (snd live) = true ->
         wf_value (snd cfg) = true ->
         conforms (schema_of c ver) (tr_of c ver) true (snd live) = true ->
         conforms (schema_of c ver) (tr_of c ver) false (snd cfg) = true ->
         plain (snd cfg) = true ->
         apply_op c live cfg ver mf mgr force = UOk (o, mf') ->
         mf_get mgr mf = Some last ->
         wf_path p = true ->
         p <> nil ->
         ps_has p (mr_set last) = true ->
         (forall q : path,
          In q (map fst (nodes (schema_of c ver) (tr_of c ver) (snd cfg))) ->
          is_prefix p q = false) ->
         ps_has p (ps_en (schema_of c ver) (tr_of c ver) (others_union mgr mf)) = false ->
         (forall M : value,
          merge (schema_of c ver) (tr_of c ver) (snd live) (snd cfg) = Some (Some M) ->
          present (schema_of c ver) (tr_of c ver) M p = true ->
          ps_has p (node_set (schema_of c ver) (tr_of c ver) M) = true) ->
         present (schema_of c ver) (tr_of c ver)
           match o with
           | Some t => snd t
           | None => snd live
           end p = false.
Proof. exact apply_removes_abandoned_merged. Qed.
Print Assumptions C03_abandoned_fields_are_removed_merged_form.

Theorem C03_needs_a_visible_leaf :
  ~ apply_removes_abandoned_original.
Proof. exact apply_removes_abandoned_needs_visible. Qed.
Print Assumptions C03_needs_a_visible_leaf.

Theorem C03_example :
  present ex_schema ex_rt ape_live
           (PEField "items" :: PEKey (("name", VStr "x") :: nil) :: nil) = true /\
         present ex_schema ex_rt ape_result
           (PEField "items" :: PEKey (("name", VStr "x") :: nil) :: nil) = false /\
         ps_has (PEField "mm" :: PEField "k" :: nil)
           (mr_set {| mr_set := ape_set_a; mr_ver := "v1"; mr_applied := true |}) = true /\
         ps_has (PEField "mm" :: PEField "k" :: nil)
           (ps_en ex_schema ex_rt (others_union "a" ape_mf)) = true /\
         present ex_schema ex_rt ape_result (PEField "mm" :: PEField "k" :: nil) = true.
Proof. exact apply_removes_abandoned_example. Qed.
Print Assumptions C03_example.

(* ---- along every history: the side conditions are an invariant of the reachable states
   (Proofs/History.v: [state_ok], [op_ok], [run]; one version, identity converter, no ignore
   configuration; histories of apply / forced apply / update by any number of managers) ---- *)
From SMD Require Import Spec.RefDiff Proofs.RefDiffBoth Proofs.RefDiffLaws Proofs.RefDiffPresent Proofs.ApplyInv
  Proofs.RefDiffChar Proofs.ReconcileCurrent Proofs.KeySync Proofs.History.
Theorem C03_along_every_history :
  forall (c : config) (R : typeref -> Prop) (ver : string) (ops : list hop) 
           (mgr : string) (cfg : value) (force : bool) (o : option tv) 
           (mf' : managed) (last : mrec) (fscfg : pset) (p : path),
         setting_ok c R ver ->
         Forall (op_ok c ver) ops ->
         op_ok c ver (HApply mgr cfg force) ->
         apply_op c (ver, fst (run c ver ops)) (ver, cfg) ver (snd (run c ver ops)) mgr force =
         UOk (o, mf') ->
         mf_get mgr (snd (run c ver ops)) = Some last ->
         to_field_set (schema_of c ver) (tr_of c ver) cfg = Some fscfg ->
         wf_path p = true ->
         p <> [] ->
         ps_has p (mr_set last) = true ->
         (forall q : path,
          In q (map fst (nodes (schema_of c ver) (tr_of c ver) cfg)) -> is_prefix p q = false) ->
         ps_has p
           (ps_en (schema_of c ver) (tr_of c ver)
              (ApplyPrune.others_union mgr (snd (run c ver ops)))) = false ->
         (present (schema_of c ver) (tr_of c ver) (fst (run c ver ops)) p = true ->
          exists (r : path) (tr' : typeref) (x : value),
            wf_path r = true /\
            resolve_path (schema_of c ver) (tr_of c ver) (fst (run c ver ops)) (p ++ r) =
            Some (RNode tr' x) /\ leafy (schema_of c ver) tr' x /\ x <> VList []) ->
         present (schema_of c ver) (tr_of c ver)
           match o with
           | Some t => snd t
           | None => fst (run c ver ops)
           end p = false.
Proof. exact apply_removes_abandoned_along_histories. Qed.
Print Assumptions C03_along_every_history.


(* ---- the clause "containers left without content by this disappear too" (Proofs/HollowFree*.v).
   REFUTED as stated: RemoveItems writes the nil of an emptied list or map back under its key,
   so an emptied container stays behind as an explicit null whenever something at or beneath it
   is still in the closure of what the others own (known finding F26, replayed on the
   implementation: a applies items:[{name:y}], d updates items[y].vv, a applies {aa:2} ->
   {aa:2, items:null}; also with applies only).  What holds instead, along every history of
   plain applies and plain updates: the object never holds an EMPTY map or list
   (no_empty: the invariant), every null of a result sits at a container the apply emptied,
   and the result is free of nulls exactly when the removal set of prune is "covered"
   (every container it leaves in place keeps a member): the weakest repair, with an example
   where a map does disappear with its last entry. ---- *)
From Coq Require Import List ZArith String Bool Arith Lia.
From SMD Require Import Model.Value Model.Order Model.PathElem Model.PathSet Model.Schema Model.Walk
  Model.Validate Model.FieldSet Model.Remove Model.Merge Model.Compare Model.Matcher Model.Reconcile
  Model.Updater
  Spec.PathsAsSets Spec.RefValid Spec.Resolve Spec.Agree Spec.RefDiff Spec.Examples
  Proofs.OrderLaws Proofs.PathSetLaws Proofs.SchemaOk Proofs.FieldSetBase Proofs.FieldSetPaths
  Proofs.FieldSetWf Proofs.FieldSetLaws Proofs.RemoveAbsent Proofs.RemoveWf Proofs.ResolveLaws
  Proofs.UpdaterLaws Proofs.UpdaterLaws2 Proofs.MergeLaws Proofs.MergeAgree
  Proofs.RemoveFrame Proofs.EnLaws Proofs.NodeSet Proofs.KeyFields Proofs.VeqbResolve
  Proofs.SetCheckers Proofs.ApplyEffect Proofs.RefDiffBoth Proofs.RefDiffLaws Proofs.RefDiffPresent
  Proofs.ApplyInv Proofs.History Proofs.Reapply.
From SMD Require Import Proofs.TreeFacts Proofs.PruneShape Proofs.ApplyPruneBase Proofs.ApplyPrune
  Proofs.HollowFreeBase Proofs.HollowFreeMerge Proofs.HollowFreePrune.
From SMD Require Proofs.Visible Proofs.TransparentMerge Proofs.TransparentRemove Proofs.ReconcileBase.
From SMD Require Import Proofs.HollowFree.
Theorem C03_no_empty_container_along_every_history :
  forall (c : config) (R : typeref -> Prop) (ver : string) (ops : list hop),
         setting_ok c R ver ->
         Forall (op_ok c ver) ops ->
         Forall hop_plain ops -> no_empty (fst (run c ver ops)) = true.
Proof. exact no_empty_along_histories. Qed.
Print Assumptions C03_no_empty_container_along_every_history.

Theorem C03_apply_creates_no_empty_container :
  forall (c : config) (R : typeref -> Prop) (ver : string) (live : value) 
           (mf : managed) (mgr : string) (cfg : value) (force : bool) 
           (o : option tv) (mf' : managed),
         setting_ok c R ver ->
         state_ok c ver live mf ->
         op_ok c ver (HApply mgr cfg force) ->
         no_empty live = true ->
         apply_op c (ver, live) (ver, cfg) ver mf mgr force = UOk (o, mf') ->
         no_empty match o with
                  | Some t => snd t
                  | None => live
                  end = true.
Proof. exact apply_keeps_no_empty. Qed.
Print Assumptions C03_apply_creates_no_empty_container.

Theorem C03_emptied_container_is_left_as_null :
  let live := fst (run ex_config "v1" hf_ops2) in
         let res := fst (run ex_config "v1" hf_ops3) in
         granular ex_schema ex_rt live /\
         (exists (tq : typeref) (x : value),
            resolve_path ex_schema ex_rt live (PEField "items" :: nil) = Some (RNode tq x) /\
            granular ex_schema tq x) /\
         (exists tq : typeref,
            resolve_path ex_schema ex_rt res (PEField "items" :: nil) = Some (RNode tq VNull)) /\
         (forall e : pe, present ex_schema ex_rt res (PEField "items" :: e :: nil) = false) /\
         present ex_schema ex_rt res (PEField "items" :: nil) = true.
Proof. exact emptied_container_is_left_as_null. Qed.
Print Assumptions C03_emptied_container_is_left_as_null.

Theorem C03_emptied_container_left_as_null_applies_only :
  setting_ok ao_config ao_R "v1" /\
         Forall (op_ok ao_config "v1") ao_ops /\
         Forall hop_plain ao_ops /\
         Forall (fun o : hop => match o with
                                | HApply _ _ _ => True
                                | HUpdate _ _ => False
                                end) ao_ops /\
         fst (run ao_config "v1" ao_ops) = ao_res /\
         ~ hollow_free (fst (run ao_config "v1" ao_ops)).
Proof. exact hollow_free_applies_only_refuted. Qed.
Print Assumptions C03_emptied_container_left_as_null_applies_only.

Theorem C03_nulls_are_emptied_containers :
  forall (c : config) (R : typeref -> Prop) (ver : string) (live : value) 
           (mf : managed) (mgr : string) (cfg : value) (force : bool) 
           (o : option tv) (mf' : managed) (q : path) (tq : typeref),
         setting_ok c R ver ->
         state_ok c ver live mf ->
         op_ok c ver (HApply mgr cfg force) ->
         hollow_free live ->
         apply_op c (ver, live) (ver, cfg) ver mf mgr force = UOk (o, mf') ->
         let res := match o with
                    | Some t => snd t
                    | None => live
                    end in
         wf_path q = true ->
         q <> nil ->
         resolve_path (schema_of c ver) (tr_of c ver) res q = Some (RNode tq VNull) ->
         exists M x : value,
           merge (schema_of c ver) (tr_of c ver) live cfg = Some (Some M) /\
           resolve_path (schema_of c ver) (tr_of c ver) M q = Some (RNode tq x) /\
           granular (schema_of c ver) tq x.
Proof. exact apply_nulls_are_emptied_containers. Qed.
Print Assumptions C03_nulls_are_emptied_containers.

Theorem C03_when_no_null_is_left :
  forall (c : config) (R : typeref -> Prop) (ver : string) (live : value) 
           (mf : managed) (mgr : string) (cfg : value) (force : bool) 
           (o : option tv) (mf' : managed),
         setting_ok c R ver ->
         state_ok c ver live mf ->
         op_ok c ver (HApply mgr cfg force) ->
         hollow_free live ->
         apply_op c (ver, live) (ver, cfg) ver mf mgr force = UOk (o, mf') ->
         let res := match o with
                    | Some t => snd t
                    | None => live
                    end in
         exists M : value,
           merge (schema_of c ver) (tr_of c ver) live cfg = Some (Some M) /\
           plain M = true /\
           (o = None \/ mf_get mgr mf = None -> hollow_free res) /\
           (o <> None ->
            mf_get mgr mf <> None ->
            exists T : pset,
              nice (schema_of c ver) (tr_of c ver) M T /\
              sub_present (schema_of c ver) (tr_of c ver) M T /\
              res = remove (schema_of c ver) (tr_of c ver) M T /\
              (hollow_free res <-> covered (schema_of c ver) (tr_of c ver) M T)).
Proof. exact apply_hollow_free_exact. Qed.
Print Assumptions C03_when_no_null_is_left.

Theorem C03_removal_when_no_null_is_left :
  forall (c : config) (R : typeref -> Prop) (ver : string) (v : value) (T : pset),
         setting_ok c R ver ->
         wf_value v = true ->
         conforms (schema_of c ver) (tr_of c ver) true v = true ->
         nice (schema_of c ver) (tr_of c ver) v T ->
         sub_present (schema_of c ver) (tr_of c ver) v T ->
         plain v = true ->
         hollow_free (remove (schema_of c ver) (tr_of c ver) v T) <->
         covered (schema_of c ver) (tr_of c ver) v T.
Proof. exact remove_hollow_free_exact. Qed.
Print Assumptions C03_removal_when_no_null_is_left.

Theorem C03_emptied_containers_example :
  exists mf' : managed,
           apply_op ex_config ("v1", hx_obj) ("v1", hx_cfg2) "v1" hx_mf "c" true =
           UOk (Some ("v1", hx_res2), mf') /\
           present ex_schema ex_rt hx_obj (PEField "mm" :: nil) = true /\
           present ex_schema ex_rt hx_res2 (PEField "mm" :: nil) = false /\
           hollow_free hx_res2 /\
           no_empty hx_res2 = true /\
           (exists (M : value) (T : pset),
              merge ex_schema ex_rt hx_obj hx_cfg2 = Some (Some M) /\
              plain M = true /\
              wf_value M = true /\
              conforms ex_schema ex_rt true M = true /\
              ps_ok T = true /\
              nice ex_schema ex_rt M T /\
              sub_present ex_schema ex_rt M T /\
              covered ex_schema ex_rt M T /\ hx_res2 = remove ex_schema ex_rt M T).
Proof. exact apply_example. Qed.
Print Assumptions C03_emptied_containers_example.


(* ---- the same along MULTI-VERSION histories under the identity converter (Proofs/MultiVersion.v,
   corollaries of the transparency theorem of C20): every operation of the history at its own
   version label (one schema behind every label, any visiting order of the versions), the
   last operation at an arbitrary label; updates inside the history submit neither empty
   lists nor duplicate members (the restriction of Proofs/Transparent.v). ---- *)
From Coq Require Import List ZArith String Bool Arith Lia Permutation.
From SMD Require Import Model.Value Model.Order Model.PathElem Model.PathSet Model.Schema Model.Walk
  Model.Validate Model.FieldSet Model.Remove Model.Merge Model.Compare Model.Matcher Model.Reconcile
  Model.Updater
  Spec.PathsAsSets Spec.RefValid Spec.Resolve Spec.Agree Spec.RefDiff Spec.Examples
  Proofs.OrderLaws Proofs.PathSetLaws Proofs.SchemaOk Proofs.FieldSetBase Proofs.FieldSetPaths
  Proofs.FieldSetWf Proofs.FieldSetLaws Proofs.RemoveAbsent Proofs.RemoveWf Proofs.ResolveLaws
  Proofs.UpdaterLaws Proofs.UpdaterLaws2 Proofs.MergeLaws Proofs.MergeAgree
  Proofs.RemoveFrame Proofs.EnLaws Proofs.NodeSet Proofs.KeyFields Proofs.VeqbResolve
  Proofs.SetCheckers Proofs.ApplyEffect Proofs.Visible Proofs.ApplyInv Proofs.History
  Proofs.TransparentPrune Proofs.TransparentCore Proofs.TransparentStep Proofs.Transparent
  Proofs.Reapply Proofs.ConflictsApply Proofs.NoOtherFailure Proofs.RecordsHistory
  Proofs.MultiVersionBase.
From SMD Require Proofs.ApplyPrune.
From SMD Require Import Proofs.MultiVersion.
Theorem C03_along_multi_version_histories :
  forall (c : config) (R : typeref -> Prop) (ver : string) (ops : list vhop)
           (v mgr : string) (cfg : value) (force : bool) (o : option tv) 
           (mf' : managed) (last : mrec) (fscfg : pset) (p : path),
         setting_ok c R ver ->
         one_schema c ver ->
         order_perm c ->
         Forall (vop_ok c ver) ops ->
         op_ok c ver (HApply mgr cfg force) ->
         let live := snd (fst (vrun c ver ops)) in
         let mf := snd (vrun c ver ops) in
         apply_op c (fst (vrun c ver ops)) (v, cfg) v mf mgr force = UOk (o, mf') ->
         mf_get mgr mf = Some last ->
         to_field_set (schema_of c ver) (tr_of c ver) cfg = Some fscfg ->
         wf_path p = true ->
         p <> nil ->
         ps_has p (mr_set last) = true ->
         (forall q : path,
          In q (map fst (nodes (schema_of c ver) (tr_of c ver) cfg)) -> is_prefix p q = false) ->
         ps_has p (ps_en (schema_of c ver) (tr_of c ver) (ApplyPrune.others_union mgr mf)) =
         false ->
         (present (schema_of c ver) (tr_of c ver) live p = true ->
          exists (r : path) (tr' : typeref) (x : value),
            wf_path r = true /\
            resolve_path (schema_of c ver) (tr_of c ver) live (p ++ r) = Some (RNode tr' x) /\
            leafy (schema_of c ver) tr' x /\ x <> VList nil) ->
         present (schema_of c ver) (tr_of c ver)
           match o with
           | Some t => snd t
           | None => live
           end p = false.
Proof. exact mv_apply_removes_abandoned. Qed.
Print Assumptions C03_along_multi_version_histories.

