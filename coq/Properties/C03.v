(* C03 — Fields a manager stops applying are removed.  Statements only. *)
From Coq Require Import List ZArith String Bool.
From SMD Require Import Model.Value Model.PathSet Model.Updater.
Import ListNotations.

(* A manager's first apply removes nothing: without an earlier record (or with an empty
   one) pruning returns the merged object unchanged, and performs no conversion *)
Theorem C03_first_apply_prunes_nothing : forall c n merged mf mgr,
  prune c n merged mf mgr None = UOk (merged, n) /\
  forall r, ps_empty (mr_set r) = true -> prune c n merged mf mgr (Some r) = UOk (merged, n).
Proof.
  intros c n merged mf mgr. split; [reflexivity|].
  intros r Hr. unfold prune. rewrite Hr. reflexivity.
Qed.
Print Assumptions C03_first_apply_prunes_nothing.
