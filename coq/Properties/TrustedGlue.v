(* Not a property of the code: facts about the trusted glue of the correspondence check.
   The case lines travel as S-expressions; [dec_*] (Model/Codec.v) read them into model
   values and [enc_*] print model values.  Decoding inverts encoding, for every value,
   path element and path, and the decimal reader inverts the decimal printer: what the
   driver prints about the model is what the model computed.  (That the Go printer
   harness/canon.go emits the same notation is validated only by the run itself.) *)
From Coq Require Import List ZArith QArith String Bool.
From SMD Require Import Base.Sexp Model.Value Model.Order Model.PathElem Model.PathSet Model.Schema Model.Codec Proofs.SchemaEqLaws.
Import ListNotations.

Theorem Glue_dec_enc_value :
  forall v : value, dec_value (enc_value v) = Some v.
Proof. exact dec_enc_value. Qed.
Print Assumptions Glue_dec_enc_value.

Theorem Glue_dec_enc_pe :
  forall e : pe, dec_pe (enc_pe e) = Some e.
Proof. exact dec_enc_pe. Qed.
Print Assumptions Glue_dec_enc_pe.

Theorem Glue_dec_enc_path :
  forall p : path, dec_path (enc_path p) = Some p.
Proof. exact dec_enc_path. Qed.
Print Assumptions Glue_dec_enc_path.

Theorem Glue_parse_show_Z :
  forall z : Z, parse_Z (show_Z z) = Some z.
Proof. exact parse_show_Z. Qed.
Print Assumptions Glue_parse_show_Z.

