(* C10 — Shared schemas and caches are safe under concurrency.  Statements only; proof in
   Proofs/CacheLaws.v.
   PARTIAL (DESIGN.md 4.C10): the model (Model/Caches.v) is an interleaving semantics of
   the three kinds of shared cache (once-guarded indexes, the mutex-guarded cache of
   resolved type references, the copy-on-write reflection cache), each memoising a pure
   function; a schedule is an arbitrary list of thread identifiers.  Proved: for ANY
   number of threads and ANY schedule, the shared cache only ever holds values of the
   function and every finished call returned the function's value -- each goroutine gets
   exactly the result it would get running alone.  The Go memory model is outside the
   model: absence of data races is decided by running the concurrent harness under the
   race detector on fresh parsers and previously unseen Go types (finding F6, repaired by
   commit f18d30e, was found that way). *)
From Coq Require Import List Arith Bool.
From SMD Require Import Model.Caches Proofs.CacheLaws.
Import ListNotations.

Theorem C10_caches_transparent :
  forall (K V : Type) (f : K -> V) (keqb : K -> K -> bool),
    (forall a b, keqb a b = true -> a = b) ->
    forall (domain : list K) (d : discipline) (schedule : list nat) (keys : list K) cfg',
      run K V f keqb domain d schedule ([], map (Start K V) keys) = cfg' ->
      sound K V f (fst cfg') /\
      forall i k v, nth_error (snd cfg') i = Some (Done K V k v) -> v = f k.
Proof. exact cache_transparent. Qed.
Print Assumptions C10_caches_transparent.

(* non-vacuity: four threads, a schedule that interleaves them, copy-on-write discipline *)
Example C10_example :
  let cfg := run nat nat (fun n => n * n) Nat.eqb [] Cow [0; 1; 0; 2; 1; 3; 0; 1; 2; 3; 2; 3; 0; 1]
                 ([], map (Start nat nat) [3; 3; 4; 3]) in
  snd cfg = [Done nat nat 3 9; Done nat nat 3 9; Done nat nat 4 16; Done nat nat 3 9].
Proof. vm_compute. reflexivity. Qed.
