(* C08 — Operations never mutate their arguments.  Statements only.
   PARTIAL by construction (DESIGN.md 4.C08): the model is purely functional, so "the
   arguments are unchanged" is not expressible in it; that the Go code follows the
   discipline (fresh map from reconcile, set algebra building new nodes, merge/remove
   building fresh maps and slices) is decided by deep snapshots of every argument before
   and after every call, including calls that conflict and calls in which the converter
   is made to fail at each position it can (fault enumeration).  What the model carries,
   and what is proved here, is the failure behaviour: the converter's n-th call is a
   parameter of the model, and a failing conversion makes the operation return an error
   and no object.  Proved for the first conversion of an operation and, in the general
   form, for the conversion at ANY call index k: the operation with call k failing
   ([fail_at k c], Proofs/FailAny.v) either never makes that call and behaves as without
   the fault, or returns an error -- never a conflict, a panic or another object.  The
   correspondence run enumerates the positions on the implementation. *)
From Coq Require Import List ZArith String Bool.
From SMD Require Import Model.Value Model.Order Model.PathSet Model.Updater Proofs.FailLaws Proofs.FailAny.
Import ListNotations.

Theorem C08_apply_conversion_failure : forall c live cfg ver m r rest mgr force,
  cfg_convert c 0 (fst live) (mr_ver r) (snd live) = CFail ->
  apply_op c live cfg ver ((m, r) :: rest) mgr force = UErr EOther.
Proof. exact apply_first_conversion_failure. Qed.
Print Assumptions C08_apply_conversion_failure.

Theorem C08_update_conversion_failure : forall c live new ver m r rest mgr,
  cfg_convert c 0 (fst live) (mr_ver r) (snd live) = CFail ->
  update_op c live new ver ((m, r) :: rest) mgr = UErr EOther.
Proof. exact update_first_conversion_failure. Qed.
Print Assumptions C08_update_conversion_failure.

Theorem C08_apply_failure_at_any_conversion :
  forall (c : config) (k : nat) (live cfg : tv) (ver : string) 
           (mf : managed) (mgr : string) (force : bool),
         apply_op (fail_at k c) live cfg ver mf mgr force = UErr EOther \/
         apply_op (fail_at k c) live cfg ver mf mgr force = apply_op c live cfg ver mf mgr force.
Proof. exact apply_fault_any_index. Qed.
Print Assumptions C08_apply_failure_at_any_conversion.

Theorem C08_update_failure_at_any_conversion :
  forall (c : config) (k : nat) (live new : tv) (ver : string) 
           (mf : managed) (mgr : string),
         update_op (fail_at k c) live new ver mf mgr = UErr EOther \/
         update_op (fail_at k c) live new ver mf mgr = update_op c live new ver mf mgr.
Proof. exact update_fault_any_index. Qed.
Print Assumptions C08_update_failure_at_any_conversion.

