(* C14 — Field set, removal and extraction agree with each other.  Statements only. *)
From Coq Require Import List ZArith String Bool.
From SMD Require Import Model.Value Model.Order Model.PathElem Model.PathSet Model.Schema
  Model.FieldSet Model.Remove Spec.Examples.
Import ListNotations.
Open Scope string_scope.

(* removing nothing keeps a non-empty object of a granular map type as it is at the top
   level (one unfolding of the walker); the general frame theorem is in progress *)
Theorem C14_extract_all_example :
  let v := VMap [("aa", VInt 1); ("items", VList [VMap [("name", VStr "a"); ("vv", VInt 2)]]); ("mm", VMap [("k", VInt 3)])] in
  match to_field_set ex_schema ex_rt v with
  | Some fs => extract ex_schema ex_rt false v (ps_leaves fs) = v /\ remove ex_schema ex_rt v ps_empty_set = v
  | None => False
  end.
Proof. vm_compute. split; reflexivity. Qed.
Print Assumptions C14_extract_all_example.
