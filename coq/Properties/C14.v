(* C14 — Field set, removal and extraction agree with each other.  Statements only;
   proofs in Proofs/{FieldSetMirrors,FieldSetBase,FieldSetShape,FieldSetPaths,RemoveBase,
   ExtractBase,ExtractLaws,RemoveAbsent,FieldSetLaws}.v.

   [to_field_set], [remove], [extract] (Model/FieldSet.v, Model/Remove.v) are the
   transliterations of ToFieldSet, RemoveItems, ExtractItems; [present] is the
   independent path resolver (Spec/Resolve.v).  Hypotheses as in C11 ([schema_ok],
   [family_refs]).  The walkers ignore the error of listItemToPathElement and go on with
   the zero path element ([pe_zero], Model/Walk.v); on a granular list that is not
   associative every member gets that element, so without [family_refs] the field set
   holds paths that designate nothing and extracting its leaves loses the members (the
   two ..._needs_family theorems).  [keys_closed items] says that the removal set never
   names a key field of a list member without naming the member -- the property's "key
   fields of surviving items excluded"; without it the law is false
   (C14_removal_needs_keys_closed).  Not yet
   proved about the model: "otherwise equals the original", validity and content of the
   extraction with keys, and merge of the two parts -- decided on the implementation's
   outcomes by the extracted checkers. *)
From Coq Require Import List ZArith String Bool.
From SMD Require Import Model.Value Model.Order Model.PathElem Model.PathSet Model.Schema Model.Walk
  Model.FieldSet Model.Remove Spec.PathsAsSets Spec.RefValid Spec.Resolve Spec.Examples
  Proofs.OrderLaws Proofs.PathSetLaws Proofs.SchemaOk Proofs.RemoveAbsent Proofs.FieldSetLaws.
Import ListNotations.
Open Scope list_scope.

Theorem C14_field_set_is_wf :
  forall (s : schema) (R : typeref -> Prop) (tr : typeref) (v : value),
         schema_ok s R ->
         R tr ->
         family_refs s R ->
         wf_value v = true ->
         conforms s tr true v = true ->
         exists fs : pset, to_field_set s tr v = Some fs /\ ps_ok fs = true.
Proof. exact to_field_set_ok_family. Qed.
Print Assumptions C14_field_set_is_wf.

Theorem C14_paths_designate_nodes :
  forall (s : schema) (R : typeref -> Prop) (tr : typeref) (v : value) 
           (fs : pset) (p : path),
         schema_ok s R ->
         R tr ->
         family_refs s R ->
         wf_value v = true ->
         conforms s tr true v = true ->
         to_field_set s tr v = Some fs ->
         wf_path p = true -> ps_has p fs = true -> present s tr v p = true.
Proof. exact field_set_paths_resolve. Qed.
Print Assumptions C14_paths_designate_nodes.

Theorem C14_remove_nothing :
  forall (s : schema) (R : typeref -> Prop) (tr : typeref) (v : value),
         schema_ok s R ->
         R tr ->
         wf_value v = true ->
         conforms s tr true v = true ->
         plain v = true ->
         match kind_of s tr v with
         | KMap _ _ | KList _ _ => True
         | _ => False
         end -> remove s tr v ps_empty_set = v.
Proof. exact remove_nothing. Qed.
Print Assumptions C14_remove_nothing.

Theorem C14_extract_all_leaves :
  forall (s : schema) (R : typeref -> Prop) (tr : typeref) (v : value) (fs : pset),
         schema_ok s R ->
         R tr ->
         family_refs s R ->
         wf_value v = true ->
         conforms s tr false v = true ->
         plain v = true ->
         to_field_set s tr v = Some fs -> extract s tr false v (ps_leaves fs) = v.
Proof. exact extract_all_leaves. Qed.
Print Assumptions C14_extract_all_leaves.

Theorem C14_removal_leaves_no_member :
  forall (s : schema) (R : typeref -> Prop) (tr : typeref) (v : value) 
           (items : pset) (p : path),
         schema_ok s R ->
         R tr ->
         wf_value v = true ->
         conforms s tr false v = true ->
         ps_ok items = true ->
         keys_closed items ->
         wf_path p = true ->
         ps_has p items = true -> present s tr (remove s tr v items) p = false.
Proof. exact remove_absent_keys_closed. Qed.
Print Assumptions C14_removal_leaves_no_member.

Theorem C14_removal_needs_keys_closed :
  ~
         (forall (s : schema) (R : typeref -> Prop) (tr : typeref) (v : value) 
            (items : pset) (p : path),
          schema_ok s R ->
          R tr ->
          wf_value v = true ->
          conforms s tr false v = true ->
          ps_ok items = true ->
          wf_path p = true ->
          ps_has p items = true -> present s tr (remove s tr v items) p = false).
Proof. exact remove_absent_false. Qed.
Print Assumptions C14_removal_needs_keys_closed.

Theorem C14_paths_designate_nodes_needs_family :
  ~
         (forall (s : schema) (R : typeref -> Prop) (tr : typeref) (v : value) 
            (fs : pset) (p : path),
          schema_ok s R ->
          R tr ->
          wf_value v = true ->
          conforms s tr true v = true ->
          to_field_set s tr v = Some fs ->
          wf_path p = true -> ps_has p fs = true -> present s tr v p = true).
Proof. exact field_set_paths_resolve_needs_family. Qed.
Print Assumptions C14_paths_designate_nodes_needs_family.

Theorem C14_extract_all_leaves_needs_family :
  ~
         (forall (s : schema) (R : typeref -> Prop) (tr : typeref) (v : value) (fs : pset),
          schema_ok s R ->
          R tr ->
          wf_value v = true ->
          conforms s tr false v = true ->
          plain v = true ->
          to_field_set s tr v = Some fs -> extract s tr false v (ps_leaves fs) = v).
Proof. exact extract_all_leaves_needs_family. Qed.
Print Assumptions C14_extract_all_leaves_needs_family.

(* non-vacuity *)
Theorem C14_hypotheses_satisfiable :
  schema_ok ex_schema ex_R /\ family_refs ex_schema ex_R /\ ex_R ex_rt /\ keys_closed ps_empty_set.
Proof. exact (conj ex_schema_ok (conj ex_family (conj ex_R_root keys_closed_empty))). Qed.
Print Assumptions C14_hypotheses_satisfiable.

(* ---- the partition (Proofs/{SameLeaves,MergeThruSame,PartBase,PartExtract,PartSel,
   Partition}.v): for a plain valid object and a set S of leaves of its field set (key
   fields of list members excluded): removing S leaves no member of S and keeps every other
   leaf with its value; extracting S with the key fields yields a well-formed valid object
   (or null for an empty selection) that holds every leaf of S and, besides S, only key
   fields of list members; merging the extraction over the removal succeeds and gives the
   object back up to member order.  Needs scalar key fields (refuted otherwise: removing a
   leaf inside a map-valued key changes the member's identity) and, for the merge clause,
   a list root that is nothing but a list (the merge_null_right corner). ---- *)
From Coq Require Import Arith Lia.
From SMD Require Import Model.Validate Model.Merge Spec.Agree Proofs.RemoveFrame Proofs.RemoveMono Proofs.EnLaws Proofs.NodeSet
  Proofs.KeyFields Proofs.FieldSetBase Proofs.FieldSetPaths Proofs.FieldSetWf Proofs.RemoveWf Proofs.ResolveLaws
  Proofs.ValidateLaws Proofs.RemoveBase Proofs.ExtractLaws Proofs.ReconcileBase
  Proofs.TreeFacts Proofs.RefDiffBoth Proofs.MergeLaws Proofs.MergeAgree Proofs.MergeThru
  Proofs.VeqbResolve Proofs.SameLeaves Proofs.PartBase Proofs.PartExtract Proofs.PartSel
  Proofs.MergeThruSame Proofs.RemoveExt Proofs.Partition.
Theorem C14_removal_partition :
  forall (s : schema) (R : typeref -> Prop) (tr : typeref) (v : value) (S : pset),
         schema_ok s R ->
         family_refs s R ->
         R tr ->
         keys_nodefault s R ->
         keys_scalar s R ->
         wf_value v = true ->
         conforms s tr false v = true ->
         plain v = true ->
         leaf_subset s tr v S ->
         (forall p : path,
          wf_path p = true -> ps_has p S = true -> present s tr (remove s tr v S) p = false) /\
         (forall (p : path) (n : rnode),
          In (p, n) (leaf_nodes s tr v) ->
          wf_path p = true ->
          (forall q : path, ps_has q S = true -> is_prefix q p = false) ->
          has_leaf s tr (remove s tr v S) p n = true).
Proof. exact remove_partition. Qed.
Print Assumptions C14_removal_partition.

Theorem C14_extraction_partition :
  forall (s : schema) (R : typeref -> Prop) (tr : typeref) (v : value) (S : pset),
         schema_ok s R ->
         family_refs s R ->
         R tr ->
         keys_nodefault s R ->
         keys_scalar s R ->
         wf_value v = true ->
         conforms s tr false v = true ->
         plain v = true ->
         leaf_subset s tr v S ->
         let x := extract s tr true v S in
         wf_value x = true /\
         (x = VNull \/ conforms s tr false x = true) /\
         (forall (p : path) (n : rnode),
          In (p, n) (leaf_nodes s tr v) ->
          wf_path p = true -> ps_has p S = true -> has_leaf s tr x p n = true) /\
         (forall (p : path) (n : rnode),
          In (p, n) (leaf_nodes s tr x) ->
          wf_path p = true ->
          ps_has p S = true \/
          (exists (pre : list pe) (fl : fieldlist) (k : string),
             p = pre ++ PEKey fl :: PEField k :: nil /\ In k (map fst fl))).
Proof. exact extract_partition. Qed.
Print Assumptions C14_extraction_partition.

Theorem C14_merge_gives_the_original_back :
  forall (s : schema) (R : typeref -> Prop) (tr : typeref) (v : value) 
           (S : pset) (out : value),
         schema_ok s R ->
         family_refs s R ->
         R tr ->
         keys_nodefault s R ->
         keys_scalar s R ->
         list_root_pure s tr v ->
         wf_value v = true ->
         conforms s tr false v = true ->
         plain v = true ->
         leaf_subset s tr v S ->
         merge s tr (remove s tr v S) (extract s tr true v S) = Some (Some out) ->
         veq_assoc s tr out v = true.
Proof. exact merge_partition. Qed.
Print Assumptions C14_merge_gives_the_original_back.

Theorem C14_merge_of_the_parts_succeeds :
  forall (s : schema) (R : typeref -> Prop) (tr : typeref) (v : value) (S : pset),
         schema_ok s R ->
         family_refs s R ->
         R tr ->
         keys_nodefault s R ->
         keys_scalar s R ->
         list_root_pure s tr v ->
         wf_value v = true ->
         conforms s tr false v = true ->
         plain v = true ->
         leaf_subset s tr v S ->
         exists out : value,
           merge s tr (remove s tr v S) (extract s tr true v S) = Some (Some out) /\
           veq_assoc s tr out v = true.
Proof. exact merge_partition_total. Qed.
Print Assumptions C14_merge_of_the_parts_succeeds.

Theorem C14_partition_needs_scalar_keys :
  ~
         (forall (s : schema) (R : typeref -> Prop) (tr : typeref) (v : value) (S : pset),
          schema_ok s R ->
          family_refs s R ->
          R tr ->
          keys_nodefault s R ->
          wf_value v = true ->
          conforms s tr false v = true ->
          plain v = true ->
          leaf_subset s tr v S ->
          (forall p : path,
           wf_path p = true -> ps_has p S = true -> present s tr (remove s tr v S) p = false) /\
          (forall (p : path) (n : rnode),
           In (p, n) (leaf_nodes s tr v) ->
           wf_path p = true ->
           (forall q : path, ps_has q S = true -> is_prefix q p = false) ->
           has_leaf s tr (remove s tr v S) p n = true)).
Proof. exact remove_partition_needs_scalar_keys. Qed.
Print Assumptions C14_partition_needs_scalar_keys.

Theorem C14_merge_partition_needs_pure_list_root :
  ~
         (forall (s : schema) (R : typeref -> Prop) (tr : typeref) (v : value) 
            (S : pset) (out : value),
          schema_ok s R ->
          family_refs s R ->
          R tr ->
          keys_nodefault s R ->
          keys_scalar s R ->
          wf_value v = true ->
          conforms s tr false v = true ->
          plain v = true ->
          leaf_subset s tr v S ->
          merge s tr (remove s tr v S) (extract s tr true v S) = Some (Some out) ->
          veq_assoc s tr out v = true).
Proof. exact merge_partition_needs_pure_list_root. Qed.
Print Assumptions C14_merge_partition_needs_pure_list_root.

Theorem C14_partition_example :
  (forall p : path,
          wf_path p = true ->
          ps_has p px_S = true -> present ex_schema ex_rt px_removed p = false) /\
         has_leaf ex_schema ex_rt px_removed (PEField "items" :: px_x :: PEField "vv" :: nil)
           (RNode ex_num (VInt 1)) = true /\
         has_leaf ex_schema ex_rt px_extracted (PEField "items" :: px_y :: PEField "vv" :: nil)
           (RNode ex_num (VInt 2)) = true /\
         merge ex_schema ex_rt px_removed px_extracted =
         Some
           (Some
              (VMap
                 (("aa", VInt 1)
                  :: ("items",
                      VList
                        (VMap
                           (("name", VStr "x")
                            :: ("tags", VList (VStr "t2" :: VStr "t1" :: nil))
                               :: ("vv", VInt 1) :: nil)
                         :: VMap (("name", VStr "y") :: ("vv", VInt 2) :: nil) :: nil))
                     :: ("mm", VMap (("k", VInt 5) :: nil)) :: nil))).
Proof. exact partition_example_clauses. Qed.
Print Assumptions C14_partition_example.

