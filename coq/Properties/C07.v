(* C07 — Re-applying is a fixed point and no-op signalling is exact.  Statements only;
   proofs in Proofs/NoopLaws.v and Proofs/{ReconcileTotal,PruneTotal,MergeFix,Reapply}.v.
   FIRST SENTENCE, general theorem (setting of Proofs/History.v: one version, identity
   converter, no ignore configuration): from any state satisfying the invariant [state_ok]
   -- hence from every reachable state -- after a successful apply (forced or not) of a
   plain configuration, applying the same configuration again by the same manager succeeds
   without force, returns no object (the live object when the updater is configured to
   always return its result) and leaves every ownership record as it is
   (C07_reapply_is_a_fixed_point; C07_reapply_along_every_history states it on the run of a
   history).  The key lemma: the pruned object of the first apply is a fixed point of
   merging the configuration (merge_remove_fixed), and prune with the configuration's own
   field set as previous record removes nothing.  SECOND SENTENCE: C07_noop_signal_exact.
   The extract-and-apply-back clause is decided on the implementation's outcomes by the
   extracted checkers (finding F13 lives there). *)
From Coq Require Import List ZArith String Bool.
From SMD Require Import Model.Value Model.Order Model.PathSet Model.Updater Proofs.NoopLaws.
Import ListNotations.

(* Apply returns no object exactly when the object it computed equals the live object
   (value equality), unless the updater is configured to always return its result.
   [pruned] is the object computed by merge and prune, exposed through the updater
   built with ReturnInputOnNoop ([with_return_input]); ownership is the same. *)
Theorem C07_noop_signal_exact : forall c live cfg ver mf mgr force o mf',
  cfg_return_input_on_noop c = false ->
  apply_op c live cfg ver mf mgr force = UOk (o, mf') ->
  exists pruned,
    apply_op (with_return_input c) live cfg ver mf mgr force = UOk (Some pruned, mf') /\
    (o = None <-> veqb (snd live) (snd pruned) = true) /\
    (o <> None -> o = Some pruned).
Proof. exact noop_signal_exact. Qed.
Print Assumptions C07_noop_signal_exact.

(* ---- re-applying is a fixed point ---- *)
From Coq Require Import Arith Lia.
From SMD Require Import Model.PathElem Model.Schema Model.Walk Model.Validate Model.FieldSet Model.Remove Model.Merge
  Model.Compare Model.Matcher Model.Reconcile Spec.PathsAsSets Spec.RefValid Spec.Resolve Spec.Agree Spec.RefDiff Spec.Examples
  Proofs.OrderLaws Proofs.PathSetLaws Proofs.SchemaOk Proofs.FieldSetBase Proofs.FieldSetPaths
  Proofs.FieldSetWf Proofs.FieldSetLaws Proofs.RemoveAbsent Proofs.RemoveWf Proofs.ResolveLaws
  Proofs.UpdaterLaws Proofs.UpdaterLaws2 Proofs.MergeLaws Proofs.MergeAgree
  Proofs.RemoveFrame Proofs.EnLaws Proofs.NodeSet Proofs.KeyFields Proofs.VeqbResolve
  Proofs.SetCheckers Proofs.ApplyEffect Proofs.RefDiffBoth Proofs.RefDiffLaws Proofs.RefDiffPresent
  Proofs.ApplyInv Proofs.History Proofs.CompareLaws Proofs.PruneShape Proofs.ApplyPruneBase Proofs.RemoveExt
  Proofs.RemoveBase Proofs.ReconcileTotal Proofs.PruneTotal Proofs.MergeFix Proofs.Reapply.
Theorem C07_reapply_is_a_fixed_point :
  forall (c : config) (R : typeref -> Prop) (ver : string) (live : value) 
           (mf : managed) (mgr : string) (cfg : value) (force : bool) 
           (o : option tv) (mf' : managed),
         setting_ok c R ver ->
         state_ok c ver live mf ->
         op_ok c ver (HApply mgr cfg force) ->
         apply_op c (ver, live) (ver, cfg) ver mf mgr force = UOk (o, mf') ->
         let res := match o with
                    | Some t => snd t
                    | None => live
                    end in
         exists mf'' : managed,
           apply_op c (ver, res) (ver, cfg) ver mf' mgr false =
           UOk (if cfg_return_input_on_noop c then Some (ver, res) else None, mf'') /\
           same_records mf' mf''.
Proof. exact reapply_general. Qed.
Print Assumptions C07_reapply_is_a_fixed_point.

Theorem C07_reapply_returns_no_object :
  forall (c : config) (R : typeref -> Prop) (ver : string) (live : value) 
           (mf : managed) (mgr : string) (cfg : value) (force : bool) 
           (o : option tv) (mf' : managed),
         setting_ok c R ver ->
         state_ok c ver live mf ->
         op_ok c ver (HApply mgr cfg force) ->
         dup_free (schema_of c ver) (tr_of c ver) live = true ->
         cfg_return_input_on_noop c = false ->
         apply_op c (ver, live) (ver, cfg) ver mf mgr force = UOk (o, mf') ->
         let res := match o with
                    | Some t => snd t
                    | None => live
                    end in
         exists mf'' : managed,
           apply_op c (ver, res) (ver, cfg) ver mf' mgr false = UOk (None, mf'') /\
           same_records mf' mf''.
Proof. exact reapply_is_a_fixed_point. Qed.
Print Assumptions C07_reapply_returns_no_object.

Theorem C07_reapply_along_every_history :
  forall (c : config) (R : typeref -> Prop) (ver : string) (ops : list hop) 
           (mgr : string) (cfg : value) (force : bool) (o : option tv) 
           (mf' : managed),
         setting_ok c R ver ->
         Forall (op_ok c ver) ops ->
         op_ok c ver (HApply mgr cfg force) ->
         apply_op c (ver, fst (run c ver ops)) (ver, cfg) ver (snd (run c ver ops)) mgr force =
         UOk (o, mf') ->
         fst (run c ver (ops ++ HApply mgr cfg force :: HApply mgr cfg false :: nil)) =
         fst (run c ver (ops ++ HApply mgr cfg force :: nil)) /\
         same_records (snd (run c ver (ops ++ HApply mgr cfg force :: nil)))
           (snd (run c ver (ops ++ HApply mgr cfg force :: HApply mgr cfg false :: nil))).
Proof. exact reapply_history_fixed_point. Qed.
Print Assumptions C07_reapply_along_every_history.

Theorem C07_reapply_needs_the_noop_option_off :
  setting_ok noop_config FieldSetLaws.ex_R "v1" /\
         state_ok noop_config "v1" VNull nil /\
         op_ok noop_config "v1" (HApply "a" noop_cfg false) /\
         dup_free (schema_of noop_config "v1") (tr_of noop_config "v1") VNull = true /\
         (exists mf' : managed,
            apply_op noop_config ("v1", VNull) ("v1", noop_cfg) "v1" nil "a" false =
            UOk (Some ("v1", noop_cfg), mf') /\
            apply_op noop_config ("v1", noop_cfg) ("v1", noop_cfg) "v1" mf' "a" false =
            UOk (Some ("v1", noop_cfg), mf')).
Proof. exact reapply_needs_noop_option. Qed.
Print Assumptions C07_reapply_needs_the_noop_option_off.

Theorem C07_reapply_example :
  fst (run ex_config "v1" rx_ops) = rx_live /\
         (exists rb : mrec,
            mf_get "b" (snd (run ex_config "v1" rx_ops)) = Some rb /\
            ps_empty (mr_set rb) = false) /\
         (exists mf' : managed,
            apply_op ex_config ("v1", rx_live) ("v1", rx_cfg) "v1"
              (snd (run ex_config "v1" rx_ops)) "a" false = UOk (Some ("v1", rx_res), mf') /\
            present ex_schema ex_rt rx_live
              (PEField "items" :: PEKey (("name", VStr "y") :: nil) :: nil) = true /\
            present ex_schema ex_rt rx_res
              (PEField "items" :: PEKey (("name", VStr "y") :: nil) :: nil) = false /\
            mf_get "b" mf' = mf_get "b" (snd (run ex_config "v1" rx_ops))) /\
         (forall (o : option tv) (mf' : managed),
          apply_op ex_config ("v1", fst (run ex_config "v1" rx_ops)) (
            "v1", rx_cfg) "v1" (snd (run ex_config "v1" rx_ops)) "a" false = 
          UOk (o, mf') ->
          exists mf'' : managed,
            apply_op ex_config
              ("v1", match o with
                     | Some t => snd t
                     | None => fst (run ex_config "v1" rx_ops)
                     end) ("v1", rx_cfg) "v1" mf' "a" false = UOk (None, mf'') /\
            same_records mf' mf'').
Proof. exact reapply_example. Qed.
Print Assumptions C07_reapply_example.

