(* C07 — Re-applying is a fixed point and no-op signalling is exact.  Statements only;
   proofs in Proofs/NoopLaws.v and Proofs/{ReconcileTotal,PruneTotal,MergeFix,Reapply}.v.
   FIRST SENTENCE, general theorem (setting of Proofs/History.v: one version, identity
   converter, no ignore configuration): from any state satisfying the invariant [state_ok]
   -- hence from every reachable state -- after a successful apply (forced or not) of a
   plain configuration, applying the same configuration again by the same manager succeeds
   without force, returns no object (the live object when the updater is configured to
   always return its result) and leaves every ownership record as it is
   (C07_reapply_is_a_fixed_point; C07_reapply_along_every_history states it on the run of a
   history).  The key lemma: the pruned object of the first apply is a fixed point of
   merging the configuration (merge_remove_fixed), and prune with the configuration's own
   field set as previous record removes nothing.  SECOND SENTENCE: C07_noop_signal_exact.
   The extract-and-apply-back clause is decided on the implementation's outcomes by the
   extracted checkers (finding F13 lives there). *)
From Coq Require Import List ZArith String Bool.
From SMD Require Import Model.Value Model.Order Model.PathSet Model.Updater Proofs.NoopLaws.
Import ListNotations.

(* Apply returns no object exactly when the object it computed equals the live object
   (value equality), unless the updater is configured to always return its result.
   [pruned] is the object computed by merge and prune, exposed through the updater
   built with ReturnInputOnNoop ([with_return_input]); ownership is the same. *)
Theorem C07_noop_signal_exact : forall c live cfg ver mf mgr force o mf',
  cfg_return_input_on_noop c = false ->
  apply_op c live cfg ver mf mgr force = UOk (o, mf') ->
  exists pruned,
    apply_op (with_return_input c) live cfg ver mf mgr force = UOk (Some pruned, mf') /\
    (o = None <-> veqb (snd live) (snd pruned) = true) /\
    (o <> None -> o = Some pruned).
Proof. exact noop_signal_exact. Qed.
Print Assumptions C07_noop_signal_exact.

(* ---- re-applying is a fixed point ---- *)
From Coq Require Import Arith Lia.
From SMD Require Import Model.PathElem Model.Schema Model.Walk Model.Validate Model.FieldSet Model.Remove Model.Merge
  Model.Compare Model.Matcher Model.Reconcile Spec.PathsAsSets Spec.RefValid Spec.Resolve Spec.Agree Spec.RefDiff Spec.Examples
  Proofs.OrderLaws Proofs.PathSetLaws Proofs.SchemaOk Proofs.FieldSetBase Proofs.FieldSetPaths
  Proofs.FieldSetWf Proofs.FieldSetLaws Proofs.RemoveAbsent Proofs.RemoveWf Proofs.ResolveLaws
  Proofs.UpdaterLaws Proofs.UpdaterLaws2 Proofs.MergeLaws Proofs.MergeAgree
  Proofs.RemoveFrame Proofs.EnLaws Proofs.NodeSet Proofs.KeyFields Proofs.VeqbResolve
  Proofs.SetCheckers Proofs.ApplyEffect Proofs.RefDiffBoth Proofs.RefDiffLaws Proofs.RefDiffPresent
  Proofs.ApplyInv Proofs.History Proofs.CompareLaws Proofs.PruneShape Proofs.ApplyPruneBase Proofs.RemoveExt
  Proofs.RemoveBase Proofs.ReconcileTotal Proofs.PruneTotal Proofs.MergeFix Proofs.Reapply.
Theorem C07_reapply_is_a_fixed_point :
  forall (c : config) (R : typeref -> Prop) (ver : string) (live : value) 
           (mf : managed) (mgr : string) (cfg : value) (force : bool) 
           (o : option tv) (mf' : managed),
         setting_ok c R ver ->
         state_ok c ver live mf ->
         op_ok c ver (HApply mgr cfg force) ->
         apply_op c (ver, live) (ver, cfg) ver mf mgr force = UOk (o, mf') ->
         let res := match o with
                    | Some t => snd t
                    | None => live
                    end in
         exists mf'' : managed,
           apply_op c (ver, res) (ver, cfg) ver mf' mgr false =
           UOk (if cfg_return_input_on_noop c then Some (ver, res) else None, mf'') /\
           same_records mf' mf''.
Proof. exact reapply_general. Qed.
Print Assumptions C07_reapply_is_a_fixed_point.

Theorem C07_reapply_returns_no_object :
  forall (c : config) (R : typeref -> Prop) (ver : string) (live : value) 
           (mf : managed) (mgr : string) (cfg : value) (force : bool) 
           (o : option tv) (mf' : managed),
         setting_ok c R ver ->
         state_ok c ver live mf ->
         op_ok c ver (HApply mgr cfg force) ->
         dup_free (schema_of c ver) (tr_of c ver) live = true ->
         cfg_return_input_on_noop c = false ->
         apply_op c (ver, live) (ver, cfg) ver mf mgr force = UOk (o, mf') ->
         let res := match o with
                    | Some t => snd t
                    | None => live
                    end in
         exists mf'' : managed,
           apply_op c (ver, res) (ver, cfg) ver mf' mgr false = UOk (None, mf'') /\
           same_records mf' mf''.
Proof. exact reapply_is_a_fixed_point. Qed.
Print Assumptions C07_reapply_returns_no_object.

Theorem C07_reapply_along_every_history :
  forall (c : config) (R : typeref -> Prop) (ver : string) (ops : list hop) 
           (mgr : string) (cfg : value) (force : bool) (o : option tv) 
           (mf' : managed),
         setting_ok c R ver ->
         Forall (op_ok c ver) ops ->
         op_ok c ver (HApply mgr cfg force) ->
         apply_op c (ver, fst (run c ver ops)) (ver, cfg) ver (snd (run c ver ops)) mgr force =
         UOk (o, mf') ->
         fst (run c ver (ops ++ HApply mgr cfg force :: HApply mgr cfg false :: nil)) =
         fst (run c ver (ops ++ HApply mgr cfg force :: nil)) /\
         same_records (snd (run c ver (ops ++ HApply mgr cfg force :: nil)))
           (snd (run c ver (ops ++ HApply mgr cfg force :: HApply mgr cfg false :: nil))).
Proof. exact reapply_history_fixed_point. Qed.
Print Assumptions C07_reapply_along_every_history.

Theorem C07_reapply_needs_the_noop_option_off :
  setting_ok noop_config FieldSetLaws.ex_R "v1" /\
         state_ok noop_config "v1" VNull nil /\
         op_ok noop_config "v1" (HApply "a" noop_cfg false) /\
         dup_free (schema_of noop_config "v1") (tr_of noop_config "v1") VNull = true /\
         (exists mf' : managed,
            apply_op noop_config ("v1", VNull) ("v1", noop_cfg) "v1" nil "a" false =
            UOk (Some ("v1", noop_cfg), mf') /\
            apply_op noop_config ("v1", noop_cfg) ("v1", noop_cfg) "v1" mf' "a" false =
            UOk (Some ("v1", noop_cfg), mf')).
Proof. exact reapply_needs_noop_option. Qed.
Print Assumptions C07_reapply_needs_the_noop_option_off.

Theorem C07_reapply_example :
  fst (run ex_config "v1" rx_ops) = rx_live /\
         (exists rb : mrec,
            mf_get "b" (snd (run ex_config "v1" rx_ops)) = Some rb /\
            ps_empty (mr_set rb) = false) /\
         (exists mf' : managed,
            apply_op ex_config ("v1", rx_live) ("v1", rx_cfg) "v1"
              (snd (run ex_config "v1" rx_ops)) "a" false = UOk (Some ("v1", rx_res), mf') /\
            present ex_schema ex_rt rx_live
              (PEField "items" :: PEKey (("name", VStr "y") :: nil) :: nil) = true /\
            present ex_schema ex_rt rx_res
              (PEField "items" :: PEKey (("name", VStr "y") :: nil) :: nil) = false /\
            mf_get "b" mf' = mf_get "b" (snd (run ex_config "v1" rx_ops))) /\
         (forall (o : option tv) (mf' : managed),
          apply_op ex_config ("v1", fst (run ex_config "v1" rx_ops)) (
            "v1", rx_cfg) "v1" (snd (run ex_config "v1" rx_ops)) "a" false = 
          UOk (o, mf') ->
          exists mf'' : managed,
            apply_op ex_config
              ("v1", match o with
                     | Some t => snd t
                     | None => fst (run ex_config "v1" rx_ops)
                     end) ("v1", rx_cfg) "v1" mf' "a" false = UOk (None, mf'') /\
            same_records mf' mf'').
Proof. exact reapply_example. Qed.
Print Assumptions C07_reapply_example.

(* ---- "... and so does applying back what was extracted from the object for a manager's owned
   fields" (Proofs/ExtractBack*.v): at every reachable state, for a manager whose record was
   last written by an Apply, extracting the leaves of its record with the key fields that
   locate them (ExtractItems(WithAppendKeyFields)) and applying the extract back without
   force succeeds, changes no field and no record -- provided the extract is a valid plain
   configuration (a record leaf that designates an interior node of the object gives a null
   in the extract, which takes the case out of the plain domain).  Before the repair F27 this
   was REFUTED at a state reachable in two operations (a applies mmm.k.k, b takes mmm.k.k over
   by an update: the extracting walker descended into the selected entry mmm.k with the
   selection of the PARENT level, found the inner field of the same name, and a's record
   gained mmm.k.k; replayed on the implementation); the model follows the repaired walker and
   the former witness is kept as an evaluated example. ---- *)
From Coq Require Import List ZArith String Bool Arith Lia.
From SMD Require Import Model.Value Model.Order Model.PathElem Model.PathSet Model.Schema Model.Walk
  Model.Validate Model.FieldSet Model.Remove Model.Merge Model.Compare Model.Matcher Model.Reconcile
  Model.Updater
  Spec.PathsAsSets Spec.RefValid Spec.Resolve Spec.Agree Spec.RefDiff Spec.Examples
  Proofs.OrderLaws Proofs.PathSetLaws Proofs.SchemaOk Proofs.FieldSetBase Proofs.FieldSetPaths
  Proofs.FieldSetWf Proofs.FieldSetLaws Proofs.RemoveAbsent Proofs.RemoveWf Proofs.ResolveLaws
  Proofs.UpdaterLaws Proofs.UpdaterLaws2 Proofs.MergeLaws Proofs.MergeAgree
  Proofs.RemoveFrame Proofs.EnLaws Proofs.NodeSet Proofs.KeyFields Proofs.VeqbResolve
  Proofs.SetCheckers Proofs.ApplyEffect Proofs.RefDiffBoth Proofs.RefDiffLaws Proofs.RefDiffPresent
  Proofs.ApplyInv Proofs.History Proofs.Reapply.
From SMD Require Import Proofs.CompareLaws Proofs.KeySync Proofs.PartSel
  Proofs.ExtractBackDup Proofs.ExtractBackMerge Proofs.ExtractBackNodes Proofs.ExtractBackSet
  Proofs.ExtractBackCore Proofs.ExtractBackInv.
From SMD Require Proofs.MergeBase.
From SMD Require Import Proofs.ExtractBack.
Theorem C07_extract_apply_back :
  forall (c : config) (R : typeref -> Prop) (ver : string) (live : value) 
           (mf : managed) (mgr : string) (r : mrec),
         setting_ok c R ver ->
         state_ok c ver live mf ->
         dup_free (schema_of c ver) (tr_of c ver) live = true ->
         cfg_return_input_on_noop c = false ->
         mf_get mgr mf = Some r ->
         mr_applied r = true ->
         let ext := extract (schema_of c ver) (tr_of c ver) true live (ps_leaves (mr_set r)) in
         plain ext = true ->
         conforms (schema_of c ver) (tr_of c ver) false ext = true ->
         prefix_closed (schema_of c ver) (tr_of c ver) (mr_set r) ->
         interior_class (schema_of c ver) (tr_of c ver) (mr_set r) ->
         exists mf'' : managed,
           apply_op c (ver, live) (ver, ext) ver mf mgr false = UOk (None, mf'') /\
           same_records mf mf''.
Proof. exact extract_apply_back. Qed.
Print Assumptions C07_extract_apply_back.

Theorem C07_extract_apply_back_along_every_history :
  forall (c : config) (R : typeref -> Prop) (ver : string) (ops : list hop) 
           (mgr : string) (r : mrec),
         setting_ok c R ver ->
         Forall (op_ok c ver) ops ->
         dup_free (schema_of c ver) (tr_of c ver) (fst (run c ver ops)) = true ->
         mf_get mgr (snd (run c ver ops)) = Some r ->
         mr_applied r = true ->
         let ext :=
           extract (schema_of c ver) (tr_of c ver) true (fst (run c ver ops))
             (ps_leaves (mr_set r)) in
         plain ext = true ->
         conforms (schema_of c ver) (tr_of c ver) false ext = true ->
         exists mf'' : managed,
           apply_op c (ver, fst (run c ver ops)) (ver, ext) ver (snd (run c ver ops)) mgr false =
           UOk
             (if cfg_return_input_on_noop c then Some (ver, fst (run c ver ops)) else None, mf'') /\
           same_records (snd (run c ver ops)) mf''.
Proof. exact extract_apply_back_along_histories_general. Qed.
Print Assumptions C07_extract_apply_back_along_every_history.

Theorem C07_extract_back_former_counterexample :
  setting_ok m_config m_R "v1" /\
         Forall (op_ok m_config "v1") m_ops /\
         dup_free (schema_of m_config "v1") (tr_of m_config "v1") (fst (run m_config "v1" m_ops)) =
         true /\
         cfg_return_input_on_noop m_config = false /\
         mf_get "a" (snd (run m_config "v1" m_ops)) = Some m_rec_a /\
         mr_applied m_rec_a = true /\
         (let ext :=
            extract (schema_of m_config "v1") (tr_of m_config "v1") true
              (fst (run m_config "v1" m_ops)) (ps_leaves (mr_set m_rec_a)) in
          ~
          leaves_are_leaves (schema_of m_config "v1") (tr_of m_config "v1")
            (fst (run m_config "v1" m_ops)) (mr_set m_rec_a) /\ plain ext = false).
Proof. exact former_witness_not_plain. Qed.
Print Assumptions C07_extract_back_former_counterexample.

Theorem C07_extract_apply_back_record_condition_necessary :
  forall (c : config) (R : typeref -> Prop) (ver : string) (live : value) 
           (mf : managed) (mgr : string) (r : mrec) (cfg : value) (force : bool) 
           (o : option tv) (mf'' : managed) (set0 : pset),
         setting_ok c R ver ->
         state_ok c ver live mf ->
         op_ok c ver (HApply mgr cfg force) ->
         mf_get mgr mf = Some r ->
         to_field_set (schema_of c ver) (tr_of c ver) cfg = Some set0 ->
         apply_op c (ver, live) (ver, cfg) ver mf mgr force = UOk (o, mf'') ->
         same_records mf mf'' -> ps_equals set0 (mr_set r) = true /\ mr_applied r = true.
Proof. exact extract_apply_back_record_condition_necessary. Qed.
Print Assumptions C07_extract_apply_back_record_condition_necessary.

Theorem C07_extract_apply_back_needs_closed_records :
  let live := hx_obj in
         let mf := set_applied hx_mf in
         setting_ok ex_config FieldSetLaws.ex_R "v1" /\
         state_ok ex_config "v1" live mf /\
         dup_free (schema_of ex_config "v1") (tr_of ex_config "v1") live = true /\
         cfg_return_input_on_noop ex_config = false /\
         mf_get "d" mf = Some u_rec_d /\
         mr_applied u_rec_d = true /\
         (let ext :=
            extract (schema_of ex_config "v1") (tr_of ex_config "v1") true live
              (ps_leaves (mr_set u_rec_d)) in
          plain ext = true /\
          conforms (schema_of ex_config "v1") (tr_of ex_config "v1") false ext = true /\
          leaves_are_leaves (schema_of ex_config "v1") (tr_of ex_config "v1") live
            (mr_set u_rec_d) /\
          interior_class (schema_of ex_config "v1") (tr_of ex_config "v1") (mr_set u_rec_d) /\
          ~ prefix_closed (schema_of ex_config "v1") (tr_of ex_config "v1") (mr_set u_rec_d) /\
          ~
          (exists mf'' : managed,
             apply_op ex_config ("v1", live) ("v1", ext) "v1" mf "d" false = UOk (None, mf'') /\
             same_records mf mf'')).
Proof. exact extract_apply_back_needs_prefix_closed. Qed.
Print Assumptions C07_extract_apply_back_needs_closed_records.

Theorem C07_extract_back_example :
  mf_get "a" (snd (run ex_config "v1" hx_ops)) = Some xb_rec /\
         mr_applied xb_rec = true /\
         extract ex_schema ex_rt true (fst (run ex_config "v1" hx_ops))
           (ps_leaves (mr_set xb_rec)) = xb_ext /\
         (exists mf'' : managed,
            apply_op ex_config ("v1", fst (run ex_config "v1" hx_ops)) (
              "v1", xb_ext) "v1" (snd (run ex_config "v1" hx_ops)) "a" false = 
            UOk (None, mf'') /\ same_records (snd (run ex_config "v1" hx_ops)) mf'') /\
         apply_op ex_config ("v1", hx_obj) ("v1", xb_ext) "v1" hx_mf "a" false =
         UOk (None, hx_mf).
Proof. exact extract_back_example. Qed.
Print Assumptions C07_extract_back_example.


(* ---- the same along MULTI-VERSION histories under the identity converter (Proofs/MultiVersion.v,
   corollaries of the transparency theorem of C20): every operation of the history at its own
   version label (one schema behind every label, any visiting order of the versions), the
   last operation at an arbitrary label; updates inside the history submit neither empty
   lists nor duplicate members (the restriction of Proofs/Transparent.v). ---- *)
From Coq Require Import List ZArith String Bool Arith Lia Permutation.
From SMD Require Import Model.Value Model.Order Model.PathElem Model.PathSet Model.Schema Model.Walk
  Model.Validate Model.FieldSet Model.Remove Model.Merge Model.Compare Model.Matcher Model.Reconcile
  Model.Updater
  Spec.PathsAsSets Spec.RefValid Spec.Resolve Spec.Agree Spec.RefDiff Spec.Examples
  Proofs.OrderLaws Proofs.PathSetLaws Proofs.SchemaOk Proofs.FieldSetBase Proofs.FieldSetPaths
  Proofs.FieldSetWf Proofs.FieldSetLaws Proofs.RemoveAbsent Proofs.RemoveWf Proofs.ResolveLaws
  Proofs.UpdaterLaws Proofs.UpdaterLaws2 Proofs.MergeLaws Proofs.MergeAgree
  Proofs.RemoveFrame Proofs.EnLaws Proofs.NodeSet Proofs.KeyFields Proofs.VeqbResolve
  Proofs.SetCheckers Proofs.ApplyEffect Proofs.Visible Proofs.ApplyInv Proofs.History
  Proofs.TransparentPrune Proofs.TransparentCore Proofs.TransparentStep Proofs.Transparent
  Proofs.Reapply Proofs.ConflictsApply Proofs.NoOtherFailure Proofs.RecordsHistory
  Proofs.MultiVersionBase.
From SMD Require Proofs.ApplyPrune.
From SMD Require Import Proofs.MultiVersion.
Theorem C07_reapply_multi_version :
  forall (c : config) (R : typeref -> Prop) (ver : string) (ops : list vhop)
           (v v2 mgr : string) (cfg : value) (force : bool) (o : option tv) 
           (mf' : managed),
         setting_ok c R ver ->
         one_schema c ver ->
         order_perm c ->
         Forall (vop_ok c ver) ops ->
         op_ok c ver (HApply mgr cfg force) ->
         cfg_return_input_on_noop c = false ->
         apply_op c (fst (vrun c ver ops)) (v, cfg) v (snd (vrun c ver ops)) mgr force =
         UOk (o, mf') ->
         let st' := match o with
                    | Some t => t
                    | None => fst (vrun c ver ops)
                    end in
         exists mf'' : managed,
           apply_op c st' (v2, cfg) v2 mf' mgr false = UOk (None, mf'') /\
           same_records_upto_labels mf' mf'' /\
           (forall r'' : mrec, mf_get mgr mf'' = Some r'' -> mr_ver r'' = v2) /\
           (forall (m : string) (r'' : mrec),
            m <> mgr ->
            mf_get m mf'' = Some r'' ->
            exists r' : mrec, mf_get m mf' = Some r' /\ mr_ver r'' = mr_ver r') /\
           (v2 = v -> same_records mf' mf'').
Proof. exact mv_reapply_is_a_fixed_point. Qed.
Print Assumptions C07_reapply_multi_version.

Theorem C07_reapply_multi_version_histories :
  forall (c : config) (R : typeref -> Prop) (ver : string) (ops : list vhop)
           (v v2 mgr : string) (cfg : value) (force : bool) (o : option tv) 
           (mf' : managed),
         setting_ok c R ver ->
         one_schema c ver ->
         order_perm c ->
         Forall (vop_ok c ver) ops ->
         op_ok c ver (HApply mgr cfg force) ->
         apply_op c (fst (vrun c ver ops)) (v, cfg) v (snd (vrun c ver ops)) mgr force =
         UOk (o, mf') ->
         snd
           (fst
              (vrun c ver (ops ++ (v, HApply mgr cfg force) :: (v2, HApply mgr cfg false) :: nil))) =
         snd (fst (vrun c ver (ops ++ (v, HApply mgr cfg force) :: nil))) /\
         same_records_upto_labels (snd (vrun c ver (ops ++ (v, HApply mgr cfg force) :: nil)))
           (snd
              (vrun c ver (ops ++ (v, HApply mgr cfg force) :: (v2, HApply mgr cfg false) :: nil))).
Proof. exact mv_reapply_history_fixed_point. Qed.
Print Assumptions C07_reapply_multi_version_histories.

