(* C07 — Re-applying is a fixed point and no-op signalling is exact.  Statements only;
   proof in Proofs/NoopLaws.v.  The fixed-point clauses (re-apply, extract-and-apply-
   back) are decided on the implementation's outcomes by the extracted checkers. *)
From Coq Require Import List ZArith String Bool.
From SMD Require Import Model.Value Model.Order Model.PathSet Model.Updater Proofs.NoopLaws.
Import ListNotations.

(* Apply returns no object exactly when the object it computed equals the live object
   (value equality), unless the updater is configured to always return its result.
   [pruned] is the object computed by merge and prune, exposed through the updater
   built with ReturnInputOnNoop ([with_return_input]); ownership is the same. *)
Theorem C07_noop_signal_exact : forall c live cfg ver mf mgr force o mf',
  cfg_return_input_on_noop c = false ->
  apply_op c live cfg ver mf mgr force = UOk (o, mf') ->
  exists pruned,
    apply_op (with_return_input c) live cfg ver mf mgr force = UOk (Some pruned, mf') /\
    (o = None <-> veqb (snd live) (snd pruned) = true) /\
    (o <> None -> o = Some pruned).
Proof. exact noop_signal_exact. Qed.
Print Assumptions C07_noop_signal_exact.
