(* C12 — Merge obeys its algebraic and ordering laws.  Statements only; proofs in
   Proofs/Merge{Base,Loop,Walk,Conf,Laws}.v.

   [merge] (Model/Merge.v) is the transliteration of the merging walker, the index loop
   of visitListItems included (its termination within the model's fuel is part of
   merge_total).  Hypotheses: [schema_ok s R], [family_refs s R], [R tr] (see C11).
   Proved: totality, validity of the result, identity laws (itself, nothing on either
   side), right-hand side wins, nothing else changes (every leaf of the result is R's or
   L's), merging R again is a no-op.  Not proved about the model (decided on the
   implementation's outcomes by the extracted checkers): non-removal, field-set union, the
   ordering laws; associativity is refuted across kind changes (last theorem, finding F18)
   and decided by the checkers elsewhere. *)
From Coq Require Import List ZArith String Bool.
From SMD Require Import Model.Value Model.Order Model.PathElem Model.PathSet Model.Schema
  Model.Walk Model.Merge Spec.RefValid Spec.Resolve Spec.Examples Proofs.OrderLaws Proofs.SchemaOk
  Proofs.MergeWalk Proofs.MergeLaws.
Import ListNotations.
Open Scope string_scope.

(* "merging with nothing is the identity" is FALSE of the faithful model (and of the
   code: finding F11) when the left root is itself a leaf -- here an empty map. *)
Theorem C12_identity_root_leaf_refuted :
  exists s tr l, merge s tr l VNull = Some (Some VNull) /\ l <> VNull.
Proof. exists ex_schema, ex_rt, (VMap []). split; [ vm_compute; reflexivity | discriminate ]. Qed.
Print Assumptions C12_identity_root_leaf_refuted.

(* the error-or-lawful clause on the witness of finding F1 (repaired by commit 4958a05):
   a right-hand side that is valid only with duplicates, nested inside a list item,
   makes the merge FAIL rather than succeed after dropping the field *)
Theorem C12_nested_duplicates_are_reported :
  merge ex_schema ex_rt
    (VMap [("items", VList [VMap [("name", VStr "a"); ("tags", VList [VStr "x"])]])])
    (VMap [("items", VList [VMap [("name", VStr "a"); ("tags", VList [VStr "y"; VStr "y"])]])])
  = None.
Proof. vm_compute. reflexivity. Qed.
Print Assumptions C12_nested_duplicates_are_reported.

(* merging never fails on valid operands (duplicates allowed on the left only) and yields
   a valid object *)
Theorem C12_total_and_valid : forall s R tr l r,
  schema_ok s R -> family_refs s R -> R tr -> wf_value l = true -> wf_value r = true ->
  conforms s tr true l = true -> conforms s tr false r = true ->
  exists out, merge s tr l r = Some (Some out) /\ conforms s tr true out = true /\ wf_value out = true.
Proof.
  intros s R tr l r H1 H2 H3 H4 H5 H6 H7.
  destruct (merge_total s R tr l r H1 H2 H3 H4 H5 H6 H7) as [out Hout].
  exists out. split; [exact Hout|]. exact (merge_conforms s R tr l r out H1 H2 H3 H4 H5 H6 H7 Hout).
Qed.
Print Assumptions C12_total_and_valid.

(* merging with itself is the identity *)
Theorem C12_merge_with_itself : forall s R tr v,
  schema_ok s R -> family_refs s R -> R tr -> wf_value v = true -> conforms s tr false v = true ->
  merge s tr v v = Some (Some v).
Proof. exact merge_self. Qed.
Print Assumptions C12_merge_with_itself.

(* merging with nothing is the identity: on the left always; on the right for a root
   that is a granular non-empty container (a leaf root becomes null: C12_identity_root_
   leaf_refuted above, finding F11) *)
Theorem C12_merge_with_nothing_left : forall s R tr r,
  schema_ok s R -> family_refs s R -> R tr -> wf_value r = true -> conforms s tr false r = true ->
  merge s tr VNull r = Some (Some r).
Proof. exact merge_null_left. Qed.
Print Assumptions C12_merge_with_nothing_left.

Theorem C12_merge_with_nothing_right : forall s R tr l,
  schema_ok s R -> family_refs s R -> R tr -> wf_value l = true -> conforms s tr true l = true ->
  match kind_of s tr l with
  | KMap _ _ => True
  | KList _ _ => forall a, resolve s tr = Some a -> list_only a = true
  | _ => False
  end ->
  merge s tr l VNull = Some (Some l).
Proof. exact merge_null_right. Qed.
Print Assumptions C12_merge_with_nothing_right.

(* non-vacuity *)
Theorem C12_hypotheses_satisfiable : schema_ok ex_schema ex_R /\ family_refs ex_schema ex_R /\ ex_R ex_rt.
Proof. exact (conj ex_schema_ok (conj ex_family ex_R_rt)). Qed.
Print Assumptions C12_hypotheses_satisfiable.

(* ---- right-hand side wins, frame, idempotence (proofs in Proofs/Merge{Inter,VeqbAux,Veqb,
   Descent,Agree}.v and Proofs/ResolveLaws.v).  [agrees] (Spec/Agree.v): every node of R is
   present in the result and every leaf of R carries R-s value; [leaf_nodes]/[has_leaf]:
   the leaves of an object by the independent resolver. ---- *)
From SMD Require Import Spec.PathsAsSets Spec.Agree Proofs.MergeAgree.
Theorem C12_right_hand_side_wins :
  forall (s : schema) (R : typeref -> Prop) (tr : typeref) (l r out : value),
         schema_ok s R ->
         family_refs s R ->
         R tr ->
         wf_value l = true ->
         wf_value r = true ->
         conforms s tr true l = true ->
         conforms s tr false r = true ->
         plain r = true -> merge s tr l r = Some (Some out) -> agrees s tr r out = true.
Proof. exact merge_right_wins. Qed.
Print Assumptions C12_right_hand_side_wins.

Theorem C12_nothing_else_changes :
  forall (s : schema) (R : typeref -> Prop) (tr : typeref) (l r out : value),
         schema_ok s R ->
         family_refs s R ->
         R tr ->
         wf_value l = true ->
         wf_value r = true ->
         conforms s tr true l = true ->
         conforms s tr false r = true ->
         merge s tr l r = Some (Some out) ->
         forallb
           (fun pn : path * rnode =>
            has_leaf s tr r (fst pn) (snd pn) || has_leaf s tr l (fst pn) (snd pn))
           (leaf_nodes s tr out) = true.
Proof. exact merge_leaves_from_operands. Qed.
Print Assumptions C12_nothing_else_changes.

Theorem C12_merging_again_is_a_noop :
  forall (s : schema) (R : typeref -> Prop) (tr : typeref) (l r out : value),
         schema_ok s R ->
         family_refs s R ->
         R tr ->
         wf_value l = true ->
         wf_value r = true ->
         conforms s tr true l = true ->
         conforms s tr false r = true ->
         merge s tr l r = Some (Some out) -> merge s tr out r = Some (Some out).
Proof. exact merge_idempotent. Qed.
Print Assumptions C12_merging_again_is_a_noop.

(* "merging is associative" is FALSE of the faithful model and of the code (finding F18)
   when one operand gives a field a value of another kind than another operand holds:
   the thorough correspondence run found this triple on the implementation. *)
From SMD Require Import Model.Validate Proofs.MergeAssoc.
Theorem C12_associativity_refuted_across_kinds :
  let s := ded_schema in
         let tr := ded_named "deduced" in
         conforms s tr false assoc_L = true /\
         conforms s tr false assoc_R = true /\
         conforms s tr false assoc_X = true /\
         plain assoc_L = true /\
         plain assoc_R = true /\
         plain assoc_X = true /\
         (exists lr rx a b : value,
            merge s tr assoc_L assoc_R = Some (Some lr) /\
            merge s tr assoc_R assoc_X = Some (Some rx) /\
            merge s tr lr assoc_X = Some (Some a) /\
            merge s tr assoc_L rx = Some (Some b) /\ veq_assoc s tr a b = false).
Proof. exact merge_not_associative_across_kinds. Qed.
Print Assumptions C12_associativity_refuted_across_kinds.


(* ---- the remaining clauses (Proofs/MergeRest*.v), for a plain valid right-hand side:
   NON-REMOVAL: a node of the left operand is a node of the result unless it lies strictly
   beneath a node where the right operand holds a leaf (a scalar or an atomic value replaces
   what was there), or beneath a change of kind;
   FIELD-SET UNION: the field set of the result holds every path of the right operand's,
   only paths of one of the operands', and every path of the left operand's except at or
   beneath a node that the right operand replaces by a leaf or by a value of another kind
   (the clause without "another kind" is refuted on a type that is scalar, list and map at
   once, and holds verbatim when granular map types have no other member: maps_pure);
   ORDER: the result keeps the relative order of the left operand's members, of the right
   operand's members, and places new members as the property says (order_ok is the
   executable checker the harness applies to the implementation's results). ---- *)
From Coq Require Import List ZArith String Bool Arith Lia.
From SMD Require Import Model.Value Model.Order Model.PathElem Model.PathSet Model.Schema Model.Walk
  Model.Validate Model.FieldSet Model.Merge
  Spec.PathsAsSets Spec.RefValid Spec.Resolve Spec.Agree Spec.Examples
  Proofs.OrderLaws Proofs.PathSetLaws Proofs.SchemaOk Proofs.FieldSetLaws Proofs.ResolveLaws
  Proofs.MergeLaws Proofs.MergeAgree Proofs.RemoveFrame Proofs.MergeKeeps Proofs.MergeThru Proofs.RefDiffBoth.
From SMD Require Import Proofs.FieldSetShape Proofs.FieldSetPaths Proofs.NodeSet Proofs.ReconcileBase
  Proofs.ReconcileLaws Proofs.ExtractBase Proofs.TreeFacts Proofs.MergeBase Proofs.MergeAssoc
  Proofs.CompareLaws Proofs.RefDiffLaws
  Proofs.MergeRestBase Proofs.MergeRest1 Proofs.MergeRest2a Proofs.MergeRest2 Proofs.MergeRest3.
From SMD Require Import Proofs.MergeRest.
Theorem C12_merge_removes_nothing :
  forall (s : schema) (R : typeref -> Prop) (tr : typeref) (l r out : value) (p : path),
         schema_ok s R ->
         family_refs s R ->
         lists_pure s R ->
         R tr ->
         wf_value l = true ->
         wf_value r = true ->
         conforms s tr true l = true ->
         conforms s tr false r = true ->
         plain r = true ->
         merge s tr l r = Some (Some out) ->
         wf_path p = true ->
         present s tr l p = true ->
         present s tr out p = true \/
         (exists q : path,
            is_prefix q p = true /\
            q <> p /\
            (exists (tq : typeref) (y : value),
               resolve_path s tr r q = Some (RNode tq y) /\ leafy s tq y)).
Proof. exact merge_removes_nothing. Qed.
Print Assumptions C12_merge_removes_nothing.

Theorem C12_merge_removes_nothing_but_beneath_kind_changes :
  forall (s : schema) (R : typeref -> Prop) (tr : typeref) (l r out : value) (p : path),
         schema_ok s R ->
         family_refs s R ->
         lists_pure s R ->
         R tr ->
         wf_value l = true ->
         wf_value r = true ->
         conforms s tr true l = true ->
         conforms s tr false r = true ->
         plain r = true ->
         merge s tr l r = Some (Some out) ->
         wf_path p = true ->
         present s tr l p = true -> present s tr out p = true \/ beneath_kind_change s tr l r p.
Proof. exact merge_removes_nothing_kind. Qed.
Print Assumptions C12_merge_removes_nothing_but_beneath_kind_changes.

Theorem C12_field_set_is_the_union :
  forall (s : schema) (R : typeref -> Prop) (tr : typeref) (l r out : value)
           (fl fr fo : pset) (p : path),
         schema_ok s R ->
         family_refs s R ->
         lists_pure s R ->
         R tr ->
         wf_value l = true ->
         wf_value r = true ->
         conforms s tr false l = true ->
         conforms s tr false r = true ->
         plain l = true ->
         plain r = true ->
         merge s tr l r = Some (Some out) ->
         to_field_set s tr l = Some fl ->
         to_field_set s tr r = Some fr ->
         to_field_set s tr out = Some fo ->
         wf_path p = true ->
         p <> nil ->
         (ps_has p fr = true -> ps_has p fo = true) /\
         (ps_has p fo = true -> ps_has p fl = true \/ ps_has p fr = true) /\
         (ps_has p fl = true ->
          ps_has p fo = true \/
          (exists q : path,
             is_prefix q p = true /\
             (exists (tq : typeref) (y : value),
                resolve_path s tr r q = Some (RNode tq y) /\
                (leafy s tq y \/
                 (exists (tl : typeref) (x : value),
                    resolve_path s tr l q = Some (RNode tl x) /\ kind_differs x y = true))))).
Proof. exact merge_field_set_union. Qed.
Print Assumptions C12_field_set_is_the_union.

Theorem C12_field_set_is_the_union_pure_maps :
  forall (s : schema) (R : typeref -> Prop) (tr : typeref) (l r out : value)
           (fl fr fo : pset) (p : path),
         schema_ok s R ->
         family_refs s R ->
         lists_pure s R ->
         maps_pure s R ->
         R tr ->
         wf_value l = true ->
         wf_value r = true ->
         conforms s tr false l = true ->
         conforms s tr false r = true ->
         plain l = true ->
         plain r = true ->
         merge s tr l r = Some (Some out) ->
         to_field_set s tr l = Some fl ->
         to_field_set s tr r = Some fr ->
         to_field_set s tr out = Some fo ->
         wf_path p = true ->
         p <> nil ->
         (ps_has p fr = true -> ps_has p fo = true) /\
         (ps_has p fo = true -> ps_has p fl = true \/ ps_has p fr = true) /\
         (ps_has p fl = true ->
          ps_has p fo = true \/
          (exists q : path,
             is_prefix q p = true /\
             (exists (tq : typeref) (y : value),
                resolve_path s tr r q = Some (RNode tq y) /\ leafy s tq y))).
Proof. exact merge_field_set_union_pure. Qed.
Print Assumptions C12_field_set_is_the_union_pure_maps.

Theorem C12_field_set_union_needs_the_kind_change_clause :
  exists
           (s : schema) (R : typeref -> Prop) (tr : typeref) (l r out : value) 
         (fl fr fo : pset) (p : path),
           schema_ok s R /\
           family_refs s R /\
           lists_pure s R /\
           R tr /\
           wf_value l = true /\
           wf_value r = true /\
           conforms s tr false l = true /\
           conforms s tr false r = true /\
           plain l = true /\
           plain r = true /\
           merge s tr l r = Some (Some out) /\
           to_field_set s tr l = Some fl /\
           to_field_set s tr r = Some fr /\
           to_field_set s tr out = Some fo /\
           wf_path p = true /\
           p <> nil /\
           ps_has p fl = true /\
           ~
           (ps_has p fo = true \/
            (exists q : path,
               is_prefix q p = true /\
               (exists (tq : typeref) (y : value),
                  resolve_path s tr r q = Some (RNode tq y) /\ leafy s tq y))).
Proof. exact merge_field_set_union_given_clause_refuted. Qed.
Print Assumptions C12_field_set_union_needs_the_kind_change_clause.

Theorem C12_merge_order :
  forall (s : schema) (R : typeref -> Prop) (tr : typeref) (l r out : value),
         schema_ok s R ->
         family_refs s R ->
         R tr ->
         wf_value l = true ->
         wf_value r = true ->
         conforms s tr false l = true ->
         conforms s tr false r = true ->
         plain l = true ->
         plain r = true ->
         merge s tr l r = Some (Some out) ->
         order_ok (merge_fuel l out) s tr (Some l) (Some r) (Some out) = true.
Proof. exact merge_order. Qed.
Print Assumptions C12_merge_order.

Theorem C12_rest_hypotheses_satisfiable :
  schema_ok ex_schema ex_R /\
         family_refs ex_schema ex_R /\
         lists_pure ex_schema ex_R /\
         maps_pure ex_schema ex_R /\
         ex_R ex_rt /\
         wf_value nv_L = true /\
         wf_value nv_R = true /\
         conforms ex_schema ex_rt false nv_L = true /\
         conforms ex_schema ex_rt false nv_R = true /\
         plain nv_L = true /\
         plain nv_R = true /\ merge ex_schema ex_rt nv_L nv_R = Some (Some nv_out).
Proof. exact merge_rest_hypotheses_satisfiable. Qed.
Print Assumptions C12_rest_hypotheses_satisfiable.

Theorem C12_rest_example :
  pes_of_items ex_schema (ListT (ex_named "item") RAssociative ("name" :: nil))
           match nv_out with
           | VMap ((_, VList xs) :: nil) => xs
           | VMap ((_, VList xs) :: _ :: _) => nil
           | _ => nil
           end =
         PEKey (("name", VStr "a") :: nil)
         :: PEKey (("name", VStr "c") :: nil)
            :: PEKey (("name", VStr "d") :: nil)
               :: PEKey (("name", VStr "x") :: nil) :: PEKey (("name", VStr "b") :: nil) :: nil /\
         present ex_schema ex_rt nv_out
           (PEField "items" :: PEKey (("name", VStr "c") :: nil) :: PEField "vv" :: nil) = true /\
         match to_field_set ex_schema ex_rt nv_L with
         | Some fl =>
             match to_field_set ex_schema ex_rt nv_R with
             | Some fr =>
                 match to_field_set ex_schema ex_rt nv_out with
                 | Some fo => psame (ps_elems fo) (ps_elems fl ++ ps_elems fr) = true
                 | None => False
                 end
             | None => False
             end
         | None => False
         end.
Proof. exact merge_rest_instance_computed. Qed.
Print Assumptions C12_rest_example.


(* ---- associativity, positively (Proofs/MergeAssocPos.v): (L.R).X and L.(R.X) are equal up to
   the order of set and keyed-list members whenever R and X give no common node values of
   different kinds (scalar / list / map) -- the kinds of L do not matter; both groupings are
   always defined; when every type allows a single kind the hypothesis holds for all valid
   operands; the F18 witness changes kind between R and X. ---- *)
From Coq Require Import List ZArith String Bool Arith Lia.
From SMD Require Import Model.Value Model.Order Model.PathElem Model.PathSet Model.Schema Model.Walk
  Model.Validate Model.FieldSet Model.Remove Model.Merge Model.Compare Model.Matcher Model.Reconcile
  Model.Updater
  Spec.PathsAsSets Spec.RefValid Spec.Resolve Spec.Agree Spec.RefDiff Spec.Examples
  Proofs.OrderLaws Proofs.PathSetLaws Proofs.SchemaOk Proofs.FieldSetBase Proofs.FieldSetPaths
  Proofs.FieldSetWf Proofs.FieldSetLaws Proofs.RemoveAbsent Proofs.RemoveWf Proofs.ResolveLaws
  Proofs.UpdaterLaws Proofs.UpdaterLaws2 Proofs.MergeLaws Proofs.MergeAgree
  Proofs.RemoveFrame Proofs.EnLaws Proofs.NodeSet Proofs.KeyFields Proofs.VeqbResolve
  Proofs.SetCheckers Proofs.ApplyEffect Proofs.RefDiffBoth Proofs.RefDiffLaws Proofs.RefDiffPresent
  Proofs.ApplyInv Proofs.History Proofs.Reapply Proofs.ConflictsApply.
From SMD Require Import Proofs.MergeBase Proofs.MergeKeeps Proofs.MergeThru Proofs.MergeRestBase
  Proofs.MergeRest1 Proofs.MergeRest2a Proofs.MergeRest2 Proofs.MergeRest3 Proofs.MergeRest
  Proofs.SameLeaves Proofs.MergeAssoc.
From SMD Require Import Proofs.CommuteLeaves.
From SMD Require Proofs.ReconcileBase Proofs.MergeWf Proofs.TransparentMerge Proofs.HollowFreeMerge
  Proofs.HollowFreeBase Proofs.ValidateLaws.
From SMD Require Import Proofs.MergeAssocPos.
Theorem C12_merge_is_associative_up_to_member_order :
  forall (s : schema) (R : typeref -> Prop) (tr : typeref) (l r x lr rx a b : value),
         schema_ok s R ->
         family_refs s R ->
         lists_pure s R ->
         R tr ->
         wf_value l = true ->
         wf_value r = true ->
         wf_value x = true ->
         conforms s tr false l = true ->
         conforms s tr false r = true ->
         conforms s tr false x = true ->
         plain l = true ->
         plain r = true ->
         plain x = true ->
         same_kinds s tr r x ->
         merge s tr l r = Some (Some lr) ->
         merge s tr lr x = Some (Some a) ->
         merge s tr r x = Some (Some rx) ->
         merge s tr l rx = Some (Some b) -> veq_assoc s tr a b = true.
Proof. exact merge_associative_rx. Qed.
Print Assumptions C12_merge_is_associative_up_to_member_order.

Theorem C12_merge_is_associative_all_same_kinds :
  forall (s : schema) (R : typeref -> Prop) (tr : typeref) (l r x lr rx a b : value),
         schema_ok s R ->
         family_refs s R ->
         lists_pure s R ->
         R tr ->
         wf_value l = true ->
         wf_value r = true ->
         wf_value x = true ->
         conforms s tr false l = true ->
         conforms s tr false r = true ->
         conforms s tr false x = true ->
         plain l = true ->
         plain r = true ->
         plain x = true ->
         same_kinds s tr l r ->
         same_kinds s tr r x ->
         same_kinds s tr l x ->
         merge s tr l r = Some (Some lr) ->
         merge s tr lr x = Some (Some a) ->
         merge s tr r x = Some (Some rx) ->
         merge s tr l rx = Some (Some b) -> veq_assoc s tr a b = true.
Proof. exact merge_associative. Qed.
Print Assumptions C12_merge_is_associative_all_same_kinds.

Theorem C12_both_groupings_defined :
  forall (s : schema) (R : typeref -> Prop) (tr : typeref) (l r x : value),
         schema_ok s R ->
         family_refs s R ->
         lists_pure s R ->
         R tr ->
         wf_value l = true ->
         wf_value r = true ->
         wf_value x = true ->
         conforms s tr false l = true ->
         conforms s tr false r = true ->
         conforms s tr false x = true ->
         plain l = true ->
         plain r = true ->
         plain x = true ->
         exists lr rx a b : value,
           merge s tr l r = Some (Some lr) /\
           merge s tr lr x = Some (Some a) /\
           merge s tr r x = Some (Some rx) /\ merge s tr l rx = Some (Some b).
Proof. exact merge_associative_total. Qed.
Print Assumptions C12_both_groupings_defined.

Theorem C12_single_kind_types_have_same_kinds :
  forall (s : schema) (R : typeref -> Prop),
         schema_ok s R ->
         family_refs s R ->
         forall (tr : typeref) (d1 d2 : bool) (u v : value),
         single_kind s R ->
         R tr -> conforms s tr d1 u = true -> conforms s tr d2 v = true -> same_kinds s tr u v.
Proof. exact single_kind_same_kinds. Qed.
Print Assumptions C12_single_kind_types_have_same_kinds.

Theorem C12_F18_witness_changes_kind_between_r_and_x :
  ~ same_kinds ded_schema (ded_named "deduced") assoc_R assoc_X.
Proof. exact F18_witness_changes_kind_r_x. Qed.
Print Assumptions C12_F18_witness_changes_kind_between_r_and_x.

Theorem C12_associativity_example :
  schema_ok ex_schema FieldSetLaws.ex_R /\
         family_refs ex_schema FieldSetLaws.ex_R /\
         lists_pure ex_schema FieldSetLaws.ex_R /\
         FieldSetLaws.ex_R ex_rt /\
         wf_value ax_L = true /\
         wf_value ax_R = true /\
         wf_value ax_X = true /\
         conforms ex_schema ex_rt false ax_L = true /\
         conforms ex_schema ex_rt false ax_R = true /\
         conforms ex_schema ex_rt false ax_X = true /\
         plain ax_L = true /\
         plain ax_R = true /\
         plain ax_X = true /\
         same_kinds ex_schema ex_rt ax_L ax_R /\
         same_kinds ex_schema ex_rt ax_R ax_X /\
         same_kinds ex_schema ex_rt ax_L ax_X /\
         merge ex_schema ex_rt ax_L ax_R = Some (Some ax_LR) /\
         merge ex_schema ex_rt ax_LR ax_X = Some (Some ax_A) /\
         merge ex_schema ex_rt ax_R ax_X = Some (Some ax_RX) /\
         merge ex_schema ex_rt ax_L ax_RX = Some (Some ax_B) /\ veqb ax_A ax_B = false.
Proof. exact merge_associative_example_hypotheses. Qed.
Print Assumptions C12_associativity_example.

