(* C12 — Merge obeys its algebraic and ordering laws.  Statements only. *)
From Coq Require Import List ZArith String Bool.
From SMD Require Import Model.Value Model.Order Model.PathElem Model.PathSet Model.Schema
  Model.Merge Spec.Examples.
Import ListNotations.
Open Scope string_scope.

(* "merging with nothing is the identity" is FALSE of the faithful model (and of the
   code: finding F11) when the left root is itself a leaf -- here an empty map. *)
Theorem C12_identity_root_leaf_refuted :
  exists s tr l, merge s tr l VNull = Some (Some VNull) /\ l <> VNull.
Proof. exists ex_schema, ex_rt, (VMap []). split; [ vm_compute; reflexivity | discriminate ]. Qed.
Print Assumptions C12_identity_root_leaf_refuted.

(* the error-or-lawful clause on the witness of finding F1 (repaired by commit 4958a05):
   a right-hand side that is valid only with duplicates, nested inside a list item,
   makes the merge FAIL rather than succeed after dropping the field *)
Theorem C12_nested_duplicates_are_reported :
  merge ex_schema ex_rt
    (VMap [("items", VList [VMap [("name", VStr "a"); ("tags", VList [VStr "x"])]])])
    (VMap [("items", VList [VMap [("name", VStr "a"); ("tags", VList [VStr "y"; VStr "y"])]])])
  = None.
Proof. vm_compute. reflexivity. Qed.
Print Assumptions C12_nested_duplicates_are_reported.
