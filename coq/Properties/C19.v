(* C19 — Ignored fields never take part in ownership.  Statements only. *)
From Coq Require Import List ZArith String Bool.
From SMD Require Import Model.Value Model.Order Model.PathElem Model.PathSet Model.Matcher
  Spec.PathsAsSets Proofs.OrderLaws Proofs.PathSetLaws.
Import ListNotations.
Open Scope bool_scope.

(* an exclusion filter drops exactly the paths at or beneath a member of the exclusion
   set, and what it returns is again a well-formed set *)
Theorem C19_exclusion_filter_exact : forall ex s, ps_ok s = true -> ps_ok ex = true ->
  ps_ok (apply_filter (FExclude ex) s) = true /\
  forall p, wf_path p = true ->
    ps_has p (apply_filter (FExclude ex) s) = ps_has p s && negb (has_prefix_in p ex).
Proof. exact (fun ex s Hs He => ps_rdiff_spec s ex Hs He). Qed.
Print Assumptions C19_exclusion_filter_exact.
