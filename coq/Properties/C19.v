(* C19 — Ignored fields never take part in ownership.  Statements only; proofs in
   Proofs/PathSetLaws.v and Proofs/UpdaterLaws2.v.  Proved for exclusion sets
   ([exclusion_config]); the include-pattern filter is compared with its independent
   reference (Spec/Patterns.v) on the implementation's results only. *)
From Coq Require Import List ZArith String Bool.
From SMD Require Import Model.Value Model.Order Model.PathElem Model.PathSet Model.Schema Model.Walk
  Model.FieldSet Model.Compare Model.Matcher Model.Updater Spec.PathsAsSets Spec.Examples
  Proofs.OrderLaws Proofs.PathSetLaws Proofs.UpdaterLaws Proofs.UpdaterLaws2.
Import ListNotations.
Open Scope list_scope.
Open Scope bool_scope.

(* an exclusion filter drops exactly the paths at or beneath a member of the exclusion
   set, and what it returns is again a well-formed set *)
Theorem C19_exclusion_filter_exact : forall ex s, ps_ok s = true -> ps_ok ex = true ->
  ps_ok (apply_filter (FExclude ex) s) = true /\
  forall p, wf_path p = true ->
    ps_has p (apply_filter (FExclude ex) s) = ps_has p s && negb (has_prefix_in p ex).
Proof. exact (fun ex s Hs He => ps_rdiff_spec s ex Hs He). Qed.
Print Assumptions C19_exclusion_filter_exact.

Theorem C19_apply_never_owns_ignored :
  forall (c : config) (live cfg : string * value) (ver : string) 
           (mf mf0 : managed) (n0 : nat) (mgr : string) (force : bool) 
           (o : option tv) (mf' : managed),
         exclusion_config c ->
         compare_ok_wf c ->
         fs_ok_wf c ->
         conv_wf c ->
         wf_value (snd live) = true ->
         wf_value (snd cfg) = true ->
         reconcile_managed c 0 live mf = UOk (mf0, n0) ->
         records_inv mf0 ->
         never_owned c mf0 ->
         apply_op c live cfg ver mf mgr force = UOk (o, mf') -> never_owned c mf'.
Proof. exact apply_op_never_owned. Qed.
Print Assumptions C19_apply_never_owns_ignored.

Theorem C19_update_never_owns_ignored :
  forall (c : config) (live new : string * value) (ver : string) 
           (mf mf0 : managed) (n0 : nat) (mgr : string) (o : tv) (mf' : managed),
         exclusion_config c ->
         compare_ok_wf c ->
         conv_wf c ->
         wf_value (snd live) = true ->
         wf_value (snd new) = true ->
         reconcile_managed c 0 live mf = UOk (mf0, n0) ->
         records_inv mf0 ->
         never_owned c mf0 -> update_op c live new ver mf mgr = UOk (o, mf') -> never_owned c mf'.
Proof. exact update_op_never_owned. Qed.
Print Assumptions C19_update_never_owns_ignored.

Theorem C19_others_only_shrink :
  forall (c : config) (n : nat) (old new : string * value) (ver : string) 
           (mf : managed) (w : string) (force : bool) (mf' : managed) 
           (cmp : comparison3) (n' : nat),
         mf_ok mf ->
         compare_ok_wf c ->
         conv_wf c ->
         wf_value (snd old) = true ->
         wf_value (snd new) = true ->
         (forall (v : string) (f : sfilter),
          ignore_filter_for c v = Some (Some f) ->
          exists ex : pset, f = FExclude ex /\ ps_ok ex = true) ->
         update_core c n old new ver mf w force = UOk (mf', cmp, n') ->
         mf_ok mf' /\
         (forall (m : string) (r' : mrec), mf_get m mf' = Some r' -> ps_empty (mr_set r') = false) /\
         (forall (m : string) (r' : mrec),
          m <> w ->
          mf_get m mf' = Some r' ->
          exists r : mrec,
            mf_get m mf = Some r /\
            mr_ver r' = mr_ver r /\
            mr_applied r' = mr_applied r /\
            (forall p : path,
             wf_path p = true -> ps_has p (mr_set r') = true -> ps_has p (mr_set r) = true)).
Proof. exact update_core_others_shrink. Qed.
Print Assumptions C19_others_only_shrink.


(* ---- the include-pattern filter (proofs in Proofs/Include{Filter,Order,Denote,Laws}.v):
   it keeps exactly the members compatible with one of the patterns (Spec/Patterns.v),
   for every list of patterns and every well-formed set; SetMatcher.Merge is modelled
   with its bisection lookup as repaired by commit c7a189b ---- *)
From SMD Require Import Base.Search Spec.Patterns Proofs.IncludeLaws.
Theorem C19_include_filter_exact :
  forall (pats : list (list pematcher)) (s : pset),
         ps_ok s = true ->
         forallb wf_pattern pats = true ->
         ps_ok (ps_filter_include s (include_matcher (map prefix_matcher pats))) = true /\
         (forall p : path,
          wf_path p = true ->
          ps_has p (ps_filter_include s (include_matcher (map prefix_matcher pats))) =
          ps_has p s && include_keeps pats p).
Proof. exact include_filter_exact. Qed.
Print Assumptions C19_include_filter_exact.

(* ---- along every history (Proofs/IgnoredHistory.v): with an exclusion configuration in
   force, for histories of apply / forced apply / update at ANY API versions and any
   converter satisfying [conv_wf], no record of any reachable state contains an ignored
   field or anything beneath it (and the object stays well formed, the records keep
   [records_inv]).  New on the way: reconciliation preserves [never_owned]. ---- *)
From Coq Require Import Arith Lia.
From SMD Require Import Model.Merge Model.Reconcile Proofs.IgnoredHistory Proofs.IgnoredHistoryExample.
Open Scope string_scope.
Theorem C19_never_owned_along_every_history :
  forall (c : config) (v0 : string) (ops : list vop),
         exclusion_config c ->
         compare_ok_wf c ->
         fs_ok_wf c ->
         conv_wf c ->
         Forall vop_ok ops ->
         wf_value (snd (fst (vrun c v0 ops))) = true /\
         records_inv (snd (vrun c v0 ops)) /\ never_owned c (snd (vrun c v0 ops)).
Proof. exact never_owned_along_histories. Qed.
Print Assumptions C19_never_owned_along_every_history.

Theorem C19_history_example :
  wf_value (snd (fst (vrun ig_config "v1" ig_ops))) = true /\
         records_inv (snd (vrun ig_config "v1" ig_ops)) /\
         never_owned ig_config (snd (vrun ig_config "v1" ig_ops)).
Proof. exact ig_history_never_owns_ignored. Qed.
Print Assumptions C19_history_example.

Theorem C19_history_example_is_not_degenerate :
  exists r1 r2 : mrec,
           mf_get "m1" (snd (vrun ig_config "v1" ig_ops)) = Some r1 /\
           mf_get "m2" (snd (vrun ig_config "v1" ig_ops)) = Some r2 /\
           ps_empty (mr_set r1) = false /\
           ps_empty (mr_set r2) = false /\
           ps_has (PEField "mm" :: PEField "x" :: nil) (mr_set r1) = true /\
           ps_has (PEField "mm" :: PEField "z" :: nil) (mr_set r2) = true /\
           ps_has (PEField "aa" :: nil) (mr_set r1) = false /\
           ps_has (PEField "aa" :: nil) (mr_set r2) = false.
Proof. exact ig_history_not_degenerate. Qed.
Print Assumptions C19_history_example_is_not_degenerate.


(* ---- include-pattern filters along every history (Proofs/FilterHistory*.v): with an
   include-pattern filter per version in force, every path of every record of every reachable
   state is KEPT by the filter of the record's version -- in terms of the independent
   reference notion of Spec/Patterns.v (include_keeps, with wildcard shadowing) as well as of
   the model's matcher; for histories over any number of versions, any converter with conv_wf,
   and also when the schemas change between operations (the opening reconciliation replaces
   members by non-empty prefixes, and a prefix of a kept path is kept).  A conflict error only
   ever lists kept paths: a field the filter ignores everywhere never produces a conflict.
   Example: two managers write an ignored field with different values without conflict (the
   same operation conflicts without the filter) and do conflict on a kept one. ---- *)
From Coq Require Import List ZArith String Bool.
From SMD Require Import Model.Value Model.PathElem Model.PathSet Model.Schema Model.Matcher Model.Updater
  Spec.PathsAsSets Spec.Patterns Spec.Examples Proofs.OrderLaws Proofs.PathSetLaws Proofs.UpdaterLaws Proofs.UpdaterLaws2
  Proofs.IgnoredHistory Proofs.FilterHistoryBase Proofs.FilterHistory.
From SMD Require Proofs.SchemaOk Proofs.ValidateLaws Proofs.IncludeLaws.
From SMD Require Import Proofs.FilterHistoryExample.
Theorem C19_include_filter_never_owned_along_every_history :
  forall (c : config) (pt : pattern_table) (v0 : string) (ops : list vop),
         pattern_config pt c ->
         compare_ok_wf c ->
         fs_ok_wf c ->
         conv_wf c ->
         Forall vop_ok ops ->
         wf_value (snd (fst (vrun c v0 ops))) = true /\
         records_inv (snd (vrun c v0 ops)) /\ only_patterns_owned pt (snd (vrun c v0 ops)).
Proof. exact only_patterns_along_histories. Qed.
Print Assumptions C19_include_filter_never_owned_along_every_history.

Theorem C19_only_kept_paths_owned_along_every_history :
  forall (c : config) (v0 : string) (ops : list vop),
         filter_config c ->
         compare_ok_wf c ->
         fs_ok_wf c ->
         conv_wf c ->
         Forall vop_ok ops ->
         wf_value (snd (fst (vrun c v0 ops))) = true /\
         records_inv (snd (vrun c v0 ops)) /\ only_kept_owned c (snd (vrun c v0 ops)).
Proof. exact only_kept_along_histories. Qed.
Print Assumptions C19_only_kept_paths_owned_along_every_history.

Theorem C19_also_when_schemas_change :
  forall (fs : option (list (string * sfilter))) (v0 : string)
           (cops : list (config * vop)),
         Forall (cop_ok fs) cops ->
         wf_value (snd (fst (cvrun v0 cops))) = true /\
         records_inv (snd (cvrun v0 cops)) /\
         (forall c : config, cfg_ignore_filter c = fs -> only_kept_owned c (snd (cvrun v0 cops))).
Proof. exact only_kept_along_changing_histories. Qed.
Print Assumptions C19_also_when_schemas_change.

Theorem C19_reconciliation_keeps_the_invariant :
  forall (c : config) (n : nat) (live : tv) (mf mf0 : managed) (n0 : nat),
         filter_config c ->
         mf_ok mf ->
         only_kept_owned c mf ->
         reconcile_managed c n live mf = UOk (mf0, n0) -> only_kept_owned c mf0.
Proof. exact reconcile_only_kept. Qed.
Print Assumptions C19_reconciliation_keeps_the_invariant.

Theorem C19_conflicts_only_on_kept_paths :
  forall (c : config) (live cfg : string * value) (ver : string) 
           (mf : managed) (mgr : string) (force : bool) (cs : list (string * path)),
         filter_config c ->
         compare_ok_wf c ->
         fs_ok_wf c ->
         conv_wf c ->
         wf_value (snd live) = true ->
         wf_value (snd cfg) = true ->
         records_inv mf ->
         only_kept_owned c mf ->
         apply_op c live cfg ver mf mgr force = UErr (EConflict cs) ->
         forall (m : string) (p : path),
         In (m, p) cs ->
         m <> mgr /\
         (exists (mf0 : managed) (n0 : nat) (r : mrec),
            reconcile_managed c 0 live mf = UOk (mf0, n0) /\
            mf_get m mf0 = Some r /\
            wf_path p = true /\ ps_has p (mr_set r) = true /\ kept_at c (mr_ver r) p = true).
Proof. exact apply_conflicts_only_on_kept. Qed.
Print Assumptions C19_conflicts_only_on_kept_paths.

Theorem C19_filter_history_example :
  wf_value (snd (fst (vrun fh_config "v1" fh_ops))) = true /\
         records_inv (snd (vrun fh_config "v1" fh_ops)) /\
         only_patterns_owned fh_table (snd (vrun fh_config "v1" fh_ops)).
Proof. exact fh_history_only_patterns_owned. Qed.
Print Assumptions C19_filter_history_example.

Theorem C19_no_conflict_on_an_ignored_field :
  (exists (o : tv) (mf' : managed),
            apply_op fh_config (fst (vrun fh_config "v1" (firstn 3 fh_ops))) (
              "v1", fh_op4) "v1" (snd (vrun fh_config "v1" (firstn 3 fh_ops))) "m1" false =
            UOk (Some o, mf') /\
            assoc_get "aa" match snd o with
                           | VMap m => m
                           | _ => nil
                           end = Some (VInt 9) /\
            assoc_get "aa"
              match snd (fst (vrun fh_config "v1" (firstn 3 fh_ops))) with
              | VMap m => m
              | _ => nil
              end = Some (VInt 7)) /\
         (exists r : mrec,
            mf_get "m2" (snd (vrun ex_config "v1" (firstn 3 fh_ops))) = Some r /\
            ps_has p_aa (mr_set r) = true) /\
         apply_op ex_config (fst (vrun ex_config "v1" (firstn 3 fh_ops))) (
           "v1", fh_op4) "v1" (snd (vrun ex_config "v1" (firstn 3 fh_ops))) "m1" false =
         UErr (EConflict (("m2", p_aa) :: nil)) /\
         assoc_get "aa"
           match snd (fst (vrun ex_config "v1" fh_ops)) with
           | VMap m => m
           | _ => nil
           end = Some (VInt 7).
Proof. exact fh_no_conflict_on_ignored. Qed.
Print Assumptions C19_no_conflict_on_an_ignored_field.

