(* C06 — Object and ownership stay mutually consistent along any history.  Statements
   only.  The executable invariant (valid live object, every owned path present, no empty
   record, no failure other than a conflict) is evaluated on every state the
   implementation produces (Driver/Hist.v).  Proved about the model: the initial state;
   the ownership-map part of the invariant ([records_inv]: unique managers, well-formed
   non-empty sets) is preserved by Apply and by Update.  Not yet proved: validity of the
   object and presence of every owned path after a step. *)
From Coq Require Import List ZArith String Bool.
From SMD Require Import Model.Value Model.Order Model.PathElem Model.PathSet Model.Schema Model.Walk
  Model.FieldSet Model.Compare Model.Matcher Model.Updater Spec.PathsAsSets Spec.Examples
  Proofs.OrderLaws Proofs.PathSetLaws Proofs.UpdaterLaws Proofs.UpdaterLaws2.
Import ListNotations.
Open Scope list_scope.
From SMD Require Import Spec.RefValid.

Theorem C06_initial_state : forall s tr a,
  resolve s tr = Some a -> atom_nonempty a = true ->
  conforms s tr true VNull = true /\ records_inv [].
Proof.
  intros s tr a Hr Hne. split.
  - simpl. rewrite Hr. destruct a as [sc li ma]. exact Hne.
  - split; [split; reflexivity | intros m r H; discriminate H].
Qed.
Print Assumptions C06_initial_state.

Theorem C06_apply_preserves_records_inv :
  forall (c : config) (live cfg : string * value) (ver : string) 
           (mf : managed) (mgr : string) (force : bool) (o : option tv) 
           (mf' : managed),
         no_ignore c ->
         compare_ok_wf c ->
         fs_ok_wf c ->
         conv_wf c ->
         wf_value (snd live) = true ->
         wf_value (snd cfg) = true ->
         records_inv mf -> apply_op c live cfg ver mf mgr force = UOk (o, mf') -> records_inv mf'.
Proof. exact apply_op_records_inv. Qed.
Print Assumptions C06_apply_preserves_records_inv.

Theorem C06_update_preserves_records_inv :
  forall (c : config) (live new : string * value) (ver : string) 
           (mf : managed) (mgr : string) (o : tv) (mf' : managed),
         no_ignore c ->
         compare_ok_wf c ->
         conv_wf c ->
         wf_value (snd live) = true ->
         wf_value (snd new) = true ->
         records_inv mf -> update_op c live new ver mf mgr = UOk (o, mf') -> records_inv mf'.
Proof. exact update_op_records_inv. Qed.
Print Assumptions C06_update_preserves_records_inv.

