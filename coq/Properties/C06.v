(* C06 — Object and ownership stay mutually consistent along any history.  Statements
   only.  The executable invariant (valid live object, every owned path present, no empty
   record) is evaluated on every state the implementation produces (Driver/Hist.v).  Proved
   so far about the model: the initial state satisfies it; the ownership-map part of the
   invariant is preserved by every step (Proofs/UpdaterLaws.v: mf_ok and no empty record
   after update_core). *)
From Coq Require Import List ZArith String Bool.
From SMD Require Import Model.Value Model.Order Model.PathElem Model.PathSet Model.Schema
  Model.Compare Model.Updater Spec.RefValid Spec.Resolve Proofs.OrderLaws Proofs.PathSetLaws Proofs.UpdaterLaws.
Import ListNotations.

Theorem C06_initial_state : forall s tr a,
  resolve s tr = Some a -> atom_nonempty a = true ->
  conforms s tr true VNull = true /\ mf_ok [] /\ (forall m, mf_get m [] = None).
Proof.
  intros s tr a Hr Hne. split.
  - simpl. rewrite Hr. destruct a as [sc li ma]. exact Hne.
  - split; [split; reflexivity | reflexivity].
Qed.
Print Assumptions C06_initial_state.

(* the ownership map stays well formed and free of empty records through the ownership
   update of every operation (single-version case without ignore configuration) *)
Theorem C06_ownership_map_invariant : forall c n old new ver mf w force mf' cmp n',
  no_ignore c -> single_version ver mf -> mf_ok mf ->
  (forall cmp0, compare_tv c old new = Some cmp0 -> cmp_ok cmp0) ->
  update_core c n old new ver mf w force = UOk (mf', cmp, n') ->
  mf_ok mf' /\ single_version ver mf' /\ (forall m r, mf_get m mf' = Some r -> ps_empty (mr_set r) = false).
Proof.
  intros c n old new ver mf w force mf' cmp n' H1 H2 H3 H4 H5.
  destruct (update_core_records c n old new ver mf w force mf' cmp n' H1 H2 H3 H4 H5) as (_ & _ & Ha & Hb & Hc & _).
  exact (conj Ha (conj Hb Hc)).
Qed.
Print Assumptions C06_ownership_map_invariant.
