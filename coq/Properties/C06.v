(* C06 — Object and ownership stay mutually consistent along any history.  Statements
   only.  The executable invariant (valid live object, every owned path present, no empty
   record, no failure other than a conflict) is evaluated on every state the
   implementation produces (Driver/Hist.v).  Proved about the model: the initial state;
   the ownership-map part of the invariant ([records_inv]: unique managers, well-formed
   non-empty sets) is preserved by Apply and by Update; the Update step preserves "every
   owned path designates a node of the live object" together with well-formed, single-
   version, non-empty records (one version, no ignore configuration; the opening
   reconciliation is not assumed to be the identity), by way of: a path present on the
   left and not reported removed by the reference diff is present on the right
   (Proofs/RefDiffPresent.v) and compare computes the reference diff (C11).  The Apply step
   (C06_apply_keeps_the_state_consistent, Proofs/ApplyInv.v, setting and side conditions of
   C01_apply_takes_effect): the resulting object is well formed and valid, every path of
   every new record designates a node of it, and the records stay well formed, single-
   version and non-empty.  Not proved: that the side conditions of C01 are themselves
   preserved along a history (they are evaluated on every state the implementation
   produces, see the tags of the C01 evidence). *)
From Coq Require Import List ZArith String Bool.
From SMD Require Import Model.Value Model.Order Model.PathElem Model.PathSet Model.Schema Model.Walk
  Model.FieldSet Model.Compare Model.Matcher Model.Updater Spec.PathsAsSets Spec.Examples
  Proofs.OrderLaws Proofs.PathSetLaws Proofs.UpdaterLaws Proofs.UpdaterLaws2.
Import ListNotations.
Open Scope list_scope.
From SMD Require Import Spec.RefValid.

Theorem C06_initial_state : forall s tr a,
  resolve s tr = Some a -> atom_nonempty a = true ->
  conforms s tr true VNull = true /\ records_inv [].
Proof.
  intros s tr a Hr Hne. split.
  - simpl. rewrite Hr. destruct a as [sc li ma]. exact Hne.
  - split; [split; reflexivity | intros m r H; discriminate H].
Qed.
Print Assumptions C06_initial_state.

Theorem C06_apply_preserves_records_inv :
  forall (c : config) (live cfg : string * value) (ver : string) 
           (mf : managed) (mgr : string) (force : bool) (o : option tv) 
           (mf' : managed),
         no_ignore c ->
         compare_ok_wf c ->
         fs_ok_wf c ->
         conv_wf c ->
         wf_value (snd live) = true ->
         wf_value (snd cfg) = true ->
         records_inv mf -> apply_op c live cfg ver mf mgr force = UOk (o, mf') -> records_inv mf'.
Proof. exact apply_op_records_inv. Qed.
Print Assumptions C06_apply_preserves_records_inv.

Theorem C06_update_preserves_records_inv :
  forall (c : config) (live new : string * value) (ver : string) 
           (mf : managed) (mgr : string) (o : tv) (mf' : managed),
         no_ignore c ->
         compare_ok_wf c ->
         conv_wf c ->
         wf_value (snd live) = true ->
         wf_value (snd new) = true ->
         records_inv mf -> update_op c live new ver mf mgr = UOk (o, mf') -> records_inv mf'.
Proof. exact update_op_records_inv. Qed.
Print Assumptions C06_update_preserves_records_inv.

(* ---- the Update step keeps every owned path present ---- *)
From Coq Require Import Arith Lia.
From SMD Require Import Model.Validate Spec.Resolve Spec.RefDiff Proofs.SchemaOk Proofs.CompareLaws
  Proofs.RefDiffBoth Proofs.RefDiffLaws Proofs.RefDiffPresent Proofs.ReconcileOwned Proofs.UpdateInv.
Theorem C06_update_keeps_owned_paths_present :
  forall (c : config) (R : typeref -> Prop) (ver : string) (live new : string * value)
           (mf : managed) (mgr : string) (o : tv) (mf' : managed),
         no_ignore c ->
         conv_id c ->
         schema_ok (schema_of c ver) R ->
         family_refs (schema_of c ver) R ->
         lists_pure (schema_of c ver) R ->
         R (tr_of c ver) ->
         fst live = ver ->
         fst new = ver ->
         single_version ver mf ->
         mf_ok mf ->
         wf_value (snd live) = true ->
         wf_value (snd new) = true ->
         conforms (schema_of c ver) (tr_of c ver) true (snd live) = true ->
         conforms (schema_of c ver) (tr_of c ver) true (snd new) = true ->
         owned_present (schema_of c ver) (tr_of c ver) (snd live) mf ->
         update_op c live new ver mf mgr = UOk (o, mf') ->
         o = new /\
         owned_present (schema_of c ver) (tr_of c ver) (snd new) mf' /\
         mf_ok mf' /\
         single_version ver mf' /\
         (forall (m : string) (r : mrec), mf_get m mf' = Some r -> ps_empty (mr_set r) = false).
Proof. exact update_preserves_owned_present. Qed.
Print Assumptions C06_update_keeps_owned_paths_present.

Theorem C06_owned_paths_survive_a_removed_free_diff :
  forall (s : schema) (R : typeref -> Prop),
         schema_ok s R ->
         family_refs s R ->
         forall (tr : typeref) (l r : value),
         R tr ->
         wf_value l = true ->
         wf_value r = true ->
         conforms s tr true l = true ->
         conforms s tr true r = true ->
         forall p : path,
         wf_path p = true ->
         p <> [] ->
         (present s tr l p = true ->
          pmem p (rd_removed (ref_diff s tr l r)) = false -> present s tr r p = true) /\
         (pmem p (rd_modified (ref_diff s tr l r)) = true -> present s tr r p = true) /\
         (pmem p (rd_added (ref_diff s tr l r)) = true -> present s tr r p = true).
Proof. exact ref_diff_present. Qed.
Print Assumptions C06_owned_paths_survive_a_removed_free_diff.


(* non-vacuity: a live object with records of two managers, an update by m2 that removes
   mm.x and changes aa, both owned by m1 (all hypotheses discharged concretely) *)
Open Scope string_scope.
Theorem C06_update_step_example :
  ui_new = ui_new /\
         owned_present ex_schema ex_rt (snd ui_new) ui_mf' /\
         mf_ok ui_mf' /\
         single_version "v1" ui_mf' /\
         (forall (m : string) (r : mrec), mf_get m ui_mf' = Some r -> ps_empty (mr_set r) = false).
Proof. exact update_preserves_owned_present_example. Qed.
Print Assumptions C06_update_step_example.

Theorem C06_update_step_example_is_not_degenerate :
  (forall r : mrec,
          mf_get "m1" ui_mf = Some r ->
          ps_has [PEField "mm"; PEField "x"] (mr_set r) = true /\
          ps_has [PEField "aa"] (mr_set r) = true) /\
         present ex_schema ex_rt (snd ui_live) [PEField "mm"; PEField "x"] = true /\
         present ex_schema ex_rt (snd ui_new) [PEField "mm"; PEField "x"] = false /\
         (forall r : mrec,
          mf_get "m1" ui_mf' = Some r ->
          ps_has [PEField "mm"; PEField "x"] (mr_set r) = false /\
          ps_has [PEField "aa"] (mr_set r) = false /\
          ps_has [PEField "mm"; PEField "z"] (mr_set r) = true) /\
         (forall r : mrec, mf_get "m2" ui_mf' = Some r -> ps_has [PEField "aa"] (mr_set r) = true).
Proof. exact ui_example_facts. Qed.
Print Assumptions C06_update_step_example_is_not_degenerate.

Theorem C06_update_step_example_computed :
  update_op ex_config ui_live ui_new "v1" ui_mf "m2" = UOk (ui_new, ui_mf').
Proof. exact ui_update_computed. Qed.
Print Assumptions C06_update_step_example_computed.

(* ---- the Apply step keeps object and ownership consistent ---- *)
From SMD Require Import Model.Remove Model.Merge Model.Reconcile Spec.Agree
  Proofs.FieldSetBase Proofs.FieldSetPaths Proofs.FieldSetWf Proofs.FieldSetLaws Proofs.RemoveAbsent Proofs.RemoveWf
  Proofs.ResolveLaws Proofs.MergeLaws Proofs.MergeAgree Proofs.RemoveFrame Proofs.EnLaws Proofs.NodeSet
  Proofs.KeyFields Proofs.VeqbResolve Proofs.SetCheckers Proofs.ApplyEffect Proofs.ApplyInv.
Theorem C06_apply_keeps_the_state_consistent :
  forall (c : config) (R : typeref -> Prop) (ver : string) (live cfg : string * value)
           (mf : managed) (mgr : string) (force : bool) (o : option tv) 
           (mf' : managed),
         no_ignore c ->
         conv_id c ->
         schema_ok (schema_of c ver) R ->
         family_refs (schema_of c ver) R ->
         lists_pure (schema_of c ver) R ->
         R (tr_of c ver) ->
         keys_plain (schema_of c ver) R ->
         fst live = ver ->
         fst cfg = ver ->
         single_version ver mf ->
         mf_ok mf ->
         records_current c ver mf ->
         (forall r : mrec,
          mf_get mgr mf = Some r -> applier_record_ok (schema_of c ver) (tr_of c ver) (mr_set r)) ->
         (forall (m : string) (r : mrec),
          m <> mgr ->
          mf_get m mf = Some r ->
          owns_live_keys (schema_of c ver) (tr_of c ver) (snd live) (mr_set r)) ->
         wf_value (snd live) = true ->
         wf_value (snd cfg) = true ->
         conforms (schema_of c ver) (tr_of c ver) true (snd live) = true ->
         conforms (schema_of c ver) (tr_of c ver) false (snd cfg) = true ->
         plain (snd cfg) = true ->
         granular (schema_of c ver) (tr_of c ver) (snd cfg) ->
         owned_present (schema_of c ver) (tr_of c ver) (snd live) mf ->
         apply_op c live cfg ver mf mgr force = UOk (o, mf') ->
         let res := match o with
                    | Some t => snd t
                    | None => snd live
                    end in
         wf_value res = true /\
         conforms (schema_of c ver) (tr_of c ver) true res = true /\
         owned_present (schema_of c ver) (tr_of c ver) res mf' /\
         mf_ok mf' /\
         single_version ver mf' /\
         (forall (m : string) (r : mrec), mf_get m mf' = Some r -> ps_empty (mr_set r) = false).
Proof. exact apply_preserves_owned_present. Qed.
Print Assumptions C06_apply_keeps_the_state_consistent.

Theorem C06_apply_step_example :
  wf_value ai_result = true /\
         conforms ex_schema ex_rt true ai_result = true /\
         owned_present ex_schema ex_rt ai_result ai_mf' /\
         mf_ok ai_mf' /\
         single_version "v1" ai_mf' /\
         (forall (m : string) (r : mrec), mf_get m ai_mf' = Some r -> ps_empty (mr_set r) = false).
Proof. exact apply_preserves_owned_present_example. Qed.
Print Assumptions C06_apply_step_example.

Theorem C06_apply_step_example_is_not_degenerate :
  (forall r : mrec,
          mf_get "a" ai_mf = Some r ->
          ps_has (PEField "items" :: PEKey (("name", VStr "x") :: nil) :: nil) (mr_set r) = true /\
          ps_has (PEField "mm" :: PEField "j" :: nil) (mr_set r) = true) /\
         present ex_schema ex_rt ai_live
           (PEField "items" :: PEKey (("name", VStr "x") :: nil) :: nil) = true /\
         present ex_schema ex_rt ai_live (PEField "mm" :: PEField "j" :: nil) = true /\
         present ex_schema ex_rt ai_result
           (PEField "items" :: PEKey (("name", VStr "x") :: nil) :: nil) = false /\
         present ex_schema ex_rt ai_result (PEField "mm" :: PEField "j" :: nil) = false /\
         (forall r : mrec,
          mf_get "a" ai_mf' = Some r ->
          ps_has (PEField "items" :: PEKey (("name", VStr "x") :: nil) :: nil) (mr_set r) = false /\
          ps_has (PEField "mm" :: PEField "j" :: nil) (mr_set r) = false /\
          ps_has (PEField "items" :: PEKey (("name", VStr "z") :: nil) :: nil) (mr_set r) = true /\
          ps_has (PEField "mm" :: PEField "k" :: nil) (mr_set r) = true) /\
         (forall r : mrec,
          mf_get "b" ai_mf = Some r ->
          ps_has (PEField "mm" :: PEField "k" :: nil) (mr_set r) = true) /\
         (forall r : mrec,
          mf_get "b" ai_mf' = Some r ->
          ps_has (PEField "mm" :: PEField "k" :: nil) (mr_set r) = false /\
          ps_has (PEField "items" :: PEKey (("name", VStr "y") :: nil) :: PEField "vv" :: nil)
            (mr_set r) = true) /\
         present ex_schema ex_rt ai_result
           (PEField "items" :: PEKey (("name", VStr "y") :: nil) :: PEField "vv" :: nil) = true /\
         veqb ai_live ai_result = false.
Proof. exact ai_example_facts. Qed.
Print Assumptions C06_apply_step_example_is_not_degenerate.

(* ---- along every history: the side conditions are an invariant of the reachable states
   (Proofs/History.v: [state_ok], [op_ok], [run]; one version, identity converter, no ignore
   configuration; histories of apply / forced apply / update by any number of managers) ---- *)
From SMD Require Import Spec.RefDiff Proofs.RefDiffBoth Proofs.RefDiffLaws Proofs.RefDiffPresent Proofs.ApplyInv
  Proofs.RefDiffChar Proofs.ReconcileCurrent Proofs.KeySync Proofs.History.
Theorem C06_every_reachable_state_is_consistent :
  forall (c : config) (R : typeref -> Prop) (ver : string) (ops : list hop),
         setting_ok c R ver ->
         Forall (op_ok c ver) ops -> state_ok c ver (fst (run c ver ops)) (snd (run c ver ops)).
Proof. exact reachable_states_ok. Qed.
Print Assumptions C06_every_reachable_state_is_consistent.

Theorem C06_one_step_preserves_consistency :
  forall (c : config) (R : typeref -> Prop) (ver : string) (live : value) 
           (mf : managed) (o : hop),
         setting_ok c R ver ->
         state_ok c ver live mf ->
         op_ok c ver o ->
         state_ok c ver (fst (hstep c ver (live, mf) o)) (snd (hstep c ver (live, mf) o)).
Proof. exact step_preserves_state_ok. Qed.
Print Assumptions C06_one_step_preserves_consistency.

Theorem C06_reachable_objects_are_valid :
  forall (c : config) (R : typeref -> Prop) (ver : string) (ops : list hop),
         setting_ok c R ver ->
         Forall (op_ok c ver) ops ->
         ops <> [] \/ conforms (schema_of c ver) (tr_of c ver) true VNull = true ->
         conforms (schema_of c ver) (tr_of c ver) true (fst (run c ver ops)) = true.
Proof. exact reachable_objects_valid. Qed.
Print Assumptions C06_reachable_objects_are_valid.

Theorem C06_owned_paths_present_along_every_history :
  forall (c : config) (R : typeref -> Prop) (ver : string) (ops : list hop) 
           (m : string) (r : mrec) (p : path),
         setting_ok c R ver ->
         Forall (op_ok c ver) ops ->
         mf_get m (snd (run c ver ops)) = Some r ->
         wf_path p = true ->
         ps_has p (mr_set r) = true ->
         present (schema_of c ver) (tr_of c ver) (fst (run c ver ops)) p = true.
Proof. exact owned_paths_present_along_histories. Qed.
Print Assumptions C06_owned_paths_present_along_every_history.

Theorem C06_null_root_needs_care :
  setting_ok deg_config deg_R "v1" /\
         Forall (op_ok deg_config "v1") [] /\
         conforms (schema_of deg_config "v1") (tr_of deg_config "v1") true
           (fst (run deg_config "v1" [])) = false.
Proof. exact so_conforms_as_stated_refuted. Qed.
Print Assumptions C06_null_root_needs_care.


(* ---- C06, third sentence: "No operation on valid inputs fails for any reason other than a
   reported conflict" (Proofs/NoOtherFailure.v): at every reachable state an update with an
   admissible object (duplicates allowed) succeeds, an apply of an admissible configuration
   succeeds or -- when not forced -- is refused with a non-empty list of conflicts and leaves
   the state as it is; an error is never EOther or EPanic. ---- *)
From Coq Require Import List ZArith String Bool Arith Lia.
From SMD Require Import Model.Value Model.Order Model.PathElem Model.PathSet Model.Schema Model.Walk
  Model.Validate Model.FieldSet Model.Remove Model.Merge Model.Compare Model.Matcher Model.Reconcile
  Model.Updater
  Spec.PathsAsSets Spec.RefValid Spec.Resolve Spec.Agree Spec.RefDiff Spec.Examples
  Proofs.OrderLaws Proofs.PathSetLaws Proofs.SchemaOk Proofs.FieldSetBase Proofs.FieldSetPaths
  Proofs.FieldSetWf Proofs.FieldSetLaws Proofs.RemoveAbsent Proofs.RemoveWf Proofs.ResolveLaws
  Proofs.UpdaterLaws Proofs.UpdaterLaws2 Proofs.MergeLaws Proofs.MergeAgree
  Proofs.RemoveFrame Proofs.EnLaws Proofs.NodeSet Proofs.KeyFields Proofs.VeqbResolve
  Proofs.SetCheckers Proofs.ApplyEffect Proofs.RefDiffBoth Proofs.RefDiffLaws Proofs.RefDiffPresent
  Proofs.ApplyInv Proofs.History Proofs.Reapply Proofs.ConflictsApply.
From SMD Require Import Proofs.CompareLaws Proofs.ReconcileTotal.
From SMD Require Import Proofs.NoOtherFailure.
Theorem C06_update_succeeds :
  forall (c : config) (R : typeref -> Prop) (ver : string) (live : value) 
           (mf : managed) (mgr : string) (obj : value),
         setting_ok c R ver ->
         state_ok c ver live mf ->
         op_ok c ver (HUpdate mgr obj) ->
         exists (o : tv) (mf' : managed),
           update_op c (ver, live) (ver, obj) ver mf mgr = UOk (o, mf').
Proof. exact update_succeeds. Qed.
Print Assumptions C06_update_succeeds.

Theorem C06_apply_fails_only_with_conflicts :
  forall (c : config) (R : typeref -> Prop) (ver : string) (live : value) 
           (mf : managed) (mgr : string) (cfg : value) (force : bool),
         setting_ok c R ver ->
         state_ok c ver live mf ->
         op_ok c ver (HApply mgr cfg force) ->
         (exists (o : option tv) (mf' : managed),
            apply_op c (ver, live) (ver, cfg) ver mf mgr force = UOk (o, mf')) \/
         force = false /\
         (exists cs : list (string * path),
            cs <> nil /\ apply_op c (ver, live) (ver, cfg) ver mf mgr force = UErr (EConflict cs)).
Proof. exact apply_fails_only_with_conflicts. Qed.
Print Assumptions C06_apply_fails_only_with_conflicts.

Theorem C06_no_other_failure_along_every_history :
  forall (c : config) (R : typeref -> Prop) (ver : string) (ops : list hop) (o : hop),
         setting_ok c R ver ->
         Forall (op_ok c ver) ops -> op_ok c ver o -> step_outcome_ok c ver (run c ver ops) o.
Proof. exact no_other_failure_along_histories. Qed.
Print Assumptions C06_no_other_failure_along_every_history.

Theorem C06_errors_are_conflicts_along_every_history :
  forall (c : config) (R : typeref -> Prop) (ver : string) (ops : list hop) 
           (o : hop) (e : uerr),
         setting_ok c R ver ->
         Forall (op_ok c ver) ops ->
         op_ok c ver o ->
         step_error c ver (run c ver ops) o = Some e ->
         (exists cs : list (string * path), e = EConflict cs /\ cs <> nil) /\
         (exists (mgr : string) (cfg : value), o = HApply mgr cfg false) /\
         hstep c ver (run c ver ops) o = run c ver ops.
Proof. exact errors_are_conflicts_along_histories. Qed.
Print Assumptions C06_errors_are_conflicts_along_every_history.

Theorem C06_no_other_failure_example :
  Forall (op_ok ex_config "v1") nx_ops /\
         fst (run ex_config "v1" nx_ops) = nx_obj1 /\
         step_outcome_ok ex_config "v1" (run ex_config "v1" hx_ops) (HUpdate "e" nx_obj1) /\
         step_outcome_ok ex_config "v1" (run ex_config "v1" nx_ops) (HUpdate "f" nx_obj2) /\
         step_outcome_ok ex_config "v1" (run ex_config "v1" hx_ops) (HApply "b" hx_cfg true) /\
         step_outcome_ok ex_config "v1" (run ex_config "v1" hx_ops) (HApply "b" hx_cfg false) /\
         step_outcome_ok ex_config "v1" (run ex_config "v1" hx_ops) (HApply "c" nx_cfg false) /\
         update_op ex_config ("v1", hx_obj) ("v1", nx_obj1) "v1" hx_mf "e" =
         UOk ("v1", nx_obj1, snd (run ex_config "v1" nx_ops)) /\
         (exists mf' : managed,
            update_op ex_config ("v1", nx_obj1) ("v1", nx_obj2) "v1"
              (snd (run ex_config "v1" nx_ops)) "f" = UOk ("v1", nx_obj2, mf')) /\
         apply_op ex_config ("v1", hx_obj) ("v1", hx_cfg) "v1" hx_mf "b" false =
         UErr (EConflict (("a", PEField "aa" :: nil) :: nil)) /\
         (exists (o : tv) (mf' : managed),
            apply_op ex_config ("v1", hx_obj) ("v1", nx_cfg) "v1" hx_mf "c" false =
            UOk (Some o, mf')).
Proof. exact no_other_failure_example. Qed.
Print Assumptions C06_no_other_failure_example.


(* ---- the same along MULTI-VERSION histories under the identity converter (Proofs/MultiVersion.v,
   corollaries of the transparency theorem of C20): every operation of the history at its own
   version label (one schema behind every label, any visiting order of the versions), the
   last operation at an arbitrary label; updates inside the history submit neither empty
   lists nor duplicate members (the restriction of Proofs/Transparent.v). ---- *)
From Coq Require Import List ZArith String Bool Arith Lia Permutation.
From SMD Require Import Model.Value Model.Order Model.PathElem Model.PathSet Model.Schema Model.Walk
  Model.Validate Model.FieldSet Model.Remove Model.Merge Model.Compare Model.Matcher Model.Reconcile
  Model.Updater
  Spec.PathsAsSets Spec.RefValid Spec.Resolve Spec.Agree Spec.RefDiff Spec.Examples
  Proofs.OrderLaws Proofs.PathSetLaws Proofs.SchemaOk Proofs.FieldSetBase Proofs.FieldSetPaths
  Proofs.FieldSetWf Proofs.FieldSetLaws Proofs.RemoveAbsent Proofs.RemoveWf Proofs.ResolveLaws
  Proofs.UpdaterLaws Proofs.UpdaterLaws2 Proofs.MergeLaws Proofs.MergeAgree
  Proofs.RemoveFrame Proofs.EnLaws Proofs.NodeSet Proofs.KeyFields Proofs.VeqbResolve
  Proofs.SetCheckers Proofs.ApplyEffect Proofs.Visible Proofs.ApplyInv Proofs.History
  Proofs.TransparentPrune Proofs.TransparentCore Proofs.TransparentStep Proofs.Transparent
  Proofs.Reapply Proofs.ConflictsApply Proofs.NoOtherFailure Proofs.RecordsHistory
  Proofs.MultiVersionBase.
From SMD Require Proofs.ApplyPrune.
From SMD Require Import Proofs.MultiVersion.
Theorem C06_owned_paths_present_multi_version :
  forall (c : config) (R : typeref -> Prop) (ver : string) (ops : list vhop) 
           (m : string) (r : mrec) (p : path),
         setting_ok c R ver ->
         one_schema c ver ->
         order_perm c ->
         Forall (vop_ok c ver) ops ->
         In (m, r) (snd (vrun c ver ops)) ->
         wf_path p = true ->
         ps_has p (mr_set r) = true ->
         present (schema_of c ver) (tr_of c ver) (snd (fst (vrun c ver ops))) p = true.
Proof. exact mv_every_record_present. Qed.
Print Assumptions C06_owned_paths_present_multi_version.

Theorem C06_objects_valid_multi_version :
  forall (c : config) (R : typeref -> Prop) (ver : string) (ops : list vhop),
         setting_ok c R ver ->
         one_schema c ver ->
         order_perm c ->
         Forall (vop_ok c ver) ops ->
         ops <> nil \/ conforms (schema_of c ver) (tr_of c ver) true VNull = true ->
         conforms (schema_of c ver) (tr_of c ver) true (snd (fst (vrun c ver ops))) = true.
Proof. exact mv_reachable_objects_valid. Qed.
Print Assumptions C06_objects_valid_multi_version.

Theorem C06_no_other_failure_multi_version :
  forall (c : config) (R : typeref -> Prop) (ver : string) (ops : list vhop)
           (o : string * hop),
         setting_ok c R ver ->
         one_schema c ver ->
         order_perm c ->
         Forall (vop_ok c ver) ops ->
         op_ok c ver (snd o) -> vstep_outcome_ok c (vrun c ver ops) o.
Proof. exact mv_no_other_failure. Qed.
Print Assumptions C06_no_other_failure_multi_version.

