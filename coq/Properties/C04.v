(* C04 — Conflicts are reported exactly; force overrides them.  Statements only; proofs
   in Proofs/UpdaterLaws.v.

   [update_core] (Model/Updater.v) is the transliteration of Updater.update
   (merge/update.go:73-160), called by Apply with the live object and the merged-and-
   pruned object.  [cmp] is the comparison of the two objects; C11 relates it to the
   reference diff.  The exactness theorems are for the single-version case without an
   ignore configuration (all records at the version of the operation). *)
From Coq Require Import List ZArith String Bool.
From SMD Require Import Model.Value Model.Order Model.PathElem Model.PathSet Model.Schema
  Model.Compare Model.Updater Proofs.OrderLaws Proofs.PathSetLaws Proofs.UpdaterLaws.
Import ListNotations.

(* a forced apply never reports a conflict: whatever the configuration of the updater *)
Theorem C04_force_never_conflicts : forall c n old new ver mf w cs,
  update_core c n old new ver mf w true <> UErr (EConflict cs).
Proof. exact update_core_force_no_conflict. Qed.
Print Assumptions C04_force_never_conflicts.

(* whenever the non-forced operation succeeds it returns what the forced one returns *)
Theorem C04_noforce_success_equals_force : forall c n old new ver mf w r,
  update_core c n old new ver mf w false = UOk r -> update_core c n old new ver mf w true = UOk r.
Proof. exact update_core_noforce_ok. Qed.
Print Assumptions C04_noforce_success_equals_force.

(* a non-forced failure is a non-empty conflict list (and then force succeeds), or the
   very failure the forced operation has *)
Theorem C04_noforce_failure : forall c n old new ver mf w e,
  update_core c n old new ver mf w false = UErr e ->
  (exists cs r, e = EConflict cs /\ cs <> [] /\ update_core c n old new ver mf w true = UOk r)
  \/ update_core c n old new ver mf w true = UErr e.
Proof. exact update_core_noforce_err. Qed.
Print Assumptions C04_noforce_failure.

(* the error lists precisely the (manager, field) pairs: another manager's record
   intersected with the fields the operation changed or created *)
Theorem C04_conflicts_exact : forall c n old new ver mf w cmp cs,
  no_ignore c -> single_version ver mf -> mf_ok mf ->
  compare_tv c old new = Some cmp -> cmp_ok cmp ->
  update_core c n old new ver mf w false = UErr (EConflict cs) ->
  forall m p, wf_path p = true -> p <> [] -> conflict_listed cs m p = is_conflict mf w cmp m p.
Proof. exact update_core_conflicts_exact. Qed.
Print Assumptions C04_conflicts_exact.

(* ... and it fails with a conflict exactly when there is such a pair *)
Theorem C04_conflict_iff : forall c n old new ver mf w cmp,
  no_ignore c -> single_version ver mf -> mf_ok mf ->
  compare_tv c old new = Some cmp -> cmp_ok cmp ->
  ((exists cs, update_core c n old new ver mf w false = UErr (EConflict cs))
   <-> exists m p, wf_path p = true /\ p <> [] /\ is_conflict mf w cmp m p = true).
Proof. exact update_core_conflict_iff. Qed.
Print Assumptions C04_conflict_iff.

(* "no state changes": in the pure model the arguments are values; that the Go code
   leaves its arguments untouched is property C08 *)
