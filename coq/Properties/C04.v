(* C04 — Conflicts are reported exactly; force overrides them.  Statements only; proofs
   in Proofs/UpdaterLaws.v.

   [update_core] (Model/Updater.v) is the transliteration of Updater.update
   (merge/update.go:73-160), called by Apply with the live object and the merged-and-
   pruned object.  [cmp] is the comparison of the two objects; C11 relates it to the
   reference diff.  The exactness theorems are for the single-version case without an
   ignore configuration (all records at the version of the operation). *)
From Coq Require Import List ZArith String Bool.
From SMD Require Import Model.Value Model.Order Model.PathElem Model.PathSet Model.Schema
  Model.Compare Model.Updater Proofs.OrderLaws Proofs.PathSetLaws Proofs.UpdaterLaws.
Import ListNotations.

(* a forced apply never reports a conflict: whatever the configuration of the updater *)
Theorem C04_force_never_conflicts : forall c n old new ver mf w cs,
  update_core c n old new ver mf w true <> UErr (EConflict cs).
Proof. exact update_core_force_no_conflict. Qed.
Print Assumptions C04_force_never_conflicts.

(* whenever the non-forced operation succeeds it returns what the forced one returns *)
Theorem C04_noforce_success_equals_force : forall c n old new ver mf w r,
  update_core c n old new ver mf w false = UOk r -> update_core c n old new ver mf w true = UOk r.
Proof. exact update_core_noforce_ok. Qed.
Print Assumptions C04_noforce_success_equals_force.

(* a non-forced failure is a non-empty conflict list (and then force succeeds), or the
   very failure the forced operation has *)
Theorem C04_noforce_failure : forall c n old new ver mf w e,
  update_core c n old new ver mf w false = UErr e ->
  (exists cs r, e = EConflict cs /\ cs <> [] /\ update_core c n old new ver mf w true = UOk r)
  \/ update_core c n old new ver mf w true = UErr e.
Proof. exact update_core_noforce_err. Qed.
Print Assumptions C04_noforce_failure.

(* the error lists precisely the (manager, field) pairs: another manager's record
   intersected with the fields the operation changed or created *)
Theorem C04_conflicts_exact : forall c n old new ver mf w cmp cs,
  no_ignore c -> single_version ver mf -> mf_ok mf ->
  compare_tv c old new = Some cmp -> cmp_ok cmp ->
  update_core c n old new ver mf w false = UErr (EConflict cs) ->
  forall m p, wf_path p = true -> p <> [] -> conflict_listed cs m p = is_conflict mf w cmp m p.
Proof. exact update_core_conflicts_exact. Qed.
Print Assumptions C04_conflicts_exact.

(* ... and it fails with a conflict exactly when there is such a pair *)
Theorem C04_conflict_iff : forall c n old new ver mf w cmp,
  no_ignore c -> single_version ver mf -> mf_ok mf ->
  compare_tv c old new = Some cmp -> cmp_ok cmp ->
  ((exists cs, update_core c n old new ver mf w false = UErr (EConflict cs))
   <-> exists m p, wf_path p = true /\ p <> [] /\ is_conflict mf w cmp m p = true).
Proof. exact update_core_conflict_iff. Qed.
Print Assumptions C04_conflict_iff.

(* "no state changes": in the pure model the arguments are values; that the Go code
   leaves its arguments untouched is property C08 *)

(* ---- at the level of Apply, along histories (Proofs/{RefDiffVeqb,ConflictsApply}.v;
   setting of Proofs/History.v): at every state satisfying the invariant -- hence at every
   reachable state -- a forced apply of an admissible configuration succeeds, and the
   non-forced apply either returns exactly what the forced one returns, or fails with a
   non-empty conflict list naming precisely the pairs (other manager, path of its record)
   whose path the forced apply changes or newly creates, in terms of the independent
   reference diff between the live object and the resulting object. ---- *)
From Coq Require Import Arith Lia.
From SMD Require Import Model.Walk Model.Validate Model.FieldSet Model.Remove Model.Merge Model.Matcher Model.Reconcile
  Spec.PathsAsSets Spec.RefValid Spec.Resolve Spec.Agree Spec.RefDiff Spec.Examples
  Proofs.SchemaOk Proofs.FieldSetBase Proofs.FieldSetPaths
  Proofs.FieldSetWf Proofs.FieldSetLaws Proofs.RemoveAbsent Proofs.RemoveWf Proofs.ResolveLaws
  Proofs.UpdaterLaws2 Proofs.MergeLaws Proofs.MergeAgree
  Proofs.RemoveFrame Proofs.EnLaws Proofs.NodeSet Proofs.KeyFields Proofs.VeqbResolve
  Proofs.SetCheckers Proofs.ApplyEffect Proofs.RefDiffBoth Proofs.RefDiffLaws Proofs.RefDiffPresent
  Proofs.ApplyInv Proofs.History Proofs.CompareLaws Proofs.ApplyPruneBase Proofs.ReconcileTotal Proofs.PruneTotal
  Proofs.Reapply Proofs.RefDiffVeqb Proofs.ConflictsApply.
Open Scope string_scope.
Theorem C04_forced_apply_succeeds :
  forall (c : config) (R : typeref -> Prop) (ver : string) (live : value) 
           (mf : managed) (mgr : string) (cfg : value),
         setting_ok c R ver ->
         state_ok c ver live mf ->
         op_ok c ver (HApply mgr cfg true) ->
         exists (o : option tv) (mf' : managed),
           apply_op c (ver, live) (ver, cfg) ver mf mgr true = UOk (o, mf').
Proof. exact forced_apply_succeeds. Qed.
Print Assumptions C04_forced_apply_succeeds.

Theorem C04_apply_conflicts_exact :
  forall (c : config) (R : typeref -> Prop) (ver : string) (live : value) 
           (mf : managed) (mgr : string) (cfg : value) (o : option tv) 
           (mf' : managed),
         setting_ok c R ver ->
         state_ok c ver live mf ->
         op_ok c ver (HApply mgr cfg true) ->
         apply_op c (ver, live) (ver, cfg) ver mf mgr true = UOk (o, mf') ->
         let res := match o with
                    | Some t => snd t
                    | None => live
                    end in
         let d := ref_diff (schema_of c ver) (tr_of c ver) live res in
         let hits :=
           fun (m : string) (p : path) =>
           m <> mgr /\
           (exists r : mrec, mf_get m mf = Some r /\ ps_has p (mr_set r) = true) /\
           (pmem p (rd_modified d) = true \/ pmem p (rd_added d) = true) in
         apply_op c (ver, live) (ver, cfg) ver mf mgr false = UOk (o, mf') /\
         (forall (m : string) (p : path), wf_path p = true -> p <> nil -> ~ hits m p) \/
         (exists cs : list (string * path),
            apply_op c (ver, live) (ver, cfg) ver mf mgr false = UErr (EConflict cs) /\
            cs <> nil /\
            (forall (m : string) (p : path),
             wf_path p = true -> p <> nil -> conflict_listed cs m p = true <-> hits m p)).
Proof. exact apply_conflicts_exact. Qed.
Print Assumptions C04_apply_conflicts_exact.

Theorem C04_apply_conflicts_exact_along_every_history :
  forall (c : config) (R : typeref -> Prop) (ver : string) (ops : list hop) 
           (mgr : string) (cfg : value) (o : option tv) (mf' : managed),
         setting_ok c R ver ->
         Forall (op_ok c ver) ops ->
         op_ok c ver (HApply mgr cfg true) ->
         let live := fst (run c ver ops) in
         let mf := snd (run c ver ops) in
         apply_op c (ver, live) (ver, cfg) ver mf mgr true = UOk (o, mf') ->
         let res := match o with
                    | Some t => snd t
                    | None => live
                    end in
         let d := ref_diff (schema_of c ver) (tr_of c ver) live res in
         let hits :=
           fun (m : string) (p : path) =>
           m <> mgr /\
           (exists r : mrec, mf_get m mf = Some r /\ ps_has p (mr_set r) = true) /\
           (pmem p (rd_modified d) = true \/ pmem p (rd_added d) = true) in
         apply_op c (ver, live) (ver, cfg) ver mf mgr false = UOk (o, mf') /\
         (forall (m : string) (p : path), wf_path p = true -> p <> nil -> ~ hits m p) \/
         (exists cs : list (string * path),
            apply_op c (ver, live) (ver, cfg) ver mf mgr false = UErr (EConflict cs) /\
            cs <> nil /\
            (forall (m : string) (p : path),
             wf_path p = true -> p <> nil -> conflict_listed cs m p = true <-> hits m p)).
Proof. exact apply_conflicts_exact_along_histories. Qed.
Print Assumptions C04_apply_conflicts_exact_along_every_history.

Theorem C04_example :
  run ex_config "v1" hx_ops = (hx_obj, hx_mf) /\
         op_ok ex_config "v1" (HApply "b" hx_cfg true) /\
         apply_op ex_config ("v1", hx_obj) ("v1", hx_cfg) "v1" hx_mf "b" false =
         UErr (EConflict (("a", PEField "aa" :: nil) :: nil)) /\
         (exists (o : option tv) (mf' : managed),
            apply_op ex_config ("v1", hx_obj) ("v1", hx_cfg) "v1" hx_mf "b" true = UOk (o, mf')) /\
         (forall (o : option tv) (mf' : managed),
          apply_op ex_config ("v1", hx_obj) ("v1", hx_cfg) "v1" hx_mf "b" true = UOk (o, mf') ->
          let res := match o with
                     | Some t => snd t
                     | None => hx_obj
                     end in
          let d := ref_diff ex_schema ex_rt hx_obj res in
          (exists r : mrec,
             mf_get "a" hx_mf = Some r /\ ps_has (PEField "aa" :: nil) (mr_set r) = true) /\
          (pmem (PEField "aa" :: nil) (rd_modified d) = true \/
           pmem (PEField "aa" :: nil) (rd_added d) = true) /\
          ~
          (pmem (PEField "items" :: PEKey (("name", VStr "y") :: nil) :: nil) (rd_modified d) =
           true \/
           pmem (PEField "items" :: PEKey (("name", VStr "y") :: nil) :: nil) (rd_added d) = true)).
Proof. exact conflicts_apply_example. Qed.
Print Assumptions C04_example.


(* ---- the same along MULTI-VERSION histories under the identity converter (Proofs/MultiVersion.v,
   corollaries of the transparency theorem of C20): every operation of the history at its own
   version label (one schema behind every label, any visiting order of the versions), the
   last operation at an arbitrary label; updates inside the history submit neither empty
   lists nor duplicate members (the restriction of Proofs/Transparent.v). ---- *)
From Coq Require Import List ZArith String Bool Arith Lia Permutation.
From SMD Require Import Model.Value Model.Order Model.PathElem Model.PathSet Model.Schema Model.Walk
  Model.Validate Model.FieldSet Model.Remove Model.Merge Model.Compare Model.Matcher Model.Reconcile
  Model.Updater
  Spec.PathsAsSets Spec.RefValid Spec.Resolve Spec.Agree Spec.RefDiff Spec.Examples
  Proofs.OrderLaws Proofs.PathSetLaws Proofs.SchemaOk Proofs.FieldSetBase Proofs.FieldSetPaths
  Proofs.FieldSetWf Proofs.FieldSetLaws Proofs.RemoveAbsent Proofs.RemoveWf Proofs.ResolveLaws
  Proofs.UpdaterLaws Proofs.UpdaterLaws2 Proofs.MergeLaws Proofs.MergeAgree
  Proofs.RemoveFrame Proofs.EnLaws Proofs.NodeSet Proofs.KeyFields Proofs.VeqbResolve
  Proofs.SetCheckers Proofs.ApplyEffect Proofs.Visible Proofs.ApplyInv Proofs.History
  Proofs.TransparentPrune Proofs.TransparentCore Proofs.TransparentStep Proofs.Transparent
  Proofs.Reapply Proofs.ConflictsApply Proofs.NoOtherFailure Proofs.RecordsHistory
  Proofs.MultiVersionBase.
From SMD Require Proofs.ApplyPrune.
From SMD Require Import Proofs.MultiVersion.
Theorem C04_forced_apply_succeeds_multi_version :
  forall (c : config) (R : typeref -> Prop) (ver : string) (ops : list vhop)
           (v mgr : string) (cfg : value),
         setting_ok c R ver ->
         one_schema c ver ->
         order_perm c ->
         Forall (vop_ok c ver) ops ->
         op_ok c ver (HApply mgr cfg true) ->
         exists (o : option tv) (mf' : managed),
           apply_op c (fst (vrun c ver ops)) (v, cfg) v (snd (vrun c ver ops)) mgr true =
           UOk (o, mf').
Proof. exact mv_forced_apply_succeeds. Qed.
Print Assumptions C04_forced_apply_succeeds_multi_version.

Theorem C04_conflicts_exact_multi_version :
  forall (c : config) (R : typeref -> Prop) (ver : string) (ops : list vhop)
           (v mgr : string) (cfg : value) (o : option tv) (mf' : managed),
         setting_ok c R ver ->
         one_schema c ver ->
         order_perm c ->
         Forall (vop_ok c ver) ops ->
         op_ok c ver (HApply mgr cfg true) ->
         let live := snd (fst (vrun c ver ops)) in
         let mf := snd (vrun c ver ops) in
         apply_op c (fst (vrun c ver ops)) (v, cfg) v mf mgr true = UOk (o, mf') ->
         let res := match o with
                    | Some t => snd t
                    | None => live
                    end in
         let d := ref_diff (schema_of c ver) (tr_of c ver) live res in
         let hits :=
           fun (m : string) (p : path) =>
           m <> mgr /\
           (exists r : mrec, mf_get m mf = Some r /\ ps_has p (mr_set r) = true) /\
           (pmem p (rd_modified d) = true \/ pmem p (rd_added d) = true) in
         apply_op c (fst (vrun c ver ops)) (v, cfg) v mf mgr false = UOk (o, mf') /\
         (forall (m : string) (p : path), wf_path p = true -> p <> nil -> ~ hits m p) \/
         (exists cs : list (string * path),
            apply_op c (fst (vrun c ver ops)) (v, cfg) v mf mgr false = UErr (EConflict cs) /\
            cs <> nil /\
            (forall (m : string) (p : path),
             wf_path p = true -> p <> nil -> conflict_listed cs m p = true <-> hits m p)).
Proof. exact mv_apply_conflicts_exact. Qed.
Print Assumptions C04_conflicts_exact_multi_version.

