(* C16 — Field-set serialisation is canonical, lossless and robust.  Statements only;
   proofs in Proofs/Serialize{Base,Run,Emit,Laws}.v.
   The model (Model/Serialize.v) is at the level of JSON trees with ordered, possibly
   repeated members: [to_json] is the interleaved emission with the "." marker,
   [from_json] the parser of readIterV1 (append fast path, insert / overwrite slow paths,
   unknown keys skipped, bad keys reported).  PARTIAL at the byte level by construction:
   lexing, string escaping and number formatting (jsoniter, strconv) are outside the model;
   the harness converts between bytes and trees with an independent reader and writer.
   [jtree_wf]: keys hold well-formed path elements.  [jperm]: the members of a tree
   permuted at every level. *)
From Coq Require Import List ZArith String Bool Permutation.
From SMD Require Import Base.Search Model.Value Model.Order Model.PathElem Model.PathSet Model.Serialize
  Spec.PathsAsSets Proofs.OrderLaws Proofs.PathSetLaws Proofs.SerializeLaws.
Import ListNotations.
Open Scope list_scope.

Theorem C16_roundtrip :
  forall s : pset,
         ps_ok s = true ->
         exists s' : pset,
           from_json (to_json s) = (s', false) /\ ps_ok s' = true /\ ps_equals s s' = true.
Proof. exact serialize_roundtrip. Qed.
Print Assumptions C16_roundtrip.

Theorem C16_canonical :
  forall a b : pset,
         ps_ok a = true ->
         ps_ok b = true -> ps_equals a b = true -> jtree_eqb (to_json a) (to_json b) = true.
Proof. exact serialize_canonical. Qed.
Print Assumptions C16_canonical.

Theorem C16_any_tree_parses_to_a_wf_set :
  forall t : jtree, jtree_wf t = true -> ps_ok (fst (from_json t)) = true.
Proof. exact parse_any_tree_ok. Qed.
Print Assumptions C16_any_tree_parses_to_a_wf_set.

Theorem C16_member_order_irrelevant :
  forall (s : pset) (t : jtree),
         ps_ok s = true ->
         jperm (to_json s) t ->
         exists s' : pset, from_json t = (s', false) /\ ps_ok s' = true /\ ps_equals s s' = true.
Proof. exact parse_order_irrelevant. Qed.
Print Assumptions C16_member_order_irrelevant.

(* the empty set serialises to the empty object, which parses back to the empty set *)
Theorem C16_empty_roundtrip :
  to_json ps_empty_set = JObj [] /\ from_json (JObj []) = (ps_empty_set, false).
Proof. split; reflexivity. Qed.
Print Assumptions C16_empty_roundtrip.

(* ---- the fields of a key in any order (the reader sorts them: FieldList.Sort) ---- *)
From Coq Require Import Permutation.
From SMD Require Import Model.Order Proofs.KeyOrder.
Theorem C16_key_fields_in_any_order :
  forall a b : fieldlist, NoDup (map fst a) -> Permutation a b -> fl_sort a = fl_sort b.
Proof. exact key_field_order_irrelevant. Qed.
Print Assumptions C16_key_fields_in_any_order.

Theorem C16_canonical_key_is_a_fixed_point :
  forall a : fieldlist, NoDup (map fst a) -> fl_sort (fl_sort a) = fl_sort a.
Proof. exact key_canonical_fixed. Qed.
Print Assumptions C16_canonical_key_is_a_fixed_point.

