(* C16 — Field-set serialisation is canonical, lossless and robust.  Statements only.
   The model (Model/Serialize.v) is at the level of JSON trees with ordered, possibly
   repeated members; byte-level lexing, escaping and number formatting are outside it
   (the harness converts between bytes and trees with an independent reader/writer). *)
From Coq Require Import List ZArith String Bool.
From SMD Require Import Model.Value Model.Order Model.PathElem Model.PathSet Model.Serialize.
Import ListNotations.

(* the empty set serialises to the empty object, which parses back to the empty set *)
Theorem C16_empty_roundtrip :
  to_json ps_empty_set = JObj [] /\ from_json (JObj []) = (ps_empty_set, false).
Proof. split; reflexivity. Qed.
Print Assumptions C16_empty_roundtrip.
