(* C18 — A value means the same in every representation.  Statements only; proof in
   Proofs/ReflectLaws.v.
   PARTIAL (DESIGN.md 4.C18): the model (Model/Reflect.v) covers a fragment of Go's type
   system -- booleans, integers, floats, strings, []byte, single pointers, slices,
   map[string]T, interface{} holding unstructured data, structs with name / omitempty /
   omitzero / "-" tags and embedded (pointers to) structs tagged inline -- with two views of
   a typed value: [reflect_view], the model of SMD's reflection wrappers (one dereference,
   then kind dispatch; field cache; CanOmit), and [json_view], the model of the standard
   JSON encoder followed by decoding into interface{}.  [json_view] is the SPECIFICATION
   and is itself validated against the real encoding/json on every run; `reflect` and the
   rest of the type system (custom marshalers, unexported fields, arrays, channels ...)
   are outside the model.  [family_t] is the family on which the two views are claimed to
   coincide; outside it they differ (last theorem). *)
From Coq Require Import List ZArith QArith String Bool.
From SMD Require Import Model.Value Model.Order Model.Reflect Model.MapOps Proofs.ReflectLaws Proofs.MapOpsLaws.
Import ListNotations.
Open Scope list_scope.

Theorem C18_reflection_view_is_json_view :
  forall (n : nat) (t : gtype) (v : gval),
         family_t n t = true -> reflect_view t v = json_view t v.
Proof. exact reflect_view_is_json_view. Qed.
Print Assumptions C18_reflection_view_is_json_view.

Theorem C18_views_agree_at_every_fuel :
  forall (n : nat) (t : gtype) (fuel : nat) (v : gval),
         family_t n t = true -> view true fuel t v = view false fuel t v.
Proof. exact views_agree. Qed.
Print Assumptions C18_views_agree_at_every_fuel.

Theorem C18_double_pointer_differs :
  reflect_view (GPtr (GPtr GInt)) (GVPtr (GVPtr (GVInt 1))) = None /\
         json_view (GPtr (GPtr GInt)) (GVPtr (GVPtr (GVInt 1))) = Some (VInt 1).
Proof. exact double_pointer_differs. Qed.
Print Assumptions C18_double_pointer_differs.

(* ---- Set / Delete through the Map interface, on the unstructured view (Model/MapOps.v):
   exactly one binding changes, key order is kept, and a change made to the map found by
   following a path changes nothing the path does not lead to.  Which representation is
   behind the map (unstructured map of either key type, reflected Go map, reflected struct
   reached through a pointer, a slice, a map of pointers or a map of struct values) is
   outside the model: the correspondence run drives all of them (c18.mut). ---- *)
Theorem C18_set_then_get :
  forall (k : string) (v : value) (m : list (string * value)),
         vmap_get k (vmap_set k v m) = Some v.
Proof. exact get_set_same. Qed.
Print Assumptions C18_set_then_get.

Theorem C18_set_leaves_other_entries :
  forall (k k' : string) (v : value) (m : list (string * value)),
         k' <> k -> vmap_get k' (vmap_set k v m) = vmap_get k' m.
Proof. exact get_set_other. Qed.
Print Assumptions C18_set_leaves_other_entries.

Theorem C18_set_keeps_order :
  forall (k : string) (v : value) (m : list (string * value)),
         sorted_keys m = true -> sorted_keys (vmap_set k v m) = true.
Proof. exact set_sorted. Qed.
Print Assumptions C18_set_keeps_order.

Theorem C18_delete_then_get :
  forall (k : string) (m : list (string * value)),
         sorted_keys m = true -> vmap_get k (vmap_delete k m) = None.
Proof. exact get_delete_same. Qed.
Print Assumptions C18_delete_then_get.

Theorem C18_delete_leaves_other_entries :
  forall (k k' : string) (m : list (string * value)),
         k' <> k -> vmap_get k' (vmap_delete k m) = vmap_get k' m.
Proof. exact get_delete_other. Qed.
Print Assumptions C18_delete_leaves_other_entries.

Theorem C18_delete_keeps_order :
  forall (k : string) (m : list (string * value)),
         sorted_keys m = true -> sorted_keys (vmap_delete k m) = true.
Proof. exact delete_sorted. Qed.
Print Assumptions C18_delete_keeps_order.

Theorem C18_delete_absent_is_identity :
  forall (k : string) (m : list (string * value)),
         vmap_get k m = None -> vmap_delete k m = m.
Proof. exact delete_absent. Qed.
Print Assumptions C18_delete_absent_is_identity.

Theorem C18_update_below_path_frame :
  forall (p : list mstep) (f : list (string * value) -> list (string * value))
           (v v' : value) (q : list mstep),
         update_at p f v = Some v' -> diverges p q -> lookup_at q v' = lookup_at q v.
Proof. exact update_at_frame. Qed.
Print Assumptions C18_update_below_path_frame.

Theorem C18_update_below_path_target :
  forall (p : list mstep) (f : list (string * value) -> list (string * value))
           (v v' : value),
         update_at p f v = Some v' ->
         exists m : list (string * value),
           lookup_at p v = Some (VMap m) /\ lookup_at p v' = Some (VMap (f m)).
Proof. exact update_at_target. Qed.
Print Assumptions C18_update_below_path_target.


(* non-vacuity: a struct with an omitted field, a pointer field and a nil inlined pointer *)
Example C18_family_example :
  let inner := GStruct [GF "IA" "ia" false false false false false GInt] in
  let t := GStruct [GF "A" "a" false false true false false GInt;
                    GF "P" "p" false false false false false (GPtr GString);
                    GF "Inner" "" false true false false true (GPtr inner)] in
  let v := GVStruct [GVInt 0; GVPtr (GVString "x"); GVNil] in
  family_t 8 t = true /\ reflect_view t v = Some (VMap [("p"%string, VStr "x")]).
Proof. vm_compute. split; reflexivity. Qed.
