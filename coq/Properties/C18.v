(* C18 — A value means the same in every representation.  Statements only; proof in
   Proofs/ReflectLaws.v.
   PARTIAL (DESIGN.md 4.C18): the model (Model/Reflect.v) covers a fragment of Go's type
   system -- booleans, integers, floats, strings, []byte, single pointers, slices,
   map[string]T, interface{} holding unstructured data, structs with name / omitempty /
   omitzero / "-" tags and embedded (pointers to) structs tagged inline -- with two views of
   a typed value: [reflect_view], the model of SMD's reflection wrappers (one dereference,
   then kind dispatch; field cache; CanOmit), and [json_view], the model of the standard
   JSON encoder followed by decoding into interface{}.  [json_view] is the SPECIFICATION
   and is itself validated against the real encoding/json on every run; `reflect` and the
   rest of the type system (custom marshalers, unexported fields, arrays, channels ...)
   are outside the model.  [family_t] is the family on which the two views are claimed to
   coincide; outside it they differ (last theorem). *)
From Coq Require Import List ZArith QArith String Bool.
From SMD Require Import Model.Value Model.Order Model.Reflect Proofs.ReflectLaws.
Import ListNotations.
Open Scope list_scope.

Theorem C18_reflection_view_is_json_view :
  forall (n : nat) (t : gtype) (v : gval),
         family_t n t = true -> reflect_view t v = json_view t v.
Proof. exact reflect_view_is_json_view. Qed.
Print Assumptions C18_reflection_view_is_json_view.

Theorem C18_views_agree_at_every_fuel :
  forall (n : nat) (t : gtype) (fuel : nat) (v : gval),
         family_t n t = true -> view true fuel t v = view false fuel t v.
Proof. exact views_agree. Qed.
Print Assumptions C18_views_agree_at_every_fuel.

Theorem C18_double_pointer_differs :
  reflect_view (GPtr (GPtr GInt)) (GVPtr (GVPtr (GVInt 1))) = None /\
         json_view (GPtr (GPtr GInt)) (GVPtr (GVPtr (GVInt 1))) = Some (VInt 1).
Proof. exact double_pointer_differs. Qed.
Print Assumptions C18_double_pointer_differs.

(* non-vacuity: a struct with an omitted field, a pointer field and a nil inlined pointer *)
Example C18_family_example :
  let inner := GStruct [GF "IA" "ia" false false false false false GInt] in
  let t := GStruct [GF "A" "a" false false true false false GInt;
                    GF "P" "p" false false false false false (GPtr GString);
                    GF "Inner" "" false true false false true (GPtr inner)] in
  let v := GVStruct [GVInt 0; GVPtr (GVString "x"); GVNil] in
  family_t 8 t = true /\ reflect_view t v = Some (VMap [("p"%string, VStr "x")]).
Proof. vm_compute. split; reflexivity. Qed.
