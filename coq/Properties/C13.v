(* C13 — Validation is exact and makes every operation total.  Statements only; proofs
   in Proofs/ValidateLaws.v.

   [validate] (Model/Validate.v) is the transliteration of the validating walker;
   [conforms] (Spec/RefValid.v) is the reference validator written from the property
   text, independent of the walker (quadratic uniqueness test, no atom dispatch). *)
From Coq Require Import List ZArith String Bool.
From SMD Require Import Model.Value Model.PathElem Model.Schema Model.Walk Model.Validate Spec.RefValid
  Proofs.OrderLaws Proofs.SchemaOk Proofs.ValidateLaws Spec.Examples.
Import ListNotations.

(* a value is accepted exactly when it conforms: for every schema, every set R of type
   references closed under descent whose defaults are well formed (schema_ok; the
   references reachable from a root), every reference in R, duplicate policy and value *)
Theorem C13_validation_exact : forall s R dup tr v, schema_ok s R -> R tr -> wf_value v = true ->
  validate s dup tr v = negb (conforms s tr dup v).
Proof. exact validate_exact. Qed.
Print Assumptions C13_validation_exact.

(* hence type references that resolve to the same structure validate identically *)
Theorem C13_equivalent_references : forall s R dup tr1 tr2 v, schema_ok s R -> R tr1 -> R tr2 -> wf_value v = true ->
  (forall d w, conforms s tr1 d w = conforms s tr2 d w) ->
  validate s dup tr1 v = validate s dup tr2 v.
Proof.
  exact (fun s R dup tr1 tr2 v Hs H1 H2 Hv H =>
           eq_trans (validate_exact s R dup tr1 v Hs H1 Hv)
                    (eq_trans (f_equal negb (H dup v)) (eq_sym (validate_exact s R dup tr2 v Hs H2 Hv)))).
Qed.
Print Assumptions C13_equivalent_references.

(* null is accepted in place of any value *)
Theorem C13_null_accepted : forall s dup tr a,
  resolve s tr = Some a -> atom_nonempty a = true -> validate s dup tr VNull = false.
Proof. exact validate_null_accepted. Qed.
Print Assumptions C13_null_accepted.

(* path elements computed from well-formed items are well formed (used by C11, C12, C14) *)
Theorem C13_item_path_elements_wf : forall s R tr a t child e, schema_ok s R -> R tr ->
  resolve s tr = Some a -> atom_list a = Some t -> wf_value child = true ->
  list_item_to_pe s t child = Some e -> wf_pe e = true.
Proof. exact list_item_to_pe_wf. Qed.
Print Assumptions C13_item_path_elements_wf.

(* non-vacuity: the hypotheses are met by a concrete schema and its reachable references *)
Theorem C13_hypotheses_satisfiable : schema_ok ex_schema ex_R /\ ex_R ex_rt.
Proof. exact (conj ex_schema_ok ex_rt_in_R). Qed.
Print Assumptions C13_hypotheses_satisfiable.
