(* C13 — Validation is exact and makes every operation total.  Statements only. *)
From Coq Require Import List ZArith String Bool.
From SMD Require Import Model.Value Model.Schema Model.Walk Model.Validate Spec.RefValid.
Import ListNotations.

(* null is accepted in place of any value (of a type that has at least one member) *)
Theorem C13_null_accepted : forall s dup tr a,
  resolve s tr = Some a -> atom_nonempty a = true -> validate s dup tr VNull = false.
Proof.
  intros s dup tr a Hr Hne. simpl. rewrite Hr.
  destruct a as [[sc|] [li|] [ma|]]; simpl in *; try reflexivity; try discriminate.
  all: destruct sc; reflexivity.
Qed.
Print Assumptions C13_null_accepted.
