(* C13 — Validation is exact and makes every operation total.  Statements only; proofs
   in Proofs/ValidateLaws.v.

   [validate] (Model/Validate.v) is the transliteration of the validating walker;
   [conforms] (Spec/RefValid.v) is the reference validator written from the property
   text, independent of the walker (quadratic uniqueness test, no atom dispatch). *)
From Coq Require Import List ZArith String Bool.
From SMD Require Import Model.Value Model.PathElem Model.Schema Model.Walk Model.Validate Spec.RefValid
  Proofs.OrderLaws Proofs.ValidateLaws.
Import ListNotations.

(* a value is accepted exactly when it conforms: for every schema, type reference,
   duplicate policy and value *)
Theorem C13_validation_exact : forall s dup tr v, wf_schema s -> wf_value v = true ->
  validate s dup tr v = negb (conforms s tr dup v).
Proof. exact validate_exact. Qed.
Print Assumptions C13_validation_exact.

(* hence type references that resolve to the same structure validate identically *)
Theorem C13_equivalent_references : forall s dup tr1 tr2 v, wf_schema s -> wf_value v = true ->
  (forall d w, conforms s tr1 d w = conforms s tr2 d w) ->
  validate s dup tr1 v = validate s dup tr2 v.
Proof.
  exact (fun s dup tr1 tr2 v Hs Hv H =>
           eq_trans (validate_exact s dup tr1 v Hs Hv)
                    (eq_trans (f_equal negb (H dup v)) (eq_sym (validate_exact s dup tr2 v Hs Hv)))).
Qed.
Print Assumptions C13_equivalent_references.

(* null is accepted in place of any value *)
Theorem C13_null_accepted : forall s dup tr a,
  resolve s tr = Some a -> atom_nonempty a = true -> validate s dup tr VNull = false.
Proof. exact validate_null_accepted. Qed.
Print Assumptions C13_null_accepted.

(* path elements computed from well-formed items are well formed (used by C11, C12, C14) *)
Theorem C13_item_path_elements_wf : forall s t child e, wf_schema s -> wf_value child = true ->
  list_item_to_pe s t child = Some e -> wf_pe e = true.
Proof. exact list_item_to_pe_wf. Qed.
Print Assumptions C13_item_path_elements_wf.
