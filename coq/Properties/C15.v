(* C15 — Field sets behave as mathematical sets of paths.
   Statements only; proofs in Proofs/{SearchLaws,KeyLaws,PesLaws,TrieBase,TrieOps,
   TrieElems,PathSetLaws}.v.

   The model (Model/PathSet.v) is the trie of fieldpath.Set with every operation a
   transliteration of the Go sorted-slice loop and lookups through the real bisection.
   [ps_ok s] = strictly sorted members and children, no empty child, well-formed values
   inside path elements.  Membership is decided by Path.Equals ([patheqb]), under which
   the integer 1 and the float 1.0 are the same set member.  The reference semantics is
   Spec/PathsAsSets.v (plain lists of paths). *)
From Coq Require Import List ZArith String Bool Arith Permutation.
From SMD Require Import Base.Search Model.Value Model.Order Model.PathElem Model.PathSet
  Spec.PathsAsSets Proofs.OrderLaws Proofs.PathSetLaws.
Import ListNotations.
Open Scope bool_scope.

(* every set a program can build is well formed *)
Theorem C15_built_sets_are_wf : forall l, forallb wf_path l = true -> ps_ok (ps_of_paths l) = true.
Proof. exact ps_of_paths_ok. Qed.
Print Assumptions C15_built_sets_are_wf.

Theorem C15_insert : forall p q s, ps_ok s = true -> wf_path p = true -> wf_path q = true -> q <> [] ->
  ps_ok (ps_insert q s) = true /\ ps_has p (ps_insert q s) = patheqb p q || ps_has p s.
Proof. exact (fun p q s Hs Hp Hq Hn => conj (ps_insert_ok q s Hs Hq) (ps_has_insert p q s Hs Hp Hq Hn)). Qed.
Print Assumptions C15_insert.

(* membership = membership in the plain set of inserted paths *)
Theorem C15_membership : forall l p, forallb wf_path l = true -> wf_path p = true -> p <> [] ->
  ps_has p (ps_of_paths l) = pmem p l.
Proof. exact ps_has_of_paths. Qed.
Print Assumptions C15_membership.

Theorem C15_union : forall a b, ps_ok a = true -> ps_ok b = true ->
  ps_ok (ps_union a b) = true /\
  forall p, wf_path p = true -> ps_has p (ps_union a b) = ps_has p a || ps_has p b.
Proof. exact ps_union_spec. Qed.
Print Assumptions C15_union.

Theorem C15_intersection : forall a b, ps_ok a = true -> ps_ok b = true ->
  ps_ok (ps_inter a b) = true /\
  forall p, wf_path p = true -> ps_has p (ps_inter a b) = ps_has p a && ps_has p b.
Proof. exact ps_inter_spec. Qed.
Print Assumptions C15_intersection.

Theorem C15_difference : forall a b, ps_ok a = true -> ps_ok b = true ->
  ps_ok (ps_diff a b) = true /\
  forall p, wf_path p = true -> ps_has p (ps_diff a b) = ps_has p a && negb (ps_has p b).
Proof. exact ps_diff_spec. Qed.
Print Assumptions C15_difference.

(* recursive difference: drop members at or beneath the other set's members *)
Theorem C15_recursive_difference : forall a b, ps_ok a = true -> ps_ok b = true ->
  ps_ok (ps_rdiff a b) = true /\
  forall p, wf_path p = true -> ps_has p (ps_rdiff a b) = ps_has p a && negb (has_prefix_in p b).
Proof. exact ps_rdiff_spec. Qed.
Print Assumptions C15_recursive_difference.

(* leaves: members with no member beneath them *)
Theorem C15_leaves : forall a, ps_ok a = true ->
  ps_ok (ps_leaves a) = true /\
  forall p, wf_path p = true ->
    ps_has p (ps_leaves a) = ps_has p a && negb (existsb (fun q => proper_prefix p q) (ps_elems a)).
Proof. exact ps_leaves_spec. Qed.
Print Assumptions C15_leaves.

Theorem C15_prefix_selection : forall e a, ps_ok a = true -> wf_pe e = true ->
  ps_ok (ps_with_prefix e a) = true /\
  forall p, wf_path p = true -> p <> [] -> ps_has p (ps_with_prefix e a) = ps_has (e :: p) a.
Proof. exact ps_with_prefix_spec. Qed.
Print Assumptions C15_prefix_selection.

(* iteration: each member exactly once, in one fixed total order; size; emptiness *)
Theorem C15_iteration : forall s, ps_ok s = true ->
  (forall p, wf_path p = true -> ps_has p s = pmem p (ps_elems s)) /\
  pnodup (ps_elems s) = true /\
  iter_sorted (ps_elems s) = true /\
  ps_size s = List.length (ps_elems s) /\
  (ps_empty s = true <-> ps_elems s = []).
Proof.
  exact (fun s Hs => conj (fun p Hp => ps_has_elems s p Hs Hp)
          (conj (ps_elems_nodup s Hs) (conj (ps_elems_sorted s Hs)
          (conj (ps_size_elems s) (ps_empty_elems s))))).
Qed.
Print Assumptions C15_iteration.

(* equality is extensional: same members means Equals, however the set was built *)
Theorem C15_equality_extensional : forall a b, ps_ok a = true -> ps_ok b = true ->
  (ps_equals a b = true <-> forall p, wf_path p = true -> ps_has p a = ps_has p b).
Proof. exact ps_equals_ext. Qed.
Print Assumptions C15_equality_extensional.

Theorem C15_insertion_order_irrelevant : forall l l', forallb wf_path l = true -> Permutation l l' ->
  ps_equals (ps_of_paths l) (ps_of_paths l') = true.
Proof. exact ps_of_paths_perm. Qed.
Print Assumptions C15_insertion_order_irrelevant.

Theorem C15_equal_sets_iterate_alike : forall a b, ps_ok a = true -> ps_ok b = true -> ps_equals a b = true ->
  Forall2 (fun p q => patheqb p q = true) (ps_elems a) (ps_elems b).
Proof. exact ps_equals_elems. Qed.
Print Assumptions C15_equal_sets_iterate_alike.

(* the sorted containers the trie is built from (also C17): bisection, PathElementSet,
   PathElementMap *)
Theorem C15_bisection : forall n f, monotone n f ->
  search n f <= n /\ (forall k, k < search n f -> f k = false) /\ (search n f < n -> f (search n f) = true).
Proof. exact search_spec. Qed.
Print Assumptions C15_bisection.

Theorem C15_pathelementset : forall e x l, sorted_pes l = true -> wf_pes l = true -> wf_pe e = true -> wf_pe x = true ->
  sorted_pes (pes_insert e l) = true /\
  pes_mem x (pes_insert e l) = peeqb x e || pes_mem x l /\
  pes_has x l = pes_mem x l.
Proof.
  exact (fun e x l Hs Hw He Hx =>
           conj (proj1 (pes_insert_sorted e l Hs Hw He))
                (conj (pes_insert_mem e x l Hs Hw He Hx) (pes_has_spec x l Hs Hw Hx))).
Qed.
Print Assumptions C15_pathelementset.

Theorem C15_pathelementmap : forall (A : Type) e x (v : A) l,
  sorted_fst l = true -> forallb (fun ec => wf_pe (fst ec)) l = true -> wf_pe e = true -> wf_pe x = true ->
  sorted_fst (pem_insert e v l) = true /\
  pem_get x (pem_insert e v l) = if peeqb x e then Some v else pem_get x l.
Proof. exact pem_get_insert. Qed.
Print Assumptions C15_pathelementmap.

(* non-vacuity *)
Example C15_ok_example :
  let s := ps_of_paths [[PEField "a"; PEField "b"]; [PEField "a"]; [PEField "a"; PEKey [("k"%string, VInt 1)]; PEField "c"]] in
  ps_ok s = true /\ ps_size s = 3 /\ ps_has [PEField "a"; PEKey [("k"%string, VFloat (QArith_base.Qmake 1 1))]; PEField "c"] s = true.
Proof. vm_compute. repeat split. Qed.
