(* C15 — Field sets behave as mathematical sets of paths.
   Only theorem statements closed by [exact]; the proofs are in Proofs/. *)
From Coq Require Import List ZArith String Bool.
From SMD Require Import Model.Value Model.Order Model.PathElem Model.PathSet.
Import ListNotations.

Theorem C15_empty_has_nothing : forall p, ps_has p ps_empty_set = false.
Proof. intros [|e [|e' r]]; reflexivity. Qed.
Print Assumptions C15_empty_has_nothing.
