(* C20 — API versions and schema evolution are transparent.  Statements only; proofs in
   Proofs/UpdaterLaws2.v.  Proved about the model: every operation starts by dropping
   the managers recorded at a version the converter reports as gone, and only those
   (same version and flag for the others).  The transparency of multi-version runs
   (after the repair of the add-back, commit 7abda2a) and the reconcile laws are decided
   on the implementation's outcomes: multi-version histories against their translated
   single-version replay, and ReconcileFieldSetWithSchema against the reference of
   Spec/TypeAt.v on all 32 granular/atomic variants of the small schema. *)
From Coq Require Import List ZArith String Bool.
From SMD Require Import Model.Value Model.Order Model.PathElem Model.PathSet Model.Schema Model.Walk
  Model.FieldSet Model.Compare Model.Matcher Model.Updater Spec.PathsAsSets Spec.Examples
  Proofs.OrderLaws Proofs.PathSetLaws Proofs.UpdaterLaws Proofs.UpdaterLaws2.
Import ListNotations.
Open Scope list_scope.

Theorem C20_gone_versions_are_dropped :
  forall (c : config) (n : nat) (live : tv) (mf mf0 : managed) (n0 : nat) (gone : string),
         mf_ok mf ->
         (forall (k : nat) (from : string) (x : value), cfg_convert c k from gone x = CMissing) ->
         reconcile_managed c n live mf = UOk (mf0, n0) ->
         forall (m : string) (r : mrec), mf_get m mf0 = Some r -> mr_ver r <> gone.
Proof. exact reconcile_drops_gone_versions. Qed.
Print Assumptions C20_gone_versions_are_dropped.

Theorem C20_reconcile_keeps_the_others :
  forall (c : config) (n : nat) (live : tv) (mf mf0 : managed) (n0 : nat),
         mf_ok mf ->
         reconcile_managed c n live mf = UOk (mf0, n0) ->
         sorted_keys mf0 = true /\
         (forall m : string,
          match mf_get m mf0 with
          | Some r0 =>
              exists r : mrec,
                mf_get m mf = Some r /\ mr_ver r0 = mr_ver r /\ mr_applied r0 = mr_applied r
          | None => True
          end).
Proof. exact reconcile_managed_spec. Qed.
Print Assumptions C20_reconcile_keeps_the_others.


(* ---- reconciling records with a schema in which fields turned atomic (proofs in
   Proofs/Reconcile{Base,Laws}.v).  [reconcile_ref] (Spec/TypeAt.v) replaces every path
   by its outermost non-root prefix whose type is atomic.  Hypotheses beyond schema_ok:
   [walkable] -- every reference reached resolves to an atom with exactly one member and
   list element types are non-empty; the root reference is non-empty and not itself
   atomic; every member path is typed by the schema; no schemaless (untyped deduced) map
   is reached.  Without them the statement is false (third theorem). ---- *)
From SMD Require Import Model.Schema Model.Walk Model.Reconcile Spec.TypeAt Proofs.SchemaOk Proofs.ReconcileLaws.
Theorem C20_reconcile_exact :
  forall (s : schema) (R : typeref -> Prop) (tr : typeref) (fs : pset),
         schema_ok s R ->
         R tr ->
         ps_ok fs = true ->
         typed_paths s tr fs ->
         (forall (tr' : typeref) (m : mapT),
          R tr' ->
          resolve s tr' = Some (Atom None None (Some m)) -> is_untyped_deduced_map m = false) ->
         walkable s R ->
         is_empty_tr tr = false ->
         is_atomic_type s tr = false ->
         match reconcile_field_set s tr fs with
         | Some (Some out) =>
             ps_ok out = true /\
             (forall p : path,
              wf_path p = true ->
              p <> [] -> ps_has p out = pmem p (reconcile_ref s tr (ps_elems fs)))
         | Some None => forall p : path, In p (ps_elems fs) -> reconcile_path s tr p = p
         | None => False
         end.
Proof. exact reconcile_exact. Qed.
Print Assumptions C20_reconcile_exact.

Theorem C20_reconcile_idempotent :
  forall (s : schema) (R : typeref -> Prop) (tr : typeref) (fs out : pset),
         schema_ok s R ->
         R tr ->
         ps_ok fs = true ->
         typed_paths s tr fs ->
         (forall (tr' : typeref) (m : mapT),
          R tr' ->
          resolve s tr' = Some (Atom None None (Some m)) -> is_untyped_deduced_map m = false) ->
         walkable s R ->
         is_empty_tr tr = false ->
         is_atomic_type s tr = false ->
         reconcile_field_set s tr fs = Some (Some out) ->
         reconcile_field_set s tr out = Some None.
Proof. exact reconcile_idempotent. Qed.
Print Assumptions C20_reconcile_idempotent.

(* non-vacuity: a schema with an atomic map field, an atomic list field and a set *)
Theorem C20_reconcile_example :
  exists out, reconcile_field_set ReconcileLaws.Examples.ex_s ReconcileLaws.Examples.ex_root ReconcileLaws.Examples.ex_fs = Some (Some out).
Proof. eexists. vm_compute. reflexivity. Qed.
Print Assumptions C20_reconcile_example.

(* ---- C20, first sentence, for the identity converter (Proofs/Transparent*.v).
   Definitions (Proofs/Transparent.v):
     vhop          = (label, operation): an operation of Proofs/History.v and the API version
                     label the caller acts at;
     vstep, vrun   the multi-version run: every operation at its own label, the live object
                     carrying the label it was last written at, records keeping theirs;
     relabel ver   every record moved to label ver (managers, sets, flags unchanged);
     corresponds   the object of the multi-version state is the object of the single-version
                     state, and the records are the same once relabelled;
     one_schema    every label has the schema of ver; order_perm: the visiting order of the
                     versions in the add-back loop is some permutation;
     vop_ok        op_ok, and an update submits an object without empty list (known finding
                     F23: an empty list is part of the object and of no field set) and without
                     duplicate members.
   Theorems: the multi-version run of ANY history corresponds to the single-version run of
   the same operations; each single operation has the same outcome in both (same object,
   same records up to labels, same conflicts, same error); prune does not look at labels
   (needs unique manager names: refuted otherwise on a hand-made list with a repeated name).
   The example has six operations by three managers at three labels, and its fourth
   operation needs more than one add-back round. ---- *)
From Coq Require Import List ZArith String Bool Arith Lia Permutation.
From SMD Require Import Model.Value Model.Order Model.PathElem Model.PathSet Model.Schema Model.Walk
  Model.Validate Model.FieldSet Model.Remove Model.Merge Model.Compare Model.Matcher Model.Reconcile
  Model.Updater
  Spec.PathsAsSets Spec.RefValid Spec.Resolve Spec.Agree Spec.RefDiff Spec.Examples
  Proofs.OrderLaws Proofs.PathSetLaws Proofs.SchemaOk Proofs.FieldSetBase Proofs.FieldSetPaths
  Proofs.FieldSetWf Proofs.FieldSetLaws Proofs.RemoveAbsent Proofs.RemoveWf Proofs.ResolveLaws
  Proofs.UpdaterLaws Proofs.UpdaterLaws2 Proofs.MergeLaws Proofs.MergeAgree
  Proofs.RemoveFrame Proofs.EnLaws Proofs.NodeSet Proofs.KeyFields Proofs.VeqbResolve
  Proofs.SetCheckers Proofs.ApplyEffect Proofs.PruneShape Proofs.RemoveExt Proofs.Visible
  Proofs.NodeCount Proofs.OrderIndep Proofs.OrderIndepN Proofs.ApplyInv Proofs.History
  Proofs.TransparentPrune Proofs.TransparentCore Proofs.TransparentStep.
From SMD Require Import Proofs.Transparent.
Theorem C20_prune_is_label_blind :
  forall (c : config) (R : typeref -> Prop) (ver : string) (M : value) 
           (mf : managed) (last : mrec) (n : nat) (lm mgr : string) (o : tv) 
           (n1 : nat),
         setting_ok c R ver ->
         one_schema c ver ->
         order_perm c ->
         NoDup (map fst mf) ->
         wf_value M = true ->
         conforms (schema_of c ver) (tr_of c ver) false M = true ->
         no_empty_list M = true ->
         ps_ok (mr_set last) = true ->
         applier_record_ok (schema_of c ver) (tr_of c ver) (mr_set last) ->
         (forall (m : string) (r : mrec),
          mf_get m mf = Some r ->
          ps_ok (mr_set r) = true /\ owns_live_keys (schema_of c ver) (tr_of c ver) M (mr_set r)) ->
         prune c n (lm, M) mf mgr (Some last) = UOk (o, n1) ->
         exists (o' : tv) (n2 : nat),
           prune c n (ver, M) (relabel ver mf) mgr
             (Some {| mr_set := mr_set last; mr_ver := ver; mr_applied := mr_applied last |}) =
           UOk (o', n2) /\ snd o' = snd o.
Proof. exact prune_transparent. Qed.
Print Assumptions C20_prune_is_label_blind.

Theorem C20_prune_is_label_blind_needs_unique_names :
  ~ prune_transparent_as_stated.
Proof. exact prune_transparent_as_stated_refuted. Qed.
Print Assumptions C20_prune_is_label_blind_needs_unique_names.

Theorem C20_one_step_transparent :
  forall (c : config) (R : typeref -> Prop) (ver : string) (stv : tv * managed)
           (st1 : value * managed) (o : vhop),
         setting_ok c R ver ->
         one_schema c ver ->
         order_perm c ->
         state_ok c ver (fst st1) (snd st1) ->
         no_empty_list (fst st1) = true ->
         nodup_ok c ver (fst st1) ->
         corresponds ver stv st1 ->
         vop_ok c ver o ->
         corresponds ver (vstep c stv o) (hstep c ver st1 (snd o)) /\
         no_empty_list (fst (hstep c ver st1 (snd o))) = true /\
         nodup_ok c ver (fst (hstep c ver st1 (snd o))).
Proof. exact step_transparent. Qed.
Print Assumptions C20_one_step_transparent.

Theorem C20_multi_version_run_transparent :
  forall (c : config) (R : typeref -> Prop) (ver : string) (ops : list vhop),
         setting_ok c R ver ->
         one_schema c ver ->
         order_perm c ->
         Forall (vop_ok c ver) ops -> corresponds ver (vrun c ver ops) (run c ver (map snd ops)).
Proof. exact multi_version_run_transparent. Qed.
Print Assumptions C20_multi_version_run_transparent.

Theorem C20_multi_version_apply_outcome :
  forall (c : config) (R : typeref -> Prop) (ver : string) (ops : list vhop)
           (v mgr : string) (cfg : value) (force : bool),
         setting_ok c R ver ->
         one_schema c ver ->
         order_perm c ->
         Forall (vop_ok c ver) ops ->
         vop_ok c ver (v, HApply mgr cfg force) ->
         match apply_op c (fst (vrun c ver ops)) (v, cfg) v (snd (vrun c ver ops)) mgr force with
         | UOk (o, mf') =>
             match
               apply_op c (ver, fst (run c ver (map snd ops))) (ver, cfg) ver
                 (snd (run c ver (map snd ops))) mgr force
             with
             | UOk (o1, mf1) => option_map snd o = option_map snd o1 /\ relabel ver mf' = mf1
             | UErr _ => False
             end
         | UErr e =>
             match
               apply_op c (ver, fst (run c ver (map snd ops))) (ver, cfg) ver
                 (snd (run c ver (map snd ops))) mgr force
             with
             | UOk _ => False
             | UErr e1 => e = e1
             end
         end.
Proof. exact multi_version_apply_outcome. Qed.
Print Assumptions C20_multi_version_apply_outcome.

Theorem C20_multi_version_update_outcome :
  forall (c : config) (R : typeref -> Prop) (ver : string) (ops : list vhop)
           (v mgr : string) (obj : value),
         setting_ok c R ver ->
         one_schema c ver ->
         order_perm c ->
         Forall (vop_ok c ver) ops ->
         match update_op c (fst (vrun c ver ops)) (v, obj) v (snd (vrun c ver ops)) mgr with
         | UOk (t, mf') =>
             match
               update_op c (ver, fst (run c ver (map snd ops))) (ver, obj) ver
                 (snd (run c ver (map snd ops))) mgr
             with
             | UOk (t1, mf1) => snd t = snd t1 /\ relabel ver mf' = mf1
             | UErr _ => False
             end
         | UErr e =>
             match
               update_op c (ver, fst (run c ver (map snd ops))) (ver, obj) ver
                 (snd (run c ver (map snd ops))) mgr
             with
             | UOk _ => False
             | UErr e1 => e = e1
             end
         end.
Proof. exact multi_version_update_outcome. Qed.
Print Assumptions C20_multi_version_update_outcome.

Theorem C20_transparent_example :
  setting_ok exr_config FieldSetLaws.ex_R "v1" /\
         one_schema exr_config "v1" /\
         order_perm exr_config /\
         Forall (vop_ok exr_config "v1") tx_ops /\
         map fst tx_ops = "v1" :: "v2" :: "v3" :: "v3" :: "v2" :: "v1" :: nil /\
         corresponds "v1" (vrun exr_config "v1" tx_ops) (run exr_config "v1" (map snd tx_ops)) /\
         vrun exr_config "v1" tx_ops =
         ("v1", tx_obj,
          ("a", {| mr_set := tx_set_a; mr_ver := "v1"; mr_applied := true |})
          :: ("b", {| mr_set := tx_set_b; mr_ver := "v2"; mr_applied := false |}) :: nil) /\
         run exr_config "v1" (map snd tx_ops) =
         (tx_obj,
          ("a", {| mr_set := tx_set_a; mr_ver := "v1"; mr_applied := true |})
          :: ("b", {| mr_set := tx_set_b; mr_ver := "v1"; mr_applied := false |}) :: nil).
Proof. exact transparent_example. Qed.
Print Assumptions C20_transparent_example.

Theorem C20_example_needs_two_rounds :
  vrun exr_config "v1" (firstn 3 tx_ops) = ("v2", tx_M, tx_mf3) /\
         remove ex_schema ex_rt tx_M (ps_en ex_schema ex_rt (mr_set tx_last)) = VNull /\
         map fst (managed_at_version tx_mfp) = "v1" :: "v2" :: "v3" :: nil /\
         add_back_round exr_config (managed_at_version tx_mfp) ("v3" :: "v2" :: "v1" :: nil) 4
           ("v3", tx_M) ("v3", VNull) =
         UOk
           ("v1", tx_M,
            ("v1",
             VMap
               (("aa", VInt 1)
                :: ("items", VList (VMap (("name", VStr "x") :: nil) :: nil)) :: nil)), true, 10) /\
         add_back_owned exr_config 4 ("v3", tx_M) ("v3", VNull) "v3" tx_mfp =
         UOk ("v1", tx_M, 22) /\
         prune exr_config 3 ("v2", tx_M) tx_mfp "c" (Some tx_last) = UOk ("v3", tx_M, 24).
Proof. exact example_needs_two_rounds. Qed.
Print Assumptions C20_example_needs_two_rounds.


(* ---- "managers recorded at a version the converter reports as gone are dropped without
   error and without affecting anything else" (Proofs/GoneVersions*.v): for ANY configuration
   whose converter reports the versions of `gone` as missing and does not depend on the call
   index, Apply and Update behave exactly as if the gone records had not been in the map --
   same object, same records, same conflicts, same errors -- and no record of a result is at
   a gone version.  (The index condition is needed: refuted with a converter that fails on
   its second call.)  Example: at the reachable state of Proofs/History.v with two records
   added at a gone version, an apply and an update give what they give without them, while
   with the version alive the same apply is refused with a conflict on one of them. ---- *)
From Coq Require Import List ZArith String Bool Arith Lia.
From SMD Require Import Model.Value Model.Order Model.PathElem Model.PathSet Model.Schema Model.Walk
  Model.Validate Model.FieldSet Model.Remove Model.Merge Model.Compare Model.Matcher Model.Reconcile
  Model.Updater
  Spec.PathsAsSets Proofs.OrderLaws Proofs.PathSetLaws Proofs.UpdaterLaws Proofs.UpdaterLaws2
  Proofs.GoneVersionsBase.
From SMD Require Import Spec.Examples Proofs.History.
From SMD Require Import Proofs.GoneVersions.
Theorem C20_apply_ignores_gone_records :
  forall (c : config) (gone : string -> bool) (live cfg : tv) 
           (ver : string) (mf : managed) (mgr : string) (force : bool),
         reports_gone c gone ->
         index_free c ->
         apply_op c live cfg ver mf mgr force =
         apply_op c live cfg ver (drop_gone gone mf) mgr force.
Proof. exact apply_ignores_gone_records_strong. Qed.
Print Assumptions C20_apply_ignores_gone_records.

Theorem C20_update_ignores_gone_records :
  forall (c : config) (gone : string -> bool) (live obj : tv) 
           (ver : string) (mf : managed) (mgr : string),
         reports_gone c gone ->
         index_free c ->
         update_op c live obj ver mf mgr = update_op c live obj ver (drop_gone gone mf) mgr.
Proof. exact update_ignores_gone_records_strong. Qed.
Print Assumptions C20_update_ignores_gone_records.

Theorem C20_apply_result_has_no_gone_record :
  forall (c : config) (gone : string -> bool) (live cfg : tv) 
           (ver : string) (mf : managed) (mgr : string) (force : bool) 
           (o : option tv) (mf' : managed) (m : string) (r : mrec),
         reports_gone c gone ->
         gone ver = false ->
         apply_op c live cfg ver mf mgr force = UOk (o, mf') ->
         mf_get m mf' = Some r -> gone (mr_ver r) = false.
Proof. exact apply_result_has_no_gone_record_strong. Qed.
Print Assumptions C20_apply_result_has_no_gone_record.

Theorem C20_update_result_has_no_gone_record :
  forall (c : config) (gone : string -> bool) (live obj : tv) 
           (ver : string) (mf : managed) (mgr : string) (o : tv) (mf' : managed) 
           (m : string) (r : mrec),
         reports_gone c gone ->
         gone ver = false ->
         update_op c live obj ver mf mgr = UOk (o, mf') ->
         mf_get m mf' = Some r -> gone (mr_ver r) = false.
Proof. exact update_result_has_no_gone_record_strong. Qed.
Print Assumptions C20_update_result_has_no_gone_record.

Theorem C20_gone_records_needs_an_index_free_converter :
  reports_gone gx_config2 gx_gone /\
         ~ index_free gx_config2 /\
         mf_ok gx_mf2 /\
         gx_gone "v1" = false /\
         apply_op gx_config2 gx_live ("v1", VMap (("aa", VInt 2) :: nil)) "v1" gx_mf2 "c" false =
         UErr EOther /\
         (exists r : option tv * managed,
            apply_op gx_config2 gx_live ("v1", VMap (("aa", VInt 2) :: nil)) "v1"
              (drop_gone gx_gone gx_mf2) "c" false = UOk r) /\
         update_op gx_config2 gx_live gx_obj "v1" gx_mf2 "c" = UErr EOther /\
         (exists r : tv * managed,
            update_op gx_config2 gx_live gx_obj "v1" (drop_gone gx_gone gx_mf2) "c" = UOk r).
Proof. exact index_free_needed. Qed.
Print Assumptions C20_gone_records_needs_an_index_free_converter.

Theorem C20_gone_example_apply :
  apply_op gx_config gx_live gx_cfg "v1" gx_mf "a" false =
         apply_op gx_config gx_live gx_cfg "v1" hx_mf "a" false /\
         (forall (o : option tv) (mf' : managed) (m : string) (r : mrec),
          apply_op gx_config gx_live gx_cfg "v1" gx_mf "a" false = UOk (o, mf') ->
          mf_get m mf' = Some r -> gx_gone (mr_ver r) = false).
Proof. exact gx_apply_by_theorem. Qed.
Print Assumptions C20_gone_example_apply.

Theorem C20_gone_records_are_not_inert_by_accident :
  apply_op ex_config gx_live gx_cfg "v1" gx_mf "a" false =
         UErr (EConflict (("e", PEField "aa" :: nil) :: nil)).
Proof. exact gx_conflict_if_not_gone. Qed.
Print Assumptions C20_gone_records_are_not_inert_by_accident.


(* ---- consequences of transparency: Proofs/MultiVersion.v transports the along-every-history
   theorems of C01, C03, C04, C05, C06, C07 to multi-version histories under the identity
   converter (stated in Properties/C01.v ... C07.v); here the example. ---- *)
From Coq Require Import List ZArith String Bool Arith Lia Permutation.
From SMD Require Import Model.Value Model.Order Model.PathElem Model.PathSet Model.Schema Model.Walk
  Model.Validate Model.FieldSet Model.Remove Model.Merge Model.Compare Model.Matcher Model.Reconcile
  Model.Updater
  Spec.PathsAsSets Spec.RefValid Spec.Resolve Spec.Agree Spec.RefDiff Spec.Examples
  Proofs.OrderLaws Proofs.PathSetLaws Proofs.SchemaOk Proofs.FieldSetBase Proofs.FieldSetPaths
  Proofs.FieldSetWf Proofs.FieldSetLaws Proofs.RemoveAbsent Proofs.RemoveWf Proofs.ResolveLaws
  Proofs.UpdaterLaws Proofs.UpdaterLaws2 Proofs.MergeLaws Proofs.MergeAgree
  Proofs.RemoveFrame Proofs.EnLaws Proofs.NodeSet Proofs.KeyFields Proofs.VeqbResolve
  Proofs.SetCheckers Proofs.ApplyEffect Proofs.Visible Proofs.ApplyInv Proofs.History
  Proofs.TransparentPrune Proofs.TransparentCore Proofs.TransparentStep Proofs.Transparent
  Proofs.Reapply Proofs.ConflictsApply Proofs.NoOtherFailure Proofs.RecordsHistory
  Proofs.MultiVersionBase.
From SMD Require Proofs.ApplyPrune.
From SMD Require Import Proofs.MultiVersion.
Theorem C20_multi_version_example :
  setting_ok exr_config FieldSetLaws.ex_R "v1" /\
         one_schema exr_config "v1" /\
         order_perm exr_config /\
         Forall (vop_ok exr_config "v1") tx_ops /\
         map fst tx_ops = "v1" :: "v2" :: "v3" :: "v3" :: "v2" :: "v1" :: nil /\
         (forall force : bool, op_ok exr_config "v1" (HApply "c" mx_cfg force)) /\
         vrun exr_config "v1" tx_ops =
         ("v1", tx_obj,
          ("a", {| mr_set := tx_set_a; mr_ver := "v1"; mr_applied := true |})
          :: ("b", {| mr_set := tx_set_b; mr_ver := "v2"; mr_applied := false |}) :: nil) /\
         vstep_outcome_ok exr_config (vrun exr_config "v1" tx_ops)
           ("v4", HApply "c" mx_cfg false) /\
         vstep_outcome_ok exr_config (vrun exr_config "v1" tx_ops) ("v4", HApply "c" mx_cfg true) /\
         present ex_schema ex_rt tx_obj
           (PEField "items" :: PEKey (("name", VStr "y") :: nil) :: PEField "vv" :: nil) = true /\
         (exists (o : option tv) (mf' : managed),
            apply_op exr_config ("v1", tx_obj) ("v4", mx_cfg) "v4"
              (("a", {| mr_set := tx_set_a; mr_ver := "v1"; mr_applied := true |})
               :: ("b", {| mr_set := tx_set_b; mr_ver := "v2"; mr_applied := false |}) :: nil)
              "c" true = UOk (o, mf')) /\
         (forall (o : option tv) (mf' : managed),
          apply_op exr_config ("v1", tx_obj) ("v4", mx_cfg) "v4"
            (("a", {| mr_set := tx_set_a; mr_ver := "v1"; mr_applied := true |})
             :: ("b", {| mr_set := tx_set_b; mr_ver := "v2"; mr_applied := false |}) :: nil) "c"
            true = UOk (o, mf') ->
          let res := match o with
                     | Some t => snd t
                     | None => tx_obj
                     end in
          let d := ref_diff ex_schema ex_rt tx_obj res in
          agrees ex_schema ex_rt mx_cfg res = true /\
          ((exists r : mrec,
              mf_get "b"
                (("a", {| mr_set := tx_set_a; mr_ver := "v1"; mr_applied := true |})
                 :: ("b", {| mr_set := tx_set_b; mr_ver := "v2"; mr_applied := false |}) :: nil) =
              Some r /\ ps_has (PEField "aa" :: nil) (mr_set r) = true) /\
           (pmem (PEField "aa" :: nil) (rd_modified d) = true \/
            pmem (PEField "aa" :: nil) (rd_added d) = true)) /\
          ~
          (pmem (PEField "items" :: PEKey (("name", VStr "y") :: nil) :: nil) (rd_modified d) =
           true \/
           pmem (PEField "items" :: PEKey (("name", VStr "y") :: nil) :: nil) (rd_added d) = true) /\
          (exists rc : mrec,
             mf_get "c" mf' = Some rc /\
             mr_ver rc = "v4" /\
             mr_applied rc = true /\
             ps_has (PEField "aa" :: nil) (mr_set rc) = true /\
             ps_has (PEField "items" :: PEKey (("name", VStr "y") :: nil) :: PEField "vv" :: nil)
               (mr_set rc) = false) /\
          (forall rb : mrec,
           mf_get "b" mf' = Some rb -> mr_ver rb = "v2" /\ mr_applied rb = false) /\
          (forall ra : mrec, mf_get "a" mf' = Some ra -> mr_ver ra = "v1" /\ mr_applied ra = true) /\
          (exists (o2 : option tv) (mf'' : managed),
             apply_op exr_config match o with
                                 | Some t => t
                                 | None => ("v1", tx_obj)
                                 end ("v4", mx_cfg) "v4" mf' "c" false = 
             UOk (o2, mf'') /\ o2 = None /\ same_records mf' mf'')) /\
         apply_op exr_config ("v1", tx_obj) ("v4", mx_cfg) "v4"
           (("a", {| mr_set := tx_set_a; mr_ver := "v1"; mr_applied := true |})
            :: ("b", {| mr_set := tx_set_b; mr_ver := "v2"; mr_applied := false |}) :: nil) "c"
           false = UErr (EConflict (("b", PEField "aa" :: nil) :: nil)) /\
         apply_op exr_config ("v1", tx_obj) ("v4", mx_cfg) "v4"
           (("a", {| mr_set := tx_set_a; mr_ver := "v1"; mr_applied := true |})
            :: ("b", {| mr_set := tx_set_b; mr_ver := "v2"; mr_applied := false |}) :: nil) "c"
           true = UOk (Some ("v1", mx_res), mx_mf).
Proof. exact mv_example. Qed.
Print Assumptions C20_multi_version_example.

