(* C20 — API versions and schema evolution are transparent.  Statements only; proofs in
   Proofs/UpdaterLaws2.v.  Proved about the model: every operation starts by dropping
   the managers recorded at a version the converter reports as gone, and only those
   (same version and flag for the others).  The transparency of multi-version runs
   (after the repair of the add-back, commit 7abda2a) and the reconcile laws are decided
   on the implementation's outcomes: multi-version histories against their translated
   single-version replay, and ReconcileFieldSetWithSchema against the reference of
   Spec/TypeAt.v on all 32 granular/atomic variants of the small schema. *)
From Coq Require Import List ZArith String Bool.
From SMD Require Import Model.Value Model.Order Model.PathElem Model.PathSet Model.Schema Model.Walk
  Model.FieldSet Model.Compare Model.Matcher Model.Updater Spec.PathsAsSets Spec.Examples
  Proofs.OrderLaws Proofs.PathSetLaws Proofs.UpdaterLaws Proofs.UpdaterLaws2.
Import ListNotations.
Open Scope list_scope.

Theorem C20_gone_versions_are_dropped :
  forall (c : config) (n : nat) (live : tv) (mf mf0 : managed) (n0 : nat) (gone : string),
         mf_ok mf ->
         (forall (k : nat) (from : string) (x : value), cfg_convert c k from gone x = CMissing) ->
         reconcile_managed c n live mf = UOk (mf0, n0) ->
         forall (m : string) (r : mrec), mf_get m mf0 = Some r -> mr_ver r <> gone.
Proof. exact reconcile_drops_gone_versions. Qed.
Print Assumptions C20_gone_versions_are_dropped.

Theorem C20_reconcile_keeps_the_others :
  forall (c : config) (n : nat) (live : tv) (mf mf0 : managed) (n0 : nat),
         mf_ok mf ->
         reconcile_managed c n live mf = UOk (mf0, n0) ->
         sorted_keys mf0 = true /\
         (forall m : string,
          match mf_get m mf0 with
          | Some r0 =>
              exists r : mrec,
                mf_get m mf = Some r /\ mr_ver r0 = mr_ver r /\ mr_applied r0 = mr_applied r
          | None => True
          end).
Proof. exact reconcile_managed_spec. Qed.
Print Assumptions C20_reconcile_keeps_the_others.


(* ---- reconciling records with a schema in which fields turned atomic (proofs in
   Proofs/Reconcile{Base,Laws}.v).  [reconcile_ref] (Spec/TypeAt.v) replaces every path
   by its outermost non-root prefix whose type is atomic.  Hypotheses beyond schema_ok:
   [walkable] -- every reference reached resolves to an atom with exactly one member and
   list element types are non-empty; the root reference is non-empty and not itself
   atomic; every member path is typed by the schema; no schemaless (untyped deduced) map
   is reached.  Without them the statement is false (third theorem). ---- *)
From SMD Require Import Model.Schema Model.Walk Model.Reconcile Spec.TypeAt Proofs.SchemaOk Proofs.ReconcileLaws.
Theorem C20_reconcile_exact :
  forall (s : schema) (R : typeref -> Prop) (tr : typeref) (fs : pset),
         schema_ok s R ->
         R tr ->
         ps_ok fs = true ->
         typed_paths s tr fs ->
         (forall (tr' : typeref) (m : mapT),
          R tr' ->
          resolve s tr' = Some (Atom None None (Some m)) -> is_untyped_deduced_map m = false) ->
         walkable s R ->
         is_empty_tr tr = false ->
         is_atomic_type s tr = false ->
         match reconcile_field_set s tr fs with
         | Some (Some out) =>
             ps_ok out = true /\
             (forall p : path,
              wf_path p = true ->
              p <> [] -> ps_has p out = pmem p (reconcile_ref s tr (ps_elems fs)))
         | Some None => forall p : path, In p (ps_elems fs) -> reconcile_path s tr p = p
         | None => False
         end.
Proof. exact reconcile_exact. Qed.
Print Assumptions C20_reconcile_exact.

Theorem C20_reconcile_idempotent :
  forall (s : schema) (R : typeref -> Prop) (tr : typeref) (fs out : pset),
         schema_ok s R ->
         R tr ->
         ps_ok fs = true ->
         typed_paths s tr fs ->
         (forall (tr' : typeref) (m : mapT),
          R tr' ->
          resolve s tr' = Some (Atom None None (Some m)) -> is_untyped_deduced_map m = false) ->
         walkable s R ->
         is_empty_tr tr = false ->
         is_atomic_type s tr = false ->
         reconcile_field_set s tr fs = Some (Some out) ->
         reconcile_field_set s tr out = Some None.
Proof. exact reconcile_idempotent. Qed.
Print Assumptions C20_reconcile_idempotent.

(* non-vacuity: a schema with an atomic map field, an atomic list field and a set *)
Theorem C20_reconcile_example :
  exists out, reconcile_field_set ReconcileLaws.Examples.ex_s ReconcileLaws.Examples.ex_root ReconcileLaws.Examples.ex_fs = Some (Some out).
Proof. eexists. vm_compute. reflexivity. Qed.
Print Assumptions C20_reconcile_example.
