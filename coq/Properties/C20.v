(* C20 — API versions and schema evolution are transparent.  Statements only; proofs in
   Proofs/UpdaterLaws2.v.  Proved about the model: every operation starts by dropping
   the managers recorded at a version the converter reports as gone, and only those
   (same version and flag for the others).  The transparency of multi-version runs
   (after the repair of the add-back, commit 7abda2a) and the reconcile laws are decided
   on the implementation's outcomes: multi-version histories against their translated
   single-version replay, and ReconcileFieldSetWithSchema against the reference of
   Spec/TypeAt.v on all 32 granular/atomic variants of the small schema. *)
From Coq Require Import List ZArith String Bool.
From SMD Require Import Model.Value Model.Order Model.PathElem Model.PathSet Model.Schema Model.Walk
  Model.FieldSet Model.Compare Model.Matcher Model.Updater Spec.PathsAsSets Spec.Examples
  Proofs.OrderLaws Proofs.PathSetLaws Proofs.UpdaterLaws Proofs.UpdaterLaws2.
Import ListNotations.
Open Scope list_scope.

Theorem C20_gone_versions_are_dropped :
  forall (c : config) (n : nat) (live : tv) (mf mf0 : managed) (n0 : nat) (gone : string),
         mf_ok mf ->
         (forall (k : nat) (from : string) (x : value), cfg_convert c k from gone x = CMissing) ->
         reconcile_managed c n live mf = UOk (mf0, n0) ->
         forall (m : string) (r : mrec), mf_get m mf0 = Some r -> mr_ver r <> gone.
Proof. exact reconcile_drops_gone_versions. Qed.
Print Assumptions C20_gone_versions_are_dropped.

Theorem C20_reconcile_keeps_the_others :
  forall (c : config) (n : nat) (live : tv) (mf mf0 : managed) (n0 : nat),
         mf_ok mf ->
         reconcile_managed c n live mf = UOk (mf0, n0) ->
         sorted_keys mf0 = true /\
         (forall m : string,
          match mf_get m mf0 with
          | Some r0 =>
              exists r : mrec,
                mf_get m mf = Some r /\ mr_ver r0 = mr_ver r /\ mr_applied r0 = mr_applied r
          | None => True
          end).
Proof. exact reconcile_managed_spec. Qed.
Print Assumptions C20_reconcile_keeps_the_others.

