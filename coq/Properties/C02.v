(* C02 — Apply touches only what the applier specifies or abandons.  Statements only.
   The general frame theorem is not proved yet (it needs the merge/removal frame lemmas
   under construction).  Proved here: the commutation corollary on a concrete pair of
   fresh managers with disjoint configurations (kernel-evaluated scenario), and the fact
   that pruning is the identity when the applier has no earlier record (C03 file).  The
   property itself is decided on the implementation's outcomes by the extracted checkers
   (frame, others-keep; DESIGN.md 4.C02). *)
From Coq Require Import List ZArith String Bool.
From SMD Require Import Model.Value Model.Order Model.PathElem Model.PathSet Model.Schema
  Model.Updater Spec.Resolve Spec.Agree Spec.Examples.
Import ListNotations.
Open Scope string_scope.
Open Scope list_scope.

Definition c02_apply (st : value * managed) (mgr : string) (cfg : value) : option (value * managed) :=
  match apply_op ex_config ("v1", fst st) ("v1", cfg) "v1" (snd st) mgr false with
  | UOk (Some o, mf') => Some (snd o, mf')
  | UOk (None, mf') => Some (fst st, mf')
  | UErr _ => None
  end.

Definition mf_same (a b : managed) : bool :=
  Nat.eqb (List.length a) (List.length b) &&
  forallb (fun mr : string * mrec =>
             match mf_get (fst mr) b with
             | Some r => ps_equals (mr_set (snd mr)) (mr_set r) && String.eqb (mr_ver (snd mr)) (mr_ver r)
                         && Bool.eqb (mr_applied (snd mr)) (mr_applied r)
             | None => false
             end) a.

(* two fresh managers applying configurations with disjoint field sets reach the same
   object (up to member order) and the same ownership in either order *)
Theorem C02_commute_scenario :
  let base := (VMap [("aa", VInt 0)], []) in
  let ca := VMap [("items", VList [VMap [("name", VStr "x"); ("vv", VInt 1)]])] in
  let cb := VMap [("items", VList [VMap [("name", VStr "y")]]); ("mm", VMap [("k", VInt 2)])] in
  match c02_apply base "a" ca, c02_apply base "b" cb with
  | Some sa, Some sb =>
      match c02_apply sa "b" cb, c02_apply sb "a" ca with
      | Some sab, Some sba => veq_assoc ex_schema ex_rt (fst sab) (fst sba) = true /\ mf_same (snd sab) (snd sba) = true
      | _, _ => False
      end
  | _, _ => False
  end.
Proof. vm_compute. split; reflexivity. Qed.
Print Assumptions C02_commute_scenario.
