(* C02 — Apply touches only what the applier specifies or abandons.  Statements only.
   GENERAL THEOREM for the removal half (C02_apply_removes_only_its_own, proofs in
   Proofs/ApplyPrune.v ...), in the setting and with the side conditions of
   C01_apply_takes_effect: a node present in the live object and absent from the result of
   a successful apply, not at or beneath a node of the configuration, lies at or beneath a
   member of the EnsureNamedFieldsAreMembers closure of the APPLIER'S OWN previous record --
   an apply removes nothing else, in particular nothing when the applier has no record.
   Needed: live object and configuration have the same kind at the root
   (C02_needs_the_same_root_kind refutes the statement for a root type that is both a
   list and a map).  The "merged form" starts from the merged object and needs no such
   hypothesis.  With C01 (every node of the configuration is in the result with the
   configuration's value) and C12_nothing_else_changes (every leaf of the merged object is
   the configuration's or the live object's) this gives the frame.  Not proved: the
   commutation corollary in general (scenario below).  The property itself is also decided
   on the implementation's outcomes by the extracted checkers (DESIGN.md 4.C02). *)
From Coq Require Import List ZArith String Bool.
From SMD Require Import Model.Value Model.Order Model.PathElem Model.PathSet Model.Schema
  Model.Updater Spec.Resolve Spec.Agree Spec.Examples.
Import ListNotations.
Open Scope string_scope.
Open Scope list_scope.

Definition c02_apply (st : value * managed) (mgr : string) (cfg : value) : option (value * managed) :=
  match apply_op ex_config ("v1", fst st) ("v1", cfg) "v1" (snd st) mgr false with
  | UOk (Some o, mf') => Some (snd o, mf')
  | UOk (None, mf') => Some (fst st, mf')
  | UErr _ => None
  end.

Definition mf_same (a b : managed) : bool :=
  Nat.eqb (List.length a) (List.length b) &&
  forallb (fun mr : string * mrec =>
             match mf_get (fst mr) b with
             | Some r => ps_equals (mr_set (snd mr)) (mr_set r) && String.eqb (mr_ver (snd mr)) (mr_ver r)
                         && Bool.eqb (mr_applied (snd mr)) (mr_applied r)
             | None => false
             end) a.

(* two fresh managers applying configurations with disjoint field sets reach the same
   object (up to member order) and the same ownership in either order *)
Theorem C02_commute_scenario :
  let base := (VMap [("aa", VInt 0)], []) in
  let ca := VMap [("items", VList [VMap [("name", VStr "x"); ("vv", VInt 1)]])] in
  let cb := VMap [("items", VList [VMap [("name", VStr "y")]]); ("mm", VMap [("k", VInt 2)])] in
  match c02_apply base "a" ca, c02_apply base "b" cb with
  | Some sa, Some sb =>
      match c02_apply sa "b" cb, c02_apply sb "a" ca with
      | Some sab, Some sba => veq_assoc ex_schema ex_rt (fst sab) (fst sba) = true /\ mf_same (snd sab) (snd sba) = true
      | _, _ => False
      end
  | _, _ => False
  end.
Proof. vm_compute. split; reflexivity. Qed.
Print Assumptions C02_commute_scenario.

(* ---- the general theorem (removal half) ---- *)
From Coq Require Import Arith Lia.
From SMD Require Import Model.Order Model.PathElem Model.Schema Model.Walk Model.Validate Model.FieldSet Model.Remove Model.Merge Model.Compare
  Model.Matcher Model.Reconcile Spec.PathsAsSets Spec.RefValid Spec.Resolve Spec.Agree Spec.Examples
  Proofs.OrderLaws Proofs.PathSetLaws Proofs.SchemaOk Proofs.FieldSetBase Proofs.FieldSetPaths
  Proofs.FieldSetWf Proofs.FieldSetLaws Proofs.RemoveAbsent Proofs.RemoveWf Proofs.ResolveLaws
  Proofs.UpdaterLaws Proofs.UpdaterLaws2 Proofs.MergeLaws Proofs.MergeAgree
  Proofs.RemoveFrame Proofs.EnLaws Proofs.NodeSet Proofs.KeyFields Proofs.VeqbResolve
  Proofs.SetCheckers Proofs.ApplyEffect
  Proofs.RemoveMono Proofs.TreeFacts Proofs.MergeKeeps Proofs.PruneShape Proofs.ApplyPruneBase Proofs.ApplyPrune.
Theorem C02_apply_removes_only_its_own :
  forall (c : config) (R : typeref -> Prop) (ver : string) (live cfg : string * value)
           (mf : managed) (mgr : string) (force : bool) (o : option tv) 
           (mf' : managed) (p : path),
         no_ignore c ->
         conv_id c ->
         schema_ok (schema_of c ver) R ->
         family_refs (schema_of c ver) R ->
         R (tr_of c ver) ->
         keys_plain (schema_of c ver) R ->
         fst live = ver ->
         fst cfg = ver ->
         single_version ver mf ->
         mf_ok mf ->
         records_current c ver mf ->
         (forall r : mrec,
          mf_get mgr mf = Some r -> applier_record_ok (schema_of c ver) (tr_of c ver) (mr_set r)) ->
         (forall (m : string) (r : mrec),
          m <> mgr ->
          mf_get m mf = Some r ->
          owns_live_keys (schema_of c ver) (tr_of c ver) (snd live) (mr_set r)) ->
         wf_value (snd live) = true ->
         wf_value (snd cfg) = true ->
         conforms (schema_of c ver) (tr_of c ver) true (snd live) = true ->
         conforms (schema_of c ver) (tr_of c ver) false (snd cfg) = true ->
         plain (snd cfg) = true ->
         granular (schema_of c ver) (tr_of c ver) (snd cfg) ->
         apply_op c live cfg ver mf mgr force = UOk (o, mf') ->
         wf_path p = true ->
         p <> nil ->
         present (schema_of c ver) (tr_of c ver) (snd live) p = true ->
         present (schema_of c ver) (tr_of c ver)
           match o with
           | Some t => snd t
           | None => snd live
           end p = false ->
         (forall q : path,
          In q (map fst (nodes (schema_of c ver) (tr_of c ver) (snd cfg))) ->
          is_prefix q p = false) ->
         same_root_kind (schema_of c ver) (tr_of c ver) (snd live) (snd cfg) ->
         exists (last : mrec) (q : path),
           mf_get mgr mf = Some last /\
           is_prefix q p = true /\
           ps_has q (ps_en (schema_of c ver) (tr_of c ver) (mr_set last)) = true.
Proof. exact apply_removes_only_own. Qed.
Print Assumptions C02_apply_removes_only_its_own.

Theorem C02_apply_removes_only_its_own_merged_form :
  forall (c : config) (R : typeref -> Prop) (ver : string) (live cfg : string * value)
           (mf : managed) (mgr : string) (force : bool) (o : option tv) 
           (mf' : managed) (p : path),
         no_ignore c ->
         conv_id c ->
         schema_ok (schema_of c ver) R ->
         family_refs (schema_of c ver) R ->
         R (tr_of c ver) ->
         keys_plain (schema_of c ver) R ->
         fst live = ver ->
         fst cfg = ver ->
         single_version ver mf ->
         mf_ok mf ->
         records_current c ver mf ->
         (forall r : mrec,
          mf_get mgr mf = Some r -> applier_record_ok (schema_of c ver) (tr_of c ver) (mr_set r)) ->
         (forall (m : string) (r : mrec),
          m <> mgr ->
          mf_get m mf = Some r ->
          owns_live_keys (schema_of c ver) (tr_of c ver) (snd live) (mr_set r)) ->
         wf_value (snd live) = true ->
         wf_value (snd cfg) = true ->
         conforms (schema_of c ver) (tr_of c ver) true (snd live) = true ->
         conforms (schema_of c ver) (tr_of c ver) false (snd cfg) = true ->
         plain (snd cfg) = true ->
         apply_op c live cfg ver mf mgr force = UOk (o, mf') ->
         wf_path p = true ->
         p <> nil ->
         (forall M : value,
          merge (schema_of c ver) (tr_of c ver) (snd live) (snd cfg) = Some (Some M) ->
          present (schema_of c ver) (tr_of c ver) M p = true) ->
         present (schema_of c ver) (tr_of c ver)
           match o with
           | Some t => snd t
           | None => snd live
           end p = false ->
         exists (last : mrec) (q : path),
           mf_get mgr mf = Some last /\
           is_prefix q p = true /\
           ps_has q (ps_en (schema_of c ver) (tr_of c ver) (mr_set last)) = true.
Proof. exact apply_removes_only_own_merged. Qed.
Print Assumptions C02_apply_removes_only_its_own_merged_form.

Theorem C02_needs_the_same_root_kind :
  ~ apply_removes_only_own_original.
Proof. exact apply_removes_only_own_needs_root_kind. Qed.
Print Assumptions C02_needs_the_same_root_kind.

Theorem C02_example :
  present ex_schema ex_rt ape_live
           (PEField "items" :: PEKey (("name", VStr "x") :: nil) :: PEField "vv" :: nil) = true /\
         present ex_schema ex_rt ape_result
           (PEField "items" :: PEKey (("name", VStr "x") :: nil) :: PEField "vv" :: nil) = false /\
         (exists (last : mrec) (q : path),
            mf_get "a" ape_mf = Some last /\
            is_prefix q
              (PEField "items" :: PEKey (("name", VStr "x") :: nil) :: PEField "vv" :: nil) =
            true /\ ps_has q (ps_en ex_schema ex_rt (mr_set last)) = true).
Proof. exact apply_removes_only_own_example. Qed.
Print Assumptions C02_example.

(* ---- along every history: the side conditions are an invariant of the reachable states
   (Proofs/History.v: [state_ok], [op_ok], [run]; one version, identity converter, no ignore
   configuration; histories of apply / forced apply / update by any number of managers) ---- *)
From SMD Require Import Spec.RefDiff Proofs.RefDiffBoth Proofs.RefDiffLaws Proofs.RefDiffPresent Proofs.ApplyInv
  Proofs.RefDiffChar Proofs.ReconcileCurrent Proofs.KeySync Proofs.History.
Theorem C02_along_every_history :
  forall (c : config) (R : typeref -> Prop) (ver : string) (ops : list hop) 
           (mgr : string) (cfg : value) (force : bool) (o : option tv) 
           (mf' : managed) (p : path),
         setting_ok c R ver ->
         Forall (op_ok c ver) ops ->
         op_ok c ver (HApply mgr cfg force) ->
         apply_op c (ver, fst (run c ver ops)) (ver, cfg) ver (snd (run c ver ops)) mgr force =
         UOk (o, mf') ->
         wf_path p = true ->
         p <> [] ->
         present (schema_of c ver) (tr_of c ver) (fst (run c ver ops)) p = true ->
         present (schema_of c ver) (tr_of c ver)
           match o with
           | Some t => snd t
           | None => fst (run c ver ops)
           end p = false ->
         (forall q : path,
          In q (map fst (nodes (schema_of c ver) (tr_of c ver) cfg)) -> is_prefix q p = false) ->
         MergeKeeps.same_root_kind (schema_of c ver) (tr_of c ver) (fst (run c ver ops)) cfg ->
         exists (last : mrec) (q : path),
           mf_get mgr (snd (run c ver ops)) = Some last /\
           is_prefix q p = true /\
           ps_has q (ps_en (schema_of c ver) (tr_of c ver) (mr_set last)) = true.
Proof. exact apply_removes_only_own_along_histories. Qed.
Print Assumptions C02_along_every_history.

(* ---- "every field owned by another manager keeps its value unless the configuration
   itself sets it" (Proofs/OthersKeep.v ...): a leaf that another manager owns and the
   configuration does not mention either is still there with an equal value, or sits
   strictly beneath a member of the closure of the APPLIER'S OWN previous record that is
   gone from the result (a field of another manager inside an item that only the applier
   owned goes with the item).  Needs [anc_shared] -- of two managers owning the same field
   at least one owns each ancestor of it -- which is an invariant of every reachable state
   (C02_shared_ancestors_invariant), so the along-histories form has no extra hypothesis;
   the step form is refuted without it on a hand-made (unreachable) state. ---- *)
From SMD Require Import Proofs.ReconcileLaws Proofs.TreeFacts Proofs.ApplyPrune Proofs.AncSharedDef Proofs.AncShared
  Proofs.OthersKeepStep Proofs.OthersKeep.
Theorem C02_others_keep_their_value :
  forall (c : config) (R : typeref -> Prop) (ver : string) (live : value) 
           (mf : managed) (mgr : string) (cfg : value) (force : bool) 
           (o : option tv) (mf' : managed) (m : string) (r : mrec) (p : path) 
           (tr' : typeref) (x : value),
         setting_ok c R ver ->
         state_ok c ver live mf ->
         anc_shared (schema_of c ver) (tr_of c ver) mf ->
         op_ok c ver (HApply mgr cfg force) ->
         apply_op c (ver, live) (ver, cfg) ver mf mgr force = UOk (o, mf') ->
         m <> mgr ->
         mf_get m mf = Some r ->
         wf_path p = true ->
         ps_has p (mr_set r) = true ->
         (forall q : path,
          In q (map fst (nodes (schema_of c ver) (tr_of c ver) cfg)) ->
          is_prefix p q = false /\
          (is_prefix q p = true ->
           exists (trq : typeref) (y : value),
             resolve_path (schema_of c ver) (tr_of c ver) cfg q = Some (RNode trq y) /\
             ~ leafy (schema_of c ver) trq y)) ->
         resolve_path (schema_of c ver) (tr_of c ver) live p = Some (RNode tr' x) ->
         leafy (schema_of c ver) tr' x ->
         x <> VList nil ->
         let res := match o with
                    | Some t => snd t
                    | None => live
                    end in
         (exists y : value,
            resolve_path (schema_of c ver) (tr_of c ver) res p = Some (RNode tr' y) /\
            veqb x y = true) \/
         (exists (q : path) (last : mrec),
            is_prefix q p = true /\
            q <> p /\
            mf_get mgr mf = Some last /\
            ps_has q (ps_en (schema_of c ver) (tr_of c ver) (mr_set last)) = true /\
            present (schema_of c ver) (tr_of c ver) res q = false).
Proof. exact apply_keeps_others_fields. Qed.
Print Assumptions C02_others_keep_their_value.

Theorem C02_others_keep_their_value_along_every_history :
  forall (c : config) (R : typeref -> Prop) (ver : string) (ops : list hop) 
           (mgr : string) (cfg : value) (force : bool) (o : option tv) 
           (mf' : managed) (m : string) (r : mrec) (p : path) (tr' : typeref) 
           (x : value),
         setting_ok c R ver ->
         Forall (op_ok c ver) ops ->
         op_ok c ver (HApply mgr cfg force) ->
         apply_op c (ver, fst (run c ver ops)) (ver, cfg) ver (snd (run c ver ops)) mgr force =
         UOk (o, mf') ->
         m <> mgr ->
         mf_get m (snd (run c ver ops)) = Some r ->
         wf_path p = true ->
         ps_has p (mr_set r) = true ->
         (forall q : path,
          In q (map fst (nodes (schema_of c ver) (tr_of c ver) cfg)) ->
          is_prefix p q = false /\
          (is_prefix q p = true ->
           exists (trq : typeref) (y : value),
             resolve_path (schema_of c ver) (tr_of c ver) cfg q = Some (RNode trq y) /\
             ~ leafy (schema_of c ver) trq y)) ->
         resolve_path (schema_of c ver) (tr_of c ver) (fst (run c ver ops)) p =
         Some (RNode tr' x) ->
         leafy (schema_of c ver) tr' x ->
         x <> VList nil ->
         let res := match o with
                    | Some t => snd t
                    | None => fst (run c ver ops)
                    end in
         (exists y : value,
            resolve_path (schema_of c ver) (tr_of c ver) res p = Some (RNode tr' y) /\
            veqb x y = true) \/
         (exists (q : path) (last : mrec),
            is_prefix q p = true /\
            q <> p /\
            mf_get mgr (snd (run c ver ops)) = Some last /\
            ps_has q (ps_en (schema_of c ver) (tr_of c ver) (mr_set last)) = true /\
            present (schema_of c ver) (tr_of c ver) res q = false).
Proof. exact apply_keeps_others_fields_along_histories. Qed.
Print Assumptions C02_others_keep_their_value_along_every_history.

Theorem C02_shared_ancestors_invariant :
  forall (c : config) (R : typeref -> Prop) (ver : string) (ops : list hop),
         setting_ok c R ver ->
         Forall (op_ok c ver) ops ->
         anc_shared (schema_of c ver) (tr_of c ver) (snd (run c ver ops)).
Proof. exact anc_shared_reachable. Qed.
Print Assumptions C02_shared_ancestors_invariant.

Theorem C02_others_keep_needs_shared_ancestors :
  ~ apply_keeps_others_fields_as_stated.
Proof. exact apply_keeps_others_fields_as_stated_refuted. Qed.
Print Assumptions C02_others_keep_needs_shared_ancestors.

Theorem C02_example_field_survives :
  present ex_schema ex_rt okx_obj
           (PEField "items" :: PEKey (("name", VStr "x") :: nil) :: nil) = true /\
         present ex_schema ex_rt okx_res
           (PEField "items" :: PEKey (("name", VStr "x") :: nil) :: nil) = false /\
         (exists y : value,
            resolve_path ex_schema ex_rt okx_res
              (PEField "items" :: PEKey (("name", VStr "y") :: nil) :: PEField "vv" :: nil) =
            Some (RNode ex_num y) /\ veqb (VInt 7) y = true).
Proof. exact others_field_survives. Qed.
Print Assumptions C02_example_field_survives.

Theorem C02_example_field_goes_with_member :
  resolve_path ex_schema ex_rt okx_res
           (PEField "items" :: PEKey (("name", VStr "x") :: nil) :: PEField "vv" :: nil) = None /\
         (exists (q : path) (last : mrec),
            wf_path q = true /\
            is_prefix q
              (PEField "items" :: PEKey (("name", VStr "x") :: nil) :: PEField "vv" :: nil) =
            true /\
            q <> PEField "items" :: PEKey (("name", VStr "x") :: nil) :: PEField "vv" :: nil /\
            mf_get "a" okx_mf = Some last /\
            ps_has q (ps_en ex_schema ex_rt (mr_set last)) = true /\
            present ex_schema ex_rt okx_res q = false).
Proof. exact others_field_goes_with_member. Qed.
Print Assumptions C02_example_field_goes_with_member.


(* ---- "two managers applying configurations with disjoint field sets reach the same object and
   ownership in either order" (Proofs/Commute*.v).  Same object: up to the order of set and
   keyed-list members (each apply appends its new members).  Proved for two managers that own
   nothing yet (no pruning), and for managers with records that keep everything they own
   (every member of the record is a node of the new configuration).  "Disjoint" must mean that
   no path of one field set is a prefix of a path of the other (refuted for mere
   set-disjointness over the schemaless type: f: 5 against f: {y: 1}).  When a manager
   ABANDONS fields between the two applies the clause is refuted -- by the emptied container
   left as null (known findings F17/F26) even when all objects involved are hollow-free, and,
   independently, when the other configuration names a field of the manager's previous record.
   The general clause for abandoning managers under "records prefix-disjoint from the other
   configuration, final objects hollow-free" held on 3 336 evaluated cases and is not proved. ---- *)
From Coq Require Import List ZArith String Bool Arith Lia.
From SMD Require Import Model.Value Model.Order Model.PathElem Model.PathSet Model.Schema Model.Walk
  Model.Validate Model.FieldSet Model.Remove Model.Merge Model.Compare Model.Matcher Model.Reconcile
  Model.Updater
  Spec.PathsAsSets Spec.RefValid Spec.Resolve Spec.Agree Spec.RefDiff Spec.Examples
  Proofs.OrderLaws Proofs.PathSetLaws Proofs.SchemaOk Proofs.FieldSetBase Proofs.FieldSetPaths
  Proofs.FieldSetWf Proofs.FieldSetLaws Proofs.RemoveAbsent Proofs.RemoveWf Proofs.ResolveLaws
  Proofs.UpdaterLaws Proofs.UpdaterLaws2 Proofs.MergeLaws Proofs.MergeAgree
  Proofs.RemoveFrame Proofs.EnLaws Proofs.NodeSet Proofs.KeyFields Proofs.VeqbResolve
  Proofs.SetCheckers Proofs.ApplyEffect Proofs.RefDiffBoth Proofs.RefDiffLaws Proofs.RefDiffPresent
  Proofs.ApplyInv Proofs.History Proofs.Reapply.
From SMD Require Import Proofs.CompareLaws Proofs.ReconcileTotal Proofs.ConflictsApply Proofs.ApplyPruneBase Proofs.RecordsHistory Proofs.TreeFacts
  Proofs.FieldSetShape Proofs.SameLeaves Proofs.CommuteLeaves Proofs.CommuteMod Proofs.CommuteSame.
From SMD Require Proofs.MergeRest Proofs.MergeBase Proofs.ReconcileBase Proofs.MergeRestBase Proofs.RefDiffBase Proofs.RefDiffChar Proofs.ExtractBase.
From SMD Require Import Proofs.Commute.
Theorem C02_fresh_disjoint_applies_commute :
  forall (c : config) (R : typeref -> Prop) (ver : string) (live : value) 
           (mf : managed) (a b : string) (cfgA cfgB : value) (fsA fsB : pset),
         setting_ok c R ver ->
         state_ok c ver live mf ->
         dup_free (schema_of c ver) (tr_of c ver) live = true ->
         hollow_free live ->
         a <> b ->
         mf_get a mf = None ->
         mf_get b mf = None ->
         op_ok c ver (HApply a cfgA true) ->
         op_ok c ver (HApply b cfgB true) ->
         to_field_set (schema_of c ver) (tr_of c ver) cfgA = Some fsA ->
         to_field_set (schema_of c ver) (tr_of c ver) cfgB = Some fsB ->
         prefix_disjoint fsA fsB ->
         let sAB := both c ver (live, mf) (HApply a cfgA true) (HApply b cfgB true) in
         let sBA := both c ver (live, mf) (HApply b cfgB true) (HApply a cfgA true) in
         veq_assoc (schema_of c ver) (tr_of c ver) (fst sAB) (fst sBA) = true /\
         same_records (snd sAB) (snd sBA).
Proof. exact fresh_disjoint_applies_commute. Qed.
Print Assumptions C02_fresh_disjoint_applies_commute.

Theorem C02_keeping_disjoint_applies_commute :
  forall (c : config) (R : typeref -> Prop) (ver : string) (live : value) 
           (mf : managed) (a b : string) (cfgA cfgB : value) (fsA fsB : pset),
         setting_ok c R ver ->
         state_ok c ver live mf ->
         dup_free (schema_of c ver) (tr_of c ver) live = true ->
         hollow_free live ->
         a <> b ->
         keeps_all c ver cfgA mf a ->
         keeps_all c ver cfgB mf b ->
         op_ok c ver (HApply a cfgA true) ->
         op_ok c ver (HApply b cfgB true) ->
         to_field_set (schema_of c ver) (tr_of c ver) cfgA = Some fsA ->
         to_field_set (schema_of c ver) (tr_of c ver) cfgB = Some fsB ->
         prefix_disjoint fsA fsB ->
         let sAB := both c ver (live, mf) (HApply a cfgA true) (HApply b cfgB true) in
         let sBA := both c ver (live, mf) (HApply b cfgB true) (HApply a cfgA true) in
         veq_assoc (schema_of c ver) (tr_of c ver) (fst sAB) (fst sBA) = true /\
         same_records (snd sAB) (snd sBA).
Proof. exact keeping_disjoint_applies_commute. Qed.
Print Assumptions C02_keeping_disjoint_applies_commute.

Theorem C02_commutation_refuted_when_a_manager_abandons :
  setting_ok ex_config FieldSetLaws.ex_R "v1" /\
         state_ok ex_config "v1" l2_obj l2_mf /\
         dup_free (schema_of ex_config "v1") (tr_of ex_config "v1") l2_obj = true /\
         hollow_free l2_obj /\
         "a" <> "d" /\
         op_ok ex_config "v1" (HApply "a" l2_cfgA true) /\
         op_ok ex_config "v1" (HApply "d" l2_cfgB true) /\
         to_field_set (schema_of ex_config "v1") (tr_of ex_config "v1") l2_cfgA = Some l2_fsA /\
         to_field_set (schema_of ex_config "v1") (tr_of ex_config "v1") l2_cfgB = Some l2_fsB /\
         prefix_disjoint l2_fsA l2_fsB /\
         (let sAB :=
            both ex_config "v1" (l2_obj, l2_mf) (HApply "a" l2_cfgA true)
              (HApply "d" l2_cfgB true) in
          let sBA :=
            both ex_config "v1" (l2_obj, l2_mf) (HApply "d" l2_cfgB true)
              (HApply "a" l2_cfgA true) in
          fst sAB =
          VMap (("aa", VInt 1) :: ("items", VNull) :: ("mm", VMap (("k", VInt 1) :: nil)) :: nil) /\
          fst sBA = VMap (("aa", VInt 1) :: ("mm", VMap (("k", VInt 1) :: nil)) :: nil) /\
          veq_assoc (schema_of ex_config "v1") (tr_of ex_config "v1") (fst sAB) (fst sBA) = false).
Proof. exact disjoint_applies_commute_as_stated_refuted. Qed.
Print Assumptions C02_commutation_refuted_when_a_manager_abandons.

Theorem C02_commutation_refuted_even_hollow_free :
  setting_ok ex_config FieldSetLaws.ex_R "v1" /\
         state_ok ex_config "v1" l3_obj l3_mf /\
         dup_free (schema_of ex_config "v1") (tr_of ex_config "v1") l3_obj = true /\
         hollow_free l3_obj /\
         "a" <> "b" /\
         op_ok ex_config "v1" (HApply "a" l2_cfgA true) /\
         op_ok ex_config "v1" (HApply "b" l2_cfgB true) /\
         to_field_set (schema_of ex_config "v1") (tr_of ex_config "v1") l2_cfgA = Some l2_fsA /\
         to_field_set (schema_of ex_config "v1") (tr_of ex_config "v1") l2_cfgB = Some l2_fsB /\
         prefix_disjoint l2_fsA l2_fsB /\
         hollow_free (fst (hstep ex_config "v1" (l3_obj, l3_mf) (HApply "a" l2_cfgA true))) /\
         hollow_free (fst (hstep ex_config "v1" (l3_obj, l3_mf) (HApply "b" l2_cfgB true))) /\
         (let sAB :=
            both ex_config "v1" (l3_obj, l3_mf) (HApply "a" l2_cfgA true)
              (HApply "b" l2_cfgB true) in
          let sBA :=
            both ex_config "v1" (l3_obj, l3_mf) (HApply "b" l2_cfgB true)
              (HApply "a" l2_cfgA true) in
          fst sAB = VMap (("aa", VInt 1) :: ("mm", VMap (("k", VInt 1) :: nil)) :: nil) /\
          fst sBA =
          VMap (("aa", VInt 1) :: ("items", VNull) :: ("mm", VMap (("k", VInt 1) :: nil)) :: nil) /\
          veq_assoc (schema_of ex_config "v1") (tr_of ex_config "v1") (fst sAB) (fst sBA) = false).
Proof. exact disjoint_applies_commute_hollow_free_steps_refuted. Qed.
Print Assumptions C02_commutation_refuted_even_hollow_free.

Theorem C02_commutation_needs_records_disjoint :
  setting_ok ex_config FieldSetLaws.ex_R "v1" /\
         state_ok ex_config "v1" hx_obj hx_mf /\
         dup_free (schema_of ex_config "v1") (tr_of ex_config "v1") hx_obj = true /\
         hollow_free hx_obj /\
         "a" <> "e" /\
         op_ok ex_config "v1" (HApply "a" l4_cfgA true) /\
         op_ok ex_config "v1" (HApply "e" l4_cfgB true) /\
         to_field_set (schema_of ex_config "v1") (tr_of ex_config "v1") l4_cfgA = Some l2_fsA /\
         to_field_set (schema_of ex_config "v1") (tr_of ex_config "v1") l4_cfgB = Some l4_fsB /\
         prefix_disjoint l2_fsA l4_fsB /\
         (let sA := hstep ex_config "v1" (hx_obj, hx_mf) (HApply "a" l4_cfgA true) in
          let sB := hstep ex_config "v1" (hx_obj, hx_mf) (HApply "e" l4_cfgB true) in
          let sAB :=
            both ex_config "v1" (hx_obj, hx_mf) (HApply "a" l4_cfgA true)
              (HApply "e" l4_cfgB true) in
          let sBA :=
            both ex_config "v1" (hx_obj, hx_mf) (HApply "e" l4_cfgB true)
              (HApply "a" l4_cfgA true) in
          hollow_free (fst sA) /\
          hollow_free (fst sB) /\
          hollow_free (fst sAB) /\
          hollow_free (fst sBA) /\
          fst sAB =
          VMap
            (("aa", VInt 1)
             :: ("items",
                 VList
                   (VMap (("name", VStr "z") :: ("vv", VInt 3) :: nil)
                    :: VMap (("name", VStr "y") :: nil) :: nil))
                :: ("mm", VMap (("k", VInt 2) :: nil)) :: nil) /\
          fst sBA =
          VMap
            (("aa", VInt 1)
             :: ("items",
                 VList
                   (VMap (("name", VStr "y") :: ("vv", VInt 7) :: nil)
                    :: VMap (("name", VStr "z") :: ("vv", VInt 3) :: nil) :: nil))
                :: ("mm", VMap (("k", VInt 2) :: nil)) :: nil) /\
          veq_assoc (schema_of ex_config "v1") (tr_of ex_config "v1") (fst sAB) (fst sBA) = false /\
          ~ same_records (snd sAB) (snd sBA)).
Proof. exact disjoint_applies_commute_needs_records_disjoint. Qed.
Print Assumptions C02_commutation_needs_records_disjoint.

Theorem C02_commutation_needs_prefix_disjoint :
  let s := schema_of kc_config "v1" in
         let tr := tr_of kc_config "v1" in
         setting_ok kc_config MergeRest.kc_R "v1" /\
         state_ok kc_config "v1" VNull nil /\
         dup_free s tr VNull = true /\
         hollow_free VNull /\
         "a" <> "b" /\
         mf_get "a" nil = None /\
         mf_get "b" nil = None /\
         op_ok kc_config "v1" (HApply "a" pn_cfgA true) /\
         op_ok kc_config "v1" (HApply "b" pn_cfgB true) /\
         to_field_set s tr pn_cfgA = Some pn_fsA /\
         to_field_set s tr pn_cfgB = Some pn_fsB /\
         (forall p : path, wf_path p = true -> ps_has p pn_fsA = true -> ps_has p pn_fsB = false) /\
         (let sAB :=
            both kc_config "v1" (VNull, nil) (HApply "a" pn_cfgA true) (HApply "b" pn_cfgB true)
            in
          let sBA :=
            both kc_config "v1" (VNull, nil) (HApply "b" pn_cfgB true) (HApply "a" pn_cfgA true)
            in
          fst sAB = pn_cfgB /\ fst sBA = pn_cfgA /\ veq_assoc s tr (fst sAB) (fst sBA) = false).
Proof. exact fresh_commute_needs_prefix_disjoint. Qed.
Print Assumptions C02_commutation_needs_prefix_disjoint.

Theorem C02_commute_example :
  let sAB :=
           both ex_config "v1" (hx_obj, hx_mf) (HApply "e" cx_cfgA true)
             (HApply "f" cx_cfgB true) in
         let sBA :=
           both ex_config "v1" (hx_obj, hx_mf) (HApply "f" cx_cfgB true)
             (HApply "e" cx_cfgA true) in
         (veq_assoc (schema_of ex_config "v1") (tr_of ex_config "v1") (fst sAB) (fst sBA) = true /\
          same_records (snd sAB) (snd sBA)) /\
         fst sAB = cx_objAB /\
         fst sBA = cx_objBA /\
         veqb (fst sAB) (fst sBA) = false /\
         map (fun mr : string * mrec => (fst mr, ps_elems (mr_set (snd mr)))) (snd sAB) =
         ("a",
          (PEField "items" :: PEKey (("name", VStr "y") :: nil) :: nil)
          :: (PEField "items" :: PEKey (("name", VStr "y") :: nil) :: PEField "name" :: nil)
             :: nil)
         :: ("b",
             (PEField "items" :: PEKey (("name", VStr "z") :: nil) :: nil)
             :: (PEField "items" :: PEKey (("name", VStr "z") :: nil) :: PEField "name" :: nil)
                :: (PEField "items" :: PEKey (("name", VStr "z") :: nil) :: PEField "vv" :: nil)
                   :: nil)
            :: ("d",
                (PEField "items" :: PEKey (("name", VStr "y") :: nil) :: PEField "vv" :: nil)
                :: nil)
               :: ("e",
                   (PEField "aa" :: nil)
                   :: (PEField "items" :: PEKey (("name", VStr "q") :: nil) :: nil)
                      :: (PEField "items"
                          :: PEKey (("name", VStr "q") :: nil) :: PEField "name" :: nil)
                         :: (PEField "items"
                             :: PEKey (("name", VStr "q") :: nil) :: PEField "vv" :: nil) :: nil)
                  :: ("f",
                      (PEField "items" :: PEKey (("name", VStr "r") :: nil) :: nil)
                      :: (PEField "items"
                          :: PEKey (("name", VStr "r") :: nil) :: PEField "name" :: nil)
                         :: (PEField "items"
                             :: PEKey (("name", VStr "r") :: nil) :: PEField "vv" :: nil)
                            :: (PEField "mm" :: PEField "k" :: nil) :: nil) :: nil.
Proof. exact commute_example. Qed.
Print Assumptions C02_commute_example.

Theorem C02_keeping_example :
  let sAB :=
           both ex_config "v1" (hx_obj, hx_mf) (HApply "a" kx_cfgA true)
             (HApply "c" kx_cfgB true) in
         let sBA :=
           both ex_config "v1" (hx_obj, hx_mf) (HApply "c" kx_cfgB true)
             (HApply "a" kx_cfgA true) in
         (exists ra rc : mrec, mf_get "a" hx_mf = Some ra /\ mf_get "c" hx_mf = Some rc) /\
         (veq_assoc (schema_of ex_config "v1") (tr_of ex_config "v1") (fst sAB) (fst sBA) = true /\
          same_records (snd sAB) (snd sBA)) /\
         fst sAB =
         VMap
           (("aa", VInt 3)
            :: ("items",
                VList
                  (VMap (("name", VStr "y") :: ("vv", VInt 7) :: nil)
                   :: VMap (("name", VStr "z") :: ("vv", VInt 3) :: nil) :: nil))
               :: ("mm", VMap (("j", VInt 1) :: ("k", VInt 7) :: nil)) :: nil).
Proof. exact keeping_example. Qed.
Print Assumptions C02_keeping_example.


(* ---- commutation when managers DO abandon fields (Proofs/Commute2*.v): proved when every
   abandoned member of either manager's previous record is "shallow" -- a leaf of the live
   object all of whose proper ancestors are nodes of the manager's new configuration (fields
   directly beneath the root, a struct, or a member / entry the manager keeps applying): no
   container is emptied, so no null leftovers.  This subsumes the fresh and the keeping case.
   Necessary: refuted when a manager abandons a whole list member that the other applies
   (C02_commutation_needs_shallow_abandonment).  For deep abandonment, prefix-disjointness of
   the previous records from the other configuration is NOT enough
   (C02_commutation_H1_not_enough, on a state satisfying the invariant in which no record
   covers a member of the list). ---- *)
From Coq Require Import List ZArith String Bool Arith Lia.
From SMD Require Import Model.Value Model.Order Model.PathElem Model.PathSet Model.Schema Model.Walk
  Model.Validate Model.FieldSet Model.Remove Model.Merge Model.Compare Model.Matcher Model.Reconcile
  Model.Updater
  Spec.PathsAsSets Spec.RefValid Spec.Resolve Spec.Agree Spec.RefDiff Spec.Examples
  Proofs.OrderLaws Proofs.PathSetLaws Proofs.SchemaOk Proofs.FieldSetBase Proofs.FieldSetPaths
  Proofs.FieldSetWf Proofs.FieldSetLaws Proofs.RemoveAbsent Proofs.RemoveWf Proofs.ResolveLaws
  Proofs.UpdaterLaws Proofs.UpdaterLaws2 Proofs.MergeLaws Proofs.MergeAgree
  Proofs.RemoveFrame Proofs.EnLaws Proofs.NodeSet Proofs.KeyFields Proofs.VeqbResolve
  Proofs.SetCheckers Proofs.ApplyEffect Proofs.RefDiffBoth Proofs.RefDiffLaws Proofs.RefDiffPresent
  Proofs.ApplyInv Proofs.History Proofs.Reapply.
From SMD Require Import Proofs.CompareLaws Proofs.ReconcileTotal Proofs.ConflictsApply Proofs.ApplyPruneBase
  Proofs.RecordsHistory Proofs.TreeFacts
  Proofs.FieldSetShape Proofs.SameLeaves Proofs.CommuteLeaves Proofs.CommuteMod Proofs.CommuteSame
  Proofs.Commute Proofs.Commute2Leaves Proofs.Commute2Step.
From SMD Require Proofs.MergeRest Proofs.MergeBase Proofs.ReconcileBase Proofs.MergeRestBase Proofs.RefDiffBase
  Proofs.RefDiffChar Proofs.ExtractBase Proofs.OthersKeep.
From SMD Require Import Proofs.Commute2.
Theorem C02_shallow_abandoning_applies_commute :
  forall (c : config) (R : typeref -> Prop) (ver : string) (live : value) 
           (mf : managed) (a b : string) (cfgA cfgB : value) (fsA fsB : pset),
         setting_ok c R ver ->
         state_ok c ver live mf ->
         dup_free (schema_of c ver) (tr_of c ver) live = true ->
         hollow_free live ->
         a <> b ->
         shallow c ver cfgA live mf a ->
         shallow c ver cfgB live mf b ->
         op_ok c ver (HApply a cfgA true) ->
         op_ok c ver (HApply b cfgB true) ->
         to_field_set (schema_of c ver) (tr_of c ver) cfgA = Some fsA ->
         to_field_set (schema_of c ver) (tr_of c ver) cfgB = Some fsB ->
         prefix_disjoint fsA fsB ->
         let sAB := both c ver (live, mf) (HApply a cfgA true) (HApply b cfgB true) in
         let sBA := both c ver (live, mf) (HApply b cfgB true) (HApply a cfgA true) in
         veq_assoc (schema_of c ver) (tr_of c ver) (fst sAB) (fst sBA) = true /\
         same_records (snd sAB) (snd sBA).
Proof. exact shallow_abandoning_applies_commute. Qed.
Print Assumptions C02_shallow_abandoning_applies_commute.

Theorem C02_commutation_needs_shallow_abandonment :
  setting_ok ex_config FieldSetLaws.ex_R "v1" /\
         state_ok ex_config "v1" hx_obj hx_mf /\
         dup_free (schema_of ex_config "v1") (tr_of ex_config "v1") hx_obj = true /\
         hollow_free hx_obj /\
         "a" <> "e" /\
         ~ shallow ex_config "v1" l4_cfgA hx_obj hx_mf "a" /\
         shallow ex_config "v1" l4_cfgB hx_obj hx_mf "e" /\
         op_ok ex_config "v1" (HApply "a" l4_cfgA true) /\
         op_ok ex_config "v1" (HApply "e" l4_cfgB true) /\
         to_field_set (schema_of ex_config "v1") (tr_of ex_config "v1") l4_cfgA = Some l2_fsA /\
         to_field_set (schema_of ex_config "v1") (tr_of ex_config "v1") l4_cfgB = Some l4_fsB /\
         prefix_disjoint l2_fsA l4_fsB /\
         (let sAB :=
            both ex_config "v1" (hx_obj, hx_mf) (HApply "a" l4_cfgA true)
              (HApply "e" l4_cfgB true) in
          let sBA :=
            both ex_config "v1" (hx_obj, hx_mf) (HApply "e" l4_cfgB true)
              (HApply "a" l4_cfgA true) in
          veq_assoc (schema_of ex_config "v1") (tr_of ex_config "v1") (fst sAB) (fst sBA) = false /\
          ~ same_records (snd sAB) (snd sBA)).
Proof. exact shallow_needed. Qed.
Print Assumptions C02_commutation_needs_shallow_abandonment.

Theorem C02_commutation_H1_not_enough :
  setting_ok ex_config FieldSetLaws.ex_R "v1" /\
         state_ok ex_config "v1" u_obj u_mf /\
         dup_free (schema_of ex_config "v1") (tr_of ex_config "v1") u_obj = true /\
         hollow_free u_obj /\
         "a" <> "b" /\
         op_ok ex_config "v1" (HApply "a" l2_cfgA true) /\
         op_ok ex_config "v1" (HApply "b" l2_cfgB true) /\
         to_field_set (schema_of ex_config "v1") (tr_of ex_config "v1") l2_cfgA = Some l2_fsA /\
         to_field_set (schema_of ex_config "v1") (tr_of ex_config "v1") l2_cfgB = Some l2_fsB /\
         prefix_disjoint l2_fsA l2_fsB /\
         prefix_disjoint u_setA l2_fsB /\
         prefix_disjoint u_setB l2_fsA /\
         (let sAB :=
            both ex_config "v1" (u_obj, u_mf) (HApply "a" l2_cfgA true) (HApply "b" l2_cfgB true)
            in
          let sBA :=
            both ex_config "v1" (u_obj, u_mf) (HApply "b" l2_cfgB true) (HApply "a" l2_cfgA true)
            in
          fst sAB = VMap (("aa", VInt 1) :: ("mm", VMap (("k", VInt 1) :: nil)) :: nil) /\
          fst sBA =
          VMap
            (("aa", VInt 1)
             :: ("items", VList (VMap (("name", VStr "y") :: nil) :: nil))
                :: ("mm", VMap (("k", VInt 1) :: nil)) :: nil) /\
          present (schema_of ex_config "v1") (tr_of ex_config "v1") (fst sAB)
            (PEField "items" :: PEKey (("name", VStr "y") :: nil) :: PEField "name" :: nil) =
          false /\
          resolve_path (schema_of ex_config "v1") (tr_of ex_config "v1") 
            (fst sBA)
            (PEField "items" :: PEKey (("name", VStr "y") :: nil) :: PEField "name" :: nil) =
          Some (RNode ex_str (VStr "y"))).
Proof. exact abandoning_commute_H1_not_enough. Qed.
Print Assumptions C02_commutation_H1_not_enough.

Theorem C02_abandoning_example :
  let sAB :=
           both ex_config "v1" (hx_obj, hx_mf) (HApply "a" ax_cfgA true)
             (HApply "c" ax_cfgB true) in
         let sBA :=
           both ex_config "v1" (hx_obj, hx_mf) (HApply "c" ax_cfgB true)
             (HApply "a" ax_cfgA true) in
         (~ keeps_all ex_config "v1" ax_cfgA hx_mf "a" /\
          ~ keeps_all ex_config "v1" ax_cfgB hx_mf "c") /\
         (veq_assoc (schema_of ex_config "v1") (tr_of ex_config "v1") (fst sAB) (fst sBA) = true /\
          same_records (snd sAB) (snd sBA)) /\
         fst sAB = ax_obj /\
         fst sBA = ax_obj /\
         map (fun mr : string * mrec => (fst mr, ps_elems (mr_set (snd mr)))) (snd sAB) =
         ("a",
          (PEField "items" :: PEKey (("name", VStr "y") :: nil) :: nil)
          :: (PEField "items" :: PEKey (("name", VStr "y") :: nil) :: PEField "name" :: nil)
             :: nil)
         :: ("b",
             (PEField "items" :: PEKey (("name", VStr "z") :: nil) :: nil)
             :: (PEField "items" :: PEKey (("name", VStr "z") :: nil) :: PEField "name" :: nil)
                :: (PEField "items" :: PEKey (("name", VStr "z") :: nil) :: PEField "vv" :: nil)
                   :: nil)
            :: ("c", (PEField "mm" :: PEField "j" :: nil) :: nil)
               :: ("d",
                   (PEField "items" :: PEKey (("name", VStr "y") :: nil) :: PEField "vv" :: nil)
                   :: nil) :: nil /\
         map (fun mr : string * mrec => (fst mr, ps_elems (mr_set (snd mr)))) (snd sBA) =
         map (fun mr : string * mrec => (fst mr, ps_elems (mr_set (snd mr)))) (snd sAB).
Proof. exact abandoning_example. Qed.
Print Assumptions C02_abandoning_example.

