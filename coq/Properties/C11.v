(* C11 — Comparison is an exact structural diff.  Statements only. *)
From Coq Require Import List ZArith String Bool.
From SMD Require Import Model.Value Model.Order Model.PathElem Model.PathSet Model.Schema
  Model.Compare Spec.Examples.
Import ListNotations.
Open Scope string_scope.

(* "all three sets are empty exactly when the objects are equal" is FALSE of the faithful
   model (and of the code: finding F10) when the two roots are themselves leaves: the
   difference sits at the empty path, which a field set cannot hold. *)
Theorem C11_same_iff_equal_root_refuted :
  exists s tr l r c, compare s tr l r = Some c /\ c3_is_same c = true /\ veqb l r = false.
Proof.
  exists ex_schema, ex_num, (VInt 1), (VInt 2).
  eexists. split; [ vm_compute; reflexivity | split; reflexivity ].
Qed.
Print Assumptions C11_same_iff_equal_root_refuted.
