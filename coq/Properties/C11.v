(* C11 — Comparison is an exact structural diff.  Statements only; proofs in
   Proofs/Compare{Base,Wf,Self,Swap,Total,Laws}.v.

   [compare] (Model/Compare.v) is the transliteration of the comparing walker.  The
   hypotheses: [schema_ok s R] -- R is a set of type references closed under descent
   whose declared defaults are well formed (the references reachable from a root);
   [family_refs s R] -- every list reached is associative or atomic (the generated
   family).  The refinement to the reference diff (Spec/RefDiff.v) is not proved yet: it
   is decided on the implementation's outcomes by the extracted checker. *)
From Coq Require Import List ZArith String Bool.
From SMD Require Import Model.Value Model.Order Model.PathElem Model.PathSet Model.Schema
  Model.Compare Spec.RefValid Spec.Examples Proofs.OrderLaws Proofs.PathSetLaws Proofs.SchemaOk
  Proofs.CompareLaws.
Import ListNotations.
Open Scope string_scope.

(* "all three sets are empty exactly when the objects are equal" is FALSE of the faithful
   model (and of the code: finding F10) when the two roots are themselves leaves: the
   difference sits at the empty path, which a field set cannot hold. *)
Theorem C11_same_iff_equal_root_refuted :
  exists s tr l r c, compare s tr l r = Some c /\ c3_is_same c = true /\ veqb l r = false.
Proof.
  exists ex_schema, ex_num, (VInt 1), (VInt 2).
  eexists. split; [ vm_compute; reflexivity | split; reflexivity ].
Qed.
Print Assumptions C11_same_iff_equal_root_refuted.

(* comparison never fails on valid operands (duplicates allowed) *)
Theorem C11_total_on_valid_operands : forall s R tr l r,
  schema_ok s R -> family_refs s R -> R tr -> wf_value l = true -> wf_value r = true ->
  conforms s tr true l = true -> conforms s tr true r = true ->
  exists c, compare s tr l r = Some c.
Proof. exact compare_total. Qed.
Print Assumptions C11_total_on_valid_operands.

(* swapping the operands swaps added and removed and keeps modified *)
Theorem C11_swap : forall s R tr l r c,
  schema_ok s R -> R tr -> wf_value l = true -> wf_value r = true ->
  compare s tr l r = Some c ->
  exists c', compare s tr r l = Some c' /\
    ps_equals (removed c') (added c) = true /\
    ps_equals (added c') (removed c) = true /\
    ps_equals (modified c') (modified c) = true.
Proof. exact compare_swap. Qed.
Print Assumptions C11_swap.

(* an object compared with itself: all three sets are empty *)
Theorem C11_equal_objects_compare_same : forall s R tr v c,
  schema_ok s R -> R tr -> wf_value v = true -> compare s tr v v = Some c -> c3_is_same c = true.
Proof. exact compare_self. Qed.
Print Assumptions C11_equal_objects_compare_same.

(* the three sets are well-formed field sets (so that C15 applies to them) *)
Theorem C11_results_are_wf_sets : forall s R tr l r c,
  schema_ok s R -> R tr -> wf_value l = true -> wf_value r = true ->
  compare s tr l r = Some c ->
  ps_ok (removed c) = true /\ ps_ok (modified c) = true /\ ps_ok (added c) = true.
Proof. exact compare_sets_ok. Qed.
Print Assumptions C11_results_are_wf_sets.

(* without the family hypothesis totality is false: a "separable" list validates but
   cannot be compared *)
Theorem C11_total_needs_family : ~ (forall s R tr l r,
  schema_ok s R -> R tr -> wf_value l = true -> wf_value r = true ->
  conforms s tr true l = true -> conforms s tr true r = true -> exists c, compare s tr l r = Some c).
Proof. exact compare_total_literal_refuted. Qed.
Print Assumptions C11_total_needs_family.

(* non-vacuity *)
Theorem C11_hypotheses_satisfiable : schema_ok ex_schema ex_R /\ family_refs ex_schema ex_R /\ ex_R ex_rt.
Proof. exact (conj ex_schema_ok (conj ex_family_refs ex_R_root)). Qed.
Print Assumptions C11_hypotheses_satisfiable.

(* ---- refinement to the reference diff (proofs in Proofs/RefDiff{Base,Walk,OneSided,Both,
   Laws}.v): for every pair of valid objects (duplicates allowed) the three sets hold
   exactly the paths of the independent reference diff (Spec/RefDiff.v), up to Path.Equals.
   [lists_pure]: an atom that has a granular list has no other member -- true of the
   generated family (Kubernetes deduced types have atomic lists); without it the statement
   is false (second theorem: a granular map against a granular list under one type). ---- *)
From SMD Require Import Model.Merge Spec.PathsAsSets Spec.Resolve Spec.RefDiff Proofs.RefDiffBoth Proofs.RefDiffLaws.
Theorem C11_compare_is_the_reference_diff :
  forall (s : schema) (R : typeref -> Prop) (tr : typeref) (l r : value) (c : comparison3),
         schema_ok s R ->
         family_refs s R ->
         lists_pure s R ->
         R tr ->
         wf_value l = true ->
         wf_value r = true ->
         conforms s tr true l = true ->
         conforms s tr true r = true ->
         compare s tr l r = Some c ->
         forall p : path,
         wf_path p = true ->
         p <> [] ->
         ps_has p (removed c) = pmem p (rd_removed (ref_diff s tr l r)) /\
         ps_has p (modified c) = pmem p (rd_modified (ref_diff s tr l r)) /\
         ps_has p (added c) = pmem p (rd_added (ref_diff s tr l r)).
Proof. exact compare_refines_ref_diff_restricted. Qed.
Print Assumptions C11_compare_is_the_reference_diff.

Theorem C11_reference_diff_needs_pure_lists :
  ~ refines_statement.
Proof. exact compare_refines_ref_diff_refuted. Qed.
Print Assumptions C11_reference_diff_needs_pure_lists.

Theorem C11_lists_pure_satisfiable :
  lists_pure Examples.ex_schema CompareLaws.ex_R.
Proof. exact ex_lists_pure. Qed.
Print Assumptions C11_lists_pure_satisfiable.


(* ---- the remaining clauses (Proofs/CompareRest*.v), for valid duplicate-free operands:
   the three reported sets are pairwise disjoint; the comparison reports "same" exactly when
   the operands are equal up to the order of set and keyed-list members (veq_assoc) -- the
   "if" half needs scalar key fields: with a key field that is itself a set, two members
   whose keys differ only in member order are equal up to order and yet reported as removed
   and added (refutation); comparing nothing with an object reports every node of the object
   as added and nothing else. ---- *)
From Coq Require Import List ZArith String Bool Arith Lia.
From SMD Require Import Model.Value Model.Order Model.PathElem Model.PathSet Model.Schema Model.Walk
  Model.Validate Model.Merge Model.FieldSet Model.Compare
  Spec.PathsAsSets Spec.RefValid Spec.Resolve Spec.Agree Spec.RefDiff Spec.Examples
  Proofs.OrderLaws Proofs.PathSetLaws Proofs.ValidateLaws Proofs.SchemaOk Proofs.MergeBase
  Proofs.FieldSetPaths Proofs.ResolveLaws Proofs.CompareLaws
  Proofs.RefDiffBoth Proofs.RefDiffLaws Proofs.RefDiffPresent Proofs.RefDiffChar
  Proofs.RemoveFrame Proofs.KeyFields Proofs.SameLeaves
  Proofs.CompareRestMod Proofs.CompareRestCanon.
From SMD Require Proofs.UpdaterLaws Proofs.NodeSet Proofs.ReconcileBase Proofs.FieldSetBase.
From SMD Require Import Proofs.CompareRest.
Theorem C11_three_sets_disjoint :
  forall (s : schema) (R : typeref -> Prop) (tr : typeref) (l r : value) 
           (c : comparison3) (p : path),
         schema_ok s R ->
         family_refs s R ->
         lists_pure s R ->
         R tr ->
         wf_value l = true ->
         wf_value r = true ->
         conforms s tr false l = true ->
         conforms s tr false r = true ->
         compare s tr l r = Some c ->
         wf_path p = true ->
         p <> nil ->
         (ps_has p (removed c) = true ->
          ps_has p (modified c) = false /\ ps_has p (added c) = false) /\
         (ps_has p (modified c) = true -> ps_has p (added c) = false).
Proof. exact compare_disjoint. Qed.
Print Assumptions C11_three_sets_disjoint.

Theorem C11_same_iff_equal_up_to_member_order :
  forall (s : schema) (R : typeref -> Prop) (tr : typeref) (l r : value) (c : comparison3),
         schema_ok s R ->
         family_refs s R ->
         lists_pure s R ->
         keys_scalar s R ->
         R tr ->
         wf_value l = true ->
         wf_value r = true ->
         conforms s tr false l = true ->
         conforms s tr false r = true ->
         match kind_of s tr l with
         | KMap _ _ | KList _ _ =>
             match kind_of s tr r with
             | KMap _ _ | KList _ _ => True
             | _ => False
             end
         | _ => False
         end -> compare s tr l r = Some c -> c3_is_same c = true <-> veq_assoc s tr l r = true.
Proof. exact compare_same_iff_equal. Qed.
Print Assumptions C11_same_iff_equal_up_to_member_order.

Theorem C11_same_implies_equal :
  forall (s : schema) (R : typeref -> Prop),
         schema_ok s R ->
         family_refs s R ->
         lists_pure s R ->
         forall (tr : typeref) (l r : value) (c : comparison3),
         R tr ->
         wf_value l = true ->
         wf_value r = true ->
         conforms s tr false l = true ->
         conforms s tr false r = true ->
         granular s tr l ->
         granular s tr r ->
         compare s tr l r = Some c -> c3_is_same c = true -> veq_assoc s tr l r = true.
Proof. exact compare_same_implies_equal. Qed.
Print Assumptions C11_same_implies_equal.

Theorem C11_same_iff_equal_needs_scalar_keys :
  ~
         (forall (s : schema) (R : typeref -> Prop) (tr : typeref) (l r : value)
            (c : comparison3),
          schema_ok s R ->
          family_refs s R ->
          lists_pure s R ->
          R tr ->
          wf_value l = true ->
          wf_value r = true ->
          conforms s tr false l = true ->
          conforms s tr false r = true ->
          match kind_of s tr l with
          | KMap _ _ | KList _ _ =>
              match kind_of s tr r with
              | KMap _ _ | KList _ _ => True
              | _ => False
              end
          | _ => False
          end -> compare s tr l r = Some c -> c3_is_same c = true <-> veq_assoc s tr l r = true).
Proof. exact compare_same_iff_equal_literal_refuted. Qed.
Print Assumptions C11_same_iff_equal_needs_scalar_keys.

Theorem C11_from_nothing_everything_is_added :
  forall (s : schema) (R : typeref -> Prop) (tr : typeref) (x : value) 
           (c : comparison3) (p : path),
         schema_ok s R ->
         family_refs s R ->
         lists_pure s R ->
         R tr ->
         wf_value x = true ->
         conforms s tr true x = true ->
         compare s tr VNull x = Some c ->
         wf_path p = true ->
         p <> nil ->
         ps_has p (removed c) = false /\
         ps_has p (modified c) = false /\ (ps_has p (added c) = true <-> present s tr x p = true).
Proof. exact compare_from_nothing. Qed.
Print Assumptions C11_from_nothing_everything_is_added.

Theorem C11_rest_hypotheses_satisfiable :
  wf_value nv_l = true /\
         wf_value nv_r = true /\
         wf_value nv_r' = true /\
         conforms ex_schema ex_rt false nv_l = true /\
         conforms ex_schema ex_rt false nv_r = true /\
         conforms ex_schema ex_rt false nv_r' = true /\
         match kind_of ex_schema ex_rt nv_l with
         | KMap _ _ =>
             match kind_of ex_schema ex_rt nv_r with
             | KMap _ _ =>
                 match kind_of ex_schema ex_rt nv_r' with
                 | KMap _ _ => True
                 | _ => False
                 end
             | _ => False
             end
         | _ => False
         end.
Proof. exact nv_hyps. Qed.
Print Assumptions C11_rest_hypotheses_satisfiable.

Theorem C11_rest_example_differs :
  show (compare ex_schema ex_rt nv_l nv_r) =
         Some
           (false, nil,
            (PEField "items" :: PEKey (("name", VStr "b") :: nil) :: PEField "vv" :: nil) :: nil,
            nil).
Proof. exact nv_compare. Qed.
Print Assumptions C11_rest_example_differs.

Theorem C11_rest_example_reordered :
  veq_assoc ex_schema ex_rt nv_l nv_r' = true /\ veqb nv_l nv_r' = false.
Proof. exact nv_equal'. Qed.
Print Assumptions C11_rest_example_reordered.

Theorem C11_rest_example_from_nothing :
  show (compare ex_schema ex_rt VNull nv_r) =
         Some
           (false, nil, nil,
            (PEField "aa" :: nil)
            :: (PEField "items" :: nil)
               :: (PEField "items" :: PEKey (("name", VStr "a") :: nil) :: nil)
                  :: (PEField "items" :: PEKey (("name", VStr "b") :: nil) :: nil)
                     :: (PEField "items"
                         :: PEKey (("name", VStr "a") :: nil) :: PEField "name" :: nil)
                        :: (PEField "items"
                            :: PEKey (("name", VStr "a") :: nil) :: PEField "vv" :: nil)
                           :: (PEField "items"
                               :: PEKey (("name", VStr "b") :: nil) :: PEField "name" :: nil)
                              :: (PEField "items"
                                  :: PEKey (("name", VStr "b") :: nil) :: PEField "vv" :: nil)
                                 :: nil) /\
         map fst (nodes ex_schema ex_rt nv_r) =
         (PEField "aa" :: nil)
         :: (PEField "items" :: nil)
            :: (PEField "items" :: PEKey (("name", VStr "b") :: nil) :: nil)
               :: (PEField "items" :: PEKey (("name", VStr "b") :: nil) :: PEField "name" :: nil)
                  :: (PEField "items" :: PEKey (("name", VStr "b") :: nil) :: PEField "vv" :: nil)
                     :: (PEField "items" :: PEKey (("name", VStr "a") :: nil) :: nil)
                        :: (PEField "items"
                            :: PEKey (("name", VStr "a") :: nil) :: PEField "name" :: nil)
                           :: (PEField "items"
                               :: PEKey (("name", VStr "a") :: nil) :: PEField "vv" :: nil)
                              :: nil.
Proof. exact nv_from_nothing. Qed.
Print Assumptions C11_rest_example_from_nothing.

