(* C01 — An applied configuration takes effect.  Statements only.
   The general theorem (for every reachable state, schema of the family and plain
   configuration) is not proved yet; it needs the merge and removal frame lemmas that
   are under construction (Proofs/MergeLaws.v, Proofs/FieldSetLaws.v).  What is checked
   here is the scenario of DESIGN.md 4.C01, evaluated inside the kernel: it exercises
   merge, prune, add-back and the dangling-items stage together.  The property itself
   is decided on the implementation's outcomes by the extracted checker [agrees]. *)
From Coq Require Import List ZArith String Bool.
From SMD Require Import Model.Value Model.Order Model.PathElem Model.PathSet Model.Schema
  Model.Updater Spec.Resolve Spec.Agree Spec.Examples.
Import ListNotations.
Open Scope string_scope.
Open Scope list_scope.

Definition c01_run (ops : list (bool * string * value * bool)) : option (value * managed) :=
  fold_left
    (fun (st : option (value * managed)) (op : bool * string * value * bool) =>
       match st with
       | None => None
       | Some (live, mf) =>
           let '(isApply, mgr, v, force) := op in
           if isApply then
             match apply_op ex_config ("v1", live) ("v1", v) "v1" mf mgr force with
             | UOk (Some o, mf') => Some (snd o, mf')
             | UOk (None, mf') => Some (live, mf')
             | UErr _ => None
             end
           else
             match update_op ex_config ("v1", live) ("v1", v) "v1" mf mgr with
             | UOk (o, mf') => Some (snd o, mf')
             | UErr _ => None
             end
       end) ops (Some (VNull, [])).

(* u updates mm.k; a takes it by force, then abandons it; a third apply by a of a
   configuration that sets mm.k again: the result agrees with the configuration *)
Theorem C01_scenario :
  match c01_run [ (false, "u", VMap [("mm", VMap [("k", VInt 1)])], false);
                  (true, "a", VMap [("mm", VMap [("k", VInt 2)])], true);
                  (true, "a", VMap [("aa", VInt 7)], false);
                  (true, "a", VMap [("mm", VMap [("k", VInt 3)]); ("items", VList [VMap [("name", VStr "x"); ("vv", VInt 1)]])], false) ] with
  | Some (live, mf) =>
      agrees ex_schema ex_rt (VMap [("mm", VMap [("k", VInt 3)]); ("items", VList [VMap [("name", VStr "x"); ("vv", VInt 1)]])]) live = true
      /\ List.length mf = 2
  | None => False
  end.
Proof. vm_compute. split; reflexivity. Qed.
Print Assumptions C01_scenario.
