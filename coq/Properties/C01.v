(* C01 — An applied configuration takes effect.  Statements only; proofs in
   Proofs/{RemoveFrame,EnLaws,NodeSet,KeyFields,VeqbResolve,SetCheckers,ApplyEffect}.v.

   GENERAL THEOREM (C01_apply_takes_effect): for every state, schema of the family and
   plain configuration, a successful apply returns an object that agrees with the
   configuration ([agrees], Spec/Agree.v: every node of the configuration is present and
   every leaf carries the configuration's value) -- whatever the live object contained and
   whatever the other managers own, forced or not.  Setting: one API version, identity
   converter, no ignore configuration.  Side conditions, each an invariant of the states
   of a real history (and each executable: Proofs/SetCheckers.v):
     keys_plain        key fields of keyed lists are scalars without defaults;
     records_current   no record needs reconciling (unchanged schema);
     applier_record_ok the applier's previous record is keys_closed (owning anything of a
                       key field of a member means owning the member) and owns nothing
                       beneath a member of atomic type;
     owns_live_keys    another manager that owns a keyed member owns its key fields;
     granular          the configuration's root is a map or a list -- NECESSARY: for an
                       atomic root the statement is false (C01_needs_a_granular_root).
   The proof describes exactly the three sets that the prune stage removes (first
   removal, add-back passes, dangling items) and shows that none of them touches a path
   of the configuration (frame lemma for removal).  Not covered by the theorem: several
   API versions, ignore configurations, keys with defaults -- decided there by the
   extracted checker [agrees] on the implementation's outcomes, as everywhere.
   The scenario theorem of the first version is kept below. *)
From Coq Require Import List ZArith String Bool.
From SMD Require Import Model.Value Model.Order Model.PathElem Model.PathSet Model.Schema
  Model.Updater Spec.Resolve Spec.Agree Spec.Examples.
Import ListNotations.
Open Scope string_scope.
Open Scope list_scope.

Definition c01_run (ops : list (bool * string * value * bool)) : option (value * managed) :=
  fold_left
    (fun (st : option (value * managed)) (op : bool * string * value * bool) =>
       match st with
       | None => None
       | Some (live, mf) =>
           let '(isApply, mgr, v, force) := op in
           if isApply then
             match apply_op ex_config ("v1", live) ("v1", v) "v1" mf mgr force with
             | UOk (Some o, mf') => Some (snd o, mf')
             | UOk (None, mf') => Some (live, mf')
             | UErr _ => None
             end
           else
             match update_op ex_config ("v1", live) ("v1", v) "v1" mf mgr with
             | UOk (o, mf') => Some (snd o, mf')
             | UErr _ => None
             end
       end) ops (Some (VNull, [])).

(* u updates mm.k; a takes it by force, then abandons it; a third apply by a of a
   configuration that sets mm.k again: the result agrees with the configuration *)
Theorem C01_scenario :
  match c01_run [ (false, "u", VMap [("mm", VMap [("k", VInt 1)])], false);
                  (true, "a", VMap [("mm", VMap [("k", VInt 2)])], true);
                  (true, "a", VMap [("aa", VInt 7)], false);
                  (true, "a", VMap [("mm", VMap [("k", VInt 3)]); ("items", VList [VMap [("name", VStr "x"); ("vv", VInt 1)]])], false) ] with
  | Some (live, mf) =>
      agrees ex_schema ex_rt (VMap [("mm", VMap [("k", VInt 3)]); ("items", VList [VMap [("name", VStr "x"); ("vv", VInt 1)]])]) live = true
      /\ List.length mf = 2
  | None => False
  end.
Proof. vm_compute. split; reflexivity. Qed.
Print Assumptions C01_scenario.

(* ---- the general theorem ---- *)
From Coq Require Import Arith Lia.
From SMD Require Import Model.Walk Model.Validate Model.FieldSet Model.Remove Model.Merge Model.Compare
  Model.Matcher Model.Reconcile Spec.PathsAsSets Spec.RefValid
  Proofs.OrderLaws Proofs.PathSetLaws Proofs.SchemaOk Proofs.FieldSetBase Proofs.FieldSetPaths
  Proofs.FieldSetWf Proofs.FieldSetLaws Proofs.RemoveAbsent Proofs.RemoveWf Proofs.ResolveLaws
  Proofs.UpdaterLaws Proofs.UpdaterLaws2 Proofs.MergeLaws Proofs.MergeAgree
  Proofs.RemoveFrame Proofs.EnLaws Proofs.NodeSet Proofs.KeyFields Proofs.VeqbResolve
  Proofs.SetCheckers Proofs.ApplyEffect.
Theorem C01_apply_takes_effect :
  forall (c : config) (R : typeref -> Prop) (ver : string) (live cfg : string * value)
           (mf : managed) (mgr : string) (force : bool) (o : option tv) 
           (mf' : managed),
         no_ignore c ->
         conv_id c ->
         schema_ok (schema_of c ver) R ->
         family_refs (schema_of c ver) R ->
         R (tr_of c ver) ->
         keys_plain (schema_of c ver) R ->
         fst live = ver ->
         fst cfg = ver ->
         single_version ver mf ->
         mf_ok mf ->
         records_current c ver mf ->
         (forall r : mrec,
          mf_get mgr mf = Some r -> applier_record_ok (schema_of c ver) (tr_of c ver) (mr_set r)) ->
         (forall (m : string) (r : mrec),
          m <> mgr ->
          mf_get m mf = Some r ->
          owns_live_keys (schema_of c ver) (tr_of c ver) (snd live) (mr_set r)) ->
         wf_value (snd live) = true ->
         wf_value (snd cfg) = true ->
         conforms (schema_of c ver) (tr_of c ver) true (snd live) = true ->
         conforms (schema_of c ver) (tr_of c ver) false (snd cfg) = true ->
         plain (snd cfg) = true ->
         granular (schema_of c ver) (tr_of c ver) (snd cfg) ->
         apply_op c live cfg ver mf mgr force = UOk (o, mf') ->
         agrees (schema_of c ver) (tr_of c ver) (snd cfg)
           match o with
           | Some t => snd t
           | None => snd live
           end = true.
Proof. exact apply_takes_effect. Qed.
Print Assumptions C01_apply_takes_effect.

Theorem C01_example :
  apply_op ex_config ("v1", ate_live) ("v1", ate_cfg) "v1" ate_mf "a" false =
         UOk
           (Some ("v1", ate_result),
            [("a",
              {|
                mr_set :=
                  ps_of_paths
                    [[PEField "aa"]; [PEField "items"; PEKey [("name", VStr "z")]];
                     [PEField "items"; PEKey [("name", VStr "z")]; PEField "name"]];
                mr_ver := "v1";
                mr_applied := true
              |}); ("b", {| mr_set := ate_set_b; mr_ver := "v1"; mr_applied := false |})]) /\
         present ex_schema ex_rt ate_live [PEField "items"; PEKey [("name", VStr "x")]] = true /\
         present ex_schema ex_rt ate_result [PEField "items"; PEKey [("name", VStr "x")]] = false /\
         present ex_schema ex_rt ate_result
           [PEField "items"; PEKey [("name", VStr "y")]; PEField "vv"] = true /\
         agrees ex_schema ex_rt ate_cfg ate_result = true.
Proof. exact apply_takes_effect_example. Qed.
Print Assumptions C01_example.

Theorem C01_needs_a_granular_root :
  ~ apply_takes_effect_without_root.
Proof. exact apply_takes_effect_needs_root. Qed.
Print Assumptions C01_needs_a_granular_root.

(* ---- along every history: the side conditions are an invariant of the reachable states
   (Proofs/History.v: [state_ok], [op_ok], [run]; one version, identity converter, no ignore
   configuration; histories of apply / forced apply / update by any number of managers) ---- *)
From SMD Require Import Spec.RefDiff Proofs.RefDiffBoth Proofs.RefDiffLaws Proofs.RefDiffPresent Proofs.ApplyInv
  Proofs.RefDiffChar Proofs.ReconcileCurrent Proofs.KeySync Proofs.History.
Theorem C01_along_every_history :
  forall (c : config) (R : typeref -> Prop) (ver : string) (ops : list hop) 
           (mgr : string) (cfg : value) (force : bool) (o : option tv) 
           (mf' : managed),
         setting_ok c R ver ->
         Forall (op_ok c ver) ops ->
         op_ok c ver (HApply mgr cfg force) ->
         apply_op c (ver, fst (run c ver ops)) (ver, cfg) ver (snd (run c ver ops)) mgr force =
         UOk (o, mf') ->
         agrees (schema_of c ver) (tr_of c ver) cfg
           match o with
           | Some t => snd t
           | None => fst (run c ver ops)
           end = true.
Proof. exact apply_takes_effect_along_histories. Qed.
Print Assumptions C01_along_every_history.

Theorem C01_history_example :
  setting_ok ex_config FieldSetLaws.ex_R "v1" /\
         Forall (op_ok ex_config "v1") hx_ops /\
         run ex_config "v1" hx_ops = (hx_obj, hx_mf) /\ state_ok ex_config "v1" hx_obj hx_mf.
Proof. exact history_example. Qed.
Print Assumptions C01_history_example.

Theorem C01_history_example_apply :
  (exists (o : option tv) (mf' : managed),
            apply_op ex_config ("v1", hx_obj) ("v1", hx_cfg) "v1" hx_mf "b" true = UOk (o, mf')) /\
         (forall (o : option tv) (mf' : managed),
          apply_op ex_config ("v1", hx_obj) ("v1", hx_cfg) "v1" hx_mf "b" true = UOk (o, mf') ->
          agrees ex_schema ex_rt hx_cfg match o with
                                        | Some t => snd t
                                        | None => hx_obj
                                        end = true).
Proof. exact history_example_apply. Qed.
Print Assumptions C01_history_example_apply.


(* ---- the same along MULTI-VERSION histories under the identity converter (Proofs/MultiVersion.v,
   corollaries of the transparency theorem of C20): every operation of the history at its own
   version label (one schema behind every label, any visiting order of the versions), the
   last operation at an arbitrary label; updates inside the history submit neither empty
   lists nor duplicate members (the restriction of Proofs/Transparent.v). ---- *)
From Coq Require Import List ZArith String Bool Arith Lia Permutation.
From SMD Require Import Model.Value Model.Order Model.PathElem Model.PathSet Model.Schema Model.Walk
  Model.Validate Model.FieldSet Model.Remove Model.Merge Model.Compare Model.Matcher Model.Reconcile
  Model.Updater
  Spec.PathsAsSets Spec.RefValid Spec.Resolve Spec.Agree Spec.RefDiff Spec.Examples
  Proofs.OrderLaws Proofs.PathSetLaws Proofs.SchemaOk Proofs.FieldSetBase Proofs.FieldSetPaths
  Proofs.FieldSetWf Proofs.FieldSetLaws Proofs.RemoveAbsent Proofs.RemoveWf Proofs.ResolveLaws
  Proofs.UpdaterLaws Proofs.UpdaterLaws2 Proofs.MergeLaws Proofs.MergeAgree
  Proofs.RemoveFrame Proofs.EnLaws Proofs.NodeSet Proofs.KeyFields Proofs.VeqbResolve
  Proofs.SetCheckers Proofs.ApplyEffect Proofs.Visible Proofs.ApplyInv Proofs.History
  Proofs.TransparentPrune Proofs.TransparentCore Proofs.TransparentStep Proofs.Transparent
  Proofs.Reapply Proofs.ConflictsApply Proofs.NoOtherFailure Proofs.RecordsHistory
  Proofs.MultiVersionBase.
From SMD Require Proofs.ApplyPrune.
From SMD Require Import Proofs.MultiVersion.
Theorem C01_along_multi_version_histories :
  forall (c : config) (R : typeref -> Prop) (ver : string) (ops : list vhop)
           (v mgr : string) (cfg : value) (force : bool) (o : option tv) 
           (mf' : managed),
         setting_ok c R ver ->
         one_schema c ver ->
         order_perm c ->
         Forall (vop_ok c ver) ops ->
         op_ok c ver (HApply mgr cfg force) ->
         apply_op c (fst (vrun c ver ops)) (v, cfg) v (snd (vrun c ver ops)) mgr force =
         UOk (o, mf') ->
         agrees (schema_of c v) (tr_of c v) cfg
           match o with
           | Some t => snd t
           | None => snd (fst (vrun c ver ops))
           end = true.
Proof. exact mv_apply_takes_effect. Qed.
Print Assumptions C01_along_multi_version_histories.

