(* C08, failure of the converter at ANY call index.

   The invariant is the relation [sim x y := x = UErr EOther \/ x = y] between the result
   of a counter-threading function under [fail_at k c] and under [c], FOR THE SAME
   ARGUMENTS AND THE SAME COUNTER.  It is preserved by every stage because
     (1) [convert (fail_at k c) n] is [convert c n] when n <> k and [(CFail, S n)] when n = k;
     (2) every site of the model turns [CFail] into [UErr EOther];
     (3) every fold / sequencing propagates [UErr e] unchanged;
     (4) nothing but [cfg_convert] differs between [fail_at k c] and [c].
   No monotonicity of the counter is needed: while the two runs have not failed they are
   in literally the same state (same values, same counter). *)
From Coq Require Import List ZArith String Bool Arith Lia.
From SMD Require Import Model.Value Model.Order Model.PathSet Model.Reconcile Model.Updater.
Import ListNotations.

(* the same configuration, except that the converter's call number k fails *)
Definition fail_at (k : nat) (c : config) : config :=
  mkConfig (cfg_schema c)
           (fun n from to v => if Nat.eqb n k then CFail else cfg_convert c n from to v)
           (cfg_ignored_fields c) (cfg_ignore_filter c) (cfg_return_input_on_noop c)
           (cfg_version_order c).

(* ---- the simulation relation ---- *)

Definition sim {A : Type} (x y : ures A) : Prop := x = UErr EOther \/ x = y.

Lemma sim_refl : forall (A : Type) (x : ures A), sim x x.
Proof. intros A x. right. reflexivity. Qed.

Lemma sim_err : forall (A : Type) (y : ures A), sim (UErr EOther) y.
Proof. intros A y. left. reflexivity. Qed.

(* sequencing *)
Lemma sim_bind : forall (A B : Type) (x y : ures A) (f g : A -> ures B),
  sim x y ->
  (forall a, sim (f a) (g a)) ->
  sim (match x with UOk a => f a | UErr e => UErr e end)
      (match y with UOk a => g a | UErr e => UErr e end).
Proof.
  intros A B x y f g Hxy Hfg.
  destruct Hxy as [Hx|Hx]; rewrite Hx.
  - apply sim_err.
  - destruct y as [a|e]; [apply Hfg|apply sim_refl].
Qed.

(* folds whose step propagates errors *)
Lemma fold_sim : forall (S A : Type) (stepf step : ures S -> A -> ures S),
  (forall e a, stepf (UErr e) a = UErr e) ->
  (forall x a, sim (stepf x a) (step x a)) ->
  forall l x y, sim x y -> sim (fold_left stepf l x) (fold_left step l y).
Proof.
  intros S A stepf step Herr Hstep l.
  induction l as [|a t IH]; intros x y Hxy; simpl.
  - exact Hxy.
  - apply IH. destruct Hxy as [Hx|Hx]; rewrite Hx.
    + rewrite Herr. apply sim_err.
    + apply Hstep.
Qed.

(* ---- (1) the converter ---- *)

Lemma convert_fail_at : forall k c n o ver,
  convert (fail_at k c) n o ver = if Nat.eqb n k then (CFail, S n) else convert c n o ver.
Proof.
  intros k c n o ver. unfold convert, fail_at. simpl.
  destruct (Nat.eqb n k); reflexivity.
Qed.

(* ---- (4) what does not depend on the converter ---- *)

Lemma schema_of_fail_at : forall k c, schema_of (fail_at k c) = schema_of c.
Proof. reflexivity. Qed.
Lemma tr_of_fail_at : forall k c, tr_of (fail_at k c) = tr_of c.
Proof. reflexivity. Qed.
Lemma ignore_filter_for_fail_at : forall k c, ignore_filter_for (fail_at k c) = ignore_filter_for c.
Proof. reflexivity. Qed.
Lemma compare_tv_fail_at : forall k c, compare_tv (fail_at k c) = compare_tv c.
Proof. intros k c. unfold compare_tv. rewrite schema_of_fail_at, tr_of_fail_at. reflexivity. Qed.
Lemma to_fs_fail_at : forall k c, to_fs (fail_at k c) = to_fs c.
Proof. reflexivity. Qed.
Lemma en_fail_at : forall k c, en (fail_at k c) = en c.
Proof. reflexivity. Qed.
Lemma remove_tv_fail_at : forall k c, remove_tv (fail_at k c) = remove_tv c.
Proof. reflexivity. Qed.
Lemma version_order_fail_at : forall k c, cfg_version_order (fail_at k c) = cfg_version_order c.
Proof. reflexivity. Qed.
Lemma return_input_fail_at : forall k c,
  cfg_return_input_on_noop (fail_at k c) = cfg_return_input_on_noop c.
Proof. reflexivity. Qed.

(* ---- reconcile_managed ---- *)

Lemma reconcile_managed_sim : forall k c n live managers,
  sim (reconcile_managed (fail_at k c) n live managers) (reconcile_managed c n live managers).
Proof.
  intros k c n live managers. unfold reconcile_managed.
  apply fold_sim; [reflexivity| |apply sim_refl].
  intros x mr. destruct x as [[res m]|e]; [|apply sim_refl].
  rewrite convert_fail_at.
  destruct (Nat.eqb m k); [apply sim_err|apply sim_refl].
Qed.

(* ---- add-back ---- *)

Lemma add_back_for_version_sim : forall k c n merged pruned version s,
  sim (add_back_for_version (fail_at k c) n merged pruned version s)
      (add_back_for_version c n merged pruned version s).
Proof.
  intros k c n merged pruned version s. unfold add_back_for_version.
  rewrite convert_fail_at.
  destruct (Nat.eqb n k); [apply sim_err|].
  destruct (convert c n merged version) as [r1 n1].
  destruct r1 as [mv| |]; try apply sim_refl.
  rewrite convert_fail_at.
  destruct (Nat.eqb n1 k); [apply sim_err|apply sim_refl].
Qed.

Lemma add_back_round_sim : forall k c mav versions n merged pruned,
  sim (add_back_round (fail_at k c) mav versions n merged pruned)
      (add_back_round c mav versions n merged pruned).
Proof.
  intros k c mav versions n merged pruned. unfold add_back_round.
  apply fold_sim; [reflexivity| |apply sim_refl].
  intros x v. destruct x as [[[[m p] ch] m0]|e]; [|apply sim_refl].
  destruct (assoc_get v mav) as [s|]; [|apply sim_refl].
  apply sim_bind; [apply add_back_for_version_sim|].
  intros a. apply sim_refl.
Qed.

Lemma add_back_rounds_sim : forall k c mav versions fuel n merged pruned prev,
  sim (add_back_rounds fuel (fail_at k c) mav versions n merged pruned prev)
      (add_back_rounds fuel c mav versions n merged pruned prev).
Proof.
  intros k c mav versions fuel.
  induction fuel as [|fuel IH]; intros n merged pruned prev; [apply sim_refl|].
  simpl.
  apply sim_bind; [apply add_back_round_sim|].
  intros a. destruct a as [[[m p] ch] n'].
  match goal with
  | |- sim (if ?b then _ else _) _ => destruct b; [|apply sim_refl]
  end.
  match goal with
  | |- sim (if ?b then _ else _) _ => destruct b; [apply sim_refl|apply IH]
  end.
Qed.

Lemma add_back_owned_sim : forall k c n merged pruned prunedVersion mf,
  sim (add_back_owned (fail_at k c) n merged pruned prunedVersion mf)
      (add_back_owned c n merged pruned prunedVersion mf).
Proof.
  intros k c n merged pruned prunedVersion mf. unfold add_back_owned.
  rewrite version_order_fail_at. apply add_back_rounds_sim.
Qed.

Lemma add_back_dangling_sim : forall k c n merged pruned last,
  sim (add_back_dangling (fail_at k c) n merged pruned last)
      (add_back_dangling c n merged pruned last).
Proof.
  intros k c n merged pruned last. unfold add_back_dangling.
  rewrite convert_fail_at.
  destruct (Nat.eqb n k); [apply sim_err|apply sim_refl].
Qed.

(* ---- prune ---- *)

Lemma prune_sim : forall k c n merged mf applying last,
  sim (prune (fail_at k c) n merged mf applying last) (prune c n merged mf applying last).
Proof.
  intros k c n merged mf applying last. unfold prune.
  destruct last as [last|]; [|apply sim_refl].
  destruct (ps_empty (mr_set last)); [apply sim_refl|].
  rewrite convert_fail_at.
  destruct (Nat.eqb n k); [apply sim_err|].
  destruct (convert c n merged (mr_ver last)) as [r1 n1].
  destruct r1 as [mv| |]; try apply sim_refl.
  rewrite remove_tv_fail_at, en_fail_at.
  apply sim_bind; [apply add_back_owned_sim|].
  intros a. destruct a as [pruned1 n2].
  apply sim_bind; [apply add_back_dangling_sim|].
  intros a. destruct a as [pruned2 n3].
  rewrite convert_fail_at.
  destruct (Nat.eqb n3 k); [apply sim_err|apply sim_refl].
Qed.

(* ---- update_core ---- *)

Lemma update_core_sim : forall k c n old new version managers workflow force,
  sim (update_core (fail_at k c) n old new version managers workflow force)
      (update_core c n old new version managers workflow force).
Proof.
  intros k c n old new version managers workflow force. unfold update_core.
  rewrite compare_tv_fail_at.
  destruct (compare_tv c old new) as [cmp0|]; [|apply sim_refl].
  rewrite ignore_filter_for_fail_at.
  destruct (ignore_filter_for c version) as [f0|]; [|apply sim_refl].
  apply sim_bind; [|intros a; apply sim_refl].
  apply fold_sim; [reflexivity| |apply sim_refl].
  intros x mr. destruct x as [st|e]; [|apply sim_refl].
  destruct (String.eqb (fst mr) workflow); [apply sim_refl|].
  destruct (assoc_get (mr_ver (snd mr)) (us_versions st)) as [cmp|]; [apply sim_refl|].
  rewrite convert_fail_at.
  destruct (Nat.eqb (us_n st) k); [apply sim_err|].
  destruct (convert c (us_n st) old (mr_ver (snd mr))) as [r1 n1].
  destruct r1 as [vold| |]; try apply sim_refl.
  rewrite convert_fail_at.
  destruct (Nat.eqb n1 k); [apply sim_err|apply sim_refl].
Qed.

(* ---- the two theorems ---- *)

Theorem apply_fault_any_index : forall c k live cfg ver mf mgr force,
  apply_op (fail_at k c) live cfg ver mf mgr force = UErr EOther \/
  apply_op (fail_at k c) live cfg ver mf mgr force = apply_op c live cfg ver mf mgr force.
Proof.
  intros c k live cfg ver mf mgr force.
  change (sim (apply_op (fail_at k c) live cfg ver mf mgr force)
              (apply_op c live cfg ver mf mgr force)).
  unfold apply_op.
  apply sim_bind; [apply reconcile_managed_sim|].
  intros a. destruct a as [mf0 n0].
  rewrite schema_of_fail_at, tr_of_fail_at.
  destruct (Merge.merge (schema_of c (fst live)) (tr_of c (fst live)) (snd live) (snd cfg))
    as [[nv|]|]; [|apply sim_refl|apply sim_refl].
  rewrite to_fs_fail_at.
  destruct (to_fs c cfg) as [set0|]; [|apply sim_refl].
  rewrite ignore_filter_for_fail_at.
  destruct (ignore_filter_for c ver) as [f|]; [|apply sim_refl].
  apply sim_bind; [apply prune_sim|].
  intros a. destruct a as [pruned n1].
  apply sim_bind; [apply update_core_sim|].
  intros a. apply sim_refl.
Qed.

Theorem update_fault_any_index : forall c k live new ver mf mgr,
  update_op (fail_at k c) live new ver mf mgr = UErr EOther \/
  update_op (fail_at k c) live new ver mf mgr = update_op c live new ver mf mgr.
Proof.
  intros c k live new ver mf mgr.
  change (sim (update_op (fail_at k c) live new ver mf mgr) (update_op c live new ver mf mgr)).
  unfold update_op.
  apply sim_bind; [apply reconcile_managed_sim|].
  intros a. destruct a as [mf0 n0].
  apply sim_bind; [apply update_core_sim|].
  intros a. apply sim_refl.
Qed.

