(* Objects all of whose nodes are visible to the field-set walker.
   The walker (typed/tofieldset.go) records nothing for an empty list, so a node under which
   there are only empty lists is not a member of [node_set] (the set
   EnsureNamedFieldsAreMembers(ToFieldSet(v)) the updater's prune stage computes with).
   For an object without empty lists [NE] and without duplicate list members [DF]
     - [visible]: every node is a member of [node_set];
     - [remove_NE] / [remove_DF]: both conditions pass to the result of a nice removal. *)
From Coq Require Import List ZArith String Bool Arith Lia.
From SMD Require Import Model.Value Model.Order Model.PathElem Model.PathSet Model.Schema
  Model.Walk Model.FieldSet Model.Remove Spec.PathsAsSets Spec.RefValid Spec.Resolve Spec.Agree
  Proofs.OrderLaws Proofs.KeyLaws Proofs.PathSetLaws Proofs.ValidateLaws Proofs.SchemaOk
  Proofs.FieldSetMirrors Proofs.FieldSetBase Proofs.FieldSetShape Proofs.FieldSetPaths
  Proofs.FieldSetLaws Proofs.RemoveBase Proofs.ExtractBase Proofs.ExtractLaws Proofs.RemoveAbsent
  Proofs.RemoveWf Proofs.ResolveLaws Proofs.ReconcileBase Proofs.RemoveFrame Proofs.RemoveMono
  Proofs.EnLaws Proofs.NodeSet Proofs.KeyFields Proofs.RemoveExt.
Import ListNotations.
Open Scope bool_scope.

Local Arguments ps_has : simpl never.
Local Arguments ps_with_prefix : simpl never.
Local Arguments ps_empty : simpl never.

(* no empty list anywhere inside v *)
Fixpoint no_empty_list (v : value) : bool :=
  match v with
  | VList [] => false
  | VList l => forallb no_empty_list l
  | VMap m => forallb (fun kv => no_empty_list (snd kv)) m
  | _ => true
  end.

Section Visible.
  Variables (s : schema) (R : typeref -> Prop).
  Hypothesis Hok : schema_ok s R.
  Hypothesis Hfam : family_refs s R.

  (* no node is an empty list *)
  Definition NE (tr : typeref) (v : value) : Prop :=
    forall p tr' x, wf_path p = true -> resolve_path s tr v p = Some (RNode tr' x) -> x <> VList [].

  (* no path designates a group of duplicate list members *)
  Definition DF (tr : typeref) (v : value) : Prop :=
    forall p tr' xs, wf_path p = true -> resolve_path s tr v p <> Some (RDup tr' xs).

  Lemma nel_in_list : forall l x, no_empty_list (VList l) = true -> In x l -> no_empty_list x = true.
  Proof.
    intros l x H Hx. destruct l as [|y l]; [contradiction|].
    cbn [no_empty_list] in H. rewrite forallb_forall in H. apply H. exact Hx.
  Qed.

  Lemma nel_in_map : forall m k c, no_empty_list (VMap m) = true -> In (k, c) m -> no_empty_list c = true.
  Proof.
    intros m k c H Hx. cbn [no_empty_list] in H. rewrite forallb_forall in H. apply (H (k, c) Hx).
  Qed.

  Lemma nel_resolve : forall p v tr tr' x, R tr -> wf_value v = true -> wf_path p = true ->
    no_empty_list v = true -> resolve_path s tr v p = Some (RNode tr' x) -> no_empty_list x = true.
  Proof.
    induction p as [|e rest IH]; intros v tr tr' x Htr Hwf Hp Hnel Hres.
    - simpl in Hres. inversion Hres; subst. exact Hnel.
    - apply wf_path_cons in Hp. destruct Hp as [He Hrest].
      destruct (kind_of s tr v) as [|t m|t l|] eqn:Ek.
      + rewrite resolve_path_leaf in Hres by (rewrite Ek; exact I). discriminate.
      + destruct (kind_map_inv _ _ _ _ _ Ek) as (a & Hr & Ham & Hv & Hna & Hmne). subst v.
        destruct e as [k|fl|ev|i];
          try (rewrite (resolve_path_map_other _ _ _ _ _ _ _ Ek) in Hres by exact I; discriminate).
        rewrite (resolve_path_map _ _ _ _ _ _ _ Ek) in Hres.
        destruct (assoc_get k m) as [c|] eqn:Eg; [|discriminate].
        pose proof (assoc_get_In m k c Eg) as Hin.
        apply (IH c (field_type t k) tr' x); auto.
        * eapply (so_map s R Hok); eauto.
        * eapply wf_value_map_in; eauto.
        * eapply nel_in_map; eauto.
      + destruct (kind_list_inv _ _ _ _ _ Ek) as (a & Hr0 & Hal & Hv & _ & _). subst v.
        destruct (is_keyval e) eqn:Ekv;
          [|rewrite (resolve_path_list_other _ _ _ _ _ _ _ Ek Ekv) in Hres; discriminate].
        rewrite (resolve_path_list_occ s R Hok tr _ t l e rest Htr Hwf Ek He) in Hres.
        destruct (forallb (has_pe s t) l && is_keyval e); [|discriminate].
        destruct (occ s t e l) as [|x0 [|y more]] eqn:Eo; [discriminate| |destruct rest; discriminate].
        assert (Hxo : In x0 (occ s t e l)) by (rewrite Eo; left; reflexivity).
        apply occ_In in Hxo. destruct Hxo as [Hx _].
        apply (IH x0 (list_elem t) tr' x); auto.
        * eapply (so_list s R Hok); eauto.
        * eapply wf_value_list_in; eauto.
        * eapply nel_in_list; eauto.
      + rewrite resolve_path_leaf in Hres by (rewrite Ek; exact I). discriminate.
  Qed.

  Lemma NE_of_nel : forall v tr, R tr -> wf_value v = true -> no_empty_list v = true -> NE tr v.
  Proof.
    intros v tr Htr Hwf Hnel p tr' x Hp Hres ->.
    pose proof (nel_resolve p v tr tr' _ Htr Hwf Hp Hnel Hres) as H. discriminate.
  Qed.

  Lemma DF_of_conforms : forall v tr, R tr -> wf_value v = true -> conforms s tr false v = true ->
    DF tr v.
  Proof.
    intros v tr Htr Hwf Hc p tr' xs Hp. apply (conforms_no_dup s R Hok Hfam p v tr tr' xs Htr Hwf Hc Hp).
  Qed.

  Lemma NE_sub : forall q v tr tr' x, NE tr v -> wf_path q = true ->
    resolve_path s tr v q = Some (RNode tr' x) -> NE tr' x.
  Proof.
    intros q v tr tr' x HNE Hq Hres p tr2 y Hp Hr2.
    apply (HNE (q ++ p) tr2 y); [apply wf_path_app; auto|].
    rewrite resolve_path_app, Hres. exact Hr2.
  Qed.

  Lemma DF_sub : forall q v tr tr' x, DF tr v -> wf_path q = true ->
    resolve_path s tr v q = Some (RNode tr' x) -> DF tr' x.
  Proof.
    intros q v tr tr' x HDF Hq Hres p tr2 ys Hp Hr2.
    apply (HDF (q ++ p) tr2 ys); [apply wf_path_app; auto|].
    rewrite resolve_path_app, Hres. exact Hr2.
  Qed.

  (* beneath (or at) any node there is a leaf that the walker records *)
  Lemma descent : forall v tr, R tr -> wf_value v = true -> conforms s tr true v = true ->
    NE tr v -> DF tr v ->
    exists r tr' x, wf_path r = true /\ resolve_path s tr v r = Some (RNode tr' x) /\
      leafy s tr' x /\ x <> VList [].
  Proof.
    intros v. induction v as [|b|z|q0|str|l IHl|m IHm] using value_ind';
      intros tr Htr Hwf Hc HNE HDF;
      (match goal with |- context [resolve_path s tr ?vv _] =>
         destruct (kind_of s tr vv) as [|t m'|t l'|] eqn:Ek end;
       [exists [], tr; eexists; split; [reflexivity|]; split; [reflexivity|]; split;
          [unfold leafy; rewrite Ek; exact I|apply (HNE [] tr _ eq_refl eq_refl)]
       | | |
        exists [], tr; eexists; split; [reflexivity|]; split; [reflexivity|]; split;
          [unfold leafy; rewrite Ek; exact I|apply (HNE [] tr _ eq_refl eq_refl)]]);
      try (destruct (kind_map_inv _ _ _ _ _ Ek) as (_ & _ & _ & Hv & _); discriminate);
      try (destruct (kind_list_inv _ _ _ _ _ Ek) as (_ & _ & _ & Hv & _); discriminate).
    - (* list *)
      destruct (kind_list_inv _ _ _ _ _ Ek) as (a0 & _ & _ & Hv & _). inversion Hv; subst l'. clear Hv.
      destruct (conf_list_facts s R Hok Hfam tr true t l Htr Hc Ek)
        as (sc & ma & Hr & Hte & Hna & Hlne & Hhp & Hcs & _).
      assert (Hiw : items_wf s t l) by (eapply items_wf_R; eauto).
      destruct l as [|x0 l0]; [congruence|].
      assert (Hx : In x0 (x0 :: l0)) by (left; reflexivity).
      pose proof Hhp as Hpx. rewrite forallb_forall in Hpx. specialize (Hpx x0 Hx). unfold has_pe in Hpx.
      destruct (list_item_to_pe s t x0) as [ex|] eqn:Ex; [|discriminate]. clear Hpx.
      assert (Hwex : wf_pe ex = true) by (apply (Hiw x0 ex Hx Ex)).
      assert (Hkv : is_keyval ex = true) by (eapply lipe_keyval; eauto).
      assert (Hxo : In x0 (occ s t ex (x0 :: l0))).
      { apply In_occ; [exact Hx|]. unfold pe_matches. rewrite Ex. apply peeqb_refl. exact Hwex. }
      pose proof (resolve_path_list_occ s R Hok tr (VList (x0 :: l0)) t (x0 :: l0) ex) as Hocc.
      assert (Hw1 : wf_path [ex] = true) by (apply wf_path_cons; auto).
      destruct (occ s t ex (x0 :: l0)) as [|x1 [|y more]] eqn:Eo; [contradiction| |].
      + destruct Hxo as [->|[]].
        assert (Hstep : forall q, resolve_path s tr (VList (x0 :: l0)) (ex :: q) =
                                  resolve_path s (list_elem t) x0 q).
        { intros q. rewrite (Hocc q Htr Hwf Ek Hwex), Hhp, Hkv. reflexivity. }
        rewrite Forall_forall in IHl.
        destruct (IHl x0 Hx (list_elem t)) as (r & tr' & x & Hr' & Hres & Hl & Hne); auto.
        * eapply wf_value_list_in; eauto.
        * rewrite forallb_forall in Hcs. exact (Hcs x0 Hx).
        * intros p tr2 y Hp Hr2. apply (HNE (ex :: p) tr2 y); [apply wf_path_cons; auto|].
          rewrite Hstep. exact Hr2.
        * intros p tr2 ys Hp Hr2. apply (HDF (ex :: p) tr2 ys); [apply wf_path_cons; auto|].
          rewrite Hstep. exact Hr2.
        * exists (ex :: r), tr', x.
          split; [apply wf_path_cons; auto|]. split; [rewrite Hstep; exact Hres|]. split; assumption.
      + exfalso. apply (HDF [ex] (list_elem t) (x1 :: y :: more) Hw1).
        rewrite (Hocc [] Htr Hwf Ek Hwex), Hhp, Hkv. reflexivity.
    - (* map *)
      destruct (kind_map_inv _ _ _ _ _ Ek) as (a & Hr & Ham & Hv & Hna & Hmne).
      inversion Hv; subst m'. clear Hv.
      destruct m as [|[k c] m0]; [congruence|].
      assert (Hin : In (k, c) ((k, c) :: m0)) by (left; reflexivity).
      assert (Eg : assoc_get k ((k, c) :: m0) = Some c).
      { apply assoc_get_in_sorted; [|exact Hin]. apply andb_true_iff in Hwf. apply Hwf. }
      assert (Hstep : forall q, resolve_path s tr (VMap ((k, c) :: m0)) (PEField k :: q) =
                                resolve_path s (field_type t k) c q).
      { intros q. rewrite (resolve_path_map _ _ _ _ _ _ _ Ek), Eg. reflexivity. }
      rewrite Forall_forall in IHm.
      destruct (IHm (k, c) Hin (field_type t k)) as (r & tr' & x & Hr' & Hres & Hl & Hne); auto.
      + eapply (so_map s R Hok); eauto.
      + eapply wf_value_map_in; eauto.
      + pose proof Hc as Hc'. rewrite conforms_eq, Hr in Hc'.
        destruct a as [sc li ma]. simpl in Ham. subst ma. eapply cmap_each_in; eauto.
      + intros p tr2 y Hp Hr2. apply (HNE (PEField k :: p) tr2 y); [apply wf_path_cons; auto|].
        rewrite Hstep. exact Hr2.
      + intros p tr2 ys Hp Hr2. apply (HDF (PEField k :: p) tr2 ys); [apply wf_path_cons; auto|].
        rewrite Hstep. exact Hr2.
      + exists (PEField k :: r), tr', x.
        split; [apply wf_path_cons; auto|]. split; [rewrite Hstep; exact Hres|]. split; assumption.
  Qed.

  (* every node is a member of the node set *)
  Theorem visible : forall v tr q, R tr -> wf_value v = true -> conforms s tr true v = true ->
    NE tr v -> DF tr v -> wf_path q = true -> q <> [] -> present s tr v q = true ->
    ps_has q (node_set s tr v) = true.
  Proof.
    intros v tr q Htr Hwf Hc HNE HDF Hq Hne Hpr. unfold present in Hpr.
    destruct (resolve_path s tr v q) as [[tr' x|tr' xs]|] eqn:Eres; [| |discriminate].
    - destruct (resolve_sub s R Hok Hfam q v tr true tr' x Htr Hwf Hc Hq Eres) as (Htr' & Hwx & Hcx).
      destruct (descent x tr' Htr' Hwx Hcx (NE_sub q v tr tr' x HNE Hq Eres) (DF_sub q v tr tr' x HDF Hq Eres))
        as (r & tr2 & y & Hr & Hres & Hl & Hy).
      apply (node_set_has s R Hok Hfam q r tr v tr2 y); auto.
      + apply wf_path_app; auto.
      + rewrite resolve_path_app, Eres. exact Hres.
    - exfalso. apply (HDF q tr' xs Hq Eres).
  Qed.

  (* the node set is closed under non-empty prefixes *)
  Corollary node_set_prefix : forall v tr p r, R tr -> wf_value v = true ->
    conforms s tr true v = true -> NE tr v -> DF tr v -> wf_path (p ++ r) = true -> p <> [] ->
    ps_has (p ++ r) (node_set s tr v) = true -> ps_has p (node_set s tr v) = true.
  Proof.
    intros v tr p r Htr Hwf Hc HNE HDF Hpr Hne Hhas.
    pose proof Hpr as Hpr'. apply wf_path_app in Hpr'. destruct Hpr' as [Hp _].
    apply visible; auto.
    apply (present_prefix s tr v p r).
    apply (node_set_present s R Hok Hfam tr v (p ++ r)); auto.
  Qed.

  (* ---------- the conditions pass to the result of a removal ---------- *)
  Hypothesis Hnd : keys_nodefault s R.

  Lemma removed_node : forall tr M T p n, R tr -> wf_value M = true -> conforms s tr true M = true ->
    DF tr M -> nice s tr M T -> wf_path p = true -> p <> [] ->
    resolve_path s tr (remove s tr M T) p = Some n ->
    exists tr' x T', resolve_path s tr M p = Some (RNode tr' x) /\ touches p T = false /\
      n = RNode tr' (kept_node s tr' T' x).
  Proof.
    intros tr M T p n Htr Hwf Hc HDF Hn Hp Hne Hres.
    assert (Hpr : present s tr (remove s tr M T) p = true) by (unfold present; rewrite Hres; reflexivity).
    assert (Hto : touches p T = false).
    { destruct (touches p T) eqn:E; [|reflexivity]. unfold remove in Hpr.
      rewrite (remove_drops s R Hok Hfam Hnd p M tr true T Htr Hwf Hc Hn Hp E) in Hpr. discriminate. }
    pose proof (remove_mono s R Hok Hfam Hnd p M tr true T Htr Hwf Hc Hn Hp Hne Hpr) as HprM.
    unfold present in HprM.
    destruct (resolve_path s tr M p) as [[tr' x|tr' xs]|] eqn:EM; [| |discriminate].
    - destruct (remove_node s R Hok Hfam Hnd p M tr true T tr' x Htr Hwf Hc Hn Hp Hne EM Hto)
        as (T' & _ & HresP).
      unfold remove in Hres. rewrite HresP in Hres. inversion Hres; subst n.
      exists tr', x, T'. auto.
    - exfalso. apply (HDF p tr' xs Hp EM).
  Qed.

  Theorem remove_NE : forall tr M T, R tr -> wf_value M = true -> conforms s tr true M = true ->
    NE tr M -> DF tr M -> nice s tr M T -> NE tr (remove s tr M T).
  Proof.
    intros tr M T Htr Hwf Hc HNE HDF Hn p tr2 y Hp Hres.
    destruct p as [|e p'].
    - simpl in Hres. inversion Hres; subst tr2 y.
      apply (remove_items_not_nil s tr true T M Hc).
    - destruct (removed_node tr M T (e :: p') _ Htr Hwf Hc HDF Hn Hp ltac:(discriminate) Hres)
        as (tr' & x & T' & EM & _ & Heq).
      inversion Heq; subst tr2 y.
      destruct (resolve_sub s R Hok Hfam (e :: p') M tr true tr' x Htr Hwf Hc Hp EM) as (_ & _ & Hcx).
      apply (kept_node_not_nil s tr' true T' x Hcx). apply (HNE (e :: p') tr' x Hp EM).
  Qed.

  Theorem remove_DF : forall tr M T, R tr -> wf_value M = true -> conforms s tr true M = true ->
    DF tr M -> nice s tr M T -> DF tr (remove s tr M T).
  Proof.
    intros tr M T Htr Hwf Hc HDF Hn p tr2 ys Hp Hres.
    destruct p as [|e p']; [discriminate|].
    destruct (removed_node tr M T (e :: p') _ Htr Hwf Hc HDF Hn Hp ltac:(discriminate) Hres)
      as (tr' & x & T' & _ & _ & Heq).
    discriminate.
  Qed.
End Visible.

