(* C07 (extract and apply back): what [dup_free] (Spec/Resolve.v) says of a valid object --
   the fuel of its definition is immaterial, every granular list reached has members with
   pairwise distinct path elements, and the children of a granular node are duplicate free.
   NOTE: [dup_free] does not look inside atomic lists and maps, so it does not imply
   [conforms .. false] (no duplicates anywhere): the results of Proofs/ExtractBack*.v are
   stated for [conforms .. true] together with [dup_free]. *)
From Coq Require Import List ZArith String Bool Arith Lia.
From SMD Require Import Model.Value Model.Order Model.PathElem Model.PathSet Model.Schema
  Model.Walk Model.FieldSet Spec.PathsAsSets Spec.RefValid Spec.Resolve
  Proofs.OrderLaws Proofs.KeyLaws Proofs.PathSetLaws Proofs.ValidateLaws Proofs.SchemaOk
  Proofs.FieldSetMirrors Proofs.FieldSetBase Proofs.FieldSetShape Proofs.FieldSetPaths
  Proofs.RemoveBase Proofs.ExtractBase Proofs.ExtractLaws Proofs.RefDiffBase.
From SMD Require Proofs.MergeBase.
Import ListNotations.
Open Scope bool_scope.

Lemma forallb_ext_in' : forall (A : Type) (f g : A -> bool) l,
  (forall x, In x l -> f x = g x) -> forallb f l = forallb g l.
Proof.
  intros A f g l. induction l as [|x l IH]; intros H; [reflexivity|]. simpl.
  rewrite (H x (or_introl eq_refl)), IH; [reflexivity|]. intros y Hy. apply H. right. exact Hy.
Qed.

Lemma dup_free_fuel_irrel : forall f1 f2 s tr v, vdepth v < f1 -> vdepth v < f2 ->
  dup_free_fuel f1 s tr v = dup_free_fuel f2 s tr v.
Proof.
  induction f1 as [|f1 IH]; intros f2 s tr v H1 H2; [lia|].
  destruct f2 as [|f2]; [lia|]. cbn [dup_free_fuel].
  destruct (kind_of s tr v) as [|t m|t l|] eqn:Ek; try reflexivity.
  - destruct (kind_map_inv _ _ _ _ _ Ek) as (_ & _ & _ & Hv & _). subst v.
    apply forallb_ext_in'. intros [k c] Hin. cbn [fst snd].
    pose proof (MergeBase.vdepth_map_in m k c Hin). apply IH; lia.
  - destruct (kind_list_inv _ _ _ _ _ Ek) as (_ & _ & _ & Hv & _). subst v.
    destruct (group_items s t l []); [|reflexivity]. f_equal.
    apply forallb_ext_in'. intros x Hin.
    pose proof (MergeBase.vdepth_list_in l x Hin). apply IH; lia.
Qed.

Lemma dup_free_map : forall s tr v t m k c, kind_of s tr v = KMap t m -> dup_free s tr v = true ->
  In (k, c) m -> dup_free s (field_type t k) c = true.
Proof.
  intros s tr v t m k c Ek H Hin. unfold dup_free in H. cbn [dup_free_fuel] in H. rewrite Ek in H.
  rewrite forallb_forall in H. specialize (H (k, c) Hin). cbn [fst snd] in H.
  destruct (kind_map_inv _ _ _ _ _ Ek) as (_ & _ & _ & Hv & _). subst v.
  pose proof (MergeBase.vdepth_map_in m k c Hin). unfold dup_free.
  rewrite <- H. apply dup_free_fuel_irrel; lia.
Qed.

(* members whose path elements occur once have pairwise distinct path elements *)
Lemma single_occ_distinct : forall s t l, items_wf s t l ->
  (forall x e, In x l -> list_item_to_pe s t x = Some e -> List.length (occ s t e l) <= 1) ->
  all_distinct (pes_of s t l) = true.
Proof.
  intros s t l. induction l as [|x l IH]; intros Hiw H; [reflexivity|].
  apply items_wf_cons in Hiw. destruct Hiw as [Hwx Hiw].
  unfold pes_of. cbn [flat_map]. fold (pes_of s t l).
  assert (Hrest : all_distinct (pes_of s t l) = true).
  { apply IH; [exact Hiw|]. intros y e Hy He.
    pose proof (H y e (or_intror Hy) He) as Hl. rewrite occ_cons in Hl.
    destruct (pe_matches s t e x); simpl in Hl; lia. }
  destruct (list_item_to_pe s t x) as [ex|] eqn:Ex; [|exact Hrest].
  cbn [app all_distinct]. rewrite Hrest, andb_true_r. apply negb_true_iff.
  destruct (existsb (peeqb ex) (pes_of s t l)) eqn:Eex; [|reflexivity]. exfalso.
  apply existsb_exists in Eex. destruct Eex as (e2 & Hin2 & Heq).
  unfold pes_of in Hin2. apply in_flat_map in Hin2. destruct Hin2 as (y & Hy & Hin2).
  destruct (list_item_to_pe s t y) as [ey|] eqn:Ey; [|destruct Hin2].
  destruct Hin2 as [E|[]]. subst ey.
  pose proof (H x ex (or_introl eq_refl) Ex) as Hl. rewrite occ_cons in Hl.
  assert (Hwex : wf_pe ex = true) by (apply Hwx; reflexivity).
  unfold pe_matches at 1 in Hl. rewrite Ex, (peeqb_refl ex Hwex) in Hl.
  assert (Hiny : In y (occ s t ex l)).
  { apply In_occ; [exact Hy|]. unfold pe_matches. rewrite Ey.
    rewrite (peeqb_sym e2 ex); [exact Heq| |exact Hwex]. apply (Hiw y e2 Hy Ey). }
  destruct (occ s t ex l); [destruct Hiny|]. simpl in Hl. lia.
Qed.

Section DupFree.
  Variables (s : schema) (R : typeref -> Prop).
  Hypothesis Hok : schema_ok s R.

  Lemma dup_free_list : forall tr v t l, R tr -> wf_value v = true ->
    kind_of s tr v = KList t l -> dup_free s tr v = true ->
    forallb (has_pe s t) l = true /\ all_distinct (pes_of s t l) = true /\
    forall x, In x l -> dup_free s (list_elem t) x = true.
  Proof.
    intros tr v t l Htr Hwf Ek H.
    destruct (kind_list_inv _ _ _ _ _ Ek) as (a & Hr & Hal & Hv & Hna & Hne). subst v.
    assert (HRe : R (list_elem t)) by (apply (so_list s R Hok tr a t Htr Hr Hal)).
    assert (Hiw : items_wf s t l) by (apply (items_wf_R s R Hok t l HRe); exact Hwf).
    unfold dup_free in H. cbn [dup_free_fuel] in H. rewrite Ek in H.
    destruct (group_items s t l []) as [g|] eqn:Eg; [|discriminate].
    apply andb_true_iff in H. destruct H as [Hsing Hall].
    destruct (group_items_some s t l g Hiw Eg) as (Hhas & Hgw & Hlk).
    split; [exact Hhas|]. split.
    - apply single_occ_distinct; [exact Hiw|]. intros x e Hx He.
      assert (Hwe : wf_pe e = true) by (apply (Hiw x e Hx He)).
      pose proof (Hlk e Hwe) as Hl.
      assert (Hin : In x (occ s t e l)).
      { apply In_occ; [exact Hx|]. unfold pe_matches. rewrite He. apply peeqb_refl. exact Hwe. }
      destruct (occ s t e l) as [|y ys] eqn:Eo; [destruct Hin|].
      apply lookup_group_In in Hl. destruct Hl as (ex & Hex & _ & Hsnd).
      rewrite forallb_forall in Hsing. specialize (Hsing ex Hex). rewrite Hsnd in Hsing.
      destruct ys; [simpl; lia|discriminate].
    - intros x Hx. rewrite forallb_forall in Hall. specialize (Hall x Hx).
      pose proof (MergeBase.vdepth_list_in l x Hx). unfold dup_free.
      rewrite <- Hall. apply dup_free_fuel_irrel; lia.
  Qed.
End DupFree.
