(* Helper of Proofs/Transparent.v, level 1: the prune stage under the identity converter with
   one schema for every version label gives the same object whatever the labels of the
   records are -- in particular the same object as with every record relabelled to one
   label (what the single-version run does).

   With N the node set of the merged object M and T0 the closure of the applier's previous
   record, the add-back rounds over the versions [vs] end on the removal of a set T' with
     kept T' q  <->  q in N and every non-empty prefix of q is kept by T0 or lies in the
                     closure of the set recorded at some version of [vs]
   ([OrderIndepN.Kstar]; [arounds_char] below adds the cases of zero and one version to
   [OrderIndepN.run_fixed]).  The set recorded at a version is the union of the records at
   that version, and the closure [ps_en] distributes over unions, so the right-hand side
   reads "... or lies in the closure of SOME RECORD" [visited_owned]: no version label
   occurs in it any more. *)
From Coq Require Import List ZArith String Bool Arith Lia Permutation.
From SMD Require Import Model.Value Model.Order Model.PathElem Model.PathSet Model.Schema Model.Walk
  Model.Validate Model.FieldSet Model.Remove Model.Merge Model.Compare Model.Matcher Model.Reconcile
  Model.Updater
  Spec.PathsAsSets Spec.RefValid Spec.Resolve Spec.Agree Spec.RefDiff Spec.Examples
  Proofs.OrderLaws Proofs.PathSetLaws Proofs.SchemaOk Proofs.FieldSetBase Proofs.FieldSetPaths
  Proofs.FieldSetWf Proofs.FieldSetLaws Proofs.RemoveAbsent Proofs.RemoveWf Proofs.ResolveLaws
  Proofs.ReconcileBase
  Proofs.UpdaterLaws Proofs.UpdaterLaws2 Proofs.MergeLaws Proofs.MergeAgree
  Proofs.RemoveFrame Proofs.EnLaws Proofs.NodeSet Proofs.KeyFields Proofs.VeqbResolve
  Proofs.SetCheckers Proofs.ApplyEffect Proofs.PruneShape Proofs.RemoveExt Proofs.Visible
  Proofs.NodeCount Proofs.OrderIndep Proofs.OrderIndepN.
From SMD Require Proofs.MergeBase.
Import ListNotations.
Open Scope bool_scope.
Open Scope list_scope.

Local Arguments ps_has : simpl never.
Local Arguments ps_with_prefix : simpl never.
Local Arguments ps_empty : simpl never.

(* every record moved to the version label [ver] (the [relabel] of Proofs/Transparent.v) *)
Definition relab (ver : string) (mf : managed) : managed :=
  map (fun mr : string * mrec => (fst mr, mkRec (mr_set (snd mr)) ver (mr_applied (snd mr)))) mf.

Definition relab_rec (ver : string) (r : mrec) : mrec := mkRec (mr_set r) ver (mr_applied r).

Lemma with_order_self : forall c, with_order c (cfg_version_order c) = c.
Proof. intros [a b d e f g]. reflexivity. Qed.

(* ================= the sets recorded at the versions ================= *)

Definition mav_step (acc : list (string * pset)) (mr : string * mrec) : list (string * pset) :=
  let v := mr_ver (snd mr) in
  let cur := match assoc_get v acc with Some s => s | None => ps_empty_set end in
  assoc_set v (ps_union cur (mr_set (snd mr))) acc.

Lemma mav_unfold : forall mf, managed_at_version mf = fold_left mav_step mf [].
Proof. reflexivity. Qed.

(* the record is at version v and has the path *)
Definition at_ver (v : string) (q : path) (mr : string * mrec) : bool :=
  String.eqb (mr_ver (snd mr)) v && ps_has q (mr_set (snd mr)).

Lemma mav_fold_spec : forall mf acc,
  (forall mr, In mr mf -> ps_ok (mr_set (snd mr)) = true) ->
  (forall v A, assoc_get v acc = Some A -> ps_ok A = true) ->
  forall v,
    match assoc_get v (fold_left mav_step mf acc) with
    | Some U =>
        ps_ok U = true /\
        (assoc_get v acc <> None \/ exists mr, In mr mf /\ mr_ver (snd mr) = v) /\
        forall q, wf_path q = true ->
          ps_has q U = (match assoc_get v acc with Some A => ps_has q A | None => false end)
                       || existsb (at_ver v q) mf
    | None => assoc_get v acc = None /\ forall mr, In mr mf -> mr_ver (snd mr) <> v
    end.
Proof.
  induction mf as [|x mf IH]; intros acc Hmf Hacc v.
  - cbn [fold_left]. destruct (assoc_get v acc) as [A|] eqn:E.
    + split; [apply (Hacc v A E)|]. split; [left; discriminate|].
      intros q _. cbn [existsb]. rewrite orb_false_r. reflexivity.
    + split; [reflexivity|]. intros mr [].
  - cbn [fold_left].
    set (vx := mr_ver (snd x)).
    set (cur := match assoc_get vx acc with Some s => s | None => ps_empty_set end).
    assert (Hcur : ps_ok cur = true).
    { unfold cur. destruct (assoc_get vx acc) as [A|] eqn:E; [apply (Hacc vx A E)|apply ps_ok_empty]. }
    destruct (ps_union_spec cur (mr_set (snd x)) Hcur (Hmf x (or_introl eq_refl))) as [Hu Hhu].
    assert (Hstep : mav_step acc x = assoc_set vx (ps_union cur (mr_set (snd x))) acc) by reflexivity.
    assert (Hacc' : forall v0 A, assoc_get v0 (mav_step acc x) = Some A -> ps_ok A = true).
    { intros v0 A. rewrite Hstep, assoc_get_set. destruct (String.eqb v0 vx).
      - intros H. inversion H; subst A. exact Hu.
      - apply Hacc. }
    specialize (IH (mav_step acc x) (fun mr H => Hmf mr (or_intror H)) Hacc' v).
    destruct (assoc_get v (fold_left mav_step mf (mav_step acc x))) as [U|].
    + destruct IH as (HU & Hsrc & Hhas). split; [exact HU|]. split.
      * destruct Hsrc as [Hsrc|(mr & Hin & Hv)]; [|right; exists mr; split; [right; exact Hin|exact Hv]].
        rewrite Hstep, assoc_get_set in Hsrc. destruct (String.eqb v vx) eqn:Ev.
        -- right. exists x. split; [left; reflexivity|]. apply String.eqb_eq in Ev. symmetry. exact Ev.
        -- left. exact Hsrc.
      * intros q Hq. rewrite (Hhas q Hq), Hstep, assoc_get_set. cbn [existsb]. unfold at_ver at 2.
        fold vx. rewrite (String.eqb_sym vx v).
        destruct (String.eqb v vx) eqn:Ev.
        -- apply String.eqb_eq in Ev. subst v. rewrite (Hhu q Hq). unfold cur.
           destruct (assoc_get vx acc) as [A|]; cbn [andb].
           ++ rewrite orb_assoc. reflexivity.
           ++ rewrite ps_has_empty_set. reflexivity.
        -- cbn [andb orb]. reflexivity.
    + destruct IH as [Hnone Hno]. rewrite Hstep, assoc_get_set in Hnone.
      destruct (String.eqb v vx) eqn:Ev; [discriminate|]. split; [exact Hnone|].
      intros mr [<-|Hin]; [|apply Hno; exact Hin].
      intros E. fold vx in E. rewrite E, String.eqb_refl in Ev. discriminate.
Qed.

Lemma mav_some : forall mf v U,
  (forall mr, In mr mf -> ps_ok (mr_set (snd mr)) = true) ->
  assoc_get v (managed_at_version mf) = Some U ->
  ps_ok U = true /\ (exists mr, In mr mf /\ mr_ver (snd mr) = v) /\
  forall q, wf_path q = true -> ps_has q U = existsb (at_ver v q) mf.
Proof.
  intros mf v U Hmf H. rewrite mav_unfold in H.
  pose proof (mav_fold_spec mf [] Hmf (fun v0 A E => ltac:(discriminate E)) v) as S.
  rewrite H in S. destruct S as (HU & Hsrc & Hhas). split; [exact HU|]. split.
  - destruct Hsrc as [Hsrc|Hsrc]; [exfalso; apply Hsrc; reflexivity|exact Hsrc].
  - intros q Hq. rewrite (Hhas q Hq). reflexivity.
Qed.

Lemma mav_recorded : forall mf mr,
  (forall mr, In mr mf -> ps_ok (mr_set (snd mr)) = true) ->
  In mr mf -> assoc_get (mr_ver (snd mr)) (managed_at_version mf) <> None.
Proof.
  intros mf mr Hmf Hin H. rewrite mav_unfold in H.
  pose proof (mav_fold_spec mf [] Hmf (fun v0 A E => ltac:(discriminate E)) (mr_ver (snd mr))) as S.
  rewrite H in S. destruct S as [_ Hno]. apply (Hno mr Hin). reflexivity.
Qed.

(* ================= the closure distributes over unions ================= *)

Lemma en_sub : forall s tr A B, ps_ok A = true -> ps_ok B = true ->
  (forall p, wf_path p = true -> ps_has p A = true -> ps_has p B = true) ->
  forall q, wf_path q = true -> ps_has q (ps_en s tr A) = true -> ps_has q (ps_en s tr B) = true.
Proof.
  intros s tr A B HA HB Hsub q Hq H.
  pose proof (has_nonnil _ _ H) as Hne.
  apply (en_has_iff s _ tr A HA Hq Hne) in H. apply (en_has_iff s _ tr B HB Hq Hne).
  destruct H as [H|(pre & n & Hpe & Hnamed & r & Hrne & Hr & Hhas)].
  - left. apply Hsub; auto.
  - right. exists pre, n. split; [exact Hpe|]. split; [exact Hnamed|].
    exists r. split; [exact Hrne|]. split; [exact Hr|].
    apply Hsub; [|exact Hhas]. apply wf_path_app. auto.
Qed.

(* a member of the closure of U comes from one of the sets U is covered by *)
Lemma en_cover : forall s tr U (I : pset -> Prop), ps_ok U = true ->
  (forall S, I S -> ps_ok S = true) ->
  (forall p, wf_path p = true -> ps_has p U = true -> exists S, I S /\ ps_has p S = true) ->
  forall q, wf_path q = true -> ps_has q (ps_en s tr U) = true ->
  exists S, I S /\ ps_has q (ps_en s tr S) = true.
Proof.
  intros s tr U I HU HI Hcov q Hq H.
  pose proof (has_nonnil _ _ H) as Hne.
  apply (en_has_iff s _ tr U HU Hq Hne) in H.
  destruct H as [H|(pre & n & Hpe & Hnamed & r & Hrne & Hr & Hhas)].
  - destruct (Hcov q Hq H) as (S & HS & HqS). exists S. split; [exact HS|].
    apply (en_has_iff s _ tr S (HI S HS) Hq Hne). left. exact HqS.
  - assert (Hw : wf_path (q ++ r) = true) by (apply wf_path_app; auto).
    destruct (Hcov (q ++ r) Hw Hhas) as (S & HS & HqS). exists S. split; [exact HS|].
    apply (en_has_iff s _ tr S (HI S HS) Hq Hne). right.
    exists pre, n. split; [exact Hpe|]. split; [exact Hnamed|].
    exists r. auto.
Qed.

(* ================= association lists ================= *)

Lemma assoc_get_remove_other : forall (A : Type) k v (l : list (string * A)) U,
  assoc_get v l = Some U -> v <> k -> In (v, U) (assoc_remove k l).
Proof.
  intros A k v l. induction l as [|[k' x] l IH]; intros U H Hne; [discriminate|].
  cbn [assoc_get] in H. cbn [assoc_remove].
  destruct (String.eqb v k') eqn:Ev.
  - inversion H; subst x. apply String.eqb_eq in Ev. subst k'.
    destruct (String.eqb k v) eqn:Ek; [apply String.eqb_eq in Ek; congruence|].
    left. reflexivity.
  - destruct (String.eqb k k'); [apply assoc_get_in; exact H|].
    right. apply IH; assumption.
Qed.

(* every recorded version is visited, and only those *)
Lemma visited_iff : forall (mav : list (string * pset)) pv others v,
  Permutation (map fst (assoc_remove pv mav)) others ->
  (In v (match assoc_get pv mav with Some _ => [pv] | None => [] end ++ others)
   <-> assoc_get v mav <> None).
Proof.
  intros mav pv others v Hperm. split.
  - apply (versions_recorded mav pv others v Hperm).
  - intros H. destruct (assoc_get v mav) as [U|] eqn:E; [|congruence].
    apply in_or_app. destruct (String.eqb_spec v pv) as [->|Hne].
    + left. rewrite E. left. reflexivity.
    + right. apply (Permutation_in v Hperm). apply in_map_iff. exists (v, U).
      split; [reflexivity|]. apply assoc_get_remove_other; assumption.
Qed.

(* ================= level 1 ================= *)

Section Prune.
  Variables (c : config) (s : schema) (R : typeref -> Prop) (tr : typeref).
  Hypothesis Hcid : conv_id c.
  Hypothesis Hsch : forall v, cfg_schema c v = (s, tr).
  Hypothesis Hperm : forall l, Permutation l (cfg_version_order c l).
  Hypothesis Hok : schema_ok s R.
  Hypothesis Hfam : family_refs s R.
  Hypothesis Htr : R tr.
  Hypothesis Hnd : keys_nodefault s R.
  Hypothesis Hks : keys_scalar s R.

  Variable M : value.
  Hypothesis HwM : wf_value M = true.
  Hypothesis HvM : conforms s tr false M = true.
  Hypothesis HeM : no_empty_list M = true.

  Let HcM : conforms s tr true M = true := MergeBase.conforms_dup_mono s M tr HvM.
  Let HNE : NE s tr M := NE_of_nel s R Hok M tr Htr HwM HeM.
  Let HDF : DF s tr M := DF_of_conforms s R Hok Hfam M tr Htr HwM HvM.

  Notation N := (node_set s tr M).
  Notation kept := (kept s tr M).
  Notation passT := (passT s tr M).
  Notation rm := (remove s tr M).
  Notation niceT := (nice s tr M).

  Variable T0 : pset.
  Hypothesis HT0 : niceT T0.

  (* ---------- what a run of the rounds ends on, for any number of versions ---------- *)
  Section Rounds.
    Variable mav : list (string * pset).
    Hypothesis HU : forall v U, assoc_get v mav = Some U -> ps_ok U = true /\ owns_live_keys s tr M U.

    Lemma arounds_char : forall fuel vs T',
      (forall v, In v vs -> assoc_get v mav <> None) ->
      arounds s tr M mav fuel vs T0 false = Some T' ->
      niceT T' /\
      (forall q, wf_path q = true -> (kept T' q = true <-> Kstar s tr M mav T0 vs q)) /\
      (vs = [] -> T' = T0) /\ (vs <> [] -> sub_present s tr M T').
    Proof.
      intros fuel vs T' Hall H.
      destruct vs as [|v [|v2 vs]].
      - (* no version *)
        destruct fuel as [|fuel]; [discriminate|]. cbn in H. inversion H; subst T'.
        split; [exact HT0|]. split; [|split; [reflexivity|congruence]].
        intros q Hq. split.
        + intros Hk. split; [apply (kept_in_N s tr M T0 q Hk)|]. intros n Hn. left.
          apply (kept_prefix s R tr Hok Hfam Htr M HwM HcM HNE HDF T0 q n (n_ok _ _ _ _ HT0) Hq Hk Hn).
        + intros [HN Hallq]. destruct q as [|e q']; [rewrite ps_has_nil in HN; discriminate|].
          destruct (Hallq (List.length (e :: q'))) as [Hk|(v & U & [] & _)]; [simpl; lia|].
          rewrite firstn_all in Hk. exact Hk.
      - (* one version: a single pass *)
        destruct fuel as [|fuel]; [discriminate|].
        destruct (assoc_get v mav) as [U|] eqn:EU; [|exfalso; apply (Hall v (or_introl eq_refl) EU)].
        destruct (HU v U EU) as [HUok Hown].
        assert (HT' : T' = passT U T0).
        { cbn [arounds fold_left] in H. unfold astep in H. rewrite EU in H. cbn [fst snd] in H.
          cbn [List.length Nat.leb] in H. rewrite andb_false_r in H. inversion H. reflexivity. }
        subst T'.
        split; [apply (pass_nice s R tr Hok Hfam Htr Hnd Hks M HwM HcM HNE HDF U T0 HT0 HUok Hown)|].
        split; [|split; [discriminate|]].
        + intros q Hq.
          rewrite (kept_pass s R tr Hok Hfam Htr Hnd M HwM HcM HNE HDF U T0 q HT0 HUok Hq).
          split; intros [HN Hallq]; (split; [exact HN|]); intros n Hn.
          * specialize (Hallq n Hn). apply orb_true_iff in Hallq. destruct Hallq as [Hk|He]; [left; exact Hk|].
            right. exists v, U. split; [left; reflexivity|]. split; assumption.
          * destruct (Hallq n Hn) as [Hk|(v' & U' & [<-|[]] & HU' & He)]; [rewrite Hk; reflexivity|].
            rewrite EU in HU'. inversion HU'; subst U'. rewrite He. apply orb_true_r.
        + intros _. apply (pass_sub_present s R tr Hok Hfam Htr Hnd M HwM HcM HNE HDF U T0 HT0 HUok).
      - (* two versions or more *)
        destruct (run_fixed s R tr Hok Hfam Htr Hnd Hks M HwM HcM HNE HDF mav HU T0 fuel
                    (v :: v2 :: vs) T0 false T') as (Hn & Hsp & Hk); auto.
        + simpl. lia.
        + apply (Inv_start s R tr Hok Hfam Htr M HwM HcM HNE HDF mav T0 HT0).
        + discriminate.
        + split; [exact Hn|]. split; [exact Hk|]. split; [discriminate|]. intros _. exact Hsp.
    Qed.
  End Rounds.

  (* ---------- the add-back loop on records at any labels ---------- *)

  (* a path in the closure of some record *)
  Definition owned (mf : managed) (p : path) : Prop :=
    exists mr, In mr mf /\ ps_has p (ps_en s tr (mr_set (snd mr))) = true.

  Lemma owned_relab : forall ver mf p, owned (relab ver mf) p <-> owned mf p.
  Proof.
    intros ver mf p. unfold owned, relab. split.
    - intros (mr & Hin & H). apply in_map_iff in Hin. destruct Hin as (mr0 & <- & Hin0).
      exists mr0. split; [exact Hin0|exact H].
    - intros (mr & Hin & H).
      exists (fst mr, mkRec (mr_set (snd mr)) ver (mr_applied (snd mr))).
      split; [|exact H]. apply in_map_iff. exists mr. split; [reflexivity|exact Hin].
  Qed.

  Section Records.
    Variable mf : managed.
    Hypothesis Hrecs : forall mr, In mr mf ->
      ps_ok (mr_set (snd mr)) = true /\ owns_live_keys s tr M (mr_set (snd mr)).

    Let Hsetok : forall mr, In mr mf -> ps_ok (mr_set (snd mr)) = true :=
      fun mr H => proj1 (Hrecs mr H).

    Lemma mav_sets_ok : forall v U, assoc_get v (managed_at_version mf) = Some U ->
      ps_ok U = true /\ owns_live_keys s tr M U.
    Proof.
      intros v U H. destruct (mav_some mf v U Hsetok H) as (HU & _ & Hhas).
      split; [exact HU|]. intros pre fl k Hwf Hin Hitem Hpr.
      assert (HwI : wf_path (pre ++ [PEKey fl]) = true) by (eapply wf_path_key_prefix; eauto).
      rewrite (Hhas _ HwI) in Hitem. apply existsb_exists in Hitem.
      destruct Hitem as (mr & Hmr & Hat). unfold at_ver in Hat. apply andb_true_iff in Hat.
      destruct Hat as [Hv Hhi].
      rewrite (Hhas _ Hwf). apply existsb_exists. exists mr. split; [exact Hmr|].
      unfold at_ver. rewrite Hv. cbn [andb].
      apply (proj2 (Hrecs mr Hmr) pre fl k Hwf Hin Hhi Hpr).
    Qed.

    (* owned at some visited version = owned by some record *)
    Lemma visited_owned : forall pv p, wf_path p = true ->
      ((exists v U, In v (visit mf (cfg_version_order c) pv) /\
                    assoc_get v (managed_at_version mf) = Some U /\
                    ps_has p (ps_en s tr U) = true)
       <-> owned mf p).
    Proof.
      intros pv p Hp. split.
      - intros (v & U & _ & HU & Hhas).
        destruct (mav_some mf v U Hsetok HU) as (HUok & _ & HhasU).
        destruct (en_cover s tr U (fun S => exists mr, In mr mf /\ S = mr_set (snd mr)) HUok) with (q := p)
          as (S & (mr & Hmr & ->) & HS); auto.
        + intros S (mr & Hmr & ->). apply Hsetok. exact Hmr.
        + intros q Hq HqU. rewrite (HhasU q Hq) in HqU. apply existsb_exists in HqU.
          destruct HqU as (mr & Hmr & Hat). unfold at_ver in Hat. apply andb_true_iff in Hat.
          exists (mr_set (snd mr)). split; [exists mr; auto|apply Hat].
        + exists mr. auto.
      - intros (mr & Hmr & Hhas).
        pose proof (mav_recorded mf mr Hsetok Hmr) as Hrec.
        destruct (assoc_get (mr_ver (snd mr)) (managed_at_version mf)) as [U|] eqn:EU; [|congruence].
        destruct (mav_some mf _ U Hsetok EU) as (HUok & _ & HhasU).
        exists (mr_ver (snd mr)), U. split; [|split; [exact EU|]].
        + unfold visit. apply (visited_iff (managed_at_version mf) pv _ _ (Hperm _)). rewrite EU. discriminate.
        + apply (en_sub s tr (mr_set (snd mr)) U (Hsetok mr Hmr) HUok); auto.
          intros q Hq Hq1. rewrite (HhasU q Hq). apply existsb_exists. exists mr. split; [exact Hmr|].
          unfold at_ver. rewrite String.eqb_refl, Hq1. reflexivity.
    Qed.

    Lemma visit_nil_iff : forall pv, visit mf (cfg_version_order c) pv = [] <-> mf = [].
    Proof.
      intros pv. split.
      - intros Hv.
        assert (Hno : forall mr, ~ In mr mf).
        { intros mr Hin. pose proof (mav_recorded mf mr Hsetok Hin) as Hrec.
          apply (visited_iff (managed_at_version mf) pv _ (mr_ver (snd mr)) (Hperm _)) in Hrec.
          unfold visit in Hv. rewrite Hv in Hrec. destruct Hrec. }
        clear - Hno. destruct mf as [|mr l]; [reflexivity|].
        exfalso. apply (Hno mr). left. reflexivity.
      - intros ->. unfold visit. cbn.
        pose proof (Hperm []) as Hp. apply Permutation_nil in Hp. exact Hp.
    Qed.

    (* the loop ends, on the removal of a set that keeps exactly the nodes of M all of whose
       prefixes are kept by T0 or owned by some record *)
    Lemma add_back_owned_char : forall n lm lp pv,
      exists T' lp' n',
        add_back_owned c n (lm, M) (lp, rm T0) pv mf = UOk ((lp', rm T'), n') /\
        niceT T' /\
        (forall q, wf_path q = true ->
           (kept T' q = true <->
            ps_has q N = true /\
            forall k, 1 <= k <= List.length q -> kept T0 (firstn k q) = true \/ owned mf (firstn k q))) /\
        (mf = [] -> T' = T0) /\ (mf <> [] -> sub_present s tr M T').
    Proof.
      intros n lm lp pv.
      pose proof (add_back_owned_abstract c s R tr Hcid Hsch Hok Hfam Htr Hnd Hks M T0 mf HwM HvM HeM HT0
                    mav_sets_ok (cfg_version_order c) n lm lp pv Hperm) as A.
      rewrite with_order_self in A.
      set (vs := visit mf (cfg_version_order c) pv) in *.
      assert (Hall : forall v, In v vs -> assoc_get v (managed_at_version mf) <> None).
      { intros v Hv. apply (versions_recorded (managed_at_version mf) pv _ v (Hperm _) Hv). }
      destruct (arounds s tr M (managed_at_version mf) (S (S (value_size M))) vs T0 false) as [T'|] eqn:E.
      - destruct A as (lp' & n' & A). exists T', lp', n'. split; [exact A|].
        destruct (arounds_char (managed_at_version mf) mav_sets_ok _ vs T' Hall E) as (Hn & Hk & Hnil & Hsp).
        split; [exact Hn|]. split; [|split].
        + intros q Hq. rewrite (Hk q Hq). unfold Kstar. split; intros [HN Hallq]; (split; [exact HN|]);
            intros k Hlen; (destruct (Hallq k Hlen) as [H|H]; [left; exact H|right]).
          * apply (visited_owned pv (firstn k q)); [apply wf_path_firstn; exact Hq|exact H].
          * apply (visited_owned pv (firstn k q)); [apply wf_path_firstn; exact Hq|exact H].
        + intros Hmf. apply Hnil. apply visit_nil_iff. exact Hmf.
        + intros Hmf. apply Hsp. intros Hv. apply Hmf. apply (visit_nil_iff pv). exact Hv.
      - exfalso.
        apply (fuel_enough s R tr Hok Hfam Htr Hnd Hks M HwM HcM HNE HDF (managed_at_version mf) mav_sets_ok T0 HT0
                 vs (value_size M)); [exact Hall| |exact E].
        pose proof (node_set_size s R Hok Hfam tr M Htr HwM HcM). lia.
    Qed.
  End Records.

  (* two families of records with the same sets give the same object *)
  Theorem add_back_owned_labels : forall mf1 mf2 n1 lm1 lp1 pv1 n2 lm2 lp2 pv2,
    (forall mr, In mr mf1 -> ps_ok (mr_set (snd mr)) = true /\ owns_live_keys s tr M (mr_set (snd mr))) ->
    (forall mr, In mr mf2 -> ps_ok (mr_set (snd mr)) = true /\ owns_live_keys s tr M (mr_set (snd mr))) ->
    (forall p, owned mf1 p <-> owned mf2 p) -> (mf1 = [] <-> mf2 = []) ->
    exists T' l1 k1 l2 k2,
      niceT T' /\
      add_back_owned c n1 (lm1, M) (lp1, rm T0) pv1 mf1 = UOk ((l1, rm T'), k1) /\
      add_back_owned c n2 (lm2, M) (lp2, rm T0) pv2 mf2 = UOk ((l2, rm T'), k2).
  Proof.
    intros mf1 mf2 n1 lm1 lp1 pv1 n2 lm2 lp2 pv2 H1 H2 Hown Hnil.
    destruct (add_back_owned_char mf1 H1 n1 lm1 lp1 pv1) as (T1 & l1 & k1 & A1 & Hn1 & Hk1 & Hz1 & Hs1).
    destruct (add_back_owned_char mf2 H2 n2 lm2 lp2 pv2) as (T2 & l2 & k2 & A2 & Hn2 & Hk2 & Hz2 & Hs2).
    exists T1, l1, k1, l2, k2. split; [exact Hn1|]. split; [exact A1|].
    assert (Heq : rm T1 = rm T2).
    { destruct mf1 as [|x1 r1] eqn:E1.
      - rewrite (Hz1 eq_refl), (Hz2 (proj1 Hnil eq_refl)). reflexivity.
      - assert (Hne2 : mf2 <> []) by (intros E; apply Hnil in E; discriminate).
        apply (kept_determines s R tr Hok Hfam Htr M HwM HcM HNE HDF T1 T2
                 (n_ok _ _ _ _ Hn1) (n_ok _ _ _ _ Hn2) (Hs1 ltac:(discriminate)) (Hs2 Hne2)).
        intros q Hq. apply bool_eq_iff. rewrite (Hk1 q Hq), (Hk2 q Hq).
        split; intros [HN Hall]; (split; [exact HN|]); intros k Hlen;
          (destruct (Hall k Hlen) as [H|H]; [left; exact H|right; apply Hown; exact H]). }
    rewrite Heq. exact A2.
  Qed.
End Prune.

(* ================= the whole prune stage ================= *)

Section PruneLabels.
  Variables (c : config) (s : schema) (R : typeref -> Prop) (tr : typeref).
  Hypothesis Hcid : conv_id c.
  Hypothesis Hsch : forall v, cfg_schema c v = (s, tr).
  Hypothesis Hperm : forall l, Permutation l (cfg_version_order c l).
  Hypothesis Hok : schema_ok s R.
  Hypothesis Hfam : family_refs s R.
  Hypothesis Htr : R tr.
  Hypothesis Hnd : keys_nodefault s R.
  Hypothesis Hks : keys_scalar s R.

  Variable M : value.
  Hypothesis HwM : wf_value M = true.
  Hypothesis HvM : conforms s tr false M = true.
  Hypothesis HeM : no_empty_list M = true.

  Let HcM : conforms s tr true M = true := MergeBase.conforms_dup_mono s M tr HvM.
  Let HNE : NE s tr M := NE_of_nel s R Hok M tr Htr HwM HeM.
  Let HDF : DF s tr M := DF_of_conforms s R Hok Hfam M tr Htr HwM HvM.

  (* what follows the add-back loop, computed *)
  Lemma prune_tail_eq : forall mf last mgr T' lp n2, nice s tr M T' ->
    prune_tail c M mf last mgr (UOk ((lp, remove s tr M T'), n2)) =
    UOk ((match mf_get mgr mf with Some r => mr_ver r | None => mr_ver last end,
          remove s tr M (dangling_T s tr M T' (mr_set last))), S (S n2)).
  Proof.
    intros mf last mgr T' lp n2 Hn.
    destruct (removed_ok s R tr Hok Hfam Htr Hnd M HwM HcM HNE HDF T' Hn) as (HwP & HcP & _ & _).
    unfold prune_tail, add_back_dangling.
    rewrite (convert_id c Hcid). cbn [fst snd].
    rewrite (to_fs_any s R tr Hok Hfam Htr c Hsch _ _ Htr HwP HcP).
    rewrite (to_fs_any s R tr Hok Hfam Htr c Hsch _ _ Htr HwM HcM).
    rewrite !(en_any s tr c Hsch), (remove_tv_any s tr c Hsch).
    rewrite (convert_id c Hcid). cbn [snd]. reflexivity.
  Qed.

  Definition recs_ok (mf : managed) : Prop :=
    forall mr, In mr mf -> ps_ok (mr_set (snd mr)) = true /\ owns_live_keys s tr M (mr_set (snd mr)).

  (* the prune stage on two families of records with the same sets (whatever their labels,
     whatever the label of the merged object and of the applier's previous record) succeeds
     on both, with the same object *)
  Theorem prune_labels : forall mf1 mf2 last1 last2 n1 lm1 mgr1 n2 lm2 mgr2,
    mr_set last1 = mr_set last2 ->
    ps_ok (mr_set last1) = true -> applier_record_ok s tr (mr_set last1) ->
    recs_ok mf1 -> recs_ok mf2 ->
    (forall p, owned s tr mf1 p <-> owned s tr mf2 p) -> (mf1 = [] <-> mf2 = []) ->
    exists x l1 k1 l2 k2,
      prune c n1 (lm1, M) mf1 mgr1 (Some last1) = UOk ((l1, x), k1) /\
      prune c n2 (lm2, M) mf2 mgr2 (Some last2) = UOk ((l2, x), k2) /\
      (x = M \/ exists T, nice s tr M T /\ x = remove s tr M T).
  Proof.
    intros mf1 mf2 last1 last2 n1 lm1 mgr1 n2 lm2 mgr2 Hset Hlok Hlrec H1 H2 Hown Hnil.
    destruct (ps_empty (mr_set last1)) eqn:Ee.
    - exists M, lm1, n1, lm2, n2. unfold prune. rewrite <- Hset, Ee. auto.
    - assert (Ee2 : ps_empty (mr_set last2) = false) by (rewrite <- Hset; exact Ee).
      pose proof (prune_unfold c s tr Hcid Hsch M mf1 last1 (cfg_version_order c) n1 lm1 mgr1 Ee) as P1.
      pose proof (prune_unfold c s tr Hcid Hsch M mf2 last2 (cfg_version_order c) n2 lm2 mgr2 Ee2) as P2.
      rewrite with_order_self in P1, P2. rewrite <- Hset in P2.
      set (T0 := ps_en s tr (mr_set last1)) in *.
      assert (HT0 : nice s tr M T0)
        by (apply (first_set_nice s R tr Hok Hfam Htr Hnd M HwM HcM (mr_set last1) Hlok Hlrec)).
      destruct (add_back_owned_labels c s R tr Hcid Hsch Hperm Hok Hfam Htr Hnd Hks M HwM HvM HeM T0 HT0
                  mf1 mf2 (S n1) (mr_ver last1) (mr_ver last1) (mr_ver last1)
                  (S n2) (mr_ver last2) (mr_ver last2) (mr_ver last2) H1 H2 Hown Hnil)
        as (T' & l1 & k1 & l2 & k2 & Hn' & A1 & A2).
      rewrite A1 in P1. rewrite A2 in P2.
      rewrite (prune_tail_eq mf1 last1 mgr1 T' l1 k1 Hn') in P1.
      rewrite (prune_tail_eq mf2 last2 mgr2 T' l2 k2 Hn') in P2.
      rewrite <- Hset in P2.
      eexists. eexists. eexists. eexists. eexists. split; [exact P1|]. split; [exact P2|].
      right. exists (dangling_T s tr M T' (mr_set last1)). split; [|reflexivity].
      apply (dangling_set s R tr Hok Hfam Htr Hnd Hks M HwM HcM T' (mr_set last1) Hn' Hlok (proj1 Hlrec)).
  Qed.

  (* in particular: every record relabelled to one label *)
  Lemma recs_ok_relab : forall ver mf, recs_ok mf -> recs_ok (relab ver mf).
  Proof.
    intros ver mf H mr Hin. unfold relab in Hin. apply in_map_iff in Hin.
    destruct Hin as (mr0 & <- & Hin0). cbn [snd mr_set]. apply (H mr0 Hin0).
  Qed.

  Lemma relab_nil_iff : forall ver mf, mf = [] <-> relab ver mf = [].
  Proof. intros ver [|x l]; split; intros H; try reflexivity; discriminate. Qed.

  Theorem prune_relab : forall ver mf last n lm mgr n' lm' mgr',
    ps_ok (mr_set last) = true -> applier_record_ok s tr (mr_set last) -> recs_ok mf ->
    exists x l1 k1 l2 k2,
      prune c n (lm, M) mf mgr (Some last) = UOk ((l1, x), k1) /\
      prune c n' (lm', M) (relab ver mf) mgr' (Some (relab_rec ver last)) = UOk ((l2, x), k2) /\
      (x = M \/ exists T, nice s tr M T /\ x = remove s tr M T).
  Proof.
    intros ver mf last n lm mgr n' lm' mgr' Hlok Hlrec Hrec.
    apply prune_labels; auto.
    - apply recs_ok_relab. exact Hrec.
    - intros p. symmetry. apply owned_relab.
    - apply relab_nil_iff.
  Qed.
End PruneLabels.
