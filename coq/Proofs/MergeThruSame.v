(* Variant of Proofs/MergeThru.v without [lists_pure]: merging keeps what the left-hand
   object has where the right-hand one stops, when along the path the nodes of the two
   operands are of the same shape (both maps or both lists) -- as they are when both
   operands are parts of one object (Proofs/Partition.v). *)
From Coq Require Import List ZArith String Bool Arith Lia.
From SMD Require Import Model.Value Model.Order Model.PathElem Model.PathSet Model.Schema
  Model.Walk Model.Merge Spec.PathsAsSets Spec.RefValid Spec.Resolve Spec.Agree
  Proofs.OrderLaws Proofs.KeyLaws Proofs.PathSetLaws Proofs.SchemaOk Proofs.MergeLaws.
From SMD Require Import Proofs.FieldSetBase Proofs.FieldSetPaths Proofs.ResolveLaws
  Proofs.PesLaws Proofs.MergeBase Proofs.MergeLoop Proofs.MergeWalk Proofs.MergeConf
  Proofs.MergeInter Proofs.MergeVeqb Proofs.MergeDescent Proofs.MergeAgree.
From SMD Require Import Proofs.MergeKeeps Proofs.RemoveFrame Proofs.RefDiffBoth Proofs.MergeThru.
Import ListNotations.
Open Scope bool_scope.

Section ThruSame.
  Variables (s : schema) (R : typeref -> Prop).
  Hypothesis Hok : schema_ok s R.
  Hypothesis Hfam : family_refs s R.

  (* the nodes of l and r at q, when both are single nodes, are of the same shape *)
  Definition same_shape_at (tr : typeref) (l r : value) (q : path) : Prop :=
    match resolve_path s tr l q, resolve_path s tr r q with
    | Some (RNode _ x), Some (RNode _ y) => is_map x = is_map y /\ is_list x = is_list y
    | _, _ => True
    end.

  Lemma thru_same_w : forall f tr lo r out, R tr -> odepth lo + vdepth r < f ->
    oconf s tr true lo -> conforms s tr false r = true -> wf_value r = true -> plain r = true ->
    merge_w f s tr lo (Some r) = (false, Some out) ->
    forall l p n, lo = Some l -> wf_path p = true ->
      (forall j, j < List.length p -> interior_or_absent s tr r (firstn j p)) ->
      (forall j, j < List.length p -> same_shape_at tr l r (firstn j p)) ->
      resolve_path s tr r p = None ->
      resolve_path s tr l p = Some n -> resolve_path s tr out p = Some n.
  Proof.
    induction f as [|f IH]; intros tr lo r out HR Hd Hcl Hcr Hwr Hpl Hm l p n Hlo Hp Hint Hsh Hnone Hres; [lia|].
    destruct p as [|e p']; [simpl in Hnone; discriminate|].
    apply wf_path_cons in Hp. destruct Hp as [He Hp].
    assert (Hd' : odepth lo + odepth (Some r) < S f) by (simpl; lia).
    destruct (merge_conf_w s R Hok Hfam (S f) tr lo (Some r) out HR Hd' Hcl (conj Hcr Hwr) Hm)
      as (Hco & Hwo & _).
    pose proof Hcl as Hcl0. rewrite Hlo in Hcl0. destruct Hcl0 as [Hcll Hwll].
    pose proof (Hsh 0 ltac:(simpl; lia)) as Hsh0.
    unfold same_shape_at in Hsh0. cbn [firstn resolve_path] in Hsh0.
    pose proof (Hint 0 ltac:(simpl; lia)) as Hgr.
    unfold interior_or_absent in Hgr. cbn [firstn resolve_path] in Hgr. unfold granular in Hgr.
    destruct (kind_of s tr r) as [|mt m|t rl|] eqn:Hkr; try contradiction; clear Hgr.
    - (* granular map *)
      destruct (kind_map_inv _ _ _ _ _ Hkr) as (a & Hr & Hmt & Hrm & Hna & Hmne). subst r.
      pose proof (merge_w_rhs f s tr a lo (VMap m) out Hr Hm) as Hmm.
      rewrite (deduce_conf_map a m mt Hmt) in Hmm. cbn [handle] in Hmm.
      assert (Hne : dm lo <> [] \/ dm (Some (VMap m)) <> []) by (right; exact Hmne).
      destruct (map_descent s R Hok Hfam f tr a mt lo (Some (VMap m)) out HR Hr Hmt Hd' Hcl
                  (conj Hcr Hwr) Hna Hne Hmm) as (g & Hout & Hkne & Hg).
      change (dm (Some (VMap m))) with m in *.
      set (keys := keys_union (map fst (dm lo)) (map fst m)) in *.
      pose proof (kind_of_map s tr a mt _ Hr Hmt Hna (built_nonempty g keys Hkne)) as Hko.
      rewrite <- Hout in Hko.
      (* the live object is a map of the same type *)
      destruct (kind_of s tr l) as [|mt' lm|t' ll|] eqn:Ekl;
        try (rewrite resolve_path_leaf in Hres by (rewrite Ekl; exact I); discriminate).
      2:{ exfalso.
          destruct (kind_list_inv _ _ _ _ _ Ekl) as (a' & Hr' & Hlt' & Hl & _ & _).
          rewrite Hl in Hsh0. destruct Hsh0 as [Hsm _]. discriminate. }
      destruct (kind_map_inv _ _ _ _ _ Ekl) as (a' & Hr' & Hmt' & Hl & _ & Hlne). subst l.
      rewrite Hr in Hr'. inversion Hr'; subst a'. rewrite Hmt in Hmt'. inversion Hmt'; subst mt'.
      subst lo. change (dm (Some (VMap lm))) with lm in *.
      destruct e as [k|k|k|k];
        try (rewrite (resolve_path_map_other _ _ _ _ _ _ _ Ekl) in Hres by exact I; discriminate).
      rewrite (resolve_path_map _ _ _ _ _ _ _ Ekl) in Hres.
      destruct (assoc_get k lm) as [c|] eqn:Eg; [|discriminate].
      assert (Hk : In k keys).
      { apply keys_union_in. left. apply (assoc_get_some_keys _ lm k c Eg). }
      rewrite (resolve_path_map _ _ _ _ _ _ _ Hko).
      rewrite (assoc_get_built g keys k Hk).
      destruct (map_sub s R Hok f tr a mt (Some (VMap lm)) (Some (VMap m)) k HR Hr Hmt Hd' Hcl (conj Hcr Hwr) Hne Hk)
        as (H1 & H2 & H3 & H4 & _).
      change (dm (Some (VMap lm))) with lm in *. change (dm (Some (VMap m))) with m in *.
      pose proof (Hg k Hk) as Hmk.
      rewrite (resolve_path_map _ _ _ _ _ _ _ Hkr) in Hnone.
      rewrite Eg in *.
      destruct (assoc_get k m) as [rc|] eqn:Egr.
      + destruct H4 as [H4c H4w]. simpl in H2.
        apply (IH (field_type mt k) (Some c) rc (g k) H1 H2 H3 H4c H4w
                 (plain_map_in m k rc Hpl (assoc_get_in _ k m rc Egr)) Hmk c p' n eq_refl Hp);
          [| |exact Hnone|exact Hres].
        { intros j Hj. pose proof (Hint (S j) ltac:(simpl; lia)) as Hi.
          unfold interior_or_absent in Hi |- *. cbn [firstn] in Hi.
          rewrite (resolve_path_map _ _ _ _ _ _ _ Hkr), Egr in Hi. exact Hi. }
        { intros j Hj. pose proof (Hsh (S j) ltac:(simpl; lia)) as Hi.
          unfold same_shape_at in Hi |- *. cbn [firstn] in Hi.
          rewrite (resolve_path_map _ _ _ _ _ _ _ Hkr), Egr in Hi.
          rewrite (resolve_path_map _ _ _ _ _ _ _ Ekl), Eg in Hi. exact Hi. }
      + destruct H3 as [H3c H3w]. simpl in H2.
        rewrite (merge_absent_right s R Hok Hfam f (field_type mt k) c H1 ltac:(lia) H3c H3w) in Hmk.
        inversion Hmk as [Hgk]. rewrite <- Hgk. exact Hres.
    - (* granular list *)
      destruct (kind_list_inv _ _ _ _ _ Hkr) as (a & Hr & Hlt & Hrl & Hna & Hrlne). subst r.
      pose proof (merge_w_rhs f s tr a lo (VList rl) out Hr Hm) as Hml.
      rewrite (deduce_conf_list a rl t Hlt) in Hml. cbn [handle] in Hml.
      assert (Hne : dl lo <> [] \/ dl (Some (VList rl)) <> []) by (right; exact Hrlne).
      pose proof (list_rel_assoc t (Hfam tr a t HR Hr Hlt) Hna) as Hrel.
      destruct (list_descent s R Hok Hfam f tr a t lo (Some (VList rl)) out HR Hr Hlt Hd' Hcl
                  (conj Hcr Hwr) Hna Hne Hml) as (gR & tl & Hout & Htlne & Hil & HgR).
      destruct (list_descent_items s R Hok Hfam f tr a t lo (Some (VList rl)) gR tl HR Hr Hlt Hd' Hcl
                  (conj Hcr Hwr) Hrel Hil HgR) as (Hitems & HA).
      change (dl (Some (VList rl))) with rl in *.
      destruct (conf_list_assoc s tr a t false rl Hr Hlt Hrel Hcr) as (HpeR & HallR & HdisR).
      specialize (HdisR eq_refl).
      pose proof (elem_ok s R Hok tr a t HR Hr Hlt) as Helem.
      pose proof (so_list s R Hok tr a t HR Hr Hlt) as HRelem.
      assert (HwfpeR : forall e, In e (pes_of s t rl) -> wf_pe e = true) by (apply pes_of_wf; auto).
      assert (Hmne : map snd tl <> []) by (apply map_snd_nonempty; exact Htlne).
      pose proof (kind_of_list s tr a t _ Hr Hlt Hna Hmne) as Hko.
      subst out.
      destruct (conf_list_assoc s tr a t true (map snd tl) Hr Hlt Hrel Hco) as (HpeO & _ & _).
      (* the live object is a list of the same type *)
      destruct (kind_of s tr l) as [|mt' lm|t' ll|] eqn:Ekl;
        try (rewrite resolve_path_leaf in Hres by (rewrite Ekl; exact I); discriminate).
      1:{ exfalso.
          destruct (kind_map_inv _ _ _ _ _ Ekl) as (a' & Hr' & Hmt' & Hl & _ & _).
          rewrite Hl in Hsh0. destruct Hsh0 as [Hsm _]. discriminate. }
      destruct (kind_list_inv _ _ _ _ _ Ekl) as (a' & Hr' & Hlt' & Hl & _ & Hllne). subst l.
      rewrite Hr in Hr'. inversion Hr'; subst a'. rewrite Hlt in Hlt'. inversion Hlt'; subst t'.
      subst lo. change (dl (Some (VList ll))) with ll in *.
      destruct (conf_list_assoc s tr a t true ll Hr Hlt Hrel Hcll) as (HpeL & HallL & _).
      assert (HwfpeL : forall e, In e (pes_of s t ll) -> wf_pe e = true) by (apply pes_of_wf; auto).
      rewrite (rpl_occ s R Hok tr (VList ll) t ll e p' HR Hwll Ekl He), HpeL in Hres.
      destruct (is_keyval e) eqn:Ekv; [|discriminate]. cbn [andb] in Hres.
      rewrite (rpl_occ s R Hok tr (VList (map snd tl)) t (map snd tl) e p' HR Hwo Hko He), HpeO, Ekv.
      cbn [andb].
      rewrite (rpl_occ s R Hok tr (VList rl) t rl e p' HR Hwr Hkr He), HpeR, Ekv in Hnone.
      cbn [andb] in Hnone.
      rewrite (occ_distinct s t rl e HwfpeR HdisR He) in Hnone.
      destruct (lfind s t e rl) as [rc|] eqn:Elf.
      + pose proof Elf as Elf0.
        apply lfind_some in Elf. destruct Elf as [e' [Hin' Hee']].
        assert (Hine' : In e' (pes_of s t rl)).
        { rewrite <- ipairs_fst. apply in_map_iff. exists (e', rc). auto. }
        pose proof (HwfpeR e' Hine') as He'.
        pose proof (lfind_in s t rl e' rc HwfpeR HdisR Hin') as Hlf'.
        apply ipairs_in in Hin'. destruct Hin' as [Hinx Hpex].
        assert (Hocc : occ s t e (map snd tl) = [gR e']).
        { apply (occ_R s t ll rl gR tl HwfpeL HwfpeR HdisR Hil Hitems e e' He Hine').
          rewrite (peeqb_sym e' e He' He). exact Hee'. }
        rewrite Hocc.
        assert (Hp'ne : p' <> []) by (intros E; subst p'; simpl in Hnone; discriminate).
        assert (Hiw : items_wf s t ll) by (apply (items_wf_of s R Hok tr a t ll HR Hr Hlt); exact Hwll).
        destruct (occ s t e ll) as [|x [|y more]] eqn:Eo; [discriminate| |].
        2:{ destruct p'; [congruence|discriminate]. }
        assert (HobsL : obsL s t ll e' = Some x).
        { unfold obsL. rewrite <- (occ_cong s t ll e e' Hiw He He' Hee'), Eo. reflexivity. }
        pose proof (HgR e' Hine') as Hme. rewrite Hlf', HobsL in Hme.
        assert (Hxo : In x (occ s t e ll)) by (rewrite Eo; left; reflexivity).
        apply occ_has_pe in Hxo. destruct Hxo as [Hx _].
        pose proof (vdepth_list_in ll x Hx) as Hdx.
        pose proof (vdepth_list_in rl rc Hinx) as Hdr.
        assert (Hdep : odepth (Some x) + vdepth rc < f) by (simpl in *; lia).
        assert (Hox : oconf s (list_elem t) true (Some x)).
        { split; [rewrite forallb_forall in HallL; apply HallL; exact Hx|apply (wf_list_in ll x Hwll Hx)]. }
        assert (Hcrc : conforms s (list_elem t) false rc = true).
        { rewrite forallb_forall in HallR. apply HallR. exact Hinx. }
        apply (IH (list_elem t) (Some x) rc (gR e') HRelem Hdep Hox Hcrc (wf_list_in rl rc Hwr Hinx)
                 (plain_list_in rl rc Hpl Hinx) Hme x p' n eq_refl Hp); [| |exact Hnone|exact Hres].
        { intros j Hj. pose proof (Hint (S j) ltac:(simpl; lia)) as Hi.
          unfold interior_or_absent in Hi |- *. cbn [firstn] in Hi.
          rewrite (rpl_occ s R Hok tr (VList rl) t rl e (firstn j p') HR Hwr Hkr He), HpeR, Ekv in Hi.
          cbn [andb] in Hi.
          rewrite (occ_distinct s t rl e HwfpeR HdisR He), Elf0 in Hi. exact Hi. }
        { intros j Hj. pose proof (Hsh (S j) ltac:(simpl; lia)) as Hi.
          unfold same_shape_at in Hi |- *. cbn [firstn] in Hi.
          rewrite (rpl_occ s R Hok tr (VList rl) t rl e (firstn j p') HR Hwr Hkr He), HpeR, Ekv in Hi.
          cbn [andb] in Hi.
          rewrite (occ_distinct s t rl e HwfpeR HdisR He), Elf0 in Hi.
          rewrite (rpl_occ s R Hok tr (VList ll) t ll e (firstn j p') HR Hwll Ekl He), HpeL, Ekv in Hi.
          cbn [andb] in Hi. rewrite Eo in Hi. exact Hi. }
      + rewrite (occ_L s t ll rl gR tl HwfpeL HwfpeR Hil Hitems e He Elf). exact Hres.
  Qed.

  Theorem merge_keeps_thru_same : forall tr l r out p n,
    R tr -> wf_value l = true -> wf_value r = true ->
    conforms s tr true l = true -> conforms s tr false r = true -> plain r = true ->
    merge s tr l r = Some (Some out) ->
    wf_path p = true ->
    (forall j, j < List.length p -> interior_or_absent s tr r (firstn j p)) ->
    (forall j, j < List.length p -> same_shape_at tr l r (firstn j p)) ->
    resolve_path s tr r p = None ->
    resolve_path s tr l p = Some n -> resolve_path s tr out p = Some n.
  Proof.
    intros tr l r out p n HR Hwl Hwr Hcl Hcr Hpl Hm Hp Hint Hsh Hnone Hres.
    apply merge_inv in Hm.
    assert (Hd : odepth (Some l) + vdepth r < merge_fuel l r) by (unfold merge_fuel; simpl; lia).
    apply (thru_same_w (merge_fuel l r) tr (Some l) r out HR Hd (conj Hcl Hwl) Hcr Hwr Hpl Hm l p n eq_refl
             Hp Hint Hsh Hnone Hres).
  Qed.
End ThruSame.

