(* Removing from a merge result a set of paths that touches no node of the right-hand
   side leaves a fixed point of merging that right-hand side. *)
From Coq Require Import List ZArith String Bool Arith Lia.
From SMD Require Import Model.Value Model.Order Model.PathElem Model.PathSet Model.Schema
  Model.Walk Model.FieldSet Model.Remove Model.Merge Spec.PathsAsSets Spec.RefValid Spec.Resolve
  Spec.Agree
  Proofs.OrderLaws Proofs.KeyLaws Proofs.PathSetLaws Proofs.ValidateLaws Proofs.SchemaOk
  Proofs.FieldSetMirrors Proofs.FieldSetBase Proofs.FieldSetShape Proofs.FieldSetPaths
  Proofs.RemoveBase Proofs.ExtractBase Proofs.ExtractLaws Proofs.RemoveAbsent Proofs.RemoveWf
  Proofs.ResolveLaws Proofs.ReconcileBase Proofs.RemoveFrame Proofs.RemoveExt.
From SMD Require Import Proofs.MergeLaws Proofs.PesLaws Proofs.MergeBase Proofs.MergeLoop
  Proofs.MergeWalk Proofs.MergeConf Proofs.MergeInter Proofs.MergeVeqb Proofs.MergeDescent
  Proofs.MergeAgree.
Import ListNotations.
Open Scope bool_scope.

Local Arguments ps_has : simpl never.
Local Arguments ps_with_prefix : simpl never.
Local Arguments ps_empty : simpl never.

(* ------------------------------------------------------------------ *)
(* generic list facts *)
Lemma interleave_flat_map : forall (A B : Type) (F : A -> list B) (a b c : list A),
  interleave a b c -> interleave (flat_map F a) (flat_map F b) (flat_map F c).
Proof.
  intros A B F a b c H. induction H as [|x a b c H IH|x a b c H IH]; simpl.
  - constructor.
  - induction (F x) as [|y ys IHy]; simpl; [exact IH|constructor; exact IHy].
  - induction (F x) as [|y ys IHy]; simpl; [exact IH|constructor; exact IHy].
Qed.

Lemma flat_map_map_single : forall (A B C : Type) (F : B -> list C) (h : A -> B) (h' : A -> C) l,
  (forall x, In x l -> F (h x) = [h' x]) -> flat_map F (map h l) = map h' l.
Proof.
  intros A B C F h h' l. induction l as [|x l IH]; intros H; [reflexivity|].
  simpl. rewrite (H x (or_introl eq_refl)). simpl. f_equal. apply IH.
  intros y Hy. apply H. right. exact Hy.
Qed.

Lemma ssorted_filter : forall (p : string -> bool) l, ssorted l -> ssorted (filter p l).
Proof.
  intros p l. induction l as [|x l IH]; intros H; [exact I|].
  destruct H as [Hx Hl]. simpl. destruct (p x).
  - split; [|apply IH; exact Hl]. rewrite Forall_forall in *. intros y Hy.
    apply Hx. apply filter_In in Hy. apply Hy.
  - apply IH. exact Hl.
Qed.

(* the map loop of removal as a filter followed by a map *)
Lemma rm_map_go_filter : forall s T t m,
  rm_map_go s false T t m =
  map (fun kv : string * value => (fst kv, kept_value s T t (fst kv) (snd kv)))
      (filter (fun kv : string * value => negb (ps_has [PEField (fst kv)] T)) m).
Proof.
  intros s T t m. induction m as [|[k c] m IH]; [reflexivity|].
  rewrite rm_map_go_cons. unfold rm_map_step. cbn [fst snd filter].
  destruct (ps_has [PEField k] T); cbn [negb]; [exact IH|].
  cbn [map fst snd]. unfold kept_value.
  destruct (negb (ps_empty (ps_with_prefix (PEField k) T))); rewrite IH; reflexivity.
Qed.

Lemma rm_map_go_built : forall s T t (g : string -> value) keys,
  rm_map_go s false T t (map (fun k => (k, g k)) keys) =
  map (fun k => (k, kept_value s T t k (g k)))
      (filter (fun k => negb (ps_has [PEField k] T)) keys).
Proof.
  intros s T t g keys. rewrite rm_map_go_filter, filter_map_comm, map_map. reflexivity.
Qed.

(* the list loop of removal on tagged items *)
Definition keepF (s : schema) (T : pset) (t : listT) (it : pe * value) : list (pe * value) :=
  if ps_has [list_item_pe_or_zero s t (snd it)] T then []
  else [(fst it, kept_item s T t (snd it))].

Lemma keepF_snd : forall s T t tl,
  map snd (flat_map (keepF s T t) tl) = flat_map (keep_item s T t) (map snd tl).
Proof.
  intros s T t tl. induction tl as [|it tl IH]; [reflexivity|].
  cbn [flat_map map]. rewrite map_app, IH. f_equal.
  rewrite keep_item_kept. unfold keepF.
  destruct (ps_has [list_item_pe_or_zero s t (snd it)] T); reflexivity.
Qed.

Lemma keepF_in : forall s T t tl y, In y (flat_map (keepF s T t) tl) ->
  exists it, In it tl /\ ps_has [list_item_pe_or_zero s t (snd it)] T = false /\
    y = (fst it, kept_item s T t (snd it)).
Proof.
  intros s T t tl y H. apply in_flat_map in H. destruct H as (it & Hit & Hy).
  exists it. split; [exact Hit|]. unfold keepF in Hy.
  destruct (ps_has [list_item_pe_or_zero s t (snd it)] T); [destruct Hy|].
  destruct Hy as [Hy|[]]. split; [reflexivity|]. symmetry. exact Hy.
Qed.

Lemma plain_vmap : forall r, plain r = true -> (r = VNull \/ exists m, r = VMap m) ->
  exists m, r = VMap m /\ m <> [].
Proof.
  intros r Hp [H|[m H]]; subst r; [discriminate|]. exists m. split; [reflexivity|].
  intros E. subst m. discriminate.
Qed.

Lemma plain_vlist : forall r, plain r = true -> (r = VNull \/ exists l, r = VList l) ->
  exists l, r = VList l /\ l <> [].
Proof.
  intros r Hp [H|[l H]]; subst r; [discriminate|]. exists l. split; [reflexivity|].
  intros E. subst l. discriminate.
Qed.

Lemma touches_empty : forall p T, ps_ok T = true -> wf_path p = true -> ps_empty T = true ->
  touches p T = false.
Proof.
  intros p T HT Hp He. destruct (touches p T) eqn:E; [|reflexivity].
  apply (touches_iff p T HT Hp) in E. destruct E as (n & _ & H).
  rewrite (ps_empty_has T _ He) in H. discriminate.
Qed.

(* ------------------------------------------------------------------ *)
Section Fix.
  Variables (s : schema) (R : typeref -> Prop).
  Hypothesis Hok : schema_ok s R.
  Hypothesis Hfam : family_refs s R.
  Hypothesis Hnd : keys_nodefault s R.

  (* T touches no node of r *)
  Definition avoids (tr : typeref) (r : value) (T : pset) : Prop :=
    forall q c, wf_path q = true -> q <> [] -> resolve_path s tr r q = Some c ->
      touches q T = false.

  Lemma avoids_has : forall tr r T e c, avoids tr r T -> wf_pe e = true ->
    resolve_path s tr r [e] = Some c -> ps_has [e] T = false.
  Proof.
    intros tr r T e c Hav He Hres.
    assert (Hw : wf_path [e] = true) by (apply wf_path_cons; split; [exact He|reflexivity]).
    pose proof (Hav [e] c Hw ltac:(discriminate) Hres) as Ht.
    cbn [touches] in Ht. apply orb_false_iff in Ht. apply Ht.
  Qed.

  Lemma fix_w : forall f f' tr lo r out T, R tr -> odepth lo + vdepth r < f ->
    oconf s tr true lo -> conforms s tr false r = true -> wf_value r = true -> plain r = true ->
    merge_w f s tr lo (Some r) = (false, Some out) ->
    nice s tr out T -> sub_present s tr out T -> avoids tr r T ->
    vdepth (kept_node s tr T out) + vdepth r < f' ->
    merge_w f' s tr (Some (kept_node s tr T out)) (Some r) = (false, Some (kept_node s tr T out)).
  Proof.
    induction f as [|f IH]; intros f' tr lo r out T HR Hd Hcl Hcr Hwr Hpl Hm Hn Hsp Hav Hd2; [lia|].
    pose proof (n_ok _ _ _ _ Hn) as HT.
    destruct (ps_empty T) eqn:Ee.
    { unfold kept_node in Hd2 |- *. rewrite Ee in Hd2 |- *. cbn [negb] in Hd2 |- *.
      apply (idem_w s R Hok Hfam (S f) f' tr lo r out); auto. }
    unfold kept_node in Hd2 |- *. rewrite Ee in Hd2 |- *. cbn [negb] in Hd2 |- *.
    destruct f' as [|f']; [lia|].
    assert (Hd' : odepth lo + odepth (Some r) < S f) by (simpl; lia).
    destruct (merge_conf_w s R Hok Hfam (S f) tr lo (Some r) out HR Hd' Hcl (conj Hcr Hwr) Hm)
      as (Hco & Hwo & _).
    pose proof (remove_conforms s R Hok Hfam Hnd out tr T HR Hwo Hco Hn) as Hcx.
    pose proof (remove_items_wf s false out tr T Hwo) as Hwx.
    destruct (merge_cases f s tr false lo r out Hcr Hm)
      as [Heq|[(a & mt & Hr & Hmt & Hna & Hne & Hshape & Hmm & Hhm)|(a & t & Hr & Hlt & Hna & Hne & Hshape & Hml & Hhl)]].
    - (* out = r: T would have no member *)
      exfalso. subst out.
      destruct (ps_nonempty_witness T HT Ee) as (p & Hp & Hhas).
      pose proof (Hsp p Hp Hhas) as Hpr. unfold present in Hpr.
      destruct (resolve_path s tr r p) as [c|] eqn:Eres; [|discriminate].
      pose proof (Hav p c Hp (has_nonnil _ _ Hhas) Eres) as Ht.
      rewrite (touches_self p T HT Hp Hhas) in Ht. discriminate.
    - (* granular map *)
      destruct (plain_vmap r Hpl Hshape) as (rm & Er & Hrmne). subst r.
      destruct (map_descent s R Hok Hfam f tr a mt lo (Some (VMap rm)) out HR Hr Hmt Hd' Hcl
                  (conj Hcr Hwr) Hna Hne Hmm) as (g & Hout & Hkne & Hg).
      change (dm (Some (VMap rm))) with rm in *.
      set (keys := keys_union (map fst (dm lo)) (map fst rm)) in *.
      set (om := map (fun k => (k, g k)) keys) in *.
      assert (Homne : om <> []) by (apply built_nonempty; exact Hkne).
      pose proof (kind_of_map s tr a mt rm Hr Hmt Hna Hrmne) as Hkr.
      pose proof (kind_of_map s tr a mt om Hr Hmt Hna Homne) as Hko.
      subst out.
      set (keep := fun k : string => negb (ps_has [PEField k] T)).
      set (g' := fun k : string => kept_value s T mt k (g k)).
      set (keys' := filter keep keys).
      set (om' := map (fun k => (k, g' k)) keys').
      (* every key of r survives *)
      assert (Hrkeep : forall k rk, assoc_get k rm = Some rk -> ps_has [PEField k] T = false).
      { intros k rk Eg. apply (avoids_has tr (VMap rm) T (PEField k) (RNode (field_type mt k) rk) Hav eq_refl).
        rewrite (resolve_path_map _ _ _ _ _ _ _ Hkr), Eg. reflexivity. }
      assert (Hrin : forall k, In k (map fst rm) -> In k keys').
      { intros k Hk. destruct (assoc_get k rm) as [rk|] eqn:Eg.
        - apply filter_In. split; [apply keys_union_in; right; exact Hk|].
          unfold keep. rewrite (Hrkeep k rk Eg). reflexivity.
        - exfalso. revert Eg. apply assoc_get_in_keys. exact Hk. }
      assert (Hk'ne : keys' <> []).
      { destruct rm as [|[k0 c0] rm0]; [congruence|].
        intros E. pose proof (Hrin k0 (or_introl eq_refl)) as Hin. rewrite E in Hin. destruct Hin. }
      assert (Hom'ne : om' <> []) by (apply built_nonempty; exact Hk'ne).
      assert (Hx : remove_items s false tr T (VMap om) = VMap om').
      { destruct a as [sc li ma]. simpl in Hmt. subst ma.
        rewrite (remove_items_vmap' s false tr T sc li mt om Hr Homne), Hna.
        unfold om at 1. rewrite rm_map_go_built.
        change (match om' with [] => VNull | p :: l => VMap (p :: l) end = VMap om').
        destruct om'; [congruence|reflexivity]. }
      rewrite Hx in *.
      destruct (merge_total_w s R Hok Hfam (S f') tr (Some (VMap om')) (Some (VMap rm)) HR) as [out' Hm'];
        [simpl; simpl in Hd2; lia|split; assumption|split; assumption|left; discriminate|].
      pose proof (merge_w_rhs f' s tr a (Some (VMap om')) (VMap rm) out' Hr Hm') as Hh'. rewrite Hhm in Hh'.
      simpl handle in Hh'.
      assert (Hsk : ssorted keys).
      { apply keys_union_sorted; apply sorted_keys_ssorted.
        - apply (dm_sorted s tr true lo Hcl).
        - apply (dm_sorted s tr false (Some (VMap rm)) (conj Hcr Hwr)). }
      assert (Hkeys2 : keys_union (map fst om') (map fst rm) = keys').
      { unfold om'. rewrite map_fst_built. apply keys_union_absorb.
        - apply ssorted_filter. exact Hsk.
        - apply sorted_keys_ssorted. apply (dm_sorted s tr false (Some (VMap rm)) (conj Hcr Hwr)).
        - exact Hrin. }
      assert (Hsub : forall k, In k keys' ->
                merge_w f' s (field_type mt k) (assoc_get k om') (assoc_get k rm) = (false, Some (g' k))).
      { intros k Hk'. unfold om'. rewrite (assoc_get_built g' keys' k Hk').
        apply filter_In in Hk'. destruct Hk' as [Hk Hkeep].
        assert (Hno : ps_has [PEField k] T = false) by (unfold keep in Hkeep; apply negb_true_iff; exact Hkeep).
        destruct (map_sub s R Hok f tr a mt lo (Some (VMap rm)) k HR Hr Hmt Hd' Hcl (conj Hcr Hwr) Hne Hk)
          as (H1 & H2 & H3 & H4 & H5).
        change (dm (Some (VMap rm))) with rm in *.
        assert (Hgo : assoc_get k om = Some (g k)) by (apply assoc_get_built; exact Hk).
        assert (Hdg : vdepth (g' k) < vdepth (VMap om')).
        { apply (vdepth_map_in om' k (g' k)). unfold om'. apply in_map_iff. exists k. split; [reflexivity|].
          apply filter_In. auto. }
        pose proof (Hg k Hk) as Hgk.
        destruct (assoc_get k rm) as [rk|] eqn:Eg.
        - destruct H4 as [H4c H4w]. simpl in H2.
          change (g' k) with (kept_node s (field_type mt k) (ps_with_prefix (PEField k) T) (g k)) in *.
          apply (IH f' (field_type mt k) (assoc_get k (dm lo)) rk (g k) (ps_with_prefix (PEField k) T)); auto.
          + apply (plain_map_in rm k rk Hpl (assoc_get_in _ k rm rk Eg)).
          + apply (nice_map_child s tr om T mt k (g k) Hn Hko Hgo Hno).
          + apply (sub_present_map_child s tr (VMap om) T mt om k (g k) HT Hko Hgo Hsp).
          + intros q c Hq Hqne Hres.
            assert (Hw : wf_path (PEField k :: q) = true) by (apply wf_path_cons; split; [reflexivity|exact Hq]).
            pose proof (Hav (PEField k :: q) c Hw ltac:(discriminate)) as Ht.
            rewrite (resolve_path_map _ _ _ _ _ _ _ Hkr), Eg in Ht. specialize (Ht Hres).
            cbn [touches] in Ht. apply orb_false_iff in Ht. apply Ht.
          + assert (Hdr : vdepth rk < vdepth (VMap rm)).
            { apply (vdepth_map_in rm k rk). apply (assoc_get_in _ k rm rk Eg). }
            lia.
        - pose proof (oconf_dm s tr true a mt (Some (VMap om')) k Hr Hmt (conj Hcx Hwx)) as Hoc.
          change (dm (Some (VMap om'))) with om' in Hoc. unfold om' in Hoc.
          rewrite (assoc_get_built g' keys' k) in Hoc by (apply filter_In; auto).
          destruct Hoc as [Hoc1 Hoc2].
          apply (merge_absent_right s R Hok Hfam); auto. lia. }
      assert (Hgoal : merge_map f' s mt (Some (VMap om')) (Some (VMap rm)) = (false, Some (VMap om'))).
      { unfold merge_map. rewrite Hna.
        rewrite (dm_empty_iff (Some (VMap om')) (Some (VMap rm))) by (left; exact Hom'ne).
        simpl orb. cbv iota.
        change (dm (Some (VMap om'))) with om'. change (dm (Some (VMap rm))) with rm.
        rewrite Hkeys2, (fold_map_ok f' s mt om' rm g' keys' false [] Hsub). simpl app. fold om'.
        destruct om'; [congruence|reflexivity]. }
      rewrite Hgoal in Hh'. inversion Hh'; subst out'. exact Hm'.
    - (* granular list *)
      destruct (plain_vlist r Hpl Hshape) as (rl & Er & Hrlne). subst r.
      pose proof (list_rel_assoc t (Hfam tr a t HR Hr Hlt) Hna) as Hrel.
      destruct (list_descent s R Hok Hfam f tr a t lo (Some (VList rl)) out HR Hr Hlt Hd' Hcl
                  (conj Hcr Hwr) Hna Hne Hml) as (gR & tl & Hout & Htlne & Hil & HgR).
      destruct (list_descent_items s R Hok Hfam f tr a t lo (Some (VList rl)) gR tl HR Hr Hlt Hd' Hcl
                  (conj Hcr Hwr) Hrel Hil HgR) as (Hitems & HA).
      change (dl (Some (VList rl))) with rl in *.
      set (res := map snd tl) in *.
      assert (Hresne : res <> []) by (apply map_snd_nonempty; exact Htlne).
      destruct (oconf_dl s tr a t true lo Hr Hlt Hrel Hcl) as (HpeL & HallL & HwL & _).
      destruct (conf_list_assoc s tr a t false rl Hr Hlt Hrel Hcr) as (HpeR & HallR & HdisR).
      specialize (HdisR eq_refl).
      assert (HwR : forallb wf_value rl = true) by exact Hwr.
      pose proof (elem_ok s R Hok tr a t HR Hr Hlt) as Helem.
      pose proof (so_list s R Hok tr a t HR Hr Hlt) as HRelem.
      assert (HwfpeL : forall e, In e (pes_of s t (dl lo)) -> wf_pe e = true) by (apply pes_of_wf; auto).
      assert (HwfpeR : forall e, In e (pes_of s t rl) -> wf_pe e = true) by (apply pes_of_wf; auto).
      subst out.
      pose proof (kind_of_list s tr a t res Hr Hlt Hna Hresne) as Hko.
      destruct (conf_list_assoc s tr a t true res Hr Hlt Hrel Hco) as (HpeO & HallO & _).
      assert (HwO : forallb wf_value res = true) by exact Hwo.
      assert (HiwO : items_wf s t res) by (apply (items_wf_of s R Hok tr a t res HR Hr Hlt HwO)).
      pose proof (kept_items_pe s R Hok Hfam Hnd tr true t res T HR Hwo Hco Hko Hn) as Hkept.
      (* resolution of a path through a member of r *)
      assert (HresR : forall e0 c q, In e0 (pes_of s t rl) -> lfind s t e0 rl = Some c ->
                resolve_path s tr (VList rl) (e0 :: q) = resolve_path s (list_elem t) c q).
      { intros e0 c q Hin Hlf.
        apply (resolve_member s R Hok Hfam tr a t false rl e0 c q HR Hr Hlt Hna Hcr Hwr (HwfpeR e0 Hin)).
        rewrite (occ_distinct s t rl e0 HwfpeR HdisR (HwfpeR e0 Hin)), Hlf. reflexivity. }
      (* no member of r is removed *)
      assert (HnoR : forall e0 ey, In e0 (pes_of s t rl) -> wf_pe ey = true -> peeqb ey e0 = true ->
                ps_has [ey] T = false).
      { intros e0 ey Hin Hwy Heqy. pose proof (HwfpeR e0 Hin) as Hw0.
        destruct (HA e0 Hin) as (c & Hinc & Hpec & Hlf & _).
        rewrite (ps_has_patheqb T [ey] [e0] HT).
        - apply (avoids_has tr (VList rl) T e0 (RNode (list_elem t) c) Hav Hw0).
          rewrite (HresR e0 c [] Hin Hlf). reflexivity.
        - apply wf_path_cons. split; [exact Hwy|reflexivity].
        - apply wf_path_cons. split; [exact Hw0|reflexivity].
        - simpl. rewrite Heqy. reflexivity. }
      set (gR' := fun e => kept_item s T t (gR e)).
      set (A := map (fun e => (e, gR e)) (pes_of s t rl)) in *.
      set (B := filter (notR_of s t rl) (ipairs s t (dl lo))) in *.
      set (A' := map (fun e => (e, gR' e)) (pes_of s t rl)).
      set (tl' := flat_map (keepF s T t) tl).
      set (res' := map snd tl').
      assert (Hres'eq : res' = flat_map (keep_item s T t) res) by (apply keepF_snd).
      pose proof Hitems as Hitems0. rewrite Forall_forall in Hitems0.
      assert (HinA : forall e0, In e0 (pes_of s t rl) -> In (e0, gR e0) tl).
      { intros e0 Hin. apply (interleave_in _ _ _ _ (e0, gR e0) Hil). left.
        unfold A. apply in_map_iff. exists e0. auto. }
      assert (HA'eq : flat_map (keepF s T t) A = A').
      { unfold A, A'. apply flat_map_map_single. intros e0 Hin.
        destruct (Hitems0 _ (HinA e0 Hin)) as (Hw0 & ey & Hpey & Hwy & Heqy).
        simpl in Hw0, Hpey, Heqy. unfold keepF. cbn [fst snd].
        rewrite (list_item_pe_or_zero_some s t _ ey Hpey), (HnoR e0 ey Hin Hwy Heqy). reflexivity. }
      pose proof (interleave_flat_map _ _ (keepF s T t) _ _ _ Hil) as Hil'.
      rewrite HA'eq in Hil'. fold tl' in Hil'.
      set (B' := flat_map (keepF s T t) B) in *.
      (* the result of the removal is the list of the kept members *)
      assert (Htl'ne : tl' <> []).
      { destruct rl as [|c0 rl0]; [congruence|].
        cbn [forallb] in HpeR. apply andb_true_iff in HpeR. destruct HpeR as [Hc0 _].
        unfold has_pe in Hc0. destruct (list_item_to_pe s t c0) as [e0|] eqn:E0; [|discriminate].
        assert (Hin : In (e0, gR' e0) tl').
        { apply (interleave_in _ _ _ _ (e0, gR' e0) Hil'). left. unfold A'.
          apply in_map_iff. exists e0. split; [reflexivity|].
          unfold pes_of. cbn [map]. unfold MergeBase.pes_of. simpl. rewrite E0. left. reflexivity. }
        intros E. rewrite E in Hin. destruct Hin. }
      assert (Hres'ne : res' <> []) by (apply map_snd_nonempty; exact Htl'ne).
      assert (Hx : remove_items s false tr T (VList res) = VList res').
      { destruct a as [sc li ma]. simpl in Hlt. subst li.
        rewrite (remove_items_vlist' s false tr T sc t ma res Hr Hresne), Hna, rm_list_go_flat.
        rewrite <- Hres'eq. destruct res'; [congruence|reflexivity]. }
      rewrite Hx in *.
      destruct (conf_list_assoc s tr a t true res' Hr Hlt Hrel Hcx) as (HpeO' & HallO' & _).
      assert (HwO' : forallb wf_value res' = true) by exact Hwx.
      assert (HwfpeO' : forall e, In e (pes_of s t res') -> wf_pe e = true) by (apply pes_of_wf; auto).
      (* the kept members are tagged as before *)
      assert (Hitems' : Forall (MergeDescent.item_ok s t) tl').
      { apply Forall_forall. intros y Hy. apply keepF_in in Hy.
        destruct Hy as (it & Hit & Hno & Ey). subst y.
        destruct (Hitems0 it Hit) as (Hw0 & ey & Hpey & Hwy & Heqy).
        rewrite (list_item_pe_or_zero_some s t _ ey Hpey) in Hno.
        split; [exact Hw0|]. exists ey. cbn [fst snd]. split; [|split; assumption].
        apply Hkept; auto. unfold res. apply in_map. exact Hit. }
      destruct (merge_total_w s R Hok Hfam (S f') tr (Some (VList res')) (Some (VList rl)) HR) as [out' Hm'];
        [simpl; simpl in Hd2; lia|split; assumption|split; assumption|left; discriminate|].
      pose proof (merge_w_rhs f' s tr a (Some (VList res')) (VList rl) out' Hr Hm') as Hh'. rewrite Hhl in Hh'.
      simpl handle in Hh'.
      destruct (index_nodup s t false rl [] [] false (pem_ok_nil _) HwfpeR HpeR HdisR)
        as [oR [HidxR [HoR HgetR]]].
      { intros e _. apply pem_get_nil. }
      destruct (index_dup_occ s t res' [] [] false (pem_ok_nil _) HwfpeO' HpeO')
        as [oL [HidxL [HoL HgetL]]].
      assert (HgetR' : forall x, wf_pe x = true -> pem_get x oR = lfind s t x rl).
      { intros x Hx0. rewrite (HgetR x Hx0), pem_get_nil. destruct (lfind s t x rl); reflexivity. }
      assert (HgetL' : forall x, wf_pe x = true -> pem_get x oL = obsL s t res' x).
      { intros x Hx0. rewrite (HgetL x Hx0), pem_get_nil. apply obs_of_none. }
      assert (Hgoal : merge_list f' s t (Some (VList res')) (Some (VList rl)) = (false, Some (VList res'))).
      { unfold merge_list. rewrite Hna.
        rewrite (dl_empty_iff (Some (VList res')) (Some (VList rl))) by (left; exact Hres'ne).
        simpl orb. cbv iota.
        change (dl (Some (VList res'))) with res'. change (dl (Some (VList rl))) with rl.
        rewrite HidxR. cbv beta iota. rewrite HidxL. cbv beta iota. simpl orb. cbv iota. simpl app.
        destruct (pop_shared (shared_order oL (pes_of s t rl))) as [ns so].
        rewrite (ipairs_combine s t res' HpeO').
        unfold res' at 2. rewrite (ipairs_map_snd s t tl' Hitems').
        set (M := merge_w f' s (list_elem t)).
        change (fun _ : pe => M) with (mi_of M).
        replace (pes_of s t rl) with (map fst A')
          by (unfold A'; rewrite map_map; simpl; apply map_id).
        change (fun it : pe * value =>
                  (match list_item_to_pe s t (snd it) with Some e => e | None => fst it end, snd it))
          with (fun it : pe * value => (ap_of s t it, snd it)).
        rewrite (loop_replay M oL oR HoR (ap_of s t) A' B' tl' Hil').
        - simpl app. fold res'. destruct res'; [congruence|reflexivity].
        - (* merged right-hand members *)
          intros x Hx0. unfold A' in Hx0.
          apply in_map_iff in Hx0. destruct Hx0 as [e0 [Hx0 Hin]]. subst x. cbn [fst snd].
          destruct (Hitems0 _ (HinA e0 Hin)) as (Hw0 & ey & Hpey & Hwy & Heqy).
          cbn [fst snd] in Hw0, Hpey, Heqy.
          pose proof (HnoR e0 ey Hin Hwy Heqy) as Hnoy.
          assert (Hinres : In (gR e0) res).
          { unfold res. apply in_map_iff. exists (e0, gR e0). split; [reflexivity|]. apply HinA. exact Hin. }
          assert (Hpey' : list_item_to_pe s t (gR' e0) = Some ey) by (apply Hkept; auto).
          assert (Hap : ap_of s t (e0, gR' e0) = ey) by (unfold ap_of; cbn [snd]; rewrite Hpey'; reflexivity).
          rewrite Hap.
          destruct (HA e0 Hin) as (c & Hinc & Hpec & Hlf & Hcc & Hwc & Hcg & Hwg).
          split; [exact Hw0|]. split; [exact Hwy|]. split; [exact Heqy|]. split.
          + rewrite (HgetR' e0 Hw0), Hlf. discriminate.
          + rewrite (pem_get_cong _ ey e0 oR HoR Hwy Hw0 Heqy), (HgetR' e0 Hw0), Hlf.
            rewrite (HgetL' ey Hwy). unfold obsL.
            assert (Heq0 : peeqb e0 ey = true) by (rewrite (peeqb_sym e0 ey Hw0 Hwy); exact Heqy).
            assert (Hocc : occ s t ey res = [gR e0]).
            { apply (occ_R s t (dl lo) rl gR tl HwfpeL HwfpeR HdisR Hil Hitems ey e0 Hwy Hin Heq0). }
            rewrite Hres'eq, (occ_kept s t T ey res HT Hwy HpeO HiwO Hkept), Hnoy, Hocc.
            cbn [map].
            destruct (obsL_ok s tr a t lo e0 Hr Hlt Hrel Hcl) as (Ho1 & Ho2 & _).
            pose proof (HgR e0 Hin) as Hme. rewrite Hlf in Hme.
            assert (Hdc : vdepth c < vdepth (VList rl)) by (apply vdepth_list_in; exact Hinc).
            assert (HgR'eq : kept_item s T t (gR e0) =
                             kept_node s (list_elem t) (ps_with_prefix ey T) (gR e0)).
            { unfold kept_item, kept_node. rewrite (list_item_pe_or_zero_some s t _ ey Hpey). reflexivity. }
            assert (Hdg : vdepth (gR' e0) < vdepth (VList res')).
            { apply vdepth_list_in. unfold res'. apply in_map_iff. exists (e0, gR' e0). split; [reflexivity|].
              apply (interleave_in _ _ _ _ (e0, gR' e0) Hil'). left. unfold A'.
              apply in_map_iff. exists e0. auto. }
            change (gR' e0) with (kept_item s T t (gR e0)) in Hdg |- *. rewrite HgR'eq in Hdg |- *.
            destruct (ps_with_prefix_spec ey T HT Hwy) as [HTy _].
            destruct (ps_with_prefix_spec e0 T HT Hw0) as [HT0 _].
            apply (IH f' (list_elem t) (obsL s t (dl lo) e0) c (gR e0) (ps_with_prefix ey T)); auto.
            * lia.
            * apply (plain_list_in rl c Hpl Hinc).
            * apply (nice_item_child s tr res T t (gR e0) ey Hn Hko Hinres Hpey Hwy Hnoy).
            * apply (sub_present_item_child s R Hok tr (VList res) T t res (gR e0) ey HR Hwo HT Hko HpeO Hwy
                       (lipe_keyval s t _ ey Hpey) Hocc Hsp).
            * intros q n Hq Hqne Hres.
              rewrite (touches_ext q (ps_with_prefix ey T) (ps_with_prefix e0 T) HTy HT0 Hq
                         (with_prefix_cong T ey e0 HT Hwy Hw0 Heqy)).
              assert (Hw : wf_path (e0 :: q) = true) by (apply wf_path_cons; split; assumption).
              pose proof (Hav (e0 :: q) n Hw ltac:(discriminate)) as Ht.
              rewrite (HresR e0 c q Hin Hlf) in Ht. specialize (Ht Hres).
              cbn [touches] in Ht. apply orb_false_iff in Ht. apply Ht.
            * lia.
        - (* left-only members *)
          intros x Hx0. unfold B' in Hx0. apply keepF_in in Hx0.
          destruct Hx0 as ([e1 c1] & Hit & Hno & Ex). cbn [fst snd] in Hno, Ex. subst x. cbn [fst snd].
          assert (Hxtl : In (e1, c1) tl) by (apply (interleave_in _ _ _ _ (e1, c1) Hil); right; exact Hit).
          unfold B in Hit. apply filter_In in Hit. destruct Hit as [Hit Hnr].
          pose proof (ipairs_in s t _ e1 c1 Hit) as [Hinc Hpec].
          assert (Hw1 : wf_pe e1 = true).
          { apply HwfpeL. rewrite <- ipairs_fst. apply in_map_iff. exists (e1, c1). auto. }
          rewrite (list_item_pe_or_zero_some s t _ e1 Hpec) in Hno.
          assert (Hinres : In c1 res).
          { unfold res. apply in_map_iff. exists (e1, c1). auto. }
          assert (Hpe1' : list_item_to_pe s t (kept_item s T t c1) = Some e1) by (apply Hkept; auto).
          assert (Hin' : In (kept_item s T t c1) res').
          { rewrite Hres'eq. apply in_flat_map. exists c1. split; [exact Hinres|].
            rewrite keep_item_kept, (list_item_pe_or_zero_some s t _ e1 Hpec), Hno. left. reflexivity. }
          split; [exact Hw1|]. split; [unfold ap_of; cbn [snd]; rewrite Hpe1'; reflexivity|]. split.
          + rewrite (HgetR' e1 Hw1). unfold notR_of in Hnr. simpl in Hnr.
            destruct (lfind s t e1 rl); [discriminate|reflexivity].
          + assert (Hdc : vdepth (kept_item s T t c1) < vdepth (VList res'))
              by (apply vdepth_list_in; exact Hin').
            apply (merge_absent_right s R Hok Hfam); auto.
            * lia.
            * rewrite forallb_forall in HallO'. apply HallO'. exact Hin'.
            * rewrite forallb_forall in HwO'. apply HwO'. exact Hin'.
        - assert (Hlen : List.length res' = List.length tl') by (unfold res'; apply map_length).
          lia. }
      rewrite Hgoal in Hh'. inversion Hh'; subst out'. exact Hm'.
  Qed.

End Fix.

(* ------------------------------------------------------------------ *)
Theorem merge_remove_fixed : forall s R tr l r M T,
  schema_ok s R -> family_refs s R -> keys_nodefault s R -> R tr ->
  wf_value l = true -> wf_value r = true ->
  conforms s tr true l = true -> conforms s tr false r = true -> plain r = true ->
  granular s tr r ->
  merge s tr l r = Some (Some M) ->
  nice s tr M T -> sub_present s tr M T ->
  (forall q c, wf_path q = true -> q <> [] -> resolve_path s tr r q = Some c -> touches q T = false) ->
  merge s tr (remove s tr M T) r = Some (Some (remove s tr M T)).
Proof.
  intros s R tr l r M T Hok Hfam Hnd HR Hwl Hwr Hcl Hcr Hpl Hgr Hm Hn Hsp Hav.
  pose proof (merge_conforms s R tr l r M Hok Hfam HR Hwl Hwr Hcl Hcr Hm) as [HcM HwM].
  pose proof (n_ok _ _ _ _ Hn) as HT.
  apply merge_inv in Hm.
  assert (Hfix : forall f', vdepth (kept_node s tr T M) + vdepth r < f' ->
            merge_w f' s tr (Some (kept_node s tr T M)) (Some r) = (false, Some (kept_node s tr T M))).
  { intros f' Hf'.
    apply (fix_w s R Hok Hfam Hnd (merge_fuel l r) f' tr (Some l) r M T); auto.
    - unfold merge_fuel. simpl. lia.
    - split; assumption. }
  assert (Hrem : remove s tr M T = kept_node s tr T M).
  { unfold remove, kept_node. destruct (ps_empty T) eqn:Ee; cbn [negb]; [|reflexivity].
    (* nothing to remove: M is granular, so removal is the identity *)
    assert (HgM : granular s tr M).
    { destruct (merge_cases (S (vdepth l + vdepth r)) s tr false (Some l) r M Hcr Hm)
        as [Heq|[(a & mt & Hr & Hmt & Hna & Hne & Hshape & Hmm & Hhm)|(a & t & Hr & Hlt & Hna & Hne & Hshape & Hml & Hhl)]].
      - subst M. exact Hgr.
      - assert (Hd' : odepth (Some l) + odepth (Some r) < S (S (vdepth l + vdepth r))) by (simpl; lia).
        destruct (map_descent s R Hok Hfam _ tr a mt (Some l) (Some r) M HR Hr Hmt Hd' (conj Hcl Hwl)
                    (conj Hcr Hwr) Hna Hne Hmm) as (g & Hout & Hkne & _).
        subst M. unfold granular.
        rewrite (kind_of_map s tr a mt _ Hr Hmt Hna (built_nonempty g _ Hkne)). exact I.
      - assert (Hd' : odepth (Some l) + odepth (Some r) < S (S (vdepth l + vdepth r))) by (simpl; lia).
        destruct (list_descent s R Hok Hfam _ tr a t (Some l) (Some r) M HR Hr Hlt Hd' (conj Hcl Hwl)
                    (conj Hcr Hwr) Hna Hne Hml) as (gR & tl & Hout & Htlne & _).
        subst M. unfold granular.
        rewrite (kind_of_list s tr a t _ Hr Hlt Hna (map_snd_nonempty tl Htlne)). exact I. }
    rewrite (remove_ext s R Hok Hfam M tr true T ps_empty_set HR HwM HcM HT ps_ok_empty Hsp).
    - apply (remove_nothing_gen s tr M HgM).
    - intros p Hp Hhas. rewrite (ps_empty_has ps_empty_set p) in Hhas by reflexivity. discriminate.
    - intros q Hq Hqne _. rewrite (touches_empty q T HT Hq Ee).
      rewrite (touches_empty q ps_empty_set ps_ok_empty Hq) by reflexivity. reflexivity. }
  rewrite Hrem. apply merge_of_w. apply Hfix. unfold merge_fuel. lia.
Qed.

