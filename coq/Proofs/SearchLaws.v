(* Laws of the bisection of Base/Search.v and positional list helpers. *)
From Coq Require Import List Arith Lia Bool.
From SMD Require Import Base.Search.
Import ListNotations.

Definition monotone (n : nat) (f : nat -> bool) :=
  forall i j, i <= j -> j < n -> f i = true -> f j = true.

Lemma div2_mid : forall i j, i < j -> i <= Nat.div2 (i + j) /\ Nat.div2 (i + j) < j.
Proof.
  intros i j Hij.
  rewrite Nat.div2_div.
  pose proof (Nat.div_mod (i + j) 2) as Hdm.
  pose proof (Nat.mod_upper_bound (i + j) 2) as Hub.
  lia.
Qed.

Lemma search_go_inv : forall n f, monotone n f ->
  forall fuel i j, i <= j -> j <= n -> j - i < fuel ->
  (forall k, k < i -> f k = false) ->
  (j < n -> f j = true) ->
  i <= search_go fuel f i j /\ search_go fuel f i j <= j /\
  (forall k, k < search_go fuel f i j -> f k = false) /\
  (search_go fuel f i j < n -> f (search_go fuel f i j) = true).
Proof.
  intros n f Hmono fuel.
  induction fuel as [|fuel IH]; intros i j Hij Hjn Hfuel Hlow Hhigh.
  - lia.
  - simpl. destruct (Nat.ltb i j) eqn:Hlt.
    + apply Nat.ltb_lt in Hlt.
      destruct (div2_mid i j Hlt) as [Hm1 Hm2].
      remember (Nat.div2 (i + j)) as h eqn:Hh.
      destruct (f h) eqn:Hfh.
      * destruct (IH i h) as (R1 & R2 & R3 & R4); try lia; auto.
        repeat split; auto; lia.
      * destruct (IH (S h) j) as (R1 & R2 & R3 & R4); try lia; auto.
        { intros k Hk. destruct (f k) eqn:Hfk; auto.
          assert (f h = true) as Habs by (apply (Hmono k h); auto; lia).
          congruence. }
        repeat split; auto; lia.
    + apply Nat.ltb_ge in Hlt. assert (i = j) by lia. subst j.
      repeat split; auto.
Qed.

Lemma search_spec : forall n f, monotone n f ->
  search n f <= n /\
  (forall k, k < search n f -> f k = false) /\
  (search n f < n -> f (search n f) = true).
Proof.
  intros n f Hmono. unfold search.
  destruct (search_go_inv n f Hmono (S n) 0 n) as (R1 & R2 & R3 & R4); try lia.
  repeat split; auto.
Qed.

Lemma search_go_ext : forall n f g, (forall k, k < n -> f k = g k) ->
  forall fuel i j, j <= n -> search_go fuel f i j = search_go fuel g i j.
Proof.
  intros n f g Hext fuel.
  induction fuel as [|fuel IH]; intros i j Hjn; simpl; auto.
  destruct (Nat.ltb i j) eqn:Hlt; auto.
  apply Nat.ltb_lt in Hlt.
  destruct (div2_mid i j Hlt) as [Hm1 Hm2].
  rewrite <- (Hext (Nat.div2 (i + j))) by lia.
  destruct (f (Nat.div2 (i + j))); apply IH; lia.
Qed.

Lemma search_ext : forall n f g, (forall k, k < n -> f k = g k) -> search n f = search n g.
Proof.
  intros n f g Hext. unfold search. apply (search_go_ext n); auto.
Qed.

(* ---- positional helpers ---- *)
Lemma skipn_S_tl : forall (A : Type) n (l : list A), skipn (S n) l = tl (skipn n l).
Proof.
  intros A n. induction n as [|n IH]; intros l.
  - destruct l; reflexivity.
  - destruct l as [|a l]; [reflexivity|]. change (skipn (S n) l = tl (skipn n l)). apply IH.
Qed.

Lemma nth_error_skipn_hd : forall (A : Type) n (l : list A), nth_error l n = hd_error (skipn n l).
Proof.
  intros A n. induction n as [|n IH]; intros l.
  - destruct l; reflexivity.
  - destruct l as [|a l]; [reflexivity|]. simpl. apply IH.
Qed.

Lemma nth_skipn_hd : forall (A : Type) n (l : list A) d, nth n l d = hd d (skipn n l).
Proof.
  intros A n. induction n as [|n IH]; intros l d.
  - destruct l; reflexivity.
  - destruct l as [|a l]; [reflexivity|]. simpl. apply IH.
Qed.

Lemma skipn_nil_iff : forall (A : Type) n (l : list A), n <= length l ->
  (skipn n l = [] <-> n = length l).
Proof.
  intros A n. induction n as [|n IH]; intros l Hn.
  - simpl. destruct l; simpl; split; intros; try discriminate; auto.
  - destruct l as [|a l]; simpl in *; [lia|].
    rewrite IH by lia. lia.
Qed.

Lemma nth_error_nth_default : forall (A : Type) (l : list A) k d, k < length l ->
  nth_error l k = Some (nth k l d).
Proof.
  intros A l. induction l as [|a l IH]; intros k d Hk; simpl in *; [lia|].
  destruct k; simpl; auto. apply IH. lia.
Qed.
