(* Set.EnsureNamedFieldsAreMembers ([ps_en]) as a set of paths:
   it keeps the set well formed ([ps_en_ok]), keeps every member ([en_has_mono]) and
   adds exactly the proper prefixes of members that end in a declared (named) field of
   the map type found by walking the schema along the path ([en_has_iff]). *)
From Coq Require Import List ZArith String Bool Arith Lia.
From SMD Require Import Model.Value Model.Order Model.PathElem Model.PathSet Model.Schema
  Model.Walk Model.FieldSet Spec.PathsAsSets
  Proofs.OrderLaws Proofs.KeyLaws Proofs.PesLaws Proofs.TrieBase Proofs.PathSetLaws.
Import ListNotations.
Open Scope bool_scope.

Local Arguments ps_has : simpl never.
Local Arguments ps_empty : simpl never.

Definition atom_at (s : schema) (tr : typeref) : atom :=
  match resolve s tr with Some a => a | None => empty_atom end.

(* k is a declared field of the map type tr resolves to *)
Definition named (s : schema) (tr : typeref) (k : string) : bool :=
  match atom_at s tr with Atom _ _ (Some mt) => has_field mt k | _ => false end.

(* the type reference [ps_en] works with after descending along p *)
Fixpoint en_type (s : schema) (tr : typeref) (p : path) : typeref :=
  match p with
  | [] => tr
  | e :: rest => en_type s (en_child_tr (atom_at s tr) e) rest
  end.

Lemma en_type_app : forall s p q tr, en_type s tr (p ++ q) = en_type s (en_type s tr p) q.
Proof. intros s p. induction p as [|e p IH]; intros q tr; [reflexivity|]. simpl. apply IH. Qed.

Lemma en_child_tr_cong : forall a e e', peeqb e e' = true -> en_child_tr a e = en_child_tr a e'.
Proof.
  intros a e e' H. destruct e, e'; simpl in H; try discriminate; try reflexivity.
  apply String.eqb_eq in H. subst. reflexivity.
Qed.

(* ---------- the member step ---------- *)

Definition en_step (a : atom) (acc : pes) (ec : pe * pset) : pes :=
  match fst ec, a with
  | PEField n, Atom _ _ (Some mt) => if has_field mt n then pes_insert (PEField n) acc else acc
  | _, _ => acc
  end.

Definition en_adds (a : atom) (x : pe) (ec : pe * pset) : bool :=
  match fst ec, a with
  | PEField n, Atom _ _ (Some mt) => has_field mt n && peeqb x (PEField n)
  | _, _ => false
  end.

Lemma ps_en_unfold : forall s tr m c,
  ps_en s tr (PSet m c) =
  PSet (fold_left (en_step (atom_at s tr)) c m)
       (map (fun ec => (fst ec, ps_en s (en_child_tr (atom_at s tr) (fst ec)) (snd ec))) c).
Proof. intros s tr m c. reflexivity. Qed.

Lemma en_fold_spec : forall a c m, sorted_pes m = true -> PesLaws.wf_pes m = true ->
  sorted_pes (fold_left (en_step a) c m) = true /\
  PesLaws.wf_pes (fold_left (en_step a) c m) = true /\
  forall x, wf_pe x = true ->
    PesLaws.pes_mem x (fold_left (en_step a) c m) = PesLaws.pes_mem x m || existsb (en_adds a x) c.
Proof.
  intros a c. induction c as [|ec c IH]; intros m Hs Hw.
  - simpl. repeat split; auto. intros x _. rewrite orb_false_r. reflexivity.
  - cbn [fold_left existsb].
    assert (Hstep : sorted_pes (en_step a m ec) = true /\ PesLaws.wf_pes (en_step a m ec) = true /\
              forall x, wf_pe x = true ->
                PesLaws.pes_mem x (en_step a m ec) = PesLaws.pes_mem x m || en_adds a x ec).
    { unfold en_step, en_adds. destruct (fst ec) as [n| | |];
        try (repeat split; auto; intros x _; rewrite orb_false_r; reflexivity).
      destruct a as [sc li [mt|]];
        try (repeat split; auto; intros x _; rewrite orb_false_r; reflexivity).
      destruct (has_field mt n);
        [|repeat split; auto; intros x _; rewrite orb_false_r; reflexivity].
      destruct (PesLaws.pes_insert_sorted (PEField n) m Hs Hw eq_refl) as [H1 H2].
      repeat split; auto. intros x Hx.
      rewrite (PesLaws.pes_insert_mem (PEField n) x m Hs Hw eq_refl Hx). cbn [andb].
      apply orb_comm. }
    destruct Hstep as (Hs' & Hw' & Hm').
    destruct (IH _ Hs' Hw') as (H1 & H2 & H3). repeat split; auto.
    intros x Hx. rewrite (H3 x Hx), (Hm' x Hx). rewrite orb_assoc. reflexivity.
Qed.

Lemma en_fold_nonempty : forall a c m, m <> [] -> fold_left (en_step a) c m <> [].
Proof.
  intros a c. induction c as [|ec c IH]; intros m Hm; [exact Hm|].
  cbn [fold_left]. apply IH. unfold en_step.
  destruct (fst ec); try exact Hm. destruct a as [sc li [mt|]]; try exact Hm.
  destruct (has_field mt name); [apply PesLaws.pes_insert_nonempty|exact Hm].
Qed.

(* ---------- children ---------- *)

Lemma ksorted_map_fst : forall (A B : Type) (f : pe * A -> pe * B) (c : list (pe * A)),
  (forall ec, fst (f ec) = fst ec) -> ksorted fst c -> ksorted fst (map f c).
Proof.
  intros A B f c Hf. induction c as [|x t IH]; intros Hs; [exact I|].
  destruct Hs as [Hx Ht]. simpl. split; [|apply IH; exact Ht].
  unfold klt in *. rewrite Forall_forall in *. intros b Hb. apply in_map_iff in Hb.
  destruct Hb as (a & <- & Ha). rewrite !Hf. apply Hx. exact Ha.
Qed.

Lemma klook_map_fst : forall (A B : Type) (f : pe * A -> pe * B) (c : list (pe * A)) e,
  (forall ec, fst (f ec) = fst ec) -> klook fst e (map f c) = option_map f (klook fst e c).
Proof.
  intros A B f c e Hf. unfold klook. induction c as [|x t IH]; [reflexivity|].
  simpl. rewrite Hf. destruct (peeqb e (fst x)); [reflexivity|exact IH].
Qed.

(* ---------- well-formedness ---------- *)

Lemma ps_empty_PSet : forall m c,
  ps_empty (PSet m c) = match m with _ :: _ => false | [] => forallb (fun ec => ps_empty (snd ec)) c end.
Proof. reflexivity. Qed.

Lemma forallb_map' : forall (A B : Type) (f : B -> bool) (g : A -> B) l,
  forallb f (map g l) = forallb (fun x => f (g x)) l.
Proof. intros A B f g l. induction l as [|x l IH]; [reflexivity|]. simpl. rewrite IH. reflexivity. Qed.

Lemma ps_en_nonempty : forall s S tr, ps_empty S = false -> ps_empty (ps_en s tr S) = false.
Proof.
  intros s S. induction S as [m c IH] using pset_ind'. intros tr He.
  rewrite ps_en_unfold, ps_empty_PSet. rewrite ps_empty_PSet in He.
  destruct m as [|x m].
  - destruct (fold_left (en_step (atom_at s tr)) c []); [|reflexivity].
    rewrite forallb_map'. cbn [snd].
    clear - IH He. induction c as [|ec c IHc]; [discriminate|].
    inversion IH as [|? ? Hec Hc]; subst. cbn [forallb] in *.
    destruct (ps_empty (snd ec)) eqn:E.
    + cbn [andb] in He. rewrite (IHc Hc He). apply andb_false_r.
    + rewrite (Hec _ eq_refl). reflexivity.
  - pose proof (en_fold_nonempty (atom_at s tr) c (x :: m) ltac:(discriminate)) as Hne.
    destruct (fold_left (en_step (atom_at s tr)) c (x :: m)); [congruence|reflexivity].
Qed.

Theorem ps_en_ok : forall s S tr, ps_ok S = true -> ps_ok (ps_en s tr S) = true.
Proof.
  intros s S. induction S as [m c IH] using pset_ind'. intros tr Hok.
  apply TrieBase.ps_ok_PSet in Hok. destruct Hok as (Hs & Hw & Hks & Hcok).
  rewrite ps_en_unfold. apply TrieBase.ps_ok_PSet.
  destruct (en_fold_spec (atom_at s tr) c m Hs Hw) as (H1 & H2 & _).
  repeat split; auto.
  - apply ksorted_map_fst; auto.
  - rewrite Forall_forall in *. intros ec' Hin. apply in_map_iff in Hin.
    destruct Hin as (ec & <- & Hin). destruct (Hcok ec Hin) as (Hk & Hsub & Hne).
    unfold cok. cbn [fst snd]. split; [exact Hk|]. split.
    + apply (IH ec Hin). exact Hsub.
    + apply ps_en_nonempty. exact Hne.
Qed.

(* ---------- membership, one level ---------- *)

Lemma ps_has_cons2 : forall e p0 p' m c, ps_ok (PSet m c) = true -> wf_pe e = true ->
  ps_has (e :: p0 :: p') (PSet m c) =
  match klook fst e c with Some ec => ps_has (p0 :: p') (snd ec) | None => false end.
Proof.
  intros e p0 p' m c Hok He. rewrite (TrieBase.ps_has_more e p0 p' m c Hok He).
  unfold chas. reflexivity.
Qed.

Lemma en_has_cons2 : forall s tr e p0 p' m c, ps_ok (PSet m c) = true -> wf_pe e = true ->
  ps_has (e :: p0 :: p') (ps_en s tr (PSet m c)) =
  match klook fst e c with
  | Some ec => ps_has (p0 :: p') (ps_en s (en_child_tr (atom_at s tr) e) (snd ec))
  | None => false
  end.
Proof.
  intros s tr e p0 p' m c Hok He.
  pose proof (ps_en_ok s (PSet m c) tr Hok) as Hok'. rewrite ps_en_unfold in *.
  rewrite (ps_has_cons2 e p0 p' _ _ Hok' He).
  rewrite klook_map_fst by reflexivity.
  destruct (klook fst e c) as [ec|] eqn:El; [|reflexivity]. cbn [option_map snd fst].
  apply TrieBase.ps_ok_PSet in Hok. destruct Hok as (_ & _ & _ & Hcok).
  destruct (TrieBase.klook_cok e c ec Hcok El) as (_ & _ & Heq).
  rewrite (en_child_tr_cong _ e (fst ec) Heq). reflexivity.
Qed.

(* ---------- the set of paths of [ps_en] ---------- *)

(* p is a proper prefix of a member and ends in a declared field *)
Definition en_added (s : schema) (tr : typeref) (S : pset) (p : path) : Prop :=
  exists pre n, p = pre ++ [PEField n] /\ named s (en_type s tr pre) n = true /\
    exists r, r <> [] /\ wf_path r = true /\ ps_has (p ++ r) S = true.

Theorem en_has_iff : forall s p tr S, ps_ok S = true -> wf_path p = true -> p <> [] ->
  (ps_has p (ps_en s tr S) = true <-> ps_has p S = true \/ en_added s tr S p).
Proof.
  intros s p. induction p as [|e rest IH]; intros tr S Hok Hp Hne; [congruence|].
  apply TrieBase.wf_path_cons in Hp. destruct Hp as [He Hrest].
  destruct S as [m c].
  pose proof (ps_en_ok s (PSet m c) tr Hok) as Hok'.
  pose proof Hok as Hparts. apply TrieBase.ps_ok_PSet in Hparts.
  destruct Hparts as (Hs & Hw & Hks & Hcok).
  destruct rest as [|p0 p'].
  - (* one element *)
    rewrite (TrieBase.ps_has_one e m c Hok He).
    rewrite ps_en_unfold in *.
    rewrite (TrieBase.ps_has_one e _ _ Hok' He).
    destruct (en_fold_spec (atom_at s tr) c m Hs Hw) as (_ & _ & Hmem).
    rewrite (Hmem e He), orb_true_iff. split.
    + intros [H|H]; [left; exact H|]. right.
      apply existsb_exists in H. destruct H as (ec & Hin & Hadd).
      unfold en_adds in Hadd. destruct (fst ec) as [n| | |] eqn:Efst; try discriminate.
      destruct (atom_at s tr) as [sc li [mt|]] eqn:Ea; try discriminate.
      apply andb_true_iff in Hadd. destruct Hadd as [Hhf Heq].
      destruct e as [n'| | |]; simpl in Heq; try discriminate.
      apply String.eqb_eq in Heq. subst n'.
      exists [], n. split; [reflexivity|]. split; [unfold named; simpl; rewrite Ea; exact Hhf|].
      rewrite Forall_forall in Hcok. destruct (Hcok ec Hin) as (Hk & Hsub & Hnemp).
      destruct (TrieBase.ps_nonempty_witness _ Hsub Hnemp) as (r & Hr & Hhas).
      assert (Hrne : r <> []) by (intros ->; rewrite TrieBase.ps_has_nil in Hhas; discriminate).
      exists r. repeat split; auto. destruct r as [|r0 r']; [congruence|].
      cbn [app]. rewrite (ps_has_cons2 (PEField n) r0 r' m c Hok eq_refl).
      assert (Hl : klook fst (PEField n) c = Some ec).
      { rewrite <- Efst. apply klook_In.
        - rewrite Efst; reflexivity.
        - apply TrieBase.cok_kwf. apply Forall_forall. exact Hcok.
        - exact Hks.
        - exact Hin. }
      rewrite Hl. exact Hhas.
    + intros [H|(pre & n & Hpe & Hnamed & r & Hrne & Hr & Hhas)]; [left; exact H|]. right.
      destruct pre as [|x pre]; [|destruct pre; discriminate].
      simpl in Hpe. inversion Hpe; subst e. clear Hpe.
      destruct r as [|r0 r']; [congruence|]. cbn [app] in Hhas.
      rewrite (ps_has_cons2 (PEField n) r0 r' m c Hok eq_refl) in Hhas.
      destruct (klook fst (PEField n) c) as [ec|] eqn:El; [|discriminate].
      destruct (TrieBase.klook_cok _ c ec Hcok El) as (Hin & _ & Heq).
      apply existsb_exists. exists ec. split; [exact Hin|].
      unfold en_adds. destruct (fst ec) as [n'| | |]; simpl in Heq; try discriminate.
      apply String.eqb_eq in Heq. subst n'.
      unfold named in Hnamed. simpl in Hnamed.
      destruct (atom_at s tr) as [sc li [mt|]]; try discriminate.
      rewrite Hnamed. simpl. apply String.eqb_refl.
  - (* longer *)
    rewrite (en_has_cons2 s tr e p0 p' m c Hok He).
    rewrite (ps_has_cons2 e p0 p' m c Hok He).
    destruct (klook fst e c) as [ec|] eqn:El.
    + destruct (TrieBase.klook_cok e c ec Hcok El) as (Hin & (Hk & Hsub & Hnemp) & Heq).
      rewrite (IH (en_child_tr (atom_at s tr) e) (snd ec) Hsub Hrest ltac:(discriminate)).
      split; (intros [H|(pre & n & Hpe & Hnamed & r & Hrne & Hr & Hhas)]; [left; exact H|right]).
      * exists (e :: pre), n. split; [simpl; rewrite Hpe; reflexivity|]. split; [exact Hnamed|].
        exists r. repeat split; auto.
        cbn [app] in *. rewrite (ps_has_cons2 e p0 (p' ++ r) m c Hok He), El. exact Hhas.
      * destruct pre as [|x pre]; [discriminate|]. simpl in Hpe. inversion Hpe; subst x.
        exists pre, n. split; [assumption|]. split; [exact Hnamed|].
        exists r. repeat split; auto.
        cbn [app] in *. rewrite (ps_has_cons2 e p0 (p' ++ r) m c Hok He), El in Hhas. exact Hhas.
    + split; [discriminate|].
      intros [H|(pre & n & Hpe & Hnamed & r & Hrne & Hr & Hhas)]; [discriminate|].
      cbn [app] in Hhas. rewrite (ps_has_cons2 e p0 (p' ++ r) m c Hok He), El in Hhas. discriminate.
Qed.

Corollary en_has_mono : forall s tr S p, ps_ok S = true -> wf_path p = true ->
  ps_has p S = true -> ps_has p (ps_en s tr S) = true.
Proof.
  intros s tr S p Hok Hp H.
  assert (Hne : p <> []) by (intros ->; rewrite TrieBase.ps_has_nil in H; discriminate).
  apply en_has_iff; auto.
Qed.

(* paths that do not end in a field name are not added *)
Corollary en_has_nonfield : forall s tr S pre e, ps_ok S = true -> wf_path (pre ++ [e]) = true ->
  match e with PEField _ => False | _ => True end ->
  ps_has (pre ++ [e]) (ps_en s tr S) = ps_has (pre ++ [e]) S.
Proof.
  intros s tr S pre e Hok Hp He.
  assert (Hne : pre ++ [e] <> []) by (destruct pre; discriminate).
  destruct (ps_has (pre ++ [e]) S) eqn:E.
  - apply en_has_mono; auto.
  - destruct (ps_has (pre ++ [e]) (ps_en s tr S)) eqn:E'; [|reflexivity]. exfalso.
    apply (en_has_iff s _ tr S Hok Hp Hne) in E'.
    destruct E' as [H|(pre' & n & Hpe & _)]; [congruence|].
    apply app_inj_tail in Hpe. destruct Hpe as [_ ->]. contradiction.
Qed.

(* every member of [ps_en S] is a prefix of a member of S *)
Corollary en_has_prefix : forall s tr S p, ps_ok S = true -> wf_path p = true ->
  ps_has p (ps_en s tr S) = true ->
  exists r, wf_path r = true /\ ps_has (p ++ r) S = true.
Proof.
  intros s tr S p Hok Hp H.
  assert (Hne : p <> []) by (intros ->; rewrite TrieBase.ps_has_nil in H; discriminate).
  apply (en_has_iff s p tr S Hok Hp Hne) in H.
  destruct H as [H|(pre & n & Hpe & _ & r & _ & Hr & Hhas)].
  - exists []. rewrite app_nil_r. auto.
  - exists r. auto.
Qed.
