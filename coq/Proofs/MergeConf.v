(* The output of the merging walker on conforming operands conforms (duplicates allowed),
   is well formed, and -- when both operands are items of a set or keyed list -- is again
   such an item. *)
From Coq Require Import List ZArith String Bool Arith Lia.
From SMD Require Import Model.Value Model.Order Model.PathElem Model.PathSet Model.Schema
  Model.Walk Model.Merge Spec.RefValid Spec.Resolve Proofs.OrderLaws Proofs.KeyLaws Proofs.PesLaws
  Proofs.SchemaOk Proofs.MergeBase Proofs.MergeLoop Proofs.MergeWalk.
Import ListNotations.
Open Scope bool_scope.

(* ------------------------------------------------------------------ *)
(* items of sets and keyed lists *)
Lemma has_pe_list : forall s t l, has_pe s t (VList l) = false.
Proof.
  intros s t l. unfold has_pe, list_item_to_pe.
  destruct (negb (rel_is_assoc (list_rel t))); [reflexivity|].
  destruct (list_keys t); reflexivity.
Qed.

Lemma has_pe_null : forall s t, has_pe s t VNull = false.
Proof.
  intros s t. unfold has_pe, list_item_to_pe.
  destruct (negb (rel_is_assoc (list_rel t))); [reflexivity|].
  destruct (list_keys t); reflexivity.
Qed.

Lemma has_pe_map_other : forall s t m x, has_pe s t (VMap m) = true -> has_pe s t x = true ->
  exists m', x = VMap m'.
Proof.
  intros s t m x. unfold has_pe, list_item_to_pe.
  destruct (negb (rel_is_assoc (list_rel t))); [discriminate|].
  destruct (list_keys t) as [|k0 ks].
  - simpl. discriminate.
  - intros _ Hx. destruct x; simpl in Hx; try discriminate. eauto.
Qed.

Lemma keyed_go_mono : forall s t lm om keys,
  (forall k, assoc_get k lm <> None -> assoc_get k om <> None) ->
  keyed_go s t lm keys <> None -> keyed_go s t om keys <> None.
Proof.
  intros s t lm om keys Hsub. induction keys as [|k ks IH]; simpl; intros H; [discriminate|].
  destruct (assoc_get k lm) as [v|] eqn:El.
  - assert (Ho : assoc_get k om <> None) by (apply Hsub; congruence).
    destruct (assoc_get k om) as [v'|]; [|congruence].
    destruct (keyed_go s t lm ks); [|congruence].
    destruct (keyed_go s t om ks); [discriminate|]. apply IH. discriminate.
  - destruct (key_default s t k) as [[d|]|]; try congruence.
    destruct (keyed_go s t lm ks); [|congruence].
    assert (Hks : keyed_go s t om ks <> None) by (apply IH; discriminate).
    destruct (keyed_go s t om ks); [|congruence].
    destruct (assoc_get k om); discriminate.
Qed.

Lemma has_pe_merged_map : forall s t lm rm om,
  has_pe s t (VMap lm) = true -> has_pe s t (VMap rm) = true ->
  (forall k, assoc_get k lm <> None -> assoc_get k om <> None) ->
  has_pe s t (VMap om) = true.
Proof.
  intros s t lm rm om. unfold has_pe, list_item_to_pe.
  destruct (negb (rel_is_assoc (list_rel t))); [discriminate|].
  destruct (list_keys t) as [|k0 ks] eqn:Ek.
  - simpl. discriminate.
  - rewrite !keyed_item_to_pe_eq, Ek. intros Hl _ Hsub.
    pose proof (keyed_go_mono s t lm om (k0 :: ks) Hsub) as Hm.
    destruct (keyed_go s t lm (k0 :: ks)); [|discriminate Hl].
    destruct (keyed_go s t om (k0 :: ks)); [reflexivity|]. exfalso. apply Hm; [discriminate|reflexivity].
Qed.

(* ------------------------------------------------------------------ *)
Section Conf.
  Variables (s : schema) (R : typeref -> Prop).
  Hypothesis Hok : schema_ok s R.
  Hypothesis Hfam : family_refs s R.

  Definition good (tr : typeref) (lo ro : option value) (out : value) : Prop :=
    conforms s tr true out = true /\ wf_value out = true /\
    forall t' l r, lo = Some l -> ro = Some r ->
      has_pe s t' l = true -> has_pe s t' r = true -> has_pe s t' out = true.

  Lemma good_leaf : forall tr lo ro out, oconf s tr true lo -> oconf s tr false ro ->
    keep_rhs lo ro = Some out -> good tr lo ro out.
  Proof.
    intros tr lo ro out Hl Hr Hk. destruct ro as [r|]; simpl in Hk.
    - inversion Hk; subst out. destruct Hr as [Hc Hw]. split; [apply conforms_dup_mono; exact Hc|].
      split; [exact Hw|]. intros t' l r' _ E _ H. inversion E; subst. exact H.
    - subst lo. destruct Hl as [Hc Hw]. split; [exact Hc|]. split; [exact Hw|].
      intros t' l r' _ E. discriminate.
  Qed.

  Lemma dm_sorted : forall tr dup o, oconf s tr dup o -> sorted_keys (dm o) = true.
  Proof.
    intros tr dup o H. destruct o as [[| | | | |l|m]|]; try reflexivity.
    destruct H as [_ H]. apply wf_map_sorted. exact H.
  Qed.

  Section Step.
    Variable f : nat.
    Hypothesis IHG : forall tr lo ro out, R tr -> odepth lo + odepth ro < f ->
      oconf s tr true lo -> oconf s tr false ro ->
      merge_w f s tr lo ro = (false, Some out) -> good tr lo ro out.

    Lemma conf_map : forall tr a mt lo ro out, R tr -> resolve s tr = Some a ->
      atom_map a = Some mt -> odepth lo + odepth ro < S f ->
      oconf s tr true lo -> oconf s tr false ro -> (lo <> None \/ ro <> None) ->
      merge_map f s mt lo ro = (false, Some out) -> good tr lo ro out.
    Proof.
      intros tr a mt lo ro out HR Hr Hm Hd Hcl Hcr Hsome. unfold merge_map.
      destruct (rel_is_atomic (map_rel mt) ||
                is_empty_l (deref_map lo) && is_empty_l (deref_map ro)) eqn:Eleaf.
      { unfold do_leaf. intros H. inversion H as [Hk]. apply good_leaf; auto. }
      apply orb_false_iff in Eleaf. destruct Eleaf as [_ Eleaf].
      assert (Hne : dm lo <> [] \/ dm ro <> []).
      { unfold dm. destruct (deref_map lo) as [[|? ?]|]; destruct (deref_map ro) as [[|? ?]|];
          simpl in Eleaf; try discriminate; try (left; discriminate); right; discriminate. }
      set (keys := keys_union (map fst (dm lo)) (map fst (dm ro))).
      set (g := fun k => out_of (merge_w f s (field_type mt k) (assoc_get k (dm lo)) (assoc_get k (dm ro)))).
      assert (Hsub : forall k, In k keys ->
                R (field_type mt k) /\
                odepth (assoc_get k (dm lo)) + odepth (assoc_get k (dm ro)) < f /\
                oconf s (field_type mt k) true (assoc_get k (dm lo)) /\
                oconf s (field_type mt k) false (assoc_get k (dm ro)) /\
                (assoc_get k (dm lo) <> None \/ assoc_get k (dm ro) <> None)).
      { intros k Hk. split; [apply (so_map s R Hok tr a mt k); auto|]. split.
        - pose proof (dm_depth lo k). pose proof (dm_depth ro k).
          destruct Hne as [Hne|Hne].
          + pose proof (dm_depth_lt lo k Hne). lia.
          + pose proof (dm_depth_lt ro k Hne). lia.
        - split; [apply (oconf_dm s tr true a mt lo k Hr Hm Hcl)|].
          split; [apply (oconf_dm s tr false a mt ro k Hr Hm Hcr)|].
          apply keys_union_in in Hk. destruct Hk as [Hk|Hk].
          + left. apply assoc_get_in_keys. exact Hk.
          + right. apply assoc_get_in_keys. exact Hk. }
      assert (Hres : forall k, In k keys ->
                merge_w f s (field_type mt k) (assoc_get k (dm lo)) (assoc_get k (dm ro))
                = (false, Some (g k))).
      { intros k Hk. destruct (Hsub k Hk) as (H1 & H2 & H3 & H4 & H5).
        destruct (merge_total_w s R Hok Hfam f _ _ _ H1 H2 H3 H4 H5) as [o Ho].
        apply (out_of_eq _ o Ho). }
      rewrite (fold_map_ok f s mt (dm lo) (dm ro) g keys false [] Hres). simpl app.
      destruct (map (fun k => (k, g k)) keys) as [|kv0 om0] eqn:Eom; [discriminate|].
      rewrite <- Eom. intros H. inversion H; subst out. clear H.
      split; [|split].
      - (* conforms *)
        rewrite conforms_unf, Hr. destruct a as [sc li ma]. simpl in Hm. subst ma.
        unfold conf_fields. apply forallb_forall. intros [k x] Hin.
        apply in_map_iff in Hin. destruct Hin as [k' [E Hk]]. inversion E; subst k' x. simpl.
        destruct (Hsub k Hk) as (H1 & H2 & H3 & H4 & H5).
        apply (IHG _ _ _ _ H1 H2 H3 H4 (Hres k Hk)).
      - (* well formed *)
        simpl. apply andb_true_iff. split.
        + apply ssorted_sorted_keys. apply keys_union_sorted; apply sorted_keys_ssorted.
          * apply (dm_sorted tr true lo Hcl).
          * apply (dm_sorted tr false ro Hcr).
        + apply forallb_forall. intros [k x] Hin.
          apply in_map_iff in Hin. destruct Hin as [k' [E Hk]]. inversion E; subst k' x. simpl.
          destruct (Hsub k Hk) as (H1 & H2 & H3 & H4 & H5).
          apply (IHG _ _ _ _ H1 H2 H3 H4 (Hres k Hk)).
      - (* still an item *)
        intros t' l r El Er Hpl Hpr. subst lo ro.
        assert (Hmaps : exists lm rm, l = VMap lm /\ r = VMap rm).
        { destruct Hne as [Hne|Hne].
          - destruct l as [| | | | |ll|lm]; try (exfalso; apply Hne; reflexivity).
            destruct (has_pe_map_other s t' lm r Hpl Hpr) as [rm Erm]. eauto.
          - destruct r as [| | | | |rl|rm]; try (exfalso; apply Hne; reflexivity).
            destruct (has_pe_map_other s t' rm l Hpr Hpl) as [lm Elm]. eauto. }
        destruct Hmaps as [lm [rm [El Er]]]. subst l r.
        apply (has_pe_merged_map s t' lm rm); auto.
        intros k Hk. rewrite assoc_get_map_keys.
        destruct (in_dec string_dec k keys) as [Hin|Hnin]; [discriminate|].
        exfalso. apply Hnin. apply keys_union_in. left.
        change (dm (Some (VMap lm))) with lm.
        destruct (assoc_get k lm) as [x|] eqn:Ex; [|congruence].
        apply (assoc_get_some_keys _ lm k x Ex).
    Qed.

    Lemma conf_list : forall tr a t lo ro out, R tr -> resolve s tr = Some a ->
      atom_list a = Some t -> odepth lo + odepth ro < S f ->
      oconf s tr true lo -> oconf s tr false ro -> (lo <> None \/ ro <> None) ->
      merge_list f s t lo ro = (false, Some out) -> good tr lo ro out.
    Proof.
      intros tr a t lo ro out HR Hr Hl Hd Hcl Hcr Hsome Hout.
      destruct (total_list_gen s R Hok Hfam f (merge_total_w s R Hok Hfam f)
                  (good tr lo ro) tr a t lo ro HR Hr Hl Hd Hcl Hcr Hsome) as [out' [Ho' Hg]].
      - intros o Ho. apply good_leaf; auto.
      - intros ll rl oL oR Ell Erl Hrel Hne HoL HoR HgetR HgetL.
        destruct (oconf_dl s tr a t true lo Hr Hl Hrel Hcl) as (HpeL & HallL & HwL & _).
        destruct (oconf_dl s tr a t false ro Hr Hl Hrel Hcr) as (HpeR & HallR & HwR & _).
        rewrite <- Ell in *. rewrite <- Erl in *.
        pose proof (so_list s R Hok tr a t HR Hr Hl) as HRelem.
        exists (fun x => has_pe s t x = true /\ conforms s (list_elem t) true x = true /\
                         wf_value x = true).
        split; [|split].
        + (* a left item alone *)
          intros e c Hin _ x Hx.
          pose proof (ipairs_in s t _ e c Hin) as [Hinc Hpec].
          assert (Hcc : conforms s (list_elem t) true c = true)
            by (rewrite forallb_forall in HallL; apply HallL; exact Hinc).
          assert (Hwc : wf_value c = true)
            by (rewrite forallb_forall in HwL; apply HwL; exact Hinc).
          rewrite (merge_absent_right s R Hok Hfam f (list_elem t) c) in Hx; auto.
          * inversion Hx; subst x. unfold has_pe. rewrite Hpec. auto.
          * subst ll. pose proof (dl_depth_in lo c Hinc). lia.
        + (* a right item, possibly with its left counterpart *)
          intros e He HinR x Hx.
          pose proof (HgetR e He) as HR'.
          destruct (lfind s t e rl) as [r|] eqn:Er; [|congruence].
          apply lfind_some in Er. destruct Er as [e' [Hin' Hee']].
          apply ipairs_in in Hin'. destruct Hin' as [Hinr Hper].
          assert (Hcr' : conforms s (list_elem t) false r = true)
            by (rewrite forallb_forall in HallR; apply HallR; exact Hinr).
          assert (Hwr' : wf_value r = true)
            by (rewrite forallb_forall in HwR; apply HwR; exact Hinr).
          assert (Hdr : vdepth r < odepth ro) by (subst rl; apply (dl_depth_in ro r Hinr)).
          assert (Hpr : has_pe s t r = true) by (unfold has_pe; rewrite Hper; reflexivity).
          rewrite HR' in Hx.
          destruct (pem_get e oL) as [v|] eqn:Ev.
          * destruct (HgetL e v He Ev) as [[Hv Hnl]|[e'' [Hin'' _]]].
            -- subst v.
               rewrite (merge_null_left_w s R Hok Hfam f (list_elem t) r) in Hx; auto.
               ++ inversion Hx; subst x. split; [exact Hpr|].
                  split; [apply conforms_dup_mono; exact Hcr'|exact Hwr'].
               ++ subst ll. pose proof (dl_depth_null lo Hnl). lia.
            -- pose proof (ipairs_in s t _ e'' v Hin'') as [Hinv Hpev].
               assert (Hcv : conforms s (list_elem t) true v = true)
                 by (rewrite forallb_forall in HallL; apply HallL; exact Hinv).
               assert (Hwv : wf_value v = true)
                 by (rewrite forallb_forall in HwL; apply HwL; exact Hinv).
               assert (Hdv : vdepth v < odepth lo) by (subst ll; apply (dl_depth_in lo v Hinv)).
               destruct (IHG (list_elem t) (Some v) (Some r) x) as (G1 & G2 & G3); auto.
               ++ simpl. lia.
               ++ split; assumption.
               ++ split; assumption.
               ++ split; [|auto]. apply (G3 t v r eq_refl eq_refl); auto.
                  unfold has_pe. rewrite Hpev. reflexivity.
          * rewrite (merge_absent_left s R Hok Hfam f (list_elem t) r) in Hx; auto.
            -- inversion Hx; subst x. split; [exact Hpr|].
               split; [apply conforms_dup_mono; exact Hcr'|exact Hwr'].
            -- lia.
        + (* the whole list *)
          intros res HQ Hnres. split; [|split].
          * rewrite conforms_unf, Hr. destruct a as [sc li ma]. simpl in Hl. subst li.
            rewrite Hrel. rewrite Forall_forall in HQ.
            apply andb_true_iff. split; [apply andb_true_iff; split|reflexivity];
              apply forallb_forall; intros x Hx; apply (HQ x Hx).
          * simpl. rewrite Forall_forall in HQ. apply forallb_forall. intros x Hx. apply (HQ x Hx).
          * intros t' l r El Er Hpl Hpr. subst lo ro. exfalso.
            destruct Hne as [Hne|Hne].
            -- destruct l as [| | | | |l0|lm]; try (apply Hne; subst ll; reflexivity).
               rewrite has_pe_list in Hpl. discriminate.
            -- destruct r as [| | | | |r0|rm]; try (apply Hne; subst rl; reflexivity).
               rewrite has_pe_list in Hpr. discriminate.
      - rewrite Hout in Ho'. inversion Ho'; subst out'. exact Hg.
    Qed.

    Lemma conf_handle : forall tr a lo ro h out, R tr -> resolve s tr = Some a -> hfrom a h ->
      odepth lo + odepth ro < S f ->
      oconf s tr true lo -> oconf s tr false ro -> (lo <> None \/ ro <> None) ->
      handle f s lo ro h = (false, Some out) -> good tr lo ro out.
    Proof.
      intros tr a lo ro h out HR Hr Hh Hd Hcl Hcr Hsome. destruct h as [t|t|t|]; simpl.
      - apply (conf_map tr a t); auto. apply hfrom_map. exact Hh.
      - destruct (validate_scalar t lo && validate_scalar t ro); [discriminate|].
        unfold do_leaf. intros H. inversion H. apply good_leaf; auto.
      - apply (conf_list tr a t); auto. apply hfrom_list. exact Hh.
      - discriminate.
    Qed.
  End Step.

  Lemma merge_conf_w : forall f tr lo ro out, R tr -> odepth lo + odepth ro < f ->
    oconf s tr true lo -> oconf s tr false ro ->
    merge_w f s tr lo ro = (false, Some out) -> good tr lo ro out.
  Proof.
    induction f as [|f IH]; intros tr lo ro out HR Hd Hcl Hcr; [lia|].
    rewrite merge_w_S.
    assert (Hsome : lo = None /\ ro = None \/ (lo <> None \/ ro <> None)).
    { destruct lo; [right; left; discriminate|]. destruct ro; [right; right; discriminate|]. auto. }
    destruct Hsome as [[E1 E2]|Hsome]; [subst; discriminate|].
    destruct (oconf_resolve s tr true false lo ro Hcl Hcr Hsome) as [a [Hr Hne]]. rewrite Hr.
    assert (HL : forall o, handle f s lo ro (handle_atom (deduce_atom a lo)) = (false, Some o) ->
                 good tr lo ro o).
    { intros o. apply (conf_handle f IH tr a); auto; try lia. apply hfrom_deduce. exact Hne. }
    assert (HR' : forall o, handle f s lo ro (handle_atom (deduce_atom a ro)) = (false, Some o) ->
                 good tr lo ro o).
    { intros o. apply (conf_handle f IH tr a); auto; try lia. apply hfrom_deduce. exact Hne. }
    unfold merge_top.
    destruct lo as [l|]; destruct ro as [r|].
    - destruct (atom_eqb (deduce_atom a (Some l)) (deduce_atom a (Some r))); [apply HR'|].
      destruct (handle f s (Some l) (Some r) (handle_atom (deduce_atom a (Some l)))) as [e1 o1].
      destruct (handle f s (Some l) (Some r) (handle_atom (deduce_atom a (Some r)))) as [e2 o2] eqn:E2.
      intros H. inversion H as [[He Ho]]. apply orb_false_iff in He. destruct He as [_ He]. subst e2 o2.
      apply HR'. reflexivity.
    - apply HL.
    - apply HR'.
    - destruct Hsome; congruence.
  Qed.
End Conf.
