(* C12, field sets: the field set of a merge result against the field sets of the operands
   (plain, duplicate-free operands).  Stated on the paths the field-set walker inserts
   ([fsp]); Proofs/MergeRest.v turns this into statements about [to_field_set]. *)
From Coq Require Import List ZArith String Bool Arith Lia.
From SMD Require Import Model.Value Model.Order Model.PathElem Model.PathSet Model.Schema
  Model.Walk Model.FieldSet Model.Merge Spec.PathsAsSets Spec.RefValid Spec.Resolve Spec.Agree
  Proofs.OrderLaws Proofs.KeyLaws Proofs.PathSetLaws Proofs.ValidateLaws Proofs.SchemaOk Proofs.MergeLaws.
From SMD Require Import Proofs.FieldSetBase Proofs.FieldSetShape Proofs.FieldSetPaths Proofs.ResolveLaws
  Proofs.PesLaws Proofs.MergeBase Proofs.MergeLoop Proofs.MergeWalk Proofs.MergeConf
  Proofs.MergeInter Proofs.MergeVeqb Proofs.MergeDescent Proofs.MergeAgree.
From SMD Require Import Proofs.MergeKeeps Proofs.RemoveFrame Proofs.RefDiffBoth Proofs.MergeThru
  Proofs.ReconcileBase Proofs.TreeFacts Proofs.EnLaws Proofs.NodeSet
  Proofs.MergeRestBase Proofs.MergeRest1 Proofs.MergeRest2a.
Import ListNotations.
Open Scope bool_scope.

Lemma veqb_to_nil_list : forall x, veqb x (VList []) = true -> x = VList [].
Proof.
  intros x H. destruct x as [| | | | |l|m]; try (simpl in H; discriminate).
  rewrite veqb_list in H. destruct l; [reflexivity|discriminate].
Qed.

Lemma plain_not_nil_list : forall x, plain x = true -> x <> VList [].
Proof. intros x H E. subst x. discriminate. Qed.

Lemma rnode_leaf_leafy : forall s t x, rnode_is_leaf s (RNode t x) = true <-> leafy s t x.
Proof.
  intros s t x. unfold leafy. simpl. destruct (kind_of s t x); split; intros H; try exact I;
    try reflexivity; try discriminate; contradiction.
Qed.

Section Union.
  Variables (s : schema) (R : typeref -> Prop).
  Hypothesis Hok : schema_ok s R.
  Hypothesis Hfam : family_refs s R.
  Hypothesis Hpure : lists_pure s R.
  Variables (tr : typeref) (l r out : value).
  Hypothesis HR : R tr.
  Hypothesis Hwl : wf_value l = true.
  Hypothesis Hwr : wf_value r = true.
  Hypothesis Hcl : conforms s tr false l = true.
  Hypothesis Hcr : conforms s tr false r = true.
  Hypothesis Hpl : plain l = true.
  Hypothesis Hpr : plain r = true.
  Hypothesis Hm : merge s tr l r = Some (Some out).

  Lemma Hcl1 : conforms s tr true l = true.
  Proof. apply conforms_dup_mono. exact Hcl. Qed.
  Lemma Hcr1 : conforms s tr true r = true.
  Proof. apply conforms_dup_mono. exact Hcr. Qed.

  Lemma out_ok : conforms s tr true out = true /\ wf_value out = true.
  Proof. apply (merge_conforms s R tr l r out Hok Hfam HR Hwl Hwr Hcl1 Hcr Hm). Qed.

  Lemma HA : AgrP s tr r out.
  Proof.
    pose proof Hm as Hm'. apply merge_inv in Hm'.
    apply (right_wins_w s R Hok Hfam (merge_fuel l r) tr (Some l) r out); auto.
    - unfold merge_fuel. simpl. lia.
    - split; [exact Hcl1|exact Hwl].
  Qed.

  Lemma HL : LeafP s tr (Some l) (Some r) out.
  Proof.
    pose proof Hm as Hm'. apply merge_inv in Hm'.
    apply (leaves_w s R Hok Hfam (merge_fuel l r) tr (Some l) (Some r) out); auto.
    - unfold merge_fuel. simpl. lia.
    - split; [exact Hcl1|exact Hwl].
    - split; assumption.
    - left. discriminate.
  Qed.

  (* an operand: plain, valid without duplicates *)
  Definition operand (v : value) : Prop :=
    (v = l \/ v = r) /\ wf_value v = true /\ conforms s tr false v = true /\ plain v = true.

  Lemma operand_l : operand l.
  Proof. unfold operand. auto. Qed.
  Lemma operand_r : operand r.
  Proof. unfold operand. auto 6. Qed.

  (* where a leaf of the result comes from *)
  Lemma leaf_origin : forall q n, wf_path q = true -> resolve_path s tr out q = Some n ->
    rnode_is_leaf s n = true ->
    exists v m, operand v /\ resolve_path s tr v q = Some m /\ rnode_is_leaf s m = true /\
                rnode_eqb m n = true.
  Proof.
    intros q n Hq Hres Hleaf.
    destruct (HL q n Hq Hres Hleaf) as [H|H]; unfold ohas_leaf, has_leaf in H.
    - destruct (resolve_path s tr r q) as [m|] eqn:Er; [|discriminate].
      apply andb_true_iff in H. destruct H as [H1 H2]. exists r, m. split; [apply operand_r|auto].
    - destruct (resolve_path s tr l q) as [m|] eqn:El; [|discriminate].
      apply andb_true_iff in H. destruct H as [H1 H2]. exists l, m. split; [apply operand_l|auto].
  Qed.

  (* the nodes of an operand *)
  Lemma operand_node : forall v q n, operand v -> wf_path q = true ->
    resolve_path s tr v q = Some n ->
    exists t x, n = RNode t x /\ t = path_tr s tr q /\ R t /\ wf_value x = true /\
      conforms s t false x = true /\ plain x = true.
  Proof.
    intros v q n (_ & Hwv & Hcv & Hpv) Hq Hres. destruct n as [t x|t xs].
    - destruct (node_sub s R Hok Hfam q false tr v t x HR Hwv Hcv Hq Hres) as (H1 & H2 & H3 & H4 & H5).
      exists t, x. repeat split; auto.
    - exfalso. apply (no_rdup s R Hok Hfam q tr v t xs HR Hwv Hcv Hq Hres).
  Qed.

  (* the nodes of the result: single nodes, none an empty list *)
  Lemma out_node : forall q o, wf_path q = true -> resolve_path s tr out q = Some o ->
    exists t y, o = RNode t y /\ t = path_tr s tr q /\ R t /\ wf_value y = true /\
      conforms s t true y = true /\ y <> VList [].
  Proof.
    intros q o Hq Hres. destruct out_ok as [Hco Hwo]. destruct o as [t y|t ys].
    - destruct (node_sub s R Hok Hfam q true tr out t y HR Hwo Hco Hq Hres) as (H1 & H2 & H3 & H4 & _).
      exists t, y. repeat split; auto. intros E. subst y.
      assert (Hleaf : rnode_is_leaf s (RNode t (VList [])) = true)
        by (apply rnode_leaf_leafy; apply leafy_empty_list).
      destruct (leaf_origin q _ Hq Hres Hleaf) as (v & m & Hv & Hrv & _ & Heq).
      destruct (operand_node v q m Hv Hq Hrv) as (tm & xm & -> & _ & _ & _ & _ & Hpx).
      simpl in Heq. apply veqb_to_nil_list in Heq. subst xm. discriminate.
    - exfalso.
      destruct (leaf_origin q _ Hq Hres eq_refl) as (v & m & Hv & Hrv & _ & Heq).
      destruct (operand_node v q m Hv Hq Hrv) as (tm & xm & -> & _). simpl in Heq. discriminate.
  Qed.

  Lemma operand_mem : forall v q t x, operand v -> wf_path q = true -> q <> [] ->
    resolve_path s tr v q = Some (RNode t x) -> mclass s tr q (RNode t x) ->
    pmem q (fsp s tr v) = true.
  Proof.
    intros v q t x Hv Hq Hne Hres Hmc.
    destruct (operand_node v q _ Hv Hq Hres) as (t' & x' & E & _ & _ & _ & _ & Hpx).
    inversion E; subst t' x'.
    destruct Hv as (_ & Hwv & Hcv & _).
    apply (mem_of_class s R Hok Hfam v tr q t x HR Hwv (conforms_dup_mono s v tr Hcv) Hq Hne Hres Hmc).
    apply plain_not_nil_list. exact Hpx.
  Qed.

  (* (a) every member of R's field set is a member of the result's *)
  Lemma union_a : forall q, In q (fsp s tr r) -> q <> [] -> pmem q (fsp s tr out) = true.
  Proof.
    intros q Hin Hne. destruct out_ok as [Hco Hwo].
    pose proof (fsp_wf s R Hok r tr q HR Hwr Hin) as Hq.
    destruct (fsp_class s R Hok Hfam (S (vdepth r)) r tr q (Nat.lt_succ_diag_r _) HR Hwr Hcr1 Hin)
      as (n & Hres & Hmc).
    destruct (operand_node r q n operand_r Hq Hres) as (t & x & -> & Et & _).
    destruct (HA q _ Hq Hres) as (o & Ho & Heq).
    destruct (out_node q o Hq Ho) as (t2 & y & -> & Et2 & _ & _ & _ & Hy).
    rewrite <- Et in Et2. subst t2.
    apply (mem_of_class s R Hok Hfam out tr q t y HR Hwo Hco Hq Hne Ho); [|exact Hy].
    simpl in Hmc |- *. destruct Hmc as [Hl|Hrest]; [|right; exact Hrest].
    left. apply (leafy_veqb s t x y); [|exact Hl].
    apply Heq. apply rnode_leaf_leafy. exact Hl.
  Qed.

  (* (b) every member of the result's field set is a member of L's or of R's *)
  Lemma union_b : forall q, In q (fsp s tr out) -> q <> [] ->
    pmem q (fsp s tr l) = true \/ pmem q (fsp s tr r) = true.
  Proof.
    intros q Hin Hne. destruct out_ok as [Hco Hwo].
    pose proof (fsp_wf s R Hok out tr q HR Hwo Hin) as Hq.
    destruct (fsp_class s R Hok Hfam (S (vdepth out)) out tr q (Nat.lt_succ_diag_r _) HR Hwo Hco Hin)
      as (n & Hres & Hmc).
    destruct (out_node q n Hq Hres) as (t & y & -> & Et & HRt & Hwy & Hcy & Hy).
    assert (Hfin : forall v t' x', operand v -> resolve_path s tr v q = Some (RNode t' x') ->
              mclass s tr q (RNode t' x') -> pmem q (fsp s tr l) = true \/ pmem q (fsp s tr r) = true).
    { intros v t' x' Hv Hrv Hmv. pose proof (operand_mem v q t' x' Hv Hq Hne Hrv Hmv) as Hp.
      destruct Hv as ([E|E] & _); subst v; auto. }
    destruct (leafy_or_granular s t y) as [Hl|Hg].
    - destruct (leaf_origin q _ Hq Hres (proj2 (rnode_leaf_leafy s t y) Hl)) as (v & m & Hv & Hrv & Hlm & _).
      destruct (operand_node v q m Hv Hq Hrv) as (tm & xm & -> & _).
      apply (Hfin v tm xm Hv Hrv). left. apply rnode_leaf_leafy. exact Hlm.
    - assert (Hpath : last_keyval q \/ last_unnamed s tr q).
      { simpl in Hmc. destruct Hmc as [Hl|Hrest]; [|exact Hrest].
        exfalso. apply (leafy_not_granular s t y Hl Hg). }
      destruct (leaf_beneath s R Hok Hfam (S (vdepth y)) t true y (Nat.lt_succ_diag_r _) HRt Hwy Hcy)
        as (r0 & n0 & Hr0 & Hres0 & Hleaf0).
      assert (Hr0ne : r0 <> []).
      { intros E. subst r0. simpl in Hres0. inversion Hres0; subst n0.
        apply rnode_leaf_leafy in Hleaf0. apply (leafy_not_granular s t y Hleaf0 Hg). }
      assert (Hqr : wf_path (q ++ r0) = true) by (apply wf_path_app; auto).
      assert (Hres1 : resolve_path s tr out (q ++ r0) = Some n0)
        by (rewrite resolve_path_app, Hres; exact Hres0).
      destruct (leaf_origin (q ++ r0) n0 Hqr Hres1 Hleaf0) as (v & m & Hv & Hrv & _ & _).
      rewrite resolve_path_app in Hrv.
      destruct (resolve_path s tr v q) as [[tm xm|tm xs]|] eqn:Ev; [| |discriminate].
      + apply (Hfin v tm xm Hv Ev). simpl. right. exact Hpath.
      + destruct r0; [congruence|discriminate].
  Qed.

  (* (c) every member of L's field set is a member of the result's, unless R gives a leaf
     value to a node above it, or a granular value to this very leaf *)
  Lemma union_c : forall q, In q (fsp s tr l) -> q <> [] ->
    pmem q (fsp s tr out) = true \/
    (exists j, j < List.length q /\ exists tq y,
       resolve_path s tr r (firstn j q) = Some (RNode tq y) /\ leafy s tq y) \/
    (exists t x y, resolve_path s tr l q = Some (RNode t x) /\ leafy s t x /\
       resolve_path s tr r q = Some (RNode t y) /\ granular s t y /\
       plain x = true /\ plain y = true).
  Proof.
    intros q Hin Hne. destruct out_ok as [Hco Hwo].
    pose proof (fsp_wf s R Hok l tr q HR Hwl Hin) as Hq.
    destruct (fsp_class s R Hok Hfam (S (vdepth l)) l tr q (Nat.lt_succ_diag_r _) HR Hwl Hcl1 Hin)
      as (n & Hres & Hmc).
    destruct (operand_node l q n operand_l Hq Hres) as (t & x & -> & Et & _ & _ & _ & Hpx).
    destruct (prefixes_decide s R Hok Hfam tr r q HR Hwr Hcr Hq (List.length q) (le_n _))
      as [Hall|Hex]; [|right; left; exact Hex].
    destruct (resolve_path s tr r q) as [c|] eqn:Er.
    - destruct (operand_node r q c operand_r Hq Er) as (tq & y & -> & Etq & _ & _ & _ & Hpy).
      rewrite <- Et in Etq. subst tq.
      destruct (HA q _ Hq Er) as (o & Ho & Heq).
      destruct (out_node q o Hq Ho) as (t2 & y2 & -> & Et2 & _ & _ & _ & Hy2).
      rewrite <- Et in Et2. subst t2.
      assert (Hfin : mclass s tr q (RNode t y2) -> pmem q (fsp s tr out) = true).
      { intros Hmo. apply (mem_of_class s R Hok Hfam out tr q t y2 HR Hwo Hco Hq Hne Ho Hmo Hy2). }
      simpl in Hmc. destruct Hmc as [Hl|Hrest]; [|left; apply Hfin; simpl; right; exact Hrest].
      destruct (leafy_or_granular s t y) as [Hly|Hgy].
      + left. apply Hfin. simpl. left. apply (leafy_veqb s t y y2); [|exact Hly].
        apply Heq. apply rnode_leaf_leafy. exact Hly.
      + right. right. exists t, x, y. auto 8.
    - left.
      pose proof (merge_keeps_thru s R Hok Hfam Hpure tr l r out q _ HR Hwl Hwr Hcl1 Hcr Hpr Hm Hq Hall Er Hres) as Ho.
      apply (mem_of_class s R Hok Hfam out tr q t x HR Hwo Hco Hq Hne Ho Hmc).
      apply plain_not_nil_list. exact Hpx.
  Qed.
End Union.
