(* Laws of PathElementSet (sorted slice of path elements) and PathElementMap. *)
From Coq Require Import List ZArith String Bool Arith Lia.
From SMD Require Import Base.Search Model.Value Model.Order Model.PathElem Model.PathSet
  Proofs.OrderLaws Proofs.SearchLaws Proofs.KeyLaws.
Import ListNotations.
Open Scope bool_scope.

Definition wf_pes (l : pes) : bool := forallb wf_pe l.
Definition pes_mem (e : pe) (l : pes) : bool := existsb (peeqb e) l.

Definition idk (x : pe) : pe := x.

Definition isSome {A : Type} (o : option A) : bool := match o with Some _ => true | None => false end.

(* ---------- generic insertion into a split sorted list ---------- *)
Section Insert.
  Context {A : Type}.
  Variable key : A -> pe.
  Variable upd : A -> A -> A.
  Variable upd_key : forall x z, key (upd x z) = key x.

  Definition gins_mid (z : A) (l2 : list A) : list A :=
    match l2 with
    | [] => [z]
    | x :: t => if peeqb (key x) (key z) then upd x z :: t else z :: x :: t
    end.

  Definition gins_new (z : A) (l2 : list A) : A :=
    match l2 with
    | [] => z
    | x :: _ => if peeqb (key x) (key z) then upd x z else z
    end.

  Definition gins (z : A) (l1 l2 : list A) : list A := l1 ++ gins_mid z l2.

  Lemma upper_head_gt : forall z x, wf_pe (key x) = true -> wf_pe (key z) = true ->
    pecmp (key x) (key z) <> Lt -> peeqb (key x) (key z) = false -> pecmp (key z) (key x) = Lt.
  Proof.
    intros z x Hx Hz Hnlt Hneq. apply pecmp_gt_lt.
    destruct (pecmp (key x) (key z)) eqn:Hc; auto; try contradiction.
    apply pecmp_eq_iff in Hc; auto. congruence.
  Qed.

  Lemma gins_sorted : forall z l1 l2, wf_pe (key z) = true -> kwf key (l1 ++ l2) ->
    ksorted key (l1 ++ l2) ->
    Forall (fun a => pecmp (key a) (key z) = Lt) l1 ->
    Forall (fun a => pecmp (key a) (key z) <> Lt) l2 ->
    ksorted key (gins z l1 l2).
  Proof.
    intros z l1 l2 Hz Hwf Hs Hlo Hhi. unfold gins.
    apply ksorted_app in Hs. destruct Hs as (Hs1 & Hs2 & Hcross).
    unfold kwf in Hwf. apply Forall_app in Hwf. destruct Hwf as [Hwf1 Hwf2].
    apply ksorted_app. split; [exact Hs1|].
    destruct l2 as [|x t]; simpl.
    - split; [split; [constructor|exact I]|].
      rewrite Forall_forall in *. intros a Ha. constructor; auto.
    - inversion Hhi as [|? ? Hxz Ht]; subst. inversion Hwf2 as [|? ? Hwx Hwt]; subst.
      destruct Hs2 as [Hxt Hst].
      destruct (peeqb (key x) (key z)) eqn:Heq.
      + split; [split; auto; rewrite upd_key; auto|].
        rewrite Forall_forall in *. intros a Ha. specialize (Hcross a Ha).
        inversion Hcross; subst. constructor; auto. rewrite upd_key; auto.
      + assert (Hzx : pecmp (key z) (key x) = Lt) by (apply upper_head_gt; auto).
        split.
        * split; [|split; auto]. constructor; auto. apply (klt_trans key _ (key x)); auto.
        * rewrite Forall_forall in *. intros a Ha. specialize (Hcross a Ha).
          constructor; auto.
  Qed.

  Lemma gins_kwf : forall z l1 l2, wf_pe (key z) = true -> kwf key (l1 ++ l2) ->
    kwf key (gins z l1 l2).
  Proof.
    intros z l1 l2 Hz Hwf. unfold gins, kwf in *. apply Forall_app in Hwf.
    destruct Hwf as [Hwf1 Hwf2]. apply Forall_app. split; auto.
    destruct l2 as [|x t]; simpl; [constructor; auto|].
    inversion Hwf2; subst. destruct (peeqb (key x) (key z)); repeat constructor; auto.
    rewrite upd_key; auto.
  Qed.

  Lemma gins_look : forall e z l1 l2, wf_pe e = true -> wf_pe (key z) = true ->
    kwf key (l1 ++ l2) -> ksorted key (l1 ++ l2) ->
    Forall (fun a => pecmp (key a) (key z) = Lt) l1 ->
    Forall (fun a => pecmp (key a) (key z) <> Lt) l2 ->
    klook key e (gins z l1 l2) =
      if peeqb e (key z) then Some (gins_new z l2) else klook key e (l1 ++ l2).
  Proof.
    intros e z l1 l2 He Hz Hwf Hs Hlo Hhi. unfold gins.
    pose proof Hwf as Hwf'. unfold kwf in Hwf'. apply Forall_app in Hwf'. destruct Hwf' as [Hwf1 Hwf2].
    apply ksorted_app in Hs. destruct Hs as (Hs1 & Hs2 & Hcross).
    rewrite !klook_app.
    destruct (peeqb e (key z)) eqn:Hez.
    - assert (Hl1 : klook key e l1 = None).
      { rewrite (klook_cong key e (key z)); auto. apply klook_below; auto. }
      rewrite Hl1. destruct l2 as [|x t]; unfold gins_mid, gins_new.
      + rewrite klook_cons, Hez. reflexivity.
      + inversion Hwf2; subst.
        destruct (peeqb (key x) (key z)) eqn:Hxz; rewrite klook_cons.
        * rewrite upd_key. rewrite (peeqb_cong_r e (key x) (key z)) by auto. rewrite Hez. reflexivity.
        * rewrite Hez. reflexivity.
    - destruct (klook key e l1); auto.
      destruct l2 as [|x t]; unfold gins_mid, gins_new.
      + rewrite klook_cons, Hez. reflexivity.
      + inversion Hwf2; subst.
        destruct (peeqb (key x) (key z)) eqn:Hxz; rewrite !klook_cons.
        * rewrite upd_key. rewrite (peeqb_cong_r e (key x) (key z)) by auto. rewrite Hez. reflexivity.
        * rewrite Hez. reflexivity.
  Qed.

  Lemma gins_In : forall z l1 l2 a, In a (gins z l1 l2) ->
    a = gins_new z l2 \/ In a (l1 ++ l2).
  Proof.
    intros z l1 l2 a Ha. unfold gins in Ha. apply in_app_or in Ha. destruct Ha as [Ha|Ha].
    - right. apply in_or_app. auto.
    - destruct l2 as [|x t]; simpl in *.
      + destruct Ha as [Ha|[]]; auto.
      + destruct (peeqb (key x) (key z)); simpl in Ha.
        * destruct Ha as [Ha|Ha]; auto. right. apply in_or_app. simpl. auto.
        * destruct Ha as [Ha|Ha]; auto. right. apply in_or_app. simpl. auto.
  Qed.

  Lemma gins_new_In : forall z l1 l2, In (gins_new z l2) (gins z l1 l2).
  Proof.
    intros z l1 l2. unfold gins. apply in_or_app. right.
    destruct l2 as [|x t]; simpl; auto. destruct (peeqb (key x) (key z)); simpl; auto.
  Qed.
End Insert.

(* ---------- bridging the boolean predicates ---------- *)
Lemma sorted_pes_iff : forall l, sorted_pes l = true <-> ksorted idk l.
Proof.
  intros l. induction l as [|x t IH]; simpl; [tauto|].
  destruct t as [|y t'].
  - simpl. split; auto. intros _. split; [constructor|exact I].
  - rewrite andb_true_iff, IH, peless_iff. split.
    + intros [Hxy Hs]. split; auto. pose proof Hs as [Hy _].
      constructor; auto. apply (klt_trans idk _ y); auto.
    + intros [Hx Hs]. inversion Hx; subst. auto.
Qed.

Lemma sorted_fst_iff : forall (A : Type) (l : list (pe * A)), sorted_fst l = true <-> ksorted fst l.
Proof.
  intros A l. induction l as [|x t IH]; simpl; [tauto|].
  destruct t as [|y t'].
  - simpl. split; auto. intros _. split; [constructor|exact I].
  - rewrite andb_true_iff, IH, peless_iff. split.
    + intros [Hxy Hs]. split; auto. pose proof Hs as [Hy _].
      constructor; auto. apply (klt_trans fst _ (fst y)); auto.
    + intros [Hx Hs]. inversion Hx; subst. auto.
Qed.

Lemma wf_pes_iff : forall l, wf_pes l = true <-> kwf idk l.
Proof.
  intros l. unfold wf_pes, kwf. rewrite forallb_forall, Forall_forall. reflexivity.
Qed.

Lemma wf_keys_iff : forall (A : Type) (l : list (pe * A)),
  forallb (fun ec => wf_pe (fst ec)) l = true <-> kwf fst l.
Proof.
  intros A l. unfold kwf. rewrite forallb_forall, Forall_forall. reflexivity.
Qed.

Lemma pes_mem_look : forall e l, pes_mem e l = isSome (klook idk e l).
Proof.
  intros e l. unfold pes_mem, klook, idk. induction l as [|x t IH]; simpl; auto.
  destruct (peeqb e x); simpl; auto.
Qed.

Lemma pes_loc_gloc : forall e l, pes_loc e l = gloc idk e l.
Proof.
  intros e l. unfold pes_loc, gloc. apply search_ext. intros k Hk.
  rewrite (nth_error_nth_default _ l k pe_default Hk). reflexivity.
Qed.

Lemma pem_loc_gloc : forall (A : Type) e (l : pem A), pem_loc e l = gloc fst e l.
Proof.
  intros A e l. unfold pem_loc, gloc. apply search_ext. intros k Hk.
  destruct (nth_error l k) as [[e' v]|]; reflexivity.
Qed.

(* ---------- PathElementSet ---------- *)
Lemma pes_has_spec : forall e l, sorted_pes l = true -> wf_pes l = true -> wf_pe e = true ->
  pes_has e l = pes_mem e l.
Proof.
  intros e l Hs Hwf He. apply sorted_pes_iff in Hs. apply wf_pes_iff in Hwf.
  unfold pes_has. rewrite pes_loc_gloc, pes_mem_look, (klook_split idk e l He Hwf Hs).
  destruct (gloc_split idk e l Hs) as (Hn & _ & _).
  rewrite nth_skipn_hd. pose proof (skipn_nil_iff _ (gloc idk e l) l Hn) as Hnil.
  destruct (skipn (gloc idk e l) l) as [|x t].
  - assert (gloc idk e l = List.length l) as -> by (apply Hnil; auto).
    rewrite Nat.eqb_refl. reflexivity.
  - destruct (Nat.eqb (gloc idk e l) (List.length l)) eqn:Heqb.
    + apply Nat.eqb_eq in Heqb. apply Hnil in Heqb. discriminate.
    + simpl. unfold idk. destruct (peeqb x e); reflexivity.
Qed.

Definition pes_upd (x z : pe) : pe := x.

Lemma pes_insert_gins : forall e l, ksorted idk l ->
  pes_insert e l = gins idk pes_upd e (firstn (gloc idk e l) l) (skipn (gloc idk e l) l).
Proof.
  intros e l Hs. unfold pes_insert. rewrite pes_loc_gloc.
  destruct (gloc_split idk e l Hs) as (Hn & _ & _).
  rewrite nth_skipn_hd. pose proof (skipn_nil_iff _ (gloc idk e l) l Hn) as Hnil.
  unfold gins, insert_at.
  destruct (skipn (gloc idk e l) l) as [|x t] eqn:Hsk.
  - assert (gloc idk e l = List.length l) as Heq by (apply Hnil; auto).
    rewrite Heq, Nat.eqb_refl. rewrite firstn_all. reflexivity.
  - destruct (Nat.eqb (gloc idk e l) (List.length l)) eqn:Heqb.
    + apply Nat.eqb_eq in Heqb. apply Hnil in Heqb. discriminate.
    + simpl. unfold idk, pes_upd. destruct (peeqb x e); auto.
      rewrite <- Hsk. symmetry. apply firstn_skipn.
Qed.

Lemma pes_insert_facts : forall e l, sorted_pes l = true -> wf_pes l = true -> wf_pe e = true ->
  ksorted idk (pes_insert e l) /\ kwf idk (pes_insert e l) /\
  forall x, wf_pe x = true ->
    klook idk x (pes_insert e l) =
      if peeqb x e then Some (gins_new idk pes_upd e (skipn (gloc idk e l) l)) else klook idk x l.
Proof.
  intros e l Hs Hwf He. apply sorted_pes_iff in Hs. apply wf_pes_iff in Hwf.
  rewrite (pes_insert_gins e l Hs).
  destruct (gloc_split idk e l Hs) as (Hn & Hlo & Hhi).
  set (l1 := firstn (gloc idk e l) l) in *. set (l2 := skipn (gloc idk e l) l) in *.
  assert (Hl : l1 ++ l2 = l) by apply firstn_skipn.
  split; [|split].
  - apply gins_sorted; auto; rewrite Hl; auto.
  - apply gins_kwf; auto; rewrite Hl; auto.
  - intros x Hx. rewrite (gins_look idk pes_upd) ; auto; rewrite Hl; auto.
Qed.

Lemma pes_insert_sorted : forall e l, sorted_pes l = true -> wf_pes l = true -> wf_pe e = true ->
  sorted_pes (pes_insert e l) = true /\ wf_pes (pes_insert e l) = true.
Proof.
  intros e l Hs Hwf He. destruct (pes_insert_facts e l Hs Hwf He) as (H1 & H2 & _).
  split; [apply sorted_pes_iff|apply wf_pes_iff]; auto.
Qed.

Lemma pes_insert_mem : forall e x l, sorted_pes l = true -> wf_pes l = true -> wf_pe e = true -> wf_pe x = true ->
  pes_mem x (pes_insert e l) = peeqb x e || pes_mem x l.
Proof.
  intros e x l Hs Hwf He Hx. destruct (pes_insert_facts e l Hs Hwf He) as (_ & _ & H3).
  rewrite !pes_mem_look, (H3 x Hx). destruct (peeqb x e); reflexivity.
Qed.

Lemma pes_insert_nonempty : forall e l, pes_insert e l <> [].
Proof.
  intros e l. unfold pes_insert.
  destruct (Nat.eqb (pes_loc e l) (List.length l)) eqn:Heqb.
  - destruct l; discriminate.
  - apply Nat.eqb_neq in Heqb. destruct (peeqb _ e).
    + destruct l; [|discriminate]. exfalso. apply Heqb. reflexivity.
    + unfold insert_at. destruct (firstn (pes_loc e l) l); discriminate.
Qed.

(* the three merges as instances of the generic merge *)
Definition pes_union_fb (x y : pe) : option pe := Some y.
Definition pes_inter_fb (x y : pe) : option pe := Some x.
Definition pes_none (x : pe) : option pe := None.
Definition pes_none2 (x y : pe) : option pe := None.

Lemma pes_union_gmerge : forall l1 l2,
  pes_union l1 l2 = gmerge idk (@Some pe) (@Some pe) pes_union_fb l1 l2.
Proof.
  apply merge_ind.
  - intros l2. rewrite gmerge_nil_l, omap_Some. destruct l2; reflexivity.
  - intros l1. rewrite gmerge_nil_r, omap_Some. destruct l1; reflexivity.
  - intros x xs y ys IHa IHb IHc.
    change (gmerge idk (@Some pe) (@Some pe) pes_union_fb (x :: xs) (y :: ys)) with
      (if peless x y then x :: gmerge idk (@Some pe) (@Some pe) pes_union_fb xs (y :: ys)
       else if negb (peless y x) then y :: gmerge idk (@Some pe) (@Some pe) pes_union_fb xs ys
       else y :: gmerge idk (@Some pe) (@Some pe) pes_union_fb (x :: xs) ys).
    rewrite <- IHa, <- IHb, <- IHc. reflexivity.
Qed.

Lemma pes_inter_gmerge : forall l1 l2,
  pes_inter l1 l2 = gmerge idk pes_none pes_none pes_inter_fb l1 l2.
Proof.
  apply merge_ind.
  - intros l2. rewrite gmerge_nil_l. unfold pes_none. rewrite omap_None. destruct l2; reflexivity.
  - intros l1. rewrite gmerge_nil_r. unfold pes_none. rewrite omap_None. destruct l1; reflexivity.
  - intros x xs y ys IHa IHb IHc.
    change (gmerge idk pes_none pes_none pes_inter_fb (x :: xs) (y :: ys)) with
      (if peless x y then gmerge idk pes_none pes_none pes_inter_fb xs (y :: ys)
       else if negb (peless y x) then x :: gmerge idk pes_none pes_none pes_inter_fb xs ys
       else gmerge idk pes_none pes_none pes_inter_fb (x :: xs) ys).
    rewrite <- IHa, <- IHb, <- IHc. reflexivity.
Qed.

Lemma pes_diff_gmerge : forall l1 l2,
  pes_diff l1 l2 = gmerge idk (@Some pe) pes_none pes_none2 l1 l2.
Proof.
  apply merge_ind.
  - intros l2. rewrite gmerge_nil_l. unfold pes_none. rewrite omap_None. destruct l2; reflexivity.
  - intros l1. rewrite gmerge_nil_r. rewrite omap_Some. destruct l1; reflexivity.
  - intros x xs y ys IHa IHb IHc.
    change (gmerge idk (@Some pe) pes_none pes_none2 (x :: xs) (y :: ys)) with
      (if peless x y then x :: gmerge idk (@Some pe) pes_none pes_none2 xs (y :: ys)
       else if negb (peless y x) then gmerge idk (@Some pe) pes_none pes_none2 xs ys
       else gmerge idk (@Some pe) pes_none pes_none2 (x :: xs) ys).
    rewrite <- IHa, <- IHb, <- IHc. reflexivity.
Qed.

Ltac pes_key_side :=
  solve [ intros ? ? Hq; inversion Hq; subst; reflexivity
        | intros ? ? Hq; discriminate Hq
        | intros ? ? ? Hq; inversion Hq; subst; auto
        | intros ? ? ? Hq; discriminate Hq ].

Lemma pes_union_spec : forall a b x, sorted_pes a = true -> sorted_pes b = true ->
  wf_pes a = true -> wf_pes b = true -> wf_pe x = true ->
  sorted_pes (pes_union a b) = true /\ wf_pes (pes_union a b) = true /\
  pes_mem x (pes_union a b) = pes_mem x a || pes_mem x b.
Proof.
  intros a b x Hsa Hsb Hwa Hwb Hx.
  apply sorted_pes_iff in Hsa, Hsb. apply wf_pes_iff in Hwa, Hwb.
  rewrite pes_union_gmerge. split; [|split].
  - apply sorted_pes_iff. apply gmerge_sorted; auto; pes_key_side.
  - apply wf_pes_iff. apply gmerge_kwf; auto; pes_key_side.
  - rewrite !pes_mem_look, gmerge_look; auto; try pes_key_side.
    destruct (klook idk x a), (klook idk x b); reflexivity.
Qed.

Lemma pes_inter_spec : forall a b x, sorted_pes a = true -> sorted_pes b = true ->
  wf_pes a = true -> wf_pes b = true -> wf_pe x = true ->
  sorted_pes (pes_inter a b) = true /\ wf_pes (pes_inter a b) = true /\
  pes_mem x (pes_inter a b) = pes_mem x a && pes_mem x b.
Proof.
  intros a b x Hsa Hsb Hwa Hwb Hx.
  apply sorted_pes_iff in Hsa, Hsb. apply wf_pes_iff in Hwa, Hwb.
  rewrite pes_inter_gmerge. split; [|split].
  - apply sorted_pes_iff. apply gmerge_sorted; auto; pes_key_side.
  - apply wf_pes_iff. apply gmerge_kwf; auto; pes_key_side.
  - rewrite !pes_mem_look, gmerge_look; auto; try pes_key_side.
    destruct (klook idk x a), (klook idk x b); reflexivity.
Qed.

Lemma pes_diff_spec : forall a b x, sorted_pes a = true -> sorted_pes b = true ->
  wf_pes a = true -> wf_pes b = true -> wf_pe x = true ->
  sorted_pes (pes_diff a b) = true /\ wf_pes (pes_diff a b) = true /\
  pes_mem x (pes_diff a b) = pes_mem x a && negb (pes_mem x b).
Proof.
  intros a b x Hsa Hsb Hwa Hwb Hx.
  apply sorted_pes_iff in Hsa, Hsb. apply wf_pes_iff in Hwa, Hwb.
  rewrite pes_diff_gmerge. split; [|split].
  - apply sorted_pes_iff. apply gmerge_sorted; auto; pes_key_side.
  - apply wf_pes_iff. apply gmerge_kwf; auto; pes_key_side.
  - rewrite !pes_mem_look, gmerge_look; auto; try pes_key_side.
    destruct (klook idk x a), (klook idk x b); reflexivity.
Qed.

(* membership facts on sorted lists *)
Lemma pes_mem_cons : forall x a t, pes_mem x (a :: t) = peeqb x a || pes_mem x t.
Proof. reflexivity. Qed.

Lemma pes_mem_above : forall x a t, wf_pe x = true -> wf_pe a = true -> kwf idk t ->
  pecmp x a = Eq \/ pecmp x a = Lt -> klt idk a t -> pes_mem x t = false.
Proof.
  intros x a t Hx Ha Hwf Hc Hlt. rewrite pes_mem_look.
  rewrite (klook_above idk x t); auto.
  destruct Hc as [Hc|Hc]; [apply (klt_eq idk x a)|apply (klt_trans idk x a)]; auto.
Qed.

Lemma pes_mem_cong : forall x y l, wf_pe x = true -> wf_pe y = true -> wf_pes l = true ->
  peeqb x y = true -> pes_mem x l = pes_mem y l.
Proof.
  intros x y l Hx Hy Hwf Hxy. apply wf_pes_iff in Hwf.
  rewrite !pes_mem_look, (klook_cong idk x y l); auto.
Qed.

Lemma pes_equals_ext : forall a b, sorted_pes a = true -> sorted_pes b = true ->
  wf_pes a = true -> wf_pes b = true ->
  (pes_equals a b = true <-> forall x, wf_pe x = true -> pes_mem x a = pes_mem x b).
Proof.
  intros a b Hsa Hsb Hwa Hwb.
  apply sorted_pes_iff in Hsa, Hsb. apply wf_pes_iff in Hwa, Hwb.
  revert b Hsb Hwb. induction Hwa as [|a0 a' Ha0 Hwa' IH]; intros b Hsb Hwb.
  - destruct b as [|b0 b']; cbn [pes_equals].
    + split; auto.
    + split; [discriminate|]. intros H. inversion Hwb; subst.
      specialize (H b0 ltac:(assumption)). rewrite pes_mem_cons in H.
      unfold idk in *. rewrite peeqb_refl in H by auto. simpl in H. discriminate.
  - destruct b as [|b0 b'].
    + cbn [pes_equals]. split; [discriminate|]. intros H.
      specialize (H a0 Ha0). rewrite pes_mem_cons in H.
      unfold idk in *. rewrite peeqb_refl in H by auto. simpl in H. discriminate.
    + inversion Hwb as [|? ? Hb0 Hwb']; subst. unfold idk in Ha0, Hb0.
      destruct Hsa as [Ha0lt Hsa']. destruct Hsb as [Hb0lt Hsb'].
      cbn [pes_equals]. rewrite andb_true_iff. rewrite (IH Hsa' b' Hsb' Hwb'). split.
      * intros [Heq Hext] x Hx. rewrite !pes_mem_cons.
        rewrite (peeqb_cong_r x a0 b0) by auto. rewrite (Hext x Hx). reflexivity.
      * intros Hext.
        assert (Hab : pecmp a0 b0 = Eq).
        { destruct (pecmp a0 b0) eqn:Hc; auto.
          - pose proof (Hext a0 Ha0) as H. rewrite !pes_mem_cons in H.
            rewrite peeqb_refl in H by auto. rewrite (plt_neq a0 b0) in H by auto.
            rewrite (pes_mem_above a0 b0 b') in H; auto. discriminate.
          - apply pecmp_gt_lt in Hc.
            pose proof (Hext b0 Hb0) as H. rewrite !pes_mem_cons in H.
            rewrite (peeqb_refl b0) in H by auto. rewrite (plt_neq b0 a0) in H by auto.
            rewrite (pes_mem_above b0 a0 a') in H; auto. discriminate. }
        assert (Heq : peeqb a0 b0 = true) by (apply pecmp_eq_iff; auto).
        split; auto. intros x Hx. pose proof (Hext x Hx) as H. rewrite !pes_mem_cons in H.
        rewrite (peeqb_cong_r x a0 b0) in H by auto.
        destruct (peeqb x b0) eqn:Hxb; simpl in H; auto.
        assert (Hxa : peeqb x a0 = true) by (rewrite (peeqb_cong_r x a0 b0); auto).
        rewrite (pes_mem_above x a0 a'); auto; [|left; apply pecmp_eq_iff; auto].
        rewrite (pes_mem_above x b0 b'); auto. left; apply pecmp_eq_iff; auto.
Qed.

(* ---------- PathElementMap ---------- *)
Definition pem_upd {A : Type} (x z : pe * A) : pe * A := (fst x, snd z).

Lemma pem_insert_gins : forall (A : Type) e (v : A) l,
  pem_insert e v l = gins fst pem_upd (e, v) (firstn (gloc fst e l) l) (skipn (gloc fst e l) l).
Proof.
  intros A e v l. unfold pem_insert. rewrite pem_loc_gloc, nth_error_skipn_hd.
  unfold gins, insert_at, replace_at. rewrite skipn_S_tl.
  destruct (skipn (gloc fst e l) l) as [|[e' v'] t] eqn:Hsk; simpl.
  - rewrite <- (firstn_skipn (gloc fst e l) l) at 1. rewrite Hsk, app_nil_r. reflexivity.
  - unfold pem_upd. simpl. destruct (peeqb e' e); reflexivity.
Qed.

Lemma pem_get_look : forall (A : Type) e (l : pem A), wf_pe e = true -> kwf fst l -> ksorted fst l ->
  pem_get e l = option_map snd (klook fst e l).
Proof.
  intros A e l He Hwf Hs. unfold pem_get. rewrite pem_loc_gloc, nth_error_skipn_hd.
  rewrite (klook_split fst e l He Hwf Hs).
  destruct (skipn (gloc fst e l) l) as [|[e' v'] t]; simpl; auto.
  destruct (peeqb e' e); reflexivity.
Qed.

Lemma pem_get_In : forall (A : Type) e (l : pem A) v, pem_get e l = Some v ->
  exists e', In (e', v) l /\ peeqb e' e = true.
Proof.
  intros A e l v H. unfold pem_get in H.
  destruct (nth_error l (pem_loc e l)) as [[e' v']|] eqn:Hn; [|discriminate].
  destruct (peeqb e' e) eqn:Heq; [|discriminate]. inversion H; subst.
  exists e'. split; auto. apply (nth_error_In _ _ Hn).
Qed.

Lemma pem_insert_facts : forall (A : Type) e (v : A) l,
  sorted_fst l = true -> forallb (fun ec => wf_pe (fst ec)) l = true -> wf_pe e = true ->
  ksorted fst (pem_insert e v l) /\ kwf fst (pem_insert e v l) /\
  forall x, wf_pe x = true ->
    klook fst x (pem_insert e v l) =
      if peeqb x e then Some (gins_new fst pem_upd (e, v) (skipn (gloc fst e l) l)) else klook fst x l.
Proof.
  intros A e v l Hs Hwf He. apply sorted_fst_iff in Hs. apply wf_keys_iff in Hwf.
  rewrite pem_insert_gins.
  destruct (gloc_split fst e l Hs) as (Hn & Hlo & Hhi).
  set (l1 := firstn (gloc fst e l) l) in *. set (l2 := skipn (gloc fst e l) l) in *.
  assert (Hl : l1 ++ l2 = l) by apply firstn_skipn.
  split; [|split].
  - apply gins_sorted; auto; rewrite Hl; auto.
  - apply gins_kwf; auto; rewrite Hl; auto.
  - intros x Hx. rewrite (gins_look fst pem_upd); auto; rewrite Hl; auto.
Qed.

Lemma gins_new_pem_snd : forall (A : Type) e (v : A) l2, snd (gins_new fst pem_upd (e, v) l2) = v.
Proof.
  intros A e v l2. destruct l2 as [|x t]; simpl; auto. destruct (peeqb (fst x) e); reflexivity.
Qed.

Lemma pem_get_insert : forall (A : Type) e x (v : A) l,
  sorted_fst l = true -> forallb (fun ec => wf_pe (fst ec)) l = true -> wf_pe e = true -> wf_pe x = true ->
  sorted_fst (pem_insert e v l) = true /\
  pem_get x (pem_insert e v l) = if peeqb x e then Some v else pem_get x l.
Proof.
  intros A e x v l Hs Hwf He Hx.
  destruct (pem_insert_facts A e v l Hs Hwf He) as (H1 & H2 & H3).
  split; [apply sorted_fst_iff; auto|].
  rewrite pem_get_look by auto. rewrite (H3 x Hx).
  destruct (peeqb x e).
  - simpl. rewrite gins_new_pem_snd. reflexivity.
  - symmetry. apply pem_get_look; auto; [apply wf_keys_iff|apply sorted_fst_iff]; auto.
Qed.

(* what ends up in the map after an insertion *)
Lemma pem_insert_In : forall (A : Type) e (v : A) l a, In a (pem_insert e v l) ->
  (snd a = v /\ (fst a = e \/ In (fst a) (map fst l))) \/ In a l.
Proof.
  intros A e v l a Ha. rewrite pem_insert_gins in Ha. apply gins_In in Ha.
  rewrite firstn_skipn in Ha. destruct Ha as [Ha|Ha]; auto. left. subst a.
  split; [apply gins_new_pem_snd|].
  destruct (skipn (gloc fst e l) l) as [|y t] eqn:Hsk; simpl; auto.
  destruct (peeqb (fst y) e); simpl; auto. right. apply in_map.
  rewrite <- (firstn_skipn (gloc fst e l) l), Hsk. apply in_or_app. simpl. auto.
Qed.

Lemma pem_insert_has : forall (A : Type) e (v : A) l, exists k, In (k, v) (pem_insert e v l).
Proof.
  intros A e v l. rewrite pem_insert_gins.
  exists (fst (gins_new fst pem_upd (e, v) (skipn (gloc fst e l) l))).
  rewrite <- (gins_new_pem_snd A e v (skipn (gloc fst e l) l)) at 2.
  rewrite <- surjective_pairing. apply gins_new_In.
Qed.
