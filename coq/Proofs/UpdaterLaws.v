(* C04/C05 at the level of update_core (Model/Updater.v), single-version case without
   ignore configuration.  Statements as in Proofs/UpdaterLaws_statements.v; every theorem
   is proved with Qed. *)
From Coq Require Import List ZArith String Bool Arith Lia.
From SMD Require Import Model.Value Model.Order Model.PathElem Model.PathSet Model.Schema
  Model.Walk Model.FieldSet Model.Merge Model.Compare Model.Matcher Model.Reconcile Model.Updater
  Spec.PathsAsSets Proofs.OrderLaws Proofs.PathSetLaws.
Import ListNotations.
Open Scope bool_scope.

Definition no_ignore (c : config) : Prop :=
  cfg_ignored_fields c = None /\ cfg_ignore_filter c = None.

(* every record is expressed in the version of the operation *)
Definition single_version (ver : string) (mf : managed) : Prop :=
  forallb (fun mr : string * mrec => String.eqb (mr_ver (snd mr)) ver) mf = true.

(* manager names unique and sorted (the model's representation of a Go map),
   every recorded set well formed *)
Definition mf_ok (mf : managed) : Prop :=
  sorted_keys mf = true /\ forallb (fun mr : string * mrec => ps_ok (mr_set (snd mr))) mf = true.

Definition cmp_ok (c : comparison3) : Prop :=
  ps_ok (removed c) = true /\ ps_ok (modified c) = true /\ ps_ok (added c) = true.

(* what a record other than the actor's keeps *)
Definition keeps (r : mrec) (cmp : comparison3) (p : path) : bool :=
  ps_has p (mr_set r) && negb (ps_has p (modified cmp) || ps_has p (added cmp)) && negb (ps_has p (removed cmp)).

(* the conflict pairs the property prescribes *)
Definition is_conflict (mf : managed) (w : string) (cmp : comparison3) (m : string) (p : path) : bool :=
  negb (String.eqb m w) &&
  match mf_get m mf with
  | Some r => ps_has p (mr_set r) && (ps_has p (modified cmp) || ps_has p (added cmp))
  | None => false
  end.

Definition conflict_listed (cs : list (string * path)) (m : string) (p : path) : bool :=
  existsb (fun mp : string * path => String.eqb (fst mp) m && patheqb (snd mp) p) cs.

(* ================= auxiliary: association lists ================= *)

Section Assoc.
  Context {A : Type}.

  Definition kgt (k : string) (l : list (string * A)) : Prop :=
    forall k' v, In (k', v) l -> String.compare k k' = Lt.

  Lemma sorted_keys_cons_iff : forall (t : list (string * A)) k v,
    sorted_keys ((k, v) :: t) = true <-> (kgt k t /\ sorted_keys t = true).
  Proof.
    induction t as [|[k' v'] t IH]; intros k v.
    - simpl. split.
      + intros _. split; [intros k' v' []|reflexivity].
      + intros _. reflexivity.
    - change (sorted_keys ((k, v) :: (k', v') :: t))
        with (str_ltb k k' && sorted_keys ((k', v') :: t)).
      rewrite andb_true_iff. split.
      + intros [Hlt Hs]. split; [|exact Hs].
        unfold str_ltb in Hlt. destruct (String.compare k k') eqn:E; try discriminate.
        intros k2 v2 [Heq|Hin].
        * inversion Heq; subst; exact E.
        * apply (IH k' v') in Hs. destruct Hs as [Hg _].
          eapply str_cmp_trans; [exact E|eapply Hg; exact Hin].
      + intros [Hg Hs]. split; [|exact Hs].
        unfold str_ltb. rewrite (Hg k' v' (or_introl eq_refl)). reflexivity.
  Qed.

  Lemma assoc_get_kgt : forall k (l : list (string * A)), kgt k l -> assoc_get k l = None.
  Proof.
    intros k l. induction l as [|[k' v'] t IH]; intros Hg; [reflexivity|].
    simpl. destruct (String.eqb k k') eqn:E.
    - apply String.eqb_eq in E. subst k'.
      pose proof (Hg k v' (or_introl eq_refl)) as Hlt. rewrite str_cmp_refl in Hlt. discriminate.
    - apply IH. intros k2 v2 Hin. apply (Hg k2 v2). right; exact Hin.
  Qed.

  Lemma assoc_get_in : forall k v (l : list (string * A)), assoc_get k l = Some v -> In (k, v) l.
  Proof.
    intros k v l. induction l as [|[k' v'] t IH]; simpl; intros H; [discriminate|].
    destruct (String.eqb k k') eqn:E.
    - apply String.eqb_eq in E. inversion H; subst. left; reflexivity.
    - right; apply IH; exact H.
  Qed.

  Lemma in_assoc_get : forall (l : list (string * A)) k v,
    sorted_keys l = true -> In (k, v) l -> assoc_get k l = Some v.
  Proof.
    induction l as [|[k' v'] t IH]; intros k v Hs Hin; [destruct Hin|].
    apply sorted_keys_cons_iff in Hs. destruct Hs as [Hg Hs].
    simpl. destruct Hin as [Heq|Hin].
    - inversion Heq; subst. rewrite String.eqb_refl. reflexivity.
    - pose proof (Hg k v Hin) as Hlt. apply str_cmp_lt_neq in Hlt.
      destruct (String.eqb k k') eqn:E.
      + apply String.eqb_eq in E. subst. exfalso; apply Hlt; reflexivity.
      + apply IH; assumption.
  Qed.

  Lemma assoc_get_set : forall k' k (v : A) (l : list (string * A)),
    assoc_get k' (assoc_set k v l) = if String.eqb k' k then Some v else assoc_get k' l.
  Proof.
    intros k' k v l. induction l as [|[k0 v0] t IH]; simpl.
    - destruct (String.eqb k' k); reflexivity.
    - destruct (String.compare k k0) eqn:E.
      + apply str_cmp_eq in E. subst k0. simpl. destruct (String.eqb k' k); reflexivity.
      + simpl. destruct (String.eqb k' k); reflexivity.
      + simpl. rewrite IH. destruct (String.eqb k' k0) eqn:E0; [|reflexivity].
        destruct (String.eqb k' k) eqn:E1; [|reflexivity].
        apply String.eqb_eq in E0. apply String.eqb_eq in E1. subst.
        rewrite str_cmp_refl in E. discriminate.
  Qed.

  Lemma in_assoc_set : forall k (v : A) (l : list (string * A)) x,
    In x (assoc_set k v l) -> x = (k, v) \/ In x l.
  Proof.
    intros k v l x. induction l as [|[k0 v0] t IH]; simpl.
    - intros [H|[]]. left; symmetry; exact H.
    - destruct (String.compare k k0).
      + intros [H|H]; [left; symmetry; exact H|right; right; exact H].
      + intros [H|H]; [left; symmetry; exact H|right; exact H].
      + intros [H|H]; [right; left; exact H|].
        destruct (IH H) as [H1|H1]; [left; exact H1|right; right; exact H1].
  Qed.

  Lemma assoc_set_sorted : forall k (v : A) (l : list (string * A)),
    sorted_keys l = true -> sorted_keys (assoc_set k v l) = true.
  Proof.
    intros k v l. induction l as [|[k0 v0] t IH]; intros Hs; [reflexivity|].
    pose proof Hs as Hs0.
    apply sorted_keys_cons_iff in Hs. destruct Hs as [Hg Hs].
    simpl. destruct (String.compare k k0) eqn:E.
    - apply str_cmp_eq in E. subst k0. apply sorted_keys_cons_iff. split; assumption.
    - apply sorted_keys_cons_iff. split; [|exact Hs0].
      intros k2 v2 [Heq|Hin].
      + inversion Heq; subst. exact E.
      + eapply str_cmp_trans; [exact E|eapply Hg; exact Hin].
    - apply sorted_keys_cons_iff. split; [|apply IH; exact Hs].
      intros k2 v2 Hin. apply in_assoc_set in Hin. destruct Hin as [Heq|Hin].
      + inversion Heq; subst. apply str_cmp_gt_lt. exact E.
      + eapply Hg; exact Hin.
  Qed.

  Lemma filter_sorted : forall (P : string * A -> bool) (l : list (string * A)),
    sorted_keys l = true -> sorted_keys (filter P l) = true.
  Proof.
    intros P l. induction l as [|[k0 v0] t IH]; intros Hs; [reflexivity|].
    apply sorted_keys_cons_iff in Hs. destruct Hs as [Hg Hs].
    simpl. destruct (P (k0, v0)).
    - apply sorted_keys_cons_iff. split; [|apply IH; exact Hs].
      intros k2 v2 Hin. apply filter_In in Hin. destruct Hin as [Hin _]. eapply Hg; exact Hin.
    - apply IH; exact Hs.
  Qed.

  Lemma assoc_get_filter : forall (P : string * A -> bool) (l : list (string * A)) m,
    sorted_keys l = true ->
    assoc_get m (filter P l) =
    match assoc_get m l with
    | Some v => if P (m, v) then Some v else None
    | None => None
    end.
  Proof.
    intros P l m. induction l as [|[k0 v0] t IH]; intros Hs; [reflexivity|].
    apply sorted_keys_cons_iff in Hs. destruct Hs as [Hg Hs].
    simpl. destruct (P (k0, v0)) eqn:EP.
    - simpl. destruct (String.eqb m k0) eqn:E.
      + apply String.eqb_eq in E. subst k0. rewrite EP. reflexivity.
      + apply IH; exact Hs.
    - destruct (String.eqb m k0) eqn:E.
      + apply String.eqb_eq in E. subst k0. rewrite EP.
        rewrite (IH Hs). rewrite (assoc_get_kgt m t Hg). reflexivity.
      + apply IH; exact Hs.
  Qed.

  Lemma filter_all : forall (B : Type) (f : B -> bool) (l : list B),
    (forall x, In x l -> f x = true) -> filter f l = l.
  Proof.
    intros B f l. induction l as [|x xs IH]; intros H; [reflexivity|].
    simpl. rewrite (H x (or_introl eq_refl)). f_equal. apply IH. intros y Hy. apply H. right; exact Hy.
  Qed.

  Lemma filter_none : forall (B : Type) (f : B -> bool) (l : list B),
    (forall x, In x l -> f x = false) -> filter f l = [].
  Proof.
    intros B f l. induction l as [|x xs IH]; intros H; [reflexivity|].
    simpl. rewrite (H x (or_introl eq_refl)). apply IH. intros y Hy. apply H. right; exact Hy.
  Qed.

  (* entries generated per key: selecting one key selects one entry's output *)
  Lemma filter_flat_map_key : forall (B : Type) (g : string * A -> list (string * B)),
    (forall mr ms, In ms (g mr) -> fst ms = fst mr) ->
    forall m (l : list (string * A)), sorted_keys l = true ->
    filter (fun ms => String.eqb m (fst ms)) (flat_map g l) =
    match assoc_get m l with Some r => g (m, r) | None => [] end.
  Proof.
    intros B g Hkey m l. induction l as [|[k0 v0] t IH]; intros Hs; [reflexivity|].
    apply sorted_keys_cons_iff in Hs. destruct Hs as [Hg Hs].
    simpl. rewrite filter_app. rewrite (IH Hs).
    destruct (String.eqb m k0) eqn:E.
    - apply String.eqb_eq in E. subst k0. rewrite (assoc_get_kgt m t Hg). rewrite app_nil_r.
      apply filter_all. intros ms Hin.
      rewrite (Hkey _ _ Hin). simpl. apply String.eqb_refl.
    - rewrite filter_none.
      + reflexivity.
      + intros ms Hin. rewrite (Hkey _ _ Hin). simpl. exact E.
  Qed.

  Lemma existsb_key : forall (F : string -> A -> bool) m (l : list (string * A)),
    sorted_keys l = true ->
    existsb (fun mr => String.eqb (fst mr) m && F (fst mr) (snd mr)) l =
    match assoc_get m l with Some r => F m r | None => false end.
  Proof.
    intros F m l. induction l as [|[k0 v0] t IH]; intros Hs; [reflexivity|].
    apply sorted_keys_cons_iff in Hs. destruct Hs as [Hg Hs].
    simpl. rewrite (IH Hs). rewrite (String.eqb_sym k0 m).
    destruct (String.eqb m k0) eqn:E.
    - apply String.eqb_eq in E. subst k0. rewrite (assoc_get_kgt m t Hg).
      simpl. apply orb_false_r.
    - reflexivity.
  Qed.
End Assoc.

(* ================= auxiliary: update_core in named pieces ================= *)

Definition with_cmp (manager : string) (r : mrec) (st : upd_state) (cmp : comparison3)
  : ures upd_state :=
  let conflictSet := ps_inter (mr_set r) (ps_union (modified cmp) (added cmp)) in
  let cs := if ps_empty conflictSet then us_conflicts st
            else us_conflicts st ++ [(manager, conflictSet)] in
  let rs := if ps_empty (removed cmp) then us_removed st
            else us_removed st ++ [(manager, removed cmp)] in
  UOk (mkUpd (us_managers st) (us_versions st) cs rs (us_n st)).

Definition ustep (c : config) (old new : tv) (workflow : string)
  (acc : ures upd_state) (mr : string * mrec) : ures upd_state :=
  match acc with
  | UErr e => UErr e
  | UOk st =>
      let manager := fst mr in
      let r := snd mr in
      if String.eqb manager workflow then UOk st
      else
        match assoc_get (mr_ver r) (us_versions st) with
        | Some cmp => with_cmp manager r st cmp
        | None =>
            let '(r1, n1) := convert c (us_n st) old (mr_ver r) in
            match r1 with
            | CMissing =>
                UOk (mkUpd (mf_del manager (us_managers st)) (us_versions st)
                       (us_conflicts st) (us_removed st) n1)
            | CFail => UErr EOther
            | COk vold =>
                let '(r2, n2) := convert c n1 new (mr_ver r) in
                match r2 with
                | CMissing =>
                    UOk (mkUpd (mf_del manager (us_managers st)) (us_versions st)
                           (us_conflicts st) (us_removed st) n2)
                | CFail => UErr EOther
                | COk vnew =>
                    match compare_tv c (mr_ver r, vold) (mr_ver r, vnew) with
                    | None => UErr EOther
                    | Some cmp1 =>
                        match ignore_filter_for c (mr_ver r) with
                        | None => UErr EOther
                        | Some f1 =>
                            let cmp := filter_cmp f1 cmp1 in
                            with_cmp manager r
                              (mkUpd (us_managers st) (us_versions st ++ [(mr_ver r, cmp)])
                                 (us_conflicts st) (us_removed st) n2) cmp
                        end
                    end
                end
            end
        end
  end.

Definition rdiff (r : mrec) (s : pset) : mrec :=
  mkRec (ps_diff (mr_set r) s) (mr_ver r) (mr_applied r).

Definition usub (mf : managed) (ms : string * pset) : managed :=
  match mf_get (fst ms) mf with
  | Some r => mf_set (fst ms) (rdiff r (snd ms)) mf
  | None => mf
  end.

Definition nonempty_rec (mr : string * mrec) : bool := negb (ps_empty (mr_set (snd mr))).

Definition upost (st : upd_state) : managed :=
  filter nonempty_rec (fold_left usub (us_removed st) (fold_left usub (us_conflicts st) (us_managers st))).

Definition ufinish (cmpv : comparison3) (force : bool) (st : upd_state)
  : ures (managed * comparison3 * nat) :=
  if negb force && negb (match us_conflicts st with [] => true | _ => false end) then
    UErr (EConflict (conflicts_of (us_conflicts st)))
  else UOk (upost st, cmpv, us_n st).

Definition ufold (c : config) (n : nat) (old new : tv) (version : string) (managers : managed)
  (workflow : string) (cmpv : comparison3) : ures upd_state :=
  fold_left (ustep c old new workflow) managers (UOk (mkUpd managers [(version, cmpv)] [] [] n)).

Lemma update_core_unfold : forall c n old new version managers workflow force,
  update_core c n old new version managers workflow force =
  match compare_tv c old new with
  | None => UErr EOther
  | Some cmp0 =>
      match ignore_filter_for c version with
      | None => UErr EOther
      | Some f0 =>
          match ufold c n old new version managers workflow (filter_cmp f0 cmp0) with
          | UErr e => UErr e
          | UOk st => ufinish (filter_cmp f0 cmp0) force st
          end
      end
  end.
Proof. reflexivity. Qed.

(* ---- the fold never records an empty conflict set ---- *)

Definition conf_nonempty (st : upd_state) : Prop :=
  Forall (fun ms : string * pset => ps_empty (snd ms) = false) (us_conflicts st).

Lemma with_cmp_nonempty : forall m r st cmp st',
  conf_nonempty st -> with_cmp m r st cmp = UOk st' -> conf_nonempty st'.
Proof.
  intros m r st cmp st' Hinv H. unfold with_cmp in H. inversion H; subst; clear H.
  unfold conf_nonempty; simpl.
  destruct (ps_empty (ps_inter (mr_set r) (ps_union (modified cmp) (added cmp)))) eqn:E.
  - exact Hinv.
  - apply Forall_app. split; [exact Hinv|]. constructor; [exact E|constructor].
Qed.

Lemma ustep_nonempty : forall c old new w st mr st',
  conf_nonempty st -> ustep c old new w (UOk st) mr = UOk st' -> conf_nonempty st'.
Proof.
  intros c old new w st mr st' Hinv H. unfold ustep in H.
  destruct (String.eqb (fst mr) w).
  { inversion H; subst; exact Hinv. }
  destruct (assoc_get (mr_ver (snd mr)) (us_versions st)) as [cmp|].
  { eapply with_cmp_nonempty; eassumption. }
  unfold convert in H. simpl in H.
  destruct (cfg_convert c (us_n st) (fst old) (mr_ver (snd mr)) (snd old)) as [vold| |];
    [|inversion H; subst; exact Hinv|discriminate].
  destruct (cfg_convert c (S (us_n st)) (fst new) (mr_ver (snd mr)) (snd new)) as [vnew| |];
    [|inversion H; subst; exact Hinv|discriminate].
  destruct (compare_tv c (mr_ver (snd mr), vold) (mr_ver (snd mr), vnew)) as [cmp1|]; [|discriminate].
  destruct (ignore_filter_for c (mr_ver (snd mr))) as [f1|]; [|discriminate].
  eapply with_cmp_nonempty; [|exact H]. exact Hinv.
Qed.

Lemma fold_ustep_err : forall c old new w l e,
  fold_left (ustep c old new w) l (UErr e) = UErr e.
Proof. intros c old new w l e. induction l as [|a l IH]; [reflexivity|exact IH]. Qed.

Lemma fold_ustep_nonempty : forall c old new w l st st',
  conf_nonempty st -> fold_left (ustep c old new w) l (UOk st) = UOk st' -> conf_nonempty st'.
Proof.
  intros c old new w l. induction l as [|a l IH]; intros st st' Hinv H.
  - inversion H; subst; exact Hinv.
  - cbn [fold_left] in H. destruct (ustep c old new w (UOk st) a) as [st1|e] eqn:E.
    + eapply IH; [|exact H]. eapply ustep_nonempty; eassumption.
    + rewrite fold_ustep_err in H. discriminate.
Qed.

Lemma ustep_err_other : forall c old new w st mr e,
  ustep c old new w (UOk st) mr = UErr e -> e = EOther.
Proof.
  intros c old new w st mr e H. unfold ustep in H.
  destruct (String.eqb (fst mr) w); [discriminate|].
  destruct (assoc_get (mr_ver (snd mr)) (us_versions st)) as [cmp|].
  { unfold with_cmp in H. discriminate. }
  unfold convert in H. simpl in H.
  destruct (cfg_convert c (us_n st) (fst old) (mr_ver (snd mr)) (snd old)) as [vold| |];
    [|discriminate|inversion H; reflexivity].
  destruct (cfg_convert c (S (us_n st)) (fst new) (mr_ver (snd mr)) (snd new)) as [vnew| |];
    [|discriminate|inversion H; reflexivity].
  destruct (compare_tv c (mr_ver (snd mr), vold) (mr_ver (snd mr), vnew)) as [cmp1|];
    [|inversion H; reflexivity].
  destruct (ignore_filter_for c (mr_ver (snd mr))) as [f1|]; [|inversion H; reflexivity].
  unfold with_cmp in H. discriminate.
Qed.

Lemma fold_ustep_err_other : forall c old new w l st e,
  fold_left (ustep c old new w) l (UOk st) = UErr e -> e = EOther.
Proof.
  intros c old new w l. induction l as [|a l IH]; intros st e H.
  - discriminate.
  - cbn [fold_left] in H. destruct (ustep c old new w (UOk st) a) as [st1|e1] eqn:E.
    + eapply IH; exact H.
    + rewrite fold_ustep_err in H. inversion H; subst. eapply ustep_err_other; exact E.
Qed.

Lemma ps_elems_nonnil : forall s p, In p (ps_elems s) -> p <> [].
Proof.
  intros [m c] p Hin. simpl in Hin. apply in_app_or in Hin. destruct Hin as [Hin|Hin].
  - apply in_map_iff in Hin. destruct Hin as [e [He _]]. subst p. discriminate.
  - apply in_flat_map in Hin. destruct Hin as [ec [_ Hin]].
    apply in_map_iff in Hin. destruct Hin as [q [Hq _]]. subst p. discriminate.
Qed.

Lemma conflicts_of_nonnil : forall cs,
  Forall (fun ms : string * pset => ps_empty (snd ms) = false) cs -> cs <> [] -> conflicts_of cs <> [].
Proof.
  intros cs HF Hne. destruct cs as [|[m s] t]; [exfalso; apply Hne; reflexivity|].
  inversion HF as [|x y Hx Hy]; subst. simpl in Hx.
  unfold conflicts_of. simpl.
  destruct (ps_elems s) as [|p ps] eqn:E.
  - assert (ps_empty s = true) as Ht by (apply ps_empty_elems; exact E).
    rewrite Ht in Hx. discriminate.
  - simpl. discriminate.
Qed.

(* ================= the general theorems ================= *)

(* a forced update never reports a conflict *)
Theorem update_core_force_no_conflict : forall c n old new ver mf w cs,
  update_core c n old new ver mf w true <> UErr (EConflict cs).
Proof.
  intros c n old new ver mf w cs. rewrite update_core_unfold.
  destruct (compare_tv c old new) as [cmp0|]; [|discriminate].
  destruct (ignore_filter_for c ver) as [f0|]; [|discriminate].
  destruct (ufold c n old new ver mf w (filter_cmp f0 cmp0)) as [st|e] eqn:E.
  - unfold ufinish. simpl. discriminate.
  - intros H. inversion H; subst. apply fold_ustep_err_other in E. discriminate.
Qed.

(* whenever the non-forced update succeeds it returns what the forced one returns *)
Theorem update_core_noforce_ok : forall c n old new ver mf w r,
  update_core c n old new ver mf w false = UOk r -> update_core c n old new ver mf w true = UOk r.
Proof.
  intros c n old new ver mf w r. rewrite !update_core_unfold.
  destruct (compare_tv c old new) as [cmp0|]; [|discriminate].
  destruct (ignore_filter_for c ver) as [f0|]; [|discriminate].
  destruct (ufold c n old new ver mf w (filter_cmp f0 cmp0)) as [st|e] eqn:E; [|discriminate].
  unfold ufinish. destruct (us_conflicts st) as [|x xs]; simpl.
  - intros H; exact H.
  - discriminate.
Qed.

(* a non-forced update that does not succeed either reports conflicts, and then the forced
   one succeeds, or fails exactly as the forced one fails *)
Theorem update_core_noforce_err : forall c n old new ver mf w e,
  update_core c n old new ver mf w false = UErr e ->
  (exists cs r, e = EConflict cs /\ cs <> [] /\ update_core c n old new ver mf w true = UOk r)
  \/ update_core c n old new ver mf w true = UErr e.
Proof.
  intros c n old new ver mf w e. rewrite !update_core_unfold.
  destruct (compare_tv c old new) as [cmp0|]; [|intros H; right; exact H].
  destruct (ignore_filter_for c ver) as [f0|]; [|intros H; right; exact H].
  destruct (ufold c n old new ver mf w (filter_cmp f0 cmp0)) as [st|e0] eqn:E;
    [|intros H; right; exact H].
  assert (conf_nonempty st) as Hne.
  { unfold ufold in E. eapply fold_ustep_nonempty; [|exact E]. constructor. }
  unfold ufinish. unfold conf_nonempty in Hne.
  destruct (us_conflicts st) as [|x xs] eqn:EC; simpl.
  - discriminate.
  - intros H. inversion H; subst e. left.
    exists (conflicts_of (x :: xs)), (upost st, filter_cmp f0 cmp0, us_n st).
    split; [reflexivity|]. split; [|reflexivity].
    apply conflicts_of_nonnil; [exact Hne|discriminate].
Qed.

(* ================= single version, no ignore configuration ================= *)

Definition cset (cmp : comparison3) (r : mrec) : pset :=
  ps_inter (mr_set r) (ps_union (modified cmp) (added cmp)).

Definition cgen (w : string) (cmp : comparison3) (mr : string * mrec) : list (string * pset) :=
  if String.eqb (fst mr) w then []
  else if ps_empty (cset cmp (snd mr)) then [] else [(fst mr, cset cmp (snd mr))].

Definition rgen (w : string) (cmp : comparison3) (mr : string * mrec) : list (string * pset) :=
  if String.eqb (fst mr) w then []
  else if ps_empty (removed cmp) then [] else [(fst mr, removed cmp)].

Lemma fold_single : forall c old new w ver cmp l mf0 cs rs n,
  single_version ver l ->
  fold_left (ustep c old new w) l (UOk (mkUpd mf0 [(ver, cmp)] cs rs n)) =
  UOk (mkUpd mf0 [(ver, cmp)] (cs ++ flat_map (cgen w cmp) l) (rs ++ flat_map (rgen w cmp) l) n).
Proof.
  intros c old new w ver cmp l. induction l as [|a l IH]; intros mf0 cs rs n Hsv.
  - simpl. rewrite !app_nil_r. reflexivity.
  - unfold single_version in Hsv. cbn [forallb] in Hsv. apply andb_true_iff in Hsv.
    destruct Hsv as [Ha Hl].
    cbn [fold_left flat_map].
    assert (ustep c old new w (UOk (mkUpd mf0 [(ver, cmp)] cs rs n)) a =
            UOk (mkUpd mf0 [(ver, cmp)] (cs ++ cgen w cmp a) (rs ++ rgen w cmp a) n)) as Hstep.
    { unfold ustep, cgen, rgen. destruct (String.eqb (fst a) w).
      - rewrite !app_nil_r. reflexivity.
      - cbn [us_versions assoc_get]. rewrite Ha. unfold with_cmp, cset.
        cbn [us_managers us_versions us_conflicts us_removed us_n].
        destruct (ps_empty (ps_inter (mr_set (snd a)) (ps_union (modified cmp) (added cmp))));
          destruct (ps_empty (removed cmp)); rewrite ?app_nil_r; reflexivity. }
    rewrite Hstep. rewrite (IH mf0 _ _ n Hl). rewrite !app_assoc. reflexivity.
Qed.

Lemma cgen_key : forall w cmp mr ms, In ms (cgen w cmp mr) -> fst ms = fst mr.
Proof.
  intros w cmp mr ms. unfold cgen. destruct (String.eqb (fst mr) w); [intros []|].
  destruct (ps_empty (cset cmp (snd mr))); [intros []|].
  intros [H|[]]. subst ms. reflexivity.
Qed.

Lemma rgen_key : forall w cmp mr ms, In ms (rgen w cmp mr) -> fst ms = fst mr.
Proof.
  intros w cmp mr ms. unfold rgen. destruct (String.eqb (fst mr) w); [intros []|].
  destruct (ps_empty (removed cmp)); [intros []|].
  intros [H|[]]. subst ms. reflexivity.
Qed.

(* ---- post-processing ---- *)

Definition subs_for (m : string) (L : list (string * pset)) : list pset :=
  map snd (filter (fun ms : string * pset => String.eqb m (fst ms)) L).

Lemma usub_get : forall m mf ms,
  mf_get m (usub mf ms) =
  if String.eqb m (fst ms) then option_map (fun r => rdiff r (snd ms)) (mf_get m mf)
  else mf_get m mf.
Proof.
  intros m mf ms. unfold usub.
  destruct (mf_get (fst ms) mf) as [r|] eqn:E.
  - unfold mf_get, mf_set in *. rewrite assoc_get_set.
    destruct (String.eqb m (fst ms)) eqn:Em; [|reflexivity].
    apply String.eqb_eq in Em. subst m. rewrite E. reflexivity.
  - destruct (String.eqb m (fst ms)) eqn:Em; [|reflexivity].
    apply String.eqb_eq in Em. subst m. rewrite E. reflexivity.
Qed.

Lemma fold_usub_get : forall L m mf,
  mf_get m (fold_left usub L mf) =
  option_map (fun r => fold_left rdiff (subs_for m L) r) (mf_get m mf).
Proof.
  induction L as [|a L IH]; intros m mf.
  - simpl. destruct (mf_get m mf); reflexivity.
  - cbn [fold_left]. rewrite IH. rewrite usub_get. unfold subs_for. cbn [filter].
    destruct (String.eqb m (fst a)); [|reflexivity].
    destruct (mf_get m mf); reflexivity.
Qed.

Lemma usub_sorted : forall mf ms, sorted_keys mf = true -> sorted_keys (usub mf ms) = true.
Proof.
  intros mf ms Hs. unfold usub. destruct (mf_get (fst ms) mf); [|exact Hs].
  unfold mf_set. apply assoc_set_sorted. exact Hs.
Qed.

Lemma fold_usub_sorted : forall L mf, sorted_keys mf = true -> sorted_keys (fold_left usub L mf) = true.
Proof.
  induction L as [|a L IH]; intros mf Hs; [exact Hs|].
  cbn [fold_left]. apply IH. apply usub_sorted. exact Hs.
Qed.

(* the record of manager m after the subtraction of its conflict and removed sets *)
Definition final_rec (w : string) (cmp : comparison3) (m : string) (r : mrec) : mrec :=
  fold_left rdiff (map snd (rgen w cmp (m, r))) (fold_left rdiff (map snd (cgen w cmp (m, r))) r).

Lemma upost_get : forall w cmp mf ver n m,
  sorted_keys mf = true ->
  mf_get m (upost (mkUpd mf [(ver, cmp)] (flat_map (cgen w cmp) mf) (flat_map (rgen w cmp) mf) n)) =
  match mf_get m mf with
  | None => None
  | Some r => if ps_empty (mr_set (final_rec w cmp m r)) then None else Some (final_rec w cmp m r)
  end.
Proof.
  intros w cmp mf ver n m Hs. unfold upost. cbn [us_managers us_conflicts us_removed].
  unfold mf_get at 1. rewrite assoc_get_filter.
  2:{ apply fold_usub_sorted. apply fold_usub_sorted. exact Hs. }
  fold (mf_get m (fold_left usub (flat_map (rgen w cmp) mf) (fold_left usub (flat_map (cgen w cmp) mf) mf))).
  rewrite !fold_usub_get. unfold subs_for.
  rewrite (filter_flat_map_key _ (cgen w cmp) (cgen_key w cmp) m mf Hs).
  rewrite (filter_flat_map_key _ (rgen w cmp) (rgen_key w cmp) m mf Hs).
  unfold mf_get. destruct (assoc_get m mf) as [r|]; [|reflexivity].
  simpl option_map. unfold nonempty_rec. cbn [snd]. fold (final_rec w cmp m r).
  destruct (ps_empty (mr_set (final_rec w cmp m r))); reflexivity.
Qed.

(* ---- emptiness and membership ---- *)

Lemma ps_empty_has : forall s p, ps_ok s = true -> ps_empty s = true -> wf_path p = true ->
  ps_has p s = false.
Proof.
  intros s p Hok He Hp. rewrite (ps_has_elems s p Hok Hp).
  apply ps_empty_elems in He. rewrite He. reflexivity.
Qed.

Lemma ps_nonempty_has : forall s, ps_ok s = true -> ps_empty s = false ->
  exists p, wf_path p = true /\ p <> [] /\ ps_has p s = true.
Proof.
  intros s Hok He. destruct (ps_elems s) as [|p ps] eqn:E.
  - apply ps_empty_elems in E. rewrite E in He. discriminate.
  - pose proof (ps_elems_wf s Hok) as Hwf. rewrite E in Hwf. cbn [forallb] in Hwf.
    apply andb_true_iff in Hwf. destruct Hwf as [Hp _].
    exists p. split; [exact Hp|]. split.
    + apply (ps_elems_nonnil s). rewrite E. left; reflexivity.
    + rewrite (ps_has_elems s p Hok Hp). rewrite E. unfold pmem. cbn [existsb].
      rewrite (patheqb_refl p Hp). reflexivity.
Qed.

Lemma cset_spec : forall cmp r, cmp_ok cmp -> ps_ok (mr_set r) = true ->
  ps_ok (cset cmp r) = true /\
  forall p, wf_path p = true ->
    ps_has p (cset cmp r) = ps_has p (mr_set r) && (ps_has p (modified cmp) || ps_has p (added cmp)).
Proof.
  intros cmp r [HR [HM HA]] Hr. unfold cset.
  destruct (ps_union_spec _ _ HM HA) as [HokU HU].
  destruct (ps_inter_spec _ _ Hr HokU) as [HokC HC].
  split; [exact HokC|]. intros p Hp. rewrite (HC p Hp), (HU p Hp). reflexivity.
Qed.

(* ---- the final record ---- *)

Lemma final_rec_w : forall w cmp r, final_rec w cmp w r = r.
Proof.
  intros w cmp r. unfold final_rec, cgen, rgen. cbn [fst]. rewrite String.eqb_refl. reflexivity.
Qed.

Lemma final_rec_basic : forall w cmp m r, cmp_ok cmp -> ps_ok (mr_set r) = true ->
  mr_ver (final_rec w cmp m r) = mr_ver r /\
  mr_applied (final_rec w cmp m r) = mr_applied r /\
  ps_ok (mr_set (final_rec w cmp m r)) = true.
Proof.
  intros w cmp m r Hc Hr. destruct (cset_spec cmp r Hc Hr) as [HokC _].
  destruct Hc as [HR [HM HA]].
  unfold final_rec, cgen, rgen. cbn [fst snd].
  destruct (String.eqb m w); [cbn; auto|].
  destruct (ps_empty (cset cmp r)); destruct (ps_empty (removed cmp));
    cbn [map fold_left snd rdiff mr_set mr_ver mr_applied]; (split; [reflexivity|split; [reflexivity|]]).
  - exact Hr.
  - apply ps_diff_spec; assumption.
  - apply ps_diff_spec; assumption.
  - apply ps_diff_spec; [|assumption]. apply ps_diff_spec; assumption.
Qed.

Lemma final_rec_has : forall w cmp m r p, cmp_ok cmp -> ps_ok (mr_set r) = true ->
  String.eqb m w = false -> wf_path p = true ->
  ps_has p (mr_set (final_rec w cmp m r)) = keeps r cmp p.
Proof.
  intros w cmp m r p Hc Hr Hmw Hp. destruct (cset_spec cmp r Hc Hr) as [HokC HC].
  pose proof (HC p Hp) as HCp.
  destruct Hc as [HR [HM HA]].
  unfold final_rec, cgen, rgen, keeps. cbn [fst snd]. rewrite Hmw.
  destruct (ps_empty (cset cmp r)) eqn:E1; destruct (ps_empty (removed cmp)) eqn:E2;
    cbn [map fold_left snd rdiff mr_set mr_ver mr_applied].
  - pose proof (ps_empty_has _ p HokC E1 Hp) as H1. pose proof (ps_empty_has _ p HR E2 Hp) as H2.
    rewrite H1 in HCp. rewrite H2.
    destruct (ps_has p (mr_set r)), (ps_has p (modified cmp)), (ps_has p (added cmp));
      simpl in *; congruence.
  - pose proof (ps_empty_has _ p HokC E1 Hp) as H1. rewrite H1 in HCp.
    destruct (ps_diff_spec _ _ Hr HR) as [_ HD]. rewrite (HD p Hp).
    destruct (ps_has p (mr_set r)), (ps_has p (modified cmp)), (ps_has p (added cmp)),
      (ps_has p (removed cmp)); simpl in *; congruence.
  - pose proof (ps_empty_has _ p HR E2 Hp) as H2. rewrite H2.
    destruct (ps_diff_spec _ _ Hr HokC) as [_ HD]. rewrite (HD p Hp). rewrite HCp.
    destruct (ps_has p (mr_set r)), (ps_has p (modified cmp)), (ps_has p (added cmp));
      simpl in *; congruence.
  - destruct (ps_diff_spec _ _ Hr HokC) as [HokD HD].
    destruct (ps_diff_spec _ _ HokD HR) as [_ HD2]. rewrite (HD2 p Hp), (HD p Hp), HCp.
    destruct (ps_has p (mr_set r)), (ps_has p (modified cmp)), (ps_has p (added cmp)),
      (ps_has p (removed cmp)); simpl in *; congruence.
Qed.

(* ---- bridging forallb over a sorted association list ---- *)

Lemma mf_ok_get : forall mf m r, mf_ok mf -> mf_get m mf = Some r -> ps_ok (mr_set r) = true.
Proof.
  intros mf m r [_ Hall] Hg. apply assoc_get_in in Hg.
  rewrite forallb_forall in Hall. exact (Hall (m, r) Hg).
Qed.

Lemma single_version_get : forall ver mf m r, single_version ver mf -> mf_get m mf = Some r ->
  String.eqb (mr_ver r) ver = true.
Proof.
  intros ver mf m r Hall Hg. apply assoc_get_in in Hg. unfold single_version in Hall.
  rewrite forallb_forall in Hall. exact (Hall (m, r) Hg).
Qed.

Lemma no_ignore_filter : forall c ver, no_ignore c -> ignore_filter_for c ver = Some None.
Proof. intros c ver [H1 H2]. unfold ignore_filter_for. rewrite H1, H2. reflexivity. Qed.

Lemma filter_cmp_none : forall cmp, filter_cmp None cmp = cmp.
Proof. intros [r m a]. reflexivity. Qed.

(* the shape of update_core under the hypotheses *)
Lemma update_core_single : forall c n old new ver mf w force cmp,
  no_ignore c -> single_version ver mf -> compare_tv c old new = Some cmp ->
  update_core c n old new ver mf w force =
  ufinish cmp force (mkUpd mf [(ver, cmp)] (flat_map (cgen w cmp) mf) (flat_map (rgen w cmp) mf) n).
Proof.
  intros c n old new ver mf w force cmp Hni Hsv Hcmp.
  rewrite update_core_unfold. rewrite Hcmp. rewrite (no_ignore_filter c ver Hni).
  rewrite filter_cmp_none. unfold ufold. rewrite (fold_single c old new w ver cmp mf mf [] [] n Hsv).
  reflexivity.
Qed.

(* ================= the records after a successful update ================= *)

Theorem update_core_records : forall c n old new ver mf w force mf' cmp n',
  no_ignore c -> single_version ver mf -> mf_ok mf ->
  (forall cmp0, compare_tv c old new = Some cmp0 -> cmp_ok cmp0) ->
  update_core c n old new ver mf w force = UOk (mf', cmp, n') ->
  compare_tv c old new = Some cmp /\ n' = n /\ mf_ok mf' /\ single_version ver mf' /\
  (* no manager with an empty record remains *)
  (forall m r, mf_get m mf' = Some r -> ps_empty (mr_set r) = false) /\
  (* the actor's own record is left alone (dropped if empty) *)
  (mf_get w mf' = match mf_get w mf with
                  | Some r => if ps_empty (mr_set r) then None else Some r
                  | None => None
                  end) /\
  (* every other record only shrinks, by exactly the changed, created and removed fields *)
  (forall m, m <> w ->
     match mf_get m mf with
     | None => mf_get m mf' = None
     | Some r =>
         match mf_get m mf' with
         | None => forall p, wf_path p = true -> p <> [] -> keeps r cmp p = false
         | Some r' =>
             mr_ver r' = mr_ver r /\ mr_applied r' = mr_applied r /\
             forall p, wf_path p = true -> p <> [] -> ps_has p (mr_set r') = keeps r cmp p
         end
     end).
Proof.
  intros c n old new ver mf w force mf' cmp n' Hni Hsv Hok Hcok H.
  destruct (compare_tv c old new) as [cmp0|] eqn:Hcmp.
  2:{ rewrite update_core_unfold in H. rewrite Hcmp in H. discriminate. }
  pose proof (Hcok cmp0 eq_refl) as Hc.
  rewrite (update_core_single c n old new ver mf w force cmp0 Hni Hsv Hcmp) in H.
  unfold ufinish in H.
  match type of H with (if ?b then _ else _) = _ => destruct b end; [discriminate|].
  cbn [us_n] in H. inversion H; subst mf' cmp n'; clear H.
  pose proof Hok as [Hs Hall].
  pose proof (fun m => upost_get w cmp0 mf ver n m Hs) as Hget.
  set (st := mkUpd mf [(ver, cmp0)] (flat_map (cgen w cmp0) mf) (flat_map (rgen w cmp0) mf) n) in *.
  assert (sorted_keys (upost st) = true) as Hs'.
  { unfold upost. apply filter_sorted. apply fold_usub_sorted. apply fold_usub_sorted. exact Hs. }
  (* every entry of the result comes from an entry of mf *)
  assert (forall m r', mf_get m (upost st) = Some r' ->
            exists r, mf_get m mf = Some r /\ r' = final_rec w cmp0 m r /\
                      ps_empty (mr_set (final_rec w cmp0 m r)) = false) as Hfrom.
  { intros m r' Hg. rewrite Hget in Hg. destruct (mf_get m mf) as [r|]; [|discriminate].
    destruct (ps_empty (mr_set (final_rec w cmp0 m r))) eqn:E; [discriminate|].
    inversion Hg; subst r'. exists r. split; [reflexivity|]. split; [reflexivity|exact E]. }
  split; [reflexivity|]. split; [reflexivity|].
  split.
  { split; [exact Hs'|]. apply forallb_forall. intros [m r'] Hin.
    apply (in_assoc_get _ _ _ Hs') in Hin. destruct (Hfrom m r' Hin) as [r [Hr [Heq _]]].
    subst r'. cbn [snd].
    apply (final_rec_basic w cmp0 m r Hc). apply (mf_ok_get mf m r Hok Hr). }
  split.
  { unfold single_version. apply forallb_forall. intros [m r'] Hin.
    apply (in_assoc_get _ _ _ Hs') in Hin. destruct (Hfrom m r' Hin) as [r [Hr [Heq _]]].
    subst r'. cbn [snd].
    assert (ps_ok (mr_set r) = true) as Hrok by (apply (mf_ok_get mf m r Hok Hr)).
    destruct (final_rec_basic w cmp0 m r Hc Hrok) as [Hv _]. rewrite Hv.
    eapply single_version_get; eassumption. }
  split.
  { intros m r' Hg. destruct (Hfrom m r' Hg) as [r [Hr [Heq He]]]. subst r'. exact He. }
  split.
  { rewrite Hget. destruct (mf_get w mf) as [r|]; [|reflexivity].
    rewrite final_rec_w. reflexivity. }
  intros m Hmw. apply String.eqb_neq in Hmw. rewrite Hget.
  destruct (mf_get m mf) as [r|] eqn:Hr; [|reflexivity].
  assert (ps_ok (mr_set r) = true) as Hrok by (apply (mf_ok_get mf m r Hok Hr)).
  destruct (final_rec_basic w cmp0 m r Hc Hrok) as [Hv [Ha Hfok]].
  destruct (ps_empty (mr_set (final_rec w cmp0 m r))) eqn:E.
  - intros p Hp _. rewrite <- (final_rec_has w cmp0 m r p Hc Hrok Hmw Hp).
    apply ps_empty_has; assumption.
  - split; [exact Hv|]. split; [exact Ha|].
    intros p Hp _. apply final_rec_has; assumption.
Qed.

(* ================= the conflict list ================= *)

Lemma existsb_flat_map : forall (A B : Type) (f : B -> bool) (g : A -> list B) (l : list A),
  existsb f (flat_map g l) = existsb (fun x => existsb f (g x)) l.
Proof.
  intros A B f g l. induction l as [|x xs IH]; [reflexivity|].
  simpl. rewrite existsb_app, IH. reflexivity.
Qed.

Lemma existsb_map : forall (A B : Type) (f : B -> bool) (h : A -> B) (l : list A),
  existsb f (map h l) = existsb (fun x => f (h x)) l.
Proof.
  intros A B f h l. induction l as [|x xs IH]; [reflexivity|]. simpl. rewrite IH. reflexivity.
Qed.

Lemma existsb_ext_in : forall (A : Type) (f g : A -> bool) (l : list A),
  (forall x, In x l -> f x = g x) -> existsb f l = existsb g l.
Proof.
  intros A f g l. induction l as [|x xs IH]; intros H; [reflexivity|].
  simpl. rewrite (H x (or_introl eq_refl)). rewrite IH; [reflexivity|].
  intros y Hy. apply H. right; exact Hy.
Qed.

Lemma existsb_false : forall (A : Type) (l : list A), existsb (fun _ => false) l = false.
Proof. intros A l. induction l as [|x xs IH]; [reflexivity|exact IH]. Qed.

Definition listed_in (m : string) (p : path) (ms : string * pset) : bool :=
  String.eqb (fst ms) m && ps_has p (snd ms).

Lemma conflict_listed_conflicts_of : forall C m p,
  Forall (fun ms : string * pset => ps_ok (snd ms) = true) C -> wf_path p = true ->
  conflict_listed (conflicts_of C) m p = existsb (listed_in m p) C.
Proof.
  intros C m p HF Hp. unfold conflict_listed, conflicts_of.
  rewrite existsb_flat_map. apply existsb_ext_in. intros ms Hin.
  rewrite Forall_forall in HF. pose proof (HF ms Hin) as Hok.
  rewrite existsb_map. cbn [fst snd]. unfold listed_in.
  destruct (String.eqb (fst ms) m); cbn [andb].
  - rewrite (ps_has_elems _ p Hok Hp). unfold pmem.
    apply existsb_ext_in. intros q Hq. apply patheqb_sym; [|exact Hp].
    pose proof (ps_elems_wf _ Hok) as Hwf. rewrite forallb_forall in Hwf. exact (Hwf q Hq).
  - apply existsb_false.
Qed.

Lemma cgen_entries : forall w cmp mf, mf_ok mf -> cmp_ok cmp ->
  Forall (fun ms : string * pset => ps_ok (snd ms) = true /\ ps_empty (snd ms) = false)
    (flat_map (cgen w cmp) mf).
Proof.
  intros w cmp mf [_ Hall] Hc. apply Forall_forall. intros ms Hin.
  apply in_flat_map in Hin. destruct Hin as [mr [Hmr Hin]].
  rewrite forallb_forall in Hall. pose proof (Hall mr Hmr) as Hr.
  unfold cgen in Hin. destruct (String.eqb (fst mr) w); [destruct Hin|].
  destruct (ps_empty (cset cmp (snd mr))) eqn:E; [destruct Hin|].
  destruct Hin as [Heq|[]]. subst ms. cbn [snd]. split; [|exact E].
  apply cset_spec; assumption.
Qed.

Lemma is_conflict_cgen : forall w cmp mf m p, mf_ok mf -> cmp_ok cmp -> wf_path p = true ->
  existsb (listed_in m p) (flat_map (cgen w cmp) mf) = is_conflict mf w cmp m p.
Proof.
  intros w cmp mf m p Hok Hc Hp. pose proof Hok as [Hs Hall].
  rewrite existsb_flat_map.
  pose (F := fun (k : string) (r : mrec) => negb (String.eqb k w) &&
          (ps_has p (mr_set r) && (ps_has p (modified cmp) || ps_has p (added cmp)))).
  rewrite (existsb_ext_in _ _
    (fun mr : string * mrec => String.eqb (fst mr) m && F (fst mr) (snd mr))).
  - rewrite (existsb_key F m mf Hs). unfold is_conflict, mf_get, F.
    destruct (assoc_get m mf); [reflexivity|]. rewrite andb_false_r. reflexivity.
  - intros mr Hmr. rewrite forallb_forall in Hall. pose proof (Hall mr Hmr) as Hr.
    destruct (cset_spec cmp (snd mr) Hc Hr) as [HokC HC]. unfold F. rewrite <- (HC p Hp).
    unfold cgen. destruct (String.eqb (fst mr) w).
    + cbn. rewrite andb_false_r. reflexivity.
    + cbn [negb andb]. destruct (ps_empty (cset cmp (snd mr))) eqn:E.
      * rewrite (ps_empty_has _ p HokC E Hp). cbn. rewrite andb_false_r. reflexivity.
      * cbn [existsb]. unfold listed_in. cbn [fst snd]. rewrite orb_false_r. reflexivity.
Qed.

(* the conflict list is exactly the prescribed set of (manager, path) pairs *)
Theorem update_core_conflicts_exact : forall c n old new ver mf w cmp cs,
  no_ignore c -> single_version ver mf -> mf_ok mf ->
  compare_tv c old new = Some cmp -> cmp_ok cmp ->
  update_core c n old new ver mf w false = UErr (EConflict cs) ->
  forall m p, wf_path p = true -> p <> [] -> conflict_listed cs m p = is_conflict mf w cmp m p.
Proof.
  intros c n old new ver mf w cmp cs Hni Hsv Hok Hcmp Hc H m p Hp _.
  rewrite (update_core_single c n old new ver mf w false cmp Hni Hsv Hcmp) in H.
  unfold ufinish in H.
  match type of H with (if ?b then _ else _) = _ => destruct b end; [|discriminate].
  cbn [us_conflicts] in H. inversion H; subst cs; clear H.
  rewrite conflict_listed_conflicts_of; [| |exact Hp].
  - apply is_conflict_cgen; assumption.
  - eapply Forall_impl; [|apply (cgen_entries w cmp mf Hok Hc)]. intros ms [H1 _]; exact H1.
Qed.

(* ... and the non-forced update succeeds exactly when there is no such pair *)
Theorem update_core_conflict_iff : forall c n old new ver mf w cmp,
  no_ignore c -> single_version ver mf -> mf_ok mf ->
  compare_tv c old new = Some cmp -> cmp_ok cmp ->
  ((exists cs, update_core c n old new ver mf w false = UErr (EConflict cs))
   <-> exists m p, wf_path p = true /\ p <> [] /\ is_conflict mf w cmp m p = true).
Proof.
  intros c n old new ver mf w cmp Hni Hsv Hok Hcmp Hc.
  rewrite (update_core_single c n old new ver mf w false cmp Hni Hsv Hcmp).
  unfold ufinish. cbn [us_conflicts negb andb].
  pose proof (cgen_entries w cmp mf Hok Hc) as Hent.
  pose proof (fun m p => is_conflict_cgen w cmp mf m p Hok Hc) as Hic.
  destruct (flat_map (cgen w cmp) mf) as [|[m0 s0] t] eqn:EC; cbn [negb].
  - split.
    + intros [cs H]. discriminate.
    + intros [m [p [Hp [_ Hcf]]]]. rewrite <- (Hic m p Hp) in Hcf. discriminate.
  - split.
    + intros _. inversion Hent as [|x y Hx Hy]; subst. cbn [snd] in Hx. destruct Hx as [Hs0 He0].
      destruct (ps_nonempty_has s0 Hs0 He0) as [p [Hp [Hnn Hhas]]].
      exists m0, p. split; [exact Hp|]. split; [exact Hnn|].
      rewrite <- (Hic m0 p Hp). cbn [existsb]. unfold listed_in at 1. cbn [fst snd].
      rewrite String.eqb_refl, Hhas. reflexivity.
    + intros _. eexists. reflexivity.
Qed.

