(* C09: the one place where the iteration order over a Go map can reach the result is the
   add-back loop over API versions (update.go).  The order is a parameter of the model
   ([cfg_version_order]); with at most one version besides the pruned one every order
   gives the same list, hence the same result. *)
From Coq Require Import List ZArith String Bool Permutation.
From SMD Require Import Model.Value Model.Order Model.PathSet Model.Updater.
Import ListNotations.

Definition with_order (c : config) (pi : list string -> list string) : config :=
  mkConfig (cfg_schema c) (cfg_convert c) (cfg_ignored_fields c) (cfg_ignore_filter c)
           (cfg_return_input_on_noop c) pi.

Lemma add_back_rounds_order : forall fuel c pi mav vs n m p prev,
  add_back_rounds fuel (with_order c pi) mav vs n m p prev = add_back_rounds fuel c mav vs n m p prev.
Proof.
  induction fuel as [|fuel IH]; intros c pi mav vs n m p prev; [reflexivity|].
  simpl.
  change (add_back_round (with_order c pi) mav vs n m p) with (add_back_round c mav vs n m p).
  destruct (add_back_round c mav vs n m p) as [[[[m' p'] ch] n']|e]; [|reflexivity].
  rewrite IH. reflexivity.
Qed.

Lemma perm_short : forall (l l' : list string), Permutation l l' -> List.length l <= 1 -> l' = l.
Proof.
  intros l l' Hp Hl. destruct l as [|x [|y t]].
  - apply Permutation_nil in Hp. exact Hp.
  - apply Permutation_length_1_inv in Hp. exact Hp.
  - simpl in Hl. exfalso. apply (PeanoNat.Nat.nle_succ_0 _ (le_S_n _ _ Hl)).
Qed.

Theorem add_back_order_irrelevant_le1 : forall c pi1 pi2 n merged pruned pv mf,
  (forall l, Permutation l (pi1 l)) -> (forall l, Permutation l (pi2 l)) ->
  List.length (assoc_remove pv (managed_at_version mf)) <= 1 ->
  add_back_owned (with_order c pi1) n merged pruned pv mf
  = add_back_owned (with_order c pi2) n merged pruned pv mf.
Proof.
  intros c pi1 pi2 n merged pruned pv mf H1 H2 Hlen.
  unfold add_back_owned. cbn [cfg_version_order with_order].
  rewrite !add_back_rounds_order.
  assert (Hl : List.length (map fst (assoc_remove pv (managed_at_version mf))) <= 1)
    by (rewrite map_length; exact Hlen).
  rewrite (perm_short _ _ (H1 _) Hl), (perm_short _ _ (H2 _) Hl). reflexivity.
Qed.
