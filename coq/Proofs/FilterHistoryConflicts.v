(* Helpers for Proofs/FilterHistory.v: where the conflicts of update_core / apply_op come from.

   - update_core_conflicts_owned: every pair (m, p) of a conflict error of update_core names a
     manager m other than the actor and a path p that is a member of m's record in the map
     update_core was given (any filters preserving well-formedness, any number of versions);
   - an error of reconcile_managed or prune is never a conflict error, so a conflict error of
     apply_op is the conflict error of its call of update_core (apply_op_conflict_inv). *)
From Coq Require Import List ZArith String Bool Arith Lia.
From SMD Require Import Model.Value Model.Order Model.PathElem Model.PathSet Model.Schema
  Model.Walk Model.FieldSet Model.Remove Model.Merge Model.Compare Model.Matcher Model.Reconcile
  Model.Updater Spec.PathsAsSets Proofs.OrderLaws Proofs.PathSetLaws Proofs.UpdaterLaws
  Proofs.UpdaterLaws2 Proofs.FilterHistoryBase.
From SMD Require Proofs.MergeWf.
Import ListNotations.
Open Scope bool_scope.

(* ================= the conflict sets collected by the fold ================= *)

Definition cowned (mf : managed) (w : string) (ms : string * pset) : Prop :=
  fst ms <> w /\
  exists r, mf_get (fst ms) mf = Some r /\ ps_ok (snd ms) = true /\
    forall p, wf_path p = true -> ps_has p (snd ms) = true -> ps_has p (mr_set r) = true.

Definition cinv (mf : managed) (w : string) (st : upd_state) : Prop :=
  Forall (cowned mf w) (us_conflicts st).

Lemma with_cmp_cinv : forall mf w m r st cmp st',
  Forall (cowned mf w) (us_conflicts st) -> cmp_ok cmp -> m <> w -> mf_get m mf = Some r ->
  ps_ok (mr_set r) = true -> with_cmp m r st cmp = UOk st' -> cinv mf w st'.
Proof.
  intros mf w m r st cmp st' Hc Hcmp Hmw Hg Hrok H.
  unfold with_cmp in H. inversion H; subst st'; clear H.
  destruct (cset_spec cmp r Hcmp Hrok) as [HokC HC]. unfold cset in HokC, HC.
  unfold cinv. cbn [us_conflicts].
  destruct (ps_empty (ps_inter (mr_set r) (ps_union (modified cmp) (added cmp)))); [exact Hc|].
  apply Forall_app. split; [exact Hc|]. constructor; [|constructor].
  split; [exact Hmw|]. exists r. cbn [fst snd]. split; [exact Hg|]. split; [exact HokC|].
  intros p Hp Hhas. rewrite (HC p Hp) in Hhas. apply andb_true_iff in Hhas. apply Hhas.
Qed.

Lemma ustep_cinv : forall c old new w mf st mr st',
  compare_ok_wf c -> conv_wf c -> wf_value (snd old) = true -> wf_value (snd new) = true ->
  gfilters_ok c -> uinv mf st -> cinv mf w st ->
  mf_get (fst mr) mf = Some (snd mr) -> ps_ok (mr_set (snd mr)) = true ->
  ustep c old new w (UOk st) mr = UOk st' -> cinv mf w st'.
Proof.
  intros c old new w mf st mr st' Hcok Hcv Hwo Hwn Hfok Hinv Hci Hg Hrok H. unfold ustep in H.
  destruct (String.eqb (fst mr) w) eqn:Ew.
  { inversion H; subst; exact Hci. }
  apply String.eqb_neq in Ew.
  destruct (assoc_get (mr_ver (snd mr)) (us_versions st)) as [cmp|] eqn:Hget.
  { eapply with_cmp_cinv; [exact Hci| |exact Ew|exact Hg|exact Hrok|exact H].
    destruct Hinv as [_ [Hv _]]. apply assoc_get_in in Hget.
    rewrite Forall_forall in Hv. exact (Hv _ Hget). }
  unfold convert in H. cbn [fst snd] in H.
  destruct (cfg_convert c (us_n st) (fst old) (mr_ver (snd mr)) (snd old)) as [vold| |] eqn:Eo;
    [|inversion H; subst; exact Hci|discriminate].
  destruct (cfg_convert c (S (us_n st)) (fst new) (mr_ver (snd mr)) (snd new)) as [vnew| |] eqn:En;
    [|inversion H; subst; exact Hci|discriminate].
  destruct (compare_tv c (mr_ver (snd mr), vold) (mr_ver (snd mr), vnew)) as [cmp1|] eqn:Hcmp;
    [|discriminate].
  destruct (ignore_filter_for c (mr_ver (snd mr))) as [f1|] eqn:Hf; [|discriminate].
  assert (cmp_ok (filter_cmp f1 cmp1)) as Hc1.
  { eapply gfilter_cmp_ok; [exact Hfok|exact Hf|]. eapply Hcok; [| |exact Hcmp]; cbn [snd].
    - eapply Hcv; [exact Hwo|exact Eo].
    - eapply Hcv; [exact Hwn|exact En]. }
  eapply with_cmp_cinv; [|exact Hc1|exact Ew|exact Hg|exact Hrok|exact H].
  cbn [us_conflicts]. exact Hci.
Qed.

Lemma fold_ustep_cinv : forall c old new w mf l st st',
  compare_ok_wf c -> conv_wf c -> wf_value (snd old) = true -> wf_value (snd new) = true ->
  gfilters_ok c ->
  (forall mr, In mr l -> mf_get (fst mr) mf = Some (snd mr) /\ ps_ok (mr_set (snd mr)) = true) ->
  uinv mf st -> cinv mf w st -> fold_left (ustep c old new w) l (UOk st) = UOk st' -> cinv mf w st'.
Proof.
  intros c old new w mf l. induction l as [|a l IH]; intros st st' Hcok Hcv Hwo Hwn Hfok Hl Hinv Hci H.
  - inversion H; subst; exact Hci.
  - cbn [fold_left] in H. destruct (ustep c old new w (UOk st) a) as [st1|e] eqn:E.
    + destruct (Hl a (or_introl eq_refl)) as [Hga Hoka].
      eapply (IH st1 st' Hcok Hcv Hwo Hwn Hfok); [| | |exact H].
      * intros mr Hin. apply Hl. right; exact Hin.
      * eapply g_ustep_inv; [exact Hcok|exact Hcv|exact Hwo|exact Hwn|exact Hfok|exact Hinv|exact Hoka|exact E].
      * eapply ustep_cinv; [exact Hcok|exact Hcv|exact Hwo|exact Hwn|exact Hfok|exact Hinv|exact Hci
                           |exact Hga|exact Hoka|exact E].
    + rewrite fold_ustep_err in H. discriminate.
Qed.

Lemma in_conflicts_of : forall L m p, In (m, p) (conflicts_of L) ->
  exists ms, In ms L /\ fst ms = m /\ In p (ps_elems (snd ms)).
Proof.
  intros L m p H. unfold conflicts_of in H. apply in_flat_map in H. destruct H as [ms [Hin H]].
  apply in_map_iff in H. destruct H as [p' [Heq Hp']]. inversion Heq; subst.
  exists ms. split; [exact Hin|]. split; [reflexivity|exact Hp'].
Qed.

Lemma in_elems_has : forall s p, ps_ok s = true -> In p (ps_elems s) ->
  wf_path p = true /\ ps_has p s = true.
Proof.
  intros s p Hs Hin. pose proof (ps_elems_wf s Hs) as Hwf. rewrite forallb_forall in Hwf.
  pose proof (Hwf p Hin) as Hp. split; [exact Hp|].
  rewrite (ps_has_elems s p Hs Hp). unfold pmem. apply existsb_exists. exists p.
  split; [exact Hin|apply patheqb_refl; exact Hp].
Qed.

(* every conflict reported by update_core: another manager, on a path of ITS record *)
Theorem update_core_conflicts_owned : forall c n old new ver mf w force cs,
  mf_ok mf -> compare_ok_wf c -> conv_wf c -> wf_value (snd old) = true -> wf_value (snd new) = true ->
  gfilters_ok c ->
  update_core c n old new ver mf w force = UErr (EConflict cs) ->
  forall m p, In (m, p) cs ->
    m <> w /\ exists r, mf_get m mf = Some r /\ wf_path p = true /\ ps_has p (mr_set r) = true.
Proof.
  intros c n old new ver mf w force cs Hok Hcok Hcv Hwo Hwn Hfok H m p Hin.
  rewrite update_core_unfold in H.
  destruct (compare_tv c old new) as [cmp0|] eqn:Hcmp; [|discriminate].
  destruct (ignore_filter_for c ver) as [f0|] eqn:Hf; [|discriminate].
  assert (cmp_ok (filter_cmp f0 cmp0)) as Hc0.
  { eapply gfilter_cmp_ok; [exact Hfok|exact Hf|]. eapply Hcok; [exact Hwo|exact Hwn|exact Hcmp]. }
  destruct (ufold c n old new ver mf w (filter_cmp f0 cmp0)) as [st|e] eqn:E.
  2:{ unfold ufold in E. apply fold_ustep_err_other in E. subst e. discriminate H. }
  unfold ufinish in H.
  match type of H with (if ?b then _ else _) = _ => destruct b end; [|discriminate].
  inversion H; subst cs; clear H.
  assert (cinv mf w st) as Hci.
  { unfold ufold in E.
    eapply fold_ustep_cinv; [exact Hcok|exact Hcv|exact Hwo|exact Hwn|exact Hfok| | | |exact E].
    - intros [k r] Hinl. cbn [fst snd]. split.
      + apply in_assoc_get; [apply Hok|exact Hinl].
      + destruct Hok as [_ Hall]. rewrite forallb_forall in Hall. exact (Hall (k, r) Hinl).
    - unfold uinv. cbn [us_managers us_versions us_conflicts us_removed].
      split; [split; [apply Hok|intros m' r' Hg; exact Hg]|].
      split; [constructor; [exact Hc0|constructor]|]. split; constructor.
    - unfold cinv. cbn [us_conflicts]. constructor. }
  destruct (in_conflicts_of _ m p Hin) as [ms [Hms [Hm Hp]]]. subst m.
  unfold cinv in Hci. rewrite Forall_forall in Hci.
  destruct (Hci ms Hms) as [Hne [r [Hg [Hsok Hsub]]]].
  destruct (in_elems_has _ p Hsok Hp) as [Wp Hhas].
  split; [exact Hne|]. exists r. split; [exact Hg|]. split; [exact Wp|apply Hsub; assumption].
Qed.

(* ================= errors that are never conflict errors ================= *)

Definition not_conflict (e : uerr) : Prop := e = EOther \/ e = EPanic.

Lemma reconcile_err_not_conflict : forall c n live mf e,
  reconcile_managed c n live mf = UErr e -> e = EOther.
Proof.
  intros c n live mf e H. rewrite reconcile_managed_unfold in H.
  assert (forall l res k, fold_left (rstep c live) l (UOk (res, k)) = UErr e -> e = EOther) as Hgen.
  { induction l as [|mr l IH]; intros res k Hl; [discriminate Hl|].
    cbn [fold_left] in Hl. destruct (rstep c live (UOk (res, k)) mr) as [[res1 k1]|e1] eqn:E.
    - eapply IH; exact Hl.
    - rewrite fold_rstep_err in Hl. inversion Hl; subst e1. clear Hl.
      unfold rstep, convert in E. cbn [fst snd] in E.
      destruct (cfg_convert c k (fst live) (mr_ver (snd mr)) (snd live)); [|discriminate|inversion E; reflexivity].
      destruct (reconcile_field_set (schema_of c (mr_ver (snd mr))) (tr_of c (mr_ver (snd mr))) (mr_set (snd mr)))
        as [[s'|]|]; [discriminate|discriminate|inversion E; reflexivity]. }
  eapply Hgen; exact H.
Qed.

Lemma add_back_for_version_err : forall c n merged pruned version managedSet e,
  add_back_for_version c n merged pruned version managedSet = UErr e -> not_conflict e.
Proof.
  intros c n merged pruned version managedSet e H. unfold add_back_for_version in H.
  destruct (convert c n merged version) as [r1 n1].
  destruct r1 as [mv| |]; [|inversion H; right; reflexivity|inversion H; left; reflexivity].
  destruct (convert c n1 pruned version) as [r2 n2].
  destruct r2 as [pv| |]; [|inversion H; right; reflexivity|inversion H; left; reflexivity].
  destruct (to_fs c (version, mv)) as [mergedSet|]; [|inversion H; left; reflexivity].
  destruct (to_fs c (version, pv)) as [prunedSet|]; [|inversion H; left; reflexivity].
  match type of H with context [to_fs c ?x] => destruct (to_fs c x) end;
    [discriminate H|inversion H; left; reflexivity].
Qed.

Definition abr_step (c : config) (mav : list (string * pset))
  (acc : ures (tv * tv * bool * nat)) (v : string) : ures (tv * tv * bool * nat) :=
  match acc with
  | UErr e => UErr e
  | UOk (m, p, ch, n) =>
      match assoc_get v mav with
      | Some s =>
          match add_back_for_version c n m p v s with
          | UErr e => UErr e
          | UOk (m', p', added, n') => UOk (m', p', ch || added, n')
          end
      | None => acc
      end
  end.

Lemma add_back_round_unfold : forall c mav versions n merged pruned,
  add_back_round c mav versions n merged pruned =
  fold_left (abr_step c mav) versions (UOk (merged, pruned, false, n)).
Proof. reflexivity. Qed.

Lemma fold_abr_err : forall c mav l e, fold_left (abr_step c mav) l (UErr e) = UErr e.
Proof. intros c mav l e. induction l as [|a l IH]; [reflexivity|exact IH]. Qed.

Lemma add_back_round_err : forall c mav versions n merged pruned e,
  add_back_round c mav versions n merged pruned = UErr e -> not_conflict e.
Proof.
  intros c mav versions n merged pruned e H. rewrite add_back_round_unfold in H.
  revert merged pruned n H. generalize false.
  induction versions as [|v l IH]; intros ch merged pruned n H; [discriminate H|].
  cbn [fold_left] in H.
  destruct (abr_step c mav (UOk (merged, pruned, ch, n)) v) as [[[[m1 p1] ch1] n1]|e1] eqn:E.
  - eapply IH; exact H.
  - rewrite fold_abr_err in H. inversion H; subst e1; clear H.
    cbn [abr_step] in E. destruct (assoc_get v mav) as [s|]; [|discriminate E].
    destruct (add_back_for_version c n merged pruned v s) as [[[[m' p'] added] n']|e2] eqn:E2;
      [discriminate E|].
    inversion E; subst e2. eapply add_back_for_version_err; exact E2.
Qed.

Lemma add_back_rounds_err : forall fuel c mav versions n merged pruned previous e,
  add_back_rounds fuel c mav versions n merged pruned previous = UErr e -> not_conflict e.
Proof.
  induction fuel as [|fuel IH]; intros c mav versions n merged pruned previous e H.
  - cbn [add_back_rounds] in H. inversion H; left; reflexivity.
  - cbn [add_back_rounds] in H.
    destruct (add_back_round c mav versions n merged pruned) as [[[[m p] changed] n']|e1] eqn:E.
    + destruct (changed && Nat.leb 2 (List.length versions)); [|discriminate H].
      destruct (match previous with Some q => veqb (snd q) (snd p) | None => false end); [discriminate H|].
      eapply IH; exact H.
    + inversion H; subst e1. eapply add_back_round_err; exact E.
Qed.

Lemma add_back_dangling_err : forall c n merged pruned last e,
  add_back_dangling c n merged pruned last = UErr e -> not_conflict e.
Proof.
  intros c n merged pruned last e H. unfold add_back_dangling in H.
  destruct (convert c n pruned (mr_ver last)) as [r1 n1].
  destruct r1 as [pv| |]; [|discriminate H|inversion H; left; reflexivity].
  destruct (to_fs c (mr_ver last, pv)); [|inversion H; left; reflexivity].
  destruct (to_fs c merged); [discriminate H|inversion H; left; reflexivity].
Qed.

Lemma prune_err : forall c n merged mf applying last e,
  prune c n merged mf applying last = UErr e -> not_conflict e.
Proof.
  intros c n merged mf applying last e H. unfold prune in H.
  destruct last as [last|]; [|discriminate H].
  destruct (ps_empty (mr_set last)); [discriminate H|].
  destruct (convert c n merged (mr_ver last)) as [r1 n1].
  destruct r1 as [mv| |]; [|discriminate H|inversion H; left; reflexivity].
  destruct (add_back_owned c n1 (mr_ver last, mv)
              (remove_tv c (mr_ver last, mv) (en c (mr_ver last) (mr_set last))) (mr_ver last) mf)
    as [[pruned1 n2]|e1] eqn:E2.
  2:{ inversion H; subst e1. unfold add_back_owned in E2. eapply add_back_rounds_err; exact E2. }
  destruct (add_back_dangling c n2 (mr_ver last, mv) pruned1 last) as [[pruned2 n3]|e1] eqn:E3.
  2:{ inversion H; subst e1. eapply add_back_dangling_err; exact E3. }
  match type of H with context [convert c n3 pruned2 ?target] =>
    destruct (convert c n3 pruned2 target) as [r4 n4]
  end.
  destruct r4 as [v| |]; [discriminate H|inversion H; left; reflexivity|inversion H; left; reflexivity].
Qed.

(* a conflict error of Apply is the conflict error of its call of update_core *)
Lemma apply_op_conflict_inv : forall c live cfg ver mf mgr force cs,
  conv_wf c -> wf_value (snd live) = true -> wf_value (snd cfg) = true ->
  apply_op c live cfg ver mf mgr force = UErr (EConflict cs) ->
  exists mf0 n0 set0 f pruned n1,
    reconcile_managed c O live mf = UOk (mf0, n0) /\
    to_fs c cfg = Some set0 /\ ignore_filter_for c ver = Some f /\
    wf_value (snd pruned) = true /\
    update_core c n1 live pruned ver (mf_set mgr (mkRec (filter_set f set0) ver true) mf0) mgr force
      = UErr (EConflict cs).
Proof.
  intros c live cfg ver mf mgr force cs Hcv Hwl Hwc H. unfold apply_op in H.
  destruct (reconcile_managed c 0 live mf) as [[mf0 n0]|e] eqn:Hrec.
  2:{ inversion H; subst e. apply reconcile_err_not_conflict in Hrec. discriminate Hrec. }
  destruct (merge (schema_of c (fst live)) (tr_of c (fst live)) (snd live) (snd cfg))
    as [[nv|]|] eqn:Hmerge; [| discriminate | discriminate].
  pose proof (MergeWf.merge_wf _ _ _ _ _ Hwl Hwc Hmerge) as Hnv.
  destruct (to_fs c cfg) as [set0|] eqn:Hfs; [|discriminate].
  destruct (ignore_filter_for c ver) as [f|] eqn:Hf; [|discriminate].
  destruct (prune c n0 (fst live, nv) (mf_set mgr (mkRec set0 ver true) mf0) mgr
              (mf_get mgr mf0)) as [[pruned n1]|e] eqn:Hpr.
  2:{ inversion H; subst e. apply prune_err in Hpr. destruct Hpr as [Hp|Hp]; discriminate Hp. }
  pose proof (prune_wf c n0 (fst live, nv) _ _ _ _ _ Hcv Hnv Hpr) as Hwp.
  destruct (update_core c n1 live pruned ver (mf_set mgr (mkRec (filter_set f set0) ver true) mf0) mgr force)
    as [[[mf2 cmp] n2]|e] eqn:Hupd.
  { destruct (negb (cfg_return_input_on_noop c) && veqb (snd live) (snd pruned)); discriminate H. }
  inversion H; subst e.
  exists mf0, n0, set0, f, pruned, n1.
  split; [reflexivity|]. split; [reflexivity|]. split; [reflexivity|]. split; [exact Hwp|exact Hupd].
Qed.

