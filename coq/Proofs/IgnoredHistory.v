(* C19 along histories: with an exclusion configuration in force, no record of any
   reachable state contains an ignored field or anything beneath it -- for histories over
   ANY number of API versions and any converter satisfying [conv_wf].

   The step theorems of Proofs/UpdaterLaws2.v (apply_op_never_owned, update_op_never_owned)
   are stated from the RECONCILED map.  What is added here:
   - the reconciliation that opens every operation preserves [never_owned]
     (reconcile_never_owned): it only replaces members by prefixes of members
     (ReconcileOwned.reconcile_field_set_members), and a prefix of a path that is not
     beneath an ignored path is not beneath one either;
   - [records_inv] is preserved by Apply and Update under an exclusion configuration
     (UpdaterLaws2 has it for [no_ignore] only);
   - the object returned by Apply is the pruned object, which is well formed;
   - the induction over the list of operations. *)
From Coq Require Import List ZArith String Bool Arith Lia.
From SMD Require Import Model.Value Model.Order Model.PathElem Model.PathSet Model.Schema Model.Walk
  Model.FieldSet Model.Merge Model.Compare Model.Matcher Model.Reconcile Model.Updater Spec.PathsAsSets
  Proofs.OrderLaws Proofs.PathSetLaws Proofs.UpdaterLaws Proofs.UpdaterLaws2.
From SMD Require Spec.Examples Proofs.ReconcileBase Proofs.ReconcileLaws Proofs.ReconcileOwned
  Proofs.RemoveAbsent Proofs.MergeWf.
Import ListNotations.
Open Scope bool_scope.

(* ================= prefixes and the "at or beneath a member" test ================= *)

Lemma firstn_app_le : forall (A : Type) n (l r : list A), n <= List.length l ->
  firstn n (l ++ r) = firstn n l.
Proof.
  intros A n l r Hn. rewrite firstn_app.
  replace (n - List.length l) with 0 by lia. cbn [firstn]. apply app_nil_r.
Qed.

(* a path that extends (up to Path.Equals) a path at or beneath a member of [ex] is itself
   at or beneath that member *)
Lemma has_prefix_in_extends : forall ex p q' rest,
  ps_ok ex = true -> wf_path p = true -> wf_path q' = true ->
  patheqb p q' = true ->
  has_prefix_in p ex = true -> has_prefix_in (q' ++ rest) ex = true.
Proof.
  intros ex p q' rest Hex Wp Wq Heq H.
  apply ReconcileLaws.has_prefix_in_true in H. destruct H as [n [[Hn1 Hn2] Hhas]].
  apply ReconcileLaws.has_prefix_in_true.
  pose proof (ReconcileBase.patheqb_length p q' Heq) as Hlen.
  exists n. split.
  - rewrite app_length. lia.
  - rewrite firstn_app_le by lia.
    rewrite <- (RemoveAbsent.ps_has_patheqb ex (firstn n p) (firstn n q') Hex
                  (ReconcileBase.wf_path_firstn n p Wp) (ReconcileBase.wf_path_firstn n q' Wq)
                  (ReconcileBase.patheqb_firstn n p q' Heq)).
    exact Hhas.
Qed.

Lemma ignored_at_extends : forall c v p q' rest,
  exclusion_config c -> wf_path p = true -> wf_path q' = true -> patheqb p q' = true ->
  ignored_at c v p = true -> ignored_at c v (q' ++ rest) = true.
Proof.
  intros c v p q' rest [_ Hsets] Wp Wq Heq H. unfold ignored_at in *.
  destruct (cfg_ignored_fields c) as [sets|]; [|discriminate H].
  destruct (assoc_get v sets) as [ex|] eqn:E; [|discriminate H].
  assert (ps_ok ex = true) as Hex.
  { apply assoc_get_in in E. rewrite forallb_forall in Hsets. exact (Hsets (v, ex) E). }
  exact (has_prefix_in_extends ex p q' rest Hex Wp Wq Heq H).
Qed.

(* ================= reconciliation preserves never_owned ================= *)

Lemma reconcile_never_owned : forall c n live mf mf0 n0,
  exclusion_config c -> mf_ok mf -> never_owned c mf ->
  reconcile_managed c n live mf = UOk (mf0, n0) -> never_owned c mf0.
Proof.
  intros c n live mf mf0 n0 Hex Hok Hno H m r0 p Hg Wp Hhas.
  destruct (reconcile_managed_rel c n live mf mf0 n0 (proj1 Hok) H) as [_ Hall].
  destruct (Hall m r0 Hg) as [r [Hr [Hv [_ [_ Hset]]]]]. cbn [snd] in Hv, Hset.
  rewrite Hv. destruct Hset as [Heq|Hrf].
  - subst r0. eapply Hno; eassumption.
  - pose proof (mf_ok_get mf m r Hok Hr) as Hrok.
    destruct (ReconcileOwned.reconcile_field_set_members _ _ _ _ Hrok Hrf p Wp Hhas)
      as [Hin|[m0 [q' [rest [Wm [Hm [Em [Wq Heq]]]]]]]].
    + eapply Hno; eassumption.
    + destruct (ignored_at c (mr_ver r) p) eqn:Hig; [|reflexivity].
      pose proof (ignored_at_extends c (mr_ver r) p q' rest Hex Wp Wq Heq Hig) as Hig'.
      rewrite <- Em in Hig'. rewrite (Hno m r m0 Hr Wm Hm) in Hig'. discriminate Hig'.
Qed.

(* ================= records_inv under an exclusion configuration ================= *)

(* Apply: the object handed back is the pruned object (or nothing, on a no-op) *)
Lemma apply_op_inv_obj : forall c live cfg ver mf mf0 n0 mgr force o mf',
  conv_wf c -> wf_value (snd live) = true -> wf_value (snd cfg) = true ->
  reconcile_managed c O live mf = UOk (mf0, n0) ->
  apply_op c live cfg ver mf mgr force = UOk (o, mf') ->
  exists set0 f pruned n1 cmp n2,
    to_fs c cfg = Some set0 /\ ignore_filter_for c ver = Some f /\
    wf_value (snd pruned) = true /\
    (o = None \/ o = Some pruned) /\
    update_core c n1 live pruned ver (mf_set mgr (mkRec (filter_set f set0) ver true) mf0) mgr force
      = UOk (mf', cmp, n2).
Proof.
  intros c live cfg ver mf mf0 n0 mgr force o mf' Hcv Hwl Hwc Hrec H.
  unfold apply_op in H. rewrite Hrec in H.
  destruct (merge (schema_of c (fst live)) (tr_of c (fst live)) (snd live) (snd cfg))
    as [[nv|]|] eqn:Hmerge; [| discriminate | discriminate].
  pose proof (MergeWf.merge_wf _ _ _ _ _ Hwl Hwc Hmerge) as Hnv.
  destruct (to_fs c cfg) as [set0|] eqn:Hfs; [|discriminate].
  destruct (ignore_filter_for c ver) as [f|] eqn:Hf; [|discriminate].
  destruct (prune c n0 (fst live, nv) (mf_set mgr (mkRec set0 ver true) mf0) mgr
              (mf_get mgr mf0)) as [[pruned n1]|e] eqn:Hpr; [|discriminate].
  pose proof (prune_wf c n0 (fst live, nv) _ _ _ _ _ Hcv Hnv Hpr) as Hwp.
  destruct (update_core c n1 live pruned ver (mf_set mgr (mkRec (filter_set f set0) ver true) mf0) mgr force)
    as [[[mf2 cmp] n2]|e] eqn:Hupd; [|discriminate].
  exists set0, f, pruned, n1, cmp, n2.
  split; [reflexivity|]. split; [reflexivity|]. split; [exact Hwp|].
  destruct (negb (cfg_return_input_on_noop c) && veqb (snd live) (snd pruned));
    inversion H; subst o mf'; (split; [|exact Hupd]); [left|right]; reflexivity.
Qed.

Lemma apply_op_records_inv_excl : forall c live cfg ver mf mf0 n0 mgr force o mf',
  exclusion_config c -> compare_ok_wf c -> fs_ok_wf c -> conv_wf c ->
  wf_value (snd live) = true -> wf_value (snd cfg) = true ->
  reconcile_managed c O live mf = UOk (mf0, n0) -> records_inv mf0 ->
  apply_op c live cfg ver mf mgr force = UOk (o, mf') ->
  records_inv mf' /\ wf_value (snd (match o with Some t => t | None => live end)) = true.
Proof.
  intros c live cfg ver mf mf0 n0 mgr force o mf' Hex Hcok Hfsok Hcv Hwl Hwc Hrec [Hok0 _] H.
  destruct (apply_op_inv_obj c live cfg ver mf mf0 n0 mgr force o mf' Hcv Hwl Hwc Hrec H)
    as [set0 [f [pruned [n1 [cmp [n2 [Hfs [Hf [Hwp [Ho Hupd]]]]]]]]]].
  destruct (exclusion_filter c ver Hex) as [f' [Hf' Hspec]]. rewrite Hf in Hf'. inversion Hf'; subst f'.
  destruct (Hspec set0 (Hfsok cfg set0 Hwc Hfs)) as [Hset1 _].
  assert (mf_ok (mf_set mgr (mkRec (filter_set f set0) ver true) mf0)) as Hok1.
  { apply mf_set_ok; [exact Hok0|exact Hset1]. }
  destruct (update_core_shrinks_all c n1 live pruned ver _ mgr force mf' cmp n2 Hok1 Hcok Hcv Hwl Hwp
              (exclusion_filters_ok c Hex) Hupd) as [_ [Hok2 [Hne2 _]]].
  split; [split; assumption|].
  destruct Ho as [Ho|Ho]; subst o; assumption.
Qed.

Lemma update_op_records_inv_excl : forall c live new ver mf mf0 n0 mgr o mf',
  exclusion_config c -> compare_ok_wf c -> conv_wf c ->
  wf_value (snd live) = true -> wf_value (snd new) = true ->
  reconcile_managed c O live mf = UOk (mf0, n0) -> records_inv mf0 ->
  update_op c live new ver mf mgr = UOk (o, mf') ->
  records_inv mf' /\ o = new.
Proof.
  intros c live new ver mf mf0 n0 mgr o mf' Hex Hcok Hcv Hwl Hwn Hrec [Hok0 _] H.
  unfold update_op in H. rewrite Hrec in H.
  destruct (update_core c n0 live new ver mf0 mgr true) as [[[mf1 cmp] n1]|e] eqn:Hupd; [|discriminate].
  destruct (update_core_shrinks_all c n0 live new ver mf0 mgr true mf1 cmp n1 Hok0 Hcok Hcv Hwl Hwn
              (exclusion_filters_ok c Hex) Hupd) as [[cmp0 [f0 [_ [_ [_ Hc]]]]] [Hok1 [Hne1 _]]].
  destruct (exclusion_filter c ver Hex) as [f [Hf Hspec]]. rewrite Hf in H.
  destruct (update_set_spec _ cmp (cur_ok mgr mf1 Hok1) Hc) as [Hok2 _].
  destruct (Hspec _ Hok2) as [Hok3 _].
  assert (records_inv mf1) as Hinv1 by (split; assumption).
  match type of H with (UOk (_, if ps_empty ?s then _ else _)) = _ => destruct (ps_empty s) eqn:Ee end;
    inversion H; subst o mf'; clear H; (split; [|reflexivity]).
  - apply records_inv_del. exact Hinv1.
  - apply records_inv_set; [exact Hinv1|exact Hok3|exact Ee].
Qed.

(* ================= the histories ================= *)

Section IgnoredHistory.
  Variable c : config.

  (* operations carry their API version *)
  Inductive vop : Type :=
  | VApply (mgr ver : string) (cfg : value) (force : bool)
  | VUpdate (mgr ver : string) (obj : value).

  Definition vop_ok (o : vop) : Prop :=
    match o with
    | VApply _ _ cfg _ => wf_value cfg = true
    | VUpdate _ _ obj => wf_value obj = true
    end.

  (* the state: the live object with the version it is expressed in, and the records;
     a failing operation leaves the state as it is *)
  Definition vstep (st : tv * managed) (o : vop) : tv * managed :=
    match o with
    | VApply mgr ver cfg force =>
        match apply_op c (fst st) (ver, cfg) ver (snd st) mgr force with
        | UOk (Some t, mf') => (t, mf')
        | UOk (None, mf') => (fst st, mf')
        | UErr _ => st
        end
    | VUpdate mgr ver obj =>
        match update_op c (fst st) (ver, obj) ver (snd st) mgr with
        | UOk (t, mf') => (t, mf')
        | UErr _ => st
        end
    end.

  Definition vrun (v0 : string) (ops : list vop) : tv * managed :=
    fold_left vstep ops ((v0, VNull), []).

  (* the invariant of the reachable states *)
  Definition vinv (st : tv * managed) : Prop :=
    wf_value (snd (fst st)) = true /\ records_inv (snd st) /\ never_owned c (snd st).

  Lemma vinv_init : forall v0, vinv ((v0, VNull), []).
  Proof.
    intros v0. split; [reflexivity|]. split.
    - split; [split; reflexivity|]. intros m r Hg. discriminate Hg.
    - intros m r p Hg. discriminate Hg.
  Qed.

  Lemma vstep_vinv : forall st o,
    exclusion_config c -> compare_ok_wf c -> fs_ok_wf c -> conv_wf c ->
    vinv st -> vop_ok o -> vinv (vstep st o).
  Proof.
    intros [live mf] o Hex Hcok Hfsok Hcv [Hwl [Hinv Hno]] Hop. cbn [fst snd] in Hwl, Hinv, Hno.
    destruct o as [mgr ver cfg force|mgr ver obj]; cbn [vop_ok] in Hop; cbn [vstep fst snd].
    - destruct (apply_op c live (ver, cfg) ver mf mgr force) as [[o mf']|e] eqn:H.
      2:{ split; [exact Hwl|]. split; assumption. }
      destruct (reconcile_managed c 0 live mf) as [[mf0 n0]|e] eqn:Hrec.
      2:{ unfold apply_op in H. rewrite Hrec in H. discriminate H. }
      pose proof (reconcile_records_inv c 0 live mf mf0 n0 Hinv Hrec) as Hinv0.
      pose proof (reconcile_never_owned c 0 live mf mf0 n0 Hex (proj1 Hinv) Hno Hrec) as Hno0.
      pose proof (apply_op_never_owned c live (ver, cfg) ver mf mf0 n0 mgr force o mf'
                    Hex Hcok Hfsok Hcv Hwl Hop Hrec Hinv0 Hno0 H) as Hno'.
      destruct (apply_op_records_inv_excl c live (ver, cfg) ver mf mf0 n0 mgr force o mf'
                  Hex Hcok Hfsok Hcv Hwl Hop Hrec Hinv0 H) as [Hinv' Hw'].
      destruct o as [t|]; (split; [exact Hw'|]); split; assumption.
    - destruct (update_op c live (ver, obj) ver mf mgr) as [[t mf']|e] eqn:H.
      2:{ split; [exact Hwl|]. split; assumption. }
      destruct (reconcile_managed c 0 live mf) as [[mf0 n0]|e] eqn:Hrec.
      2:{ unfold update_op in H. rewrite Hrec in H. discriminate H. }
      pose proof (reconcile_records_inv c 0 live mf mf0 n0 Hinv Hrec) as Hinv0.
      pose proof (reconcile_never_owned c 0 live mf mf0 n0 Hex (proj1 Hinv) Hno Hrec) as Hno0.
      pose proof (update_op_never_owned c live (ver, obj) ver mf mf0 n0 mgr t mf'
                    Hex Hcok Hcv Hwl Hop Hrec Hinv0 Hno0 H) as Hno'.
      destruct (update_op_records_inv_excl c live (ver, obj) ver mf mf0 n0 mgr t mf'
                  Hex Hcok Hcv Hwl Hop Hrec Hinv0 H) as [Hinv' Ht].
      subst t. split; [exact Hop|]. split; assumption.
  Qed.

  Lemma fold_vstep_vinv : forall ops st,
    exclusion_config c -> compare_ok_wf c -> fs_ok_wf c -> conv_wf c ->
    vinv st -> Forall vop_ok ops -> vinv (fold_left vstep ops st).
  Proof.
    induction ops as [|o ops IH]; intros st Hex Hcok Hfsok Hcv Hst Hops; [exact Hst|].
    inversion Hops as [|x y Ho Hops']; subst. cbn [fold_left].
    apply IH; try assumption. apply vstep_vinv; assumption.
  Qed.

  Theorem never_owned_along_histories : forall v0 ops,
    exclusion_config c -> compare_ok_wf c -> fs_ok_wf c -> conv_wf c ->
    Forall vop_ok ops ->
    wf_value (snd (fst (vrun v0 ops))) = true /\
    records_inv (snd (vrun v0 ops)) /\
    never_owned c (snd (vrun v0 ops)).
  Proof.
    intros v0 ops Hex Hcok Hfsok Hcv Hops.
    exact (fold_vstep_vinv ops _ Hex Hcok Hfsok Hcv (vinv_init v0) Hops).
  Qed.
End IgnoredHistory.

