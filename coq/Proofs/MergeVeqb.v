(* Merging a value with an EQUAL (value.Equals) right-hand side gives the right-hand side;
   consequence: a merged member of a set / keyed list keeps its path element (up to
   PathElement.Equals). *)
From Coq Require Import List ZArith String Bool Arith Lia.
From SMD Require Import Model.Value Model.Order Model.PathElem Model.PathSet Model.Schema
  Model.Walk Model.Merge Spec.RefValid Spec.Resolve Proofs.OrderLaws Proofs.KeyLaws Proofs.PesLaws
  Proofs.SchemaOk Proofs.MergeBase Proofs.MergeLoop Proofs.MergeWalk Proofs.MergeConf
  Proofs.MergeVeqbAux.
Import ListNotations.
Open Scope bool_scope.

Section Veqb.
  Variables (s : schema) (R : typeref -> Prop).
  Hypothesis Hok : schema_ok s R.
  Hypothesis Hfam : family_refs s R.

  Section Step.
    Variable f : nat.
    Hypothesis IHV : forall tr l r, R tr -> vdepth l + vdepth r < f ->
      conforms s tr true l = true -> wf_value l = true ->
      conforms s tr false r = true -> wf_value r = true ->
      veqb l r = true ->
      merge_w f s tr (Some l) (Some r) = (false, Some r).

    Lemma veqb_map_step : forall tr a mt m1 m2, R tr -> resolve s tr = Some a ->
      atom_map a = Some mt -> vdepth (VMap m1) + vdepth (VMap m2) < S f ->
      conforms s tr true (VMap m1) = true -> wf_value (VMap m1) = true ->
      conforms s tr false (VMap m2) = true -> wf_value (VMap m2) = true ->
      veqb (VMap m1) (VMap m2) = true ->
      merge_map f s mt (Some (VMap m1)) (Some (VMap m2)) = (false, Some (VMap m2)).
    Proof.
      intros tr a mt m1 m2 HR Hr Hm Hd Hc1 Hw1 Hc2 Hw2 Hv. unfold merge_map.
      destruct (rel_is_atomic (map_rel mt) ||
                is_empty_l (deref_map (Some (VMap m1))) && is_empty_l (deref_map (Some (VMap m2)))) eqn:Eleaf;
        [reflexivity|].
      apply orb_false_iff in Eleaf. destruct Eleaf as [_ Eleaf].
      destruct (veqb_map_facts m1 m2 Hw1 Hw2 Hv) as [Hkeys Hget].
      assert (Hne : m2 <> []).
      { intros E. subst m2. destruct m1; [simpl in Eleaf; discriminate|discriminate Hkeys]. }
      change (dm (Some (VMap m1))) with m1. change (dm (Some (VMap m2))) with m2.
      rewrite Hkeys, keys_union_self.
      set (g := fun k => match assoc_get k m2 with Some x => x | None => VNull end).
      rewrite (fold_map_ok f s mt m1 m2 g).
      - assert (Hreb : map (fun k => (k, g k)) (map fst m2) = m2).
        { apply map_rebuild. intros k x Hin. unfold g.
          rewrite (assoc_get_sorted_in m2 k x (wf_map_sorted m2 Hw2) Hin). reflexivity. }
        simpl app. rewrite Hreb. destruct m2; [congruence|reflexivity].
      - intros k Hk.
        assert (Hk1 : In k (map fst m1)) by (rewrite Hkeys; exact Hk).
        pose proof (assoc_get_in_keys _ m1 k Hk1) as Hs1.
        destruct (assoc_get k m1) as [x1|] eqn:E1; [|congruence].
        destruct (Hget k x1 E1) as [x2 [E2 Hv12]].
        unfold g. rewrite E2.
        pose proof (oconf_dm s tr true a mt (Some (VMap m1)) k Hr Hm (conj Hc1 Hw1)) as Hsub1.
        change (dm (Some (VMap m1))) with m1 in Hsub1. rewrite E1 in Hsub1. destruct Hsub1 as [Hcx1 Hwx1].
        pose proof (oconf_dm s tr false a mt (Some (VMap m2)) k Hr Hm (conj Hc2 Hw2)) as Hsub2.
        change (dm (Some (VMap m2))) with m2 in Hsub2. rewrite E2 in Hsub2. destruct Hsub2 as [Hcx2 Hwx2].
        apply IHV; auto.
        + apply (so_map s R Hok tr a mt k); auto.
        + apply assoc_get_in in E1. apply assoc_get_in in E2.
          pose proof (vdepth_map_in m1 k x1 E1). pose proof (vdepth_map_in m2 k x2 E2). lia.
    Qed.

    Lemma veqb_list_step : forall tr a t l1 l2, R tr -> resolve s tr = Some a ->
      atom_list a = Some t -> vdepth (VList l1) + vdepth (VList l2) < S f ->
      conforms s tr true (VList l1) = true -> wf_value (VList l1) = true ->
      conforms s tr false (VList l2) = true -> wf_value (VList l2) = true ->
      veqb (VList l1) (VList l2) = true ->
      merge_list f s t (Some (VList l1)) (Some (VList l2)) = (false, Some (VList l2)).
    Proof.
      intros tr a t l1 l2 HR Hr Hl Hd Hc1 Hw1 Hc2 Hw2 Hv. unfold merge_list.
      destruct (rel_is_atomic (list_rel t) ||
                is_empty_l (deref_list (Some (VList l1))) && is_empty_l (deref_list (Some (VList l2)))) eqn:Eleaf;
        [reflexivity|].
      apply orb_false_iff in Eleaf. destruct Eleaf as [Hna Eleaf].
      pose proof (list_rel_assoc t (Hfam tr a t HR Hr Hl) Hna) as Hrel.
      destruct (conf_list_assoc s tr a t true l1 Hr Hl Hrel Hc1) as (Hpe1 & Hall1 & _).
      destruct (conf_list_assoc s tr a t false l2 Hr Hl Hrel Hc2) as (Hpe2 & Hall2 & Hdis2).
      specialize (Hdis2 eq_refl).
      pose proof (elem_ok s R Hok tr a t HR Hr Hl) as Helem.
      pose proof (so_list s R Hok tr a t HR Hr Hl) as HRelem.
      rewrite veqb_list in Hv. apply all2b_F2 in Hv.
      assert (Hne : l2 <> []).
      { intros E. subst l2. inversion Hv; subst. simpl in Eleaf. discriminate. }
      change (dl (Some (VList l1))) with l1. change (dl (Some (VList l2))) with l2.
      assert (Hw1' : forallb wf_value l1 = true) by exact Hw1.
      assert (Hw2' : forallb wf_value l2 = true) by exact Hw2.
      assert (Hwfpe1 : forall e, In e (pes_of s t l1) -> wf_pe e = true) by (apply pes_of_wf; auto).
      assert (Hwfpe2 : forall e, In e (pes_of s t l2) -> wf_pe e = true) by (apply pes_of_wf; auto).
      pose proof (ipairs_F2 s t _ l1 l2 (F2_in_both _ _ _ l1 l2 Hv) Hpe1 Hpe2) as HF.
      (* the path elements are pairwise equal *)
      assert (HFpe : Forall2 pe_rel (pes_of s t l1) (pes_of s t l2)).
      { rewrite <- !ipairs_fst. apply F2_map_fst.
        eapply F2_impl; [|exact HF].
        intros [e1 c1] [e2 c2] ((Hv' & Hi1 & Hi2) & Hp1 & Hp2). cbn [fst snd] in *.
        pose proof (wf_list_in l1 c1 Hw1 Hi1) as Wc1. pose proof (wf_list_in l2 c2 Hw2 Hi2) as Wc2.
        split; [apply (item_pe_veqb s t c1 c2 e1 e2 Helem Wc1 Wc2 Hv' Hp1 Hp2)|].
        split; [apply (item_pe_wf s t c1 e1 Helem Wc1 Hp1)|apply (item_pe_wf s t c2 e2 Helem Wc2 Hp2)]. }
      assert (Hdis1 : all_distinct (pes_of s t l1) = true).
      { rewrite (all_distinct_F2 _ _ HFpe). exact Hdis2. }
      destruct (index_nodup s t false l2 [] [] false (pem_ok_nil _) Hwfpe2 Hpe2 Hdis2)
        as [oR [HidxR [HoR HgetR]]].
      { intros e _. apply pem_get_nil. }
      destruct (index_nodup s t true l1 [] [] false (pem_ok_nil _) Hwfpe1 Hpe1 Hdis1)
        as [oL [HidxL [HoL HgetL]]].
      { intros e _. apply pem_get_nil. }
      rewrite HidxR. cbv beta iota. rewrite HidxL. cbv beta iota. simpl orb. cbv iota. simpl app.
      destruct (pop_shared (shared_order oL (pes_of s t l2))) as [ns so].
      rewrite (ipairs_combine s t l1 Hpe1).
      rewrite <- (ipairs_fst s t l2).
      rewrite (loop_eq_id _ oL oR (ipairs s t l1) (ipairs s t l2)).
      - simpl app. rewrite (ipairs_snd s t l2 Hpe2). destruct l2; [congruence|reflexivity].
      - eapply F2_impl; [|exact HF].
        intros [le lc] [re rc] ((Hv' & Hi1 & Hi2) & Hp1 & Hp2). cbn [fst snd] in *.
        pose proof (wf_list_in l1 lc Hw1 Hi1) as Wc1. pose proof (wf_list_in l2 rc Hw2 Hi2) as Wc2.
        pose proof (item_pe_veqb s t lc rc le re Helem Wc1 Wc2 Hv' Hp1 Hp2) as Heq.
        pose proof (item_pe_wf s t lc le Helem Wc1 Hp1) as Wle.
        pose proof (item_pe_wf s t rc re Helem Wc2 Hp2) as Wre.
        split; [exact Heq|].
        rewrite (pem_get_cong _ le re oR HoR Wle Wre Heq).
        rewrite (HgetL le Wle), (HgetR re Wre).
        rewrite (lfind_in s t l1 le lc Hwfpe1 Hdis1 (ipairs_in_rev s t l1 le lc Hi1 Hp1)).
        rewrite (lfind_in s t l2 re rc Hwfpe2 Hdis2 (ipairs_in_rev s t l2 re rc Hi2 Hp2)).
        apply IHV; auto.
        + pose proof (vdepth_list_in l1 lc Hi1). pose proof (vdepth_list_in l2 rc Hi2). lia.
        + rewrite forallb_forall in Hall1. apply Hall1. exact Hi1.
        + rewrite forallb_forall in Hall2. apply Hall2. exact Hi2.
      - rewrite (ipairs_length s t l1 Hpe1). simpl. lia.
    Qed.
  End Step.

  Lemma merge_veqb_w : forall f tr l r, R tr -> vdepth l + vdepth r < f ->
    conforms s tr true l = true -> wf_value l = true ->
    conforms s tr false r = true -> wf_value r = true ->
    veqb l r = true ->
    merge_w f s tr (Some l) (Some r) = (false, Some r).
  Proof.
    induction f as [|f IH]; intros tr l r HR Hd Hcl Hwl Hcr Hwr Hv; [lia|].
    rewrite merge_w_S.
    destruct (conforms_resolve s tr false r Hcr) as [a [Hr Hne]]. rewrite Hr.
    unfold merge_top.
    pose proof Hcl as Hcl'. rewrite conforms_unf, Hr in Hcl'.
    pose proof Hcr as Hcr'. rewrite conforms_unf, Hr in Hcr'. destruct a as [sc li ma].
    destruct l as [|b|z|q|str|ll|lm]; destruct r as [|b'|z'|q'|str'|rl|rm];
      try (simpl in Hv; discriminate);
      match goal with
      | |- context [atom_eqb ?x ?y] => change (atom_eqb x y) with (atom_eqb y y); rewrite atom_eqb_refl
      end.
    - rewrite deduce_null. rewrite handle_leafy; try reflexivity.
      apply (hfrom_not_invalid (Atom sc li ma)). apply (hfrom_deduce _ None Hne).
    - destruct sc as [t|]; [|discriminate]. rewrite deduce_conf_scalar by reflexivity.
      apply handle_scalar_ok. exact Hcr'.
    - destruct sc as [t|]; [|discriminate]. rewrite deduce_conf_scalar by reflexivity.
      apply handle_scalar_ok. exact Hcr'.
    - destruct sc as [t|]; [|discriminate]. rewrite deduce_conf_scalar by reflexivity.
      apply handle_scalar_ok. exact Hcr'.
    - destruct sc as [t|]; [|discriminate]. rewrite deduce_conf_scalar by reflexivity.
      apply handle_scalar_ok. exact Hcr'.
    - destruct sc as [t|]; [|discriminate]. rewrite deduce_conf_scalar by reflexivity.
      apply handle_scalar_ok. exact Hcr'.
    - destruct sc as [t|]; [|discriminate]. rewrite deduce_conf_scalar by reflexivity.
      apply handle_scalar_ok. exact Hcr'.
    - destruct li as [t|]; [|discriminate].
      rewrite (deduce_conf_list (Atom sc (Some t) ma) rl t eq_refl). simpl handle.
      apply (veqb_list_step f IH tr (Atom sc (Some t) ma) t ll rl); auto.
    - destruct ma as [t|]; [|discriminate].
      rewrite (deduce_conf_map (Atom sc li (Some t)) rm t eq_refl). simpl handle.
      apply (veqb_map_step f IH tr (Atom sc li (Some t)) t lm rm); auto.
  Qed.

  (* the merged member has the path element of the right member, up to peeqb *)
  Lemma merged_item_pe : forall f t lo r x er,
    R (list_elem t) -> elem_defaults_ok s t ->
    oconf s (list_elem t) true lo ->
    conforms s (list_elem t) false r = true -> wf_value r = true ->
    list_item_to_pe s t r = Some er ->
    (forall l, lo = Some l ->
       l = VNull \/ exists el, list_item_to_pe s t l = Some el /\ peeqb el er = true) ->
    odepth lo + vdepth r < f ->
    merge_w f s (list_elem t) lo (Some r) = (false, Some x) ->
    exists ex, list_item_to_pe s t x = Some ex /\ peeqb ex er = true.
  Proof.
    intros f t lo r x er HR Hdef Hlo Hcr Hwr Hper Hl Hdep Hm.
    assert (Hwer : wf_pe er = true) by (apply (item_pe_wf s t r er Hdef Hwr Hper)).
    assert (Hsame : x = r -> exists ex, list_item_to_pe s t x = Some ex /\ peeqb ex er = true).
    { intros E. subst x. exists er. split; [exact Hper|apply peeqb_refl; exact Hwer]. }
    destruct lo as [l|].
    2: { apply Hsame. simpl in Hdep.
         rewrite (merge_absent_left s R Hok Hfam f (list_elem t) r HR) in Hm; auto.
         inversion Hm; reflexivity. }
    destruct (Hl l eq_refl) as [El|[el [Hpel Heq]]].
    { subst l. apply Hsame. simpl in Hdep.
      rewrite (merge_null_left_w s R Hok Hfam f (list_elem t) r HR) in Hm; auto.
      inversion Hm; reflexivity. }
    destruct Hlo as [Hcl Hwl]. simpl in Hdep.
    destruct f as [|f]; [lia|]. rewrite merge_w_S in Hm.
    destruct (conforms_resolve s _ false r Hcr) as [a [Hr Hne]]. rewrite Hr in Hm.
    unfold merge_top in Hm. destruct a as [sc li ma].
    destruct (list_item_cases s t r er Hper) as [Hassoc [[Hk Hsr]|[Hk Hkr]]];
      destruct (list_item_cases s t l el Hpel) as [_ [[Hk' Hsl]|[Hk' Hkl]]]; try congruence.
    - (* a set: the right member is a scalar and is the output *)
      apply Hsame.
      destruct (set_item_scalar r er Hsr) as [Hscr _].
      destruct (conforms_scalar s _ false sc li ma r Hr Hscr Hcr) as [st [Esc Hst]]. subst sc.
      rewrite deduce_conf_scalar in Hm by exact Hscr.
      rewrite (handle_scalar_ok f s st (Some l) r Hst) in Hm.
      match type of Hm with (if ?c then _ else _) = _ => destruct c end.
      + inversion Hm; reflexivity.
      + match type of Hm with (let '(_, _) := ?h in _) = _ => destruct h as [e1 o1] end.
        inversion Hm; reflexivity.
    - (* a keyed list: both members are maps *)
      destruct (keyed_item_map s t r er Hkr) as [rm [flr0 [Er [Hgr Eer]]]].
      destruct (keyed_item_map s t l el Hkl) as [lm [fll0 [El [Hgl Eel]]]].
      subst r l er el.
      pose proof Hcr as Hcr'. rewrite conforms_unf, Hr in Hcr'.
      destruct ma as [mt|]; [|discriminate].
      change (atom_eqb (deduce_atom (Atom sc li (Some mt)) (Some (VMap lm)))
                       (deduce_atom (Atom sc li (Some mt)) (Some (VMap rm))))
        with (atom_eqb (deduce_atom (Atom sc li (Some mt)) (Some (VMap rm)))
                       (deduce_atom (Atom sc li (Some mt)) (Some (VMap rm)))) in Hm.
      rewrite atom_eqb_refl in Hm.
      rewrite (deduce_conf_map (Atom sc li (Some mt)) rm mt eq_refl) in Hm. simpl handle in Hm.
      unfold merge_map in Hm.
      destruct (rel_is_atomic (map_rel mt) ||
                is_empty_l (deref_map (Some (VMap lm))) && is_empty_l (deref_map (Some (VMap rm)))) eqn:Eleaf.
      { apply Hsame. unfold do_leaf in Hm. simpl in Hm. inversion Hm; reflexivity. }
      apply orb_false_iff in Eleaf. destruct Eleaf as [_ Eleaf].
      set (lo := Some (VMap lm)) in *. set (ro := Some (VMap rm)) in *.
      assert (Hclo : oconf s (list_elem t) true lo) by (split; assumption).
      assert (Hcro : oconf s (list_elem t) false ro) by (split; assumption).
      assert (Hnem : dm lo <> [] \/ dm ro <> []).
      { unfold dm. destruct (deref_map lo) as [[|? ?]|]; destruct (deref_map ro) as [[|? ?]|];
          simpl in Eleaf; try discriminate; try (left; discriminate); right; discriminate. }
      set (keys := keys_union (map fst (dm lo)) (map fst (dm ro))) in *.
      set (g := fun k => out_of (merge_w f s (field_type mt k) (assoc_get k (dm lo)) (assoc_get k (dm ro)))).
      assert (Hres : forall k, In k keys ->
                merge_w f s (field_type mt k) (assoc_get k (dm lo)) (assoc_get k (dm ro))
                = (false, Some (g k))).
      { intros k Hkin.
        destruct (merge_total_w s R Hok Hfam f (field_type mt k) (assoc_get k (dm lo)) (assoc_get k (dm ro)))
          as [o Ho].
        - apply (so_map s R Hok (list_elem t) (Atom sc li (Some mt)) mt k); auto.
        - pose proof (dm_depth lo k). pose proof (dm_depth ro k).
          assert (Hdd : odepth lo + odepth ro < S f) by exact Hdep.
          destruct Hnem as [Hnem|Hnem].
          + pose proof (dm_depth_lt lo k Hnem). lia.
          + pose proof (dm_depth_lt ro k Hnem). lia.
        - apply (oconf_dm s (list_elem t) true (Atom sc li (Some mt)) mt lo k Hr eq_refl Hclo).
        - apply (oconf_dm s (list_elem t) false (Atom sc li (Some mt)) mt ro k Hr eq_refl Hcro).
        - apply keys_union_in in Hkin. destruct Hkin as [Hkin|Hkin].
          + left. apply assoc_get_in_keys. exact Hkin.
          + right. apply assoc_get_in_keys. exact Hkin.
        - apply (out_of_eq _ o Ho). }
      rewrite (fold_map_ok f s mt (dm lo) (dm ro) g keys false [] Hres) in Hm. simpl app in Hm.
      destruct (map (fun k => (k, g k)) keys) as [|kv0 om0] eqn:Eom; [discriminate|].
      rewrite <- Eom in Hm. inversion Hm as [Hx]. clear Hm Eom kv0 om0.
      change (dm lo) with lm in *. change (dm ro) with rm in *.
      (* the key values of the two operands are pairwise equal *)
      simpl in Heq. apply fl_eqb_F2 in Heq.
      pose proof (keyed_go_nm s t lm rm (list_keys t) fll0 flr0 Hgl Hgr) as Hnm.
      apply (fl_sort_F2_inv flr fll0 flr0 Hnm) in Heq.
      pose proof (keyed_go_rel_inv s t lm rm (list_keys t) fll0 flr0 Hgl Hgr Heq) as Hkv.
      assert (Hwlm : forallb (fun kv => wf_value (snd kv)) lm = true).
      { simpl in Hwl. apply andb_true_iff in Hwl. tauto. }
      assert (Hwrm : forallb (fun kv => wf_value (snd kv)) rm = true).
      { simpl in Hwr. apply andb_true_iff in Hwr. tauto. }
      (* hence those of the output and of the right operand *)
      destruct (keyed_go_rel s t (map (fun k => (k, g k)) keys) rm (list_keys t))
        as [fx [fy [Hgx [Hgy HF]]]].
      { intros k Hkin. destruct (Hkv k Hkin) as [a [b [Ha [Hb Hab]]]].
        pose proof (kval_wf s t rm k b Hdef Hwrm Hb) as Wb.
        assert (Hbb : veqb b b = true) by (apply veqb_refl; exact Wb).
        unfold kval in Ha, Hb |- *. rewrite assoc_get_map_keys.
        pose proof (oconf_dm s (list_elem t) true (Atom sc li (Some mt)) mt lo k Hr eq_refl Hclo) as Hsub1.
        pose proof (oconf_dm s (list_elem t) false (Atom sc li (Some mt)) mt ro k Hr eq_refl Hcro) as Hsub2.
        change (dm lo) with lm in Hsub1. change (dm ro) with rm in Hsub2.
        pose proof (so_map s R Hok (list_elem t) (Atom sc li (Some mt)) mt k HR Hr eq_refl) as HRk.
        destruct (assoc_get k lm) as [lv|] eqn:Elv; destruct (assoc_get k rm) as [rv|] eqn:Erv.
        - (* present on both sides, with equal values: the right one is kept *)
          inversion Ha; inversion Hb; subst a b.
          destruct (in_dec string_dec k keys) as [Hin|Hnin].
          2: { exfalso. apply Hnin. apply keys_union_in. left. apply (assoc_get_some_keys _ lm k lv Elv). }
          pose proof (Hres k Hin) as Hg. rewrite Elv, Erv in Hg.
          destruct Hsub1 as [Hc1 Hw1]. destruct Hsub2 as [Hc2 Hw2].
          rewrite (merge_veqb_w f (field_type mt k) lv rv HRk) in Hg; auto.
          + assert (Hgk : g k = rv) by congruence. rewrite Hgk. exists rv, rv. auto.
          + apply assoc_get_in in Elv. apply assoc_get_in in Erv.
            pose proof (vdepth_map_in lm k lv Elv). pose proof (vdepth_map_in rm k rv Erv). lia.
        - (* only on the left: kept, and equal to the default used on the right *)
          inversion Ha; subst a.
          destruct (in_dec string_dec k keys) as [Hin|Hnin].
          2: { exfalso. apply Hnin. apply keys_union_in. left. apply (assoc_get_some_keys _ lm k lv Elv). }
          pose proof (Hres k Hin) as Hg. rewrite Elv, Erv in Hg.
          destruct Hsub1 as [Hc1 Hw1].
          rewrite (merge_absent_right s R Hok Hfam f (field_type mt k) lv HRk) in Hg; auto.
          + assert (Hgk : g k = lv) by congruence. rewrite Hgk. exists lv, b. auto.
          + apply assoc_get_in in Elv. pose proof (vdepth_map_in lm k lv Elv).
            pose proof (vdepth_pos (VMap rm)). lia.
        - (* only on the right *)
          inversion Hb; subst b.
          destruct (in_dec string_dec k keys) as [Hin|Hnin].
          2: { exfalso. apply Hnin. apply keys_union_in. right. apply (assoc_get_some_keys _ rm k rv Erv). }
          pose proof (Hres k Hin) as Hg. rewrite Elv, Erv in Hg.
          destruct Hsub2 as [Hc2 Hw2].
          rewrite (merge_absent_left s R Hok Hfam f (field_type mt k) rv HRk) in Hg; auto.
          + assert (Hgk : g k = rv) by congruence. rewrite Hgk. exists rv, rv. auto.
          + apply assoc_get_in in Erv. pose proof (vdepth_map_in rm k rv Erv).
            pose proof (vdepth_pos (VMap lm)). lia.
        - (* on neither side: the same default *)
          destruct (in_dec string_dec k keys) as [Hin|Hnin].
          { exfalso. apply keys_union_in in Hin. destruct Hin as [Hin|Hin].
            - apply (assoc_get_in_keys _ lm k Hin). exact Elv.
            - apply (assoc_get_in_keys _ rm k Hin). exact Erv. }
          exists b, b. auto. }
      rewrite Hgr in Hgy. inversion Hgy; subst fy.
      exists (PEKey (fl_sort fx)). split.
      + rewrite (list_item_keyed s t _ Hassoc Hk), keyed_item_to_pe_eq, Hgx. reflexivity.
      + simpl. apply fl_eqb_F2. apply fl_sort_flr. exact HF.
  Qed.
End Veqb.

