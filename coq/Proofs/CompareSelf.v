(* A value compared with itself: nothing is accumulated. *)
From Coq Require Import List ZArith String Bool Arith Lia.
From SMD Require Import Model.Value Model.Order Model.PathElem Model.PathSet Model.Schema
  Model.Walk Model.Validate Model.Merge Model.Compare Spec.PathsAsSets Spec.RefValid
  Proofs.OrderLaws Proofs.KeyLaws Proofs.PesLaws Proofs.PathSetLaws Proofs.ValidateLaws
  Proofs.SchemaOk Proofs.CompareBase Proofs.CompareWf.
Import ListNotations.
Open Scope bool_scope.

Lemma elem_res_self : forall item pp e L,
  (forall o, wf_ov o = true -> snd (item e o o) = cmp_empty) ->
  forallb wf_value L = true ->
  snd (elem_res item pp e L L) = cmp_empty.
Proof.
  intros item pp e L Hitem HL. destruct L as [|v [|v2 L]]; simpl in *.
  - reflexivity.
  - apply Hitem. simpl. apply andb_true_iff in HL. tauto.
  - apply andb_true_iff in HL. destruct HL as [H1 HL]. apply andb_true_iff in HL. destruct HL as [H2 HL].
    rewrite (veqb_refl v H1), (veqb_refl v2 H2), (values_eqb_refl L HL). reflexivity.
Qed.

Section BodySelf.
  Variables (s : schema) (R : typeref -> Prop).
  Hypothesis Hok : schema_ok s R.
  Variable rec : typeref -> path -> option value -> option value -> bool * cmpacc.
  Hypothesis Hrec : forall tr p o, R tr -> wf_ov o = true -> snd (rec tr p o o) = cmp_empty.
  Variable p : path.
  Variable v : value.
  Hypothesis Hv : wf_value v = true.

  Lemma do_leaf_self : snd (fst (do_leaf p (Some v) (Some v))) = cmp_empty.
  Proof. unfold do_leaf. simpl. rewrite (veqb_refl v Hv). reflexivity. Qed.

  Lemma handle_list_self : forall t, R (list_elem t) ->
    snd (fst (handle_list rec s p (Some v) (Some v) t)) = cmp_empty.
  Proof.
    intros t HR. unfold handle_list.
    destruct (rel_is_atomic (list_rel t) || (is_emp (deref_list (Some v)) && is_emp (deref_list (Some v)))).
    - apply do_leaf_self.
    - pose proof (item_pe_wf_elem s R Hok t) as Hpe. specialize (fun c e => Hpe c e HR).
      assert (Hll : forallb wf_value (ol (deref_list (Some v))) = true) by (apply deref_list_wf; exact Hv).
      destruct (gather_values s t (ol (deref_list (Some v))) [] [] false) as [[lV o1] e1] eqn:El.
      destruct (gather_spec s t Hpe _ _ _ _ Hll El) as (L1 & L2 & L3 & L4 & L5 & L6 & L7).
      rewrite fold_acc_step. simpl. rewrite cmp_app_empty_l.
      apply cmp_concat_empty. apply Forall_forall. intros c Hc.
      apply in_map_iff in Hc. destruct Hc as (e & Hc & He). subst c.
      assert (Hwe : wf_pe e = true) by (exact (all_pes_wf lV o1 o1 L3 L3 e He)).
      unfold list_F. apply elem_res_self.
      + intros o Ho. apply Hrec; auto.
      + rewrite (L5 e Hwe). apply grp_wf; auto.
  Qed.

  Lemma handle_map_self : forall t, (forall k, R (field_type t k)) ->
    snd (fst (handle_map rec p (Some v) (Some v) t)) = cmp_empty.
  Proof.
    intros t HR. unfold handle_map.
    destruct (rel_is_atomic (map_rel t) || (is_emp (deref_map (Some v)) && is_emp (deref_map (Some v)))).
    - apply do_leaf_self.
    - rewrite fold_acc_step. simpl. rewrite cmp_app_empty_l.
      apply cmp_concat_empty. apply Forall_forall. intros c Hc.
      apply in_map_iff in Hc. destruct Hc as (k & Hc & Hk). subst c.
      unfold map_F. apply Hrec; auto.
      apply assoc_get_wf_ov. apply (deref_map_wf (Some v)). exact Hv.
  Qed.

  Lemma cmp_handle_self : forall h,
    (forall t, h = HList t -> R (list_elem t)) ->
    (forall t, h = HMap t -> forall k, R (field_type t k)) ->
    snd (fst (cmp_handle rec s p (Some v) (Some v) h)) = cmp_empty.
  Proof.
    intros h H1 H2. destruct h as [t|t|t|]; cbn [cmp_handle].
    - apply handle_map_self. apply H2. reflexivity.
    - destruct (validate_scalar t (Some v) && validate_scalar t (Some v)); [reflexivity|apply do_leaf_self].
    - apply handle_list_self. apply H1. reflexivity.
    - reflexivity.
  Qed.

  Lemma compare_body_self : forall tr, R tr ->
    snd (compare_body rec s p (Some v) (Some v) tr) = cmp_empty.
  Proof.
    intros tr HR. unfold compare_body.
    destruct (resolve s tr) as [a|] eqn:Hres; [|reflexivity].
    unfold cmp_dispatch. rewrite atom_eqb_refl.
    assert (Hh : snd (fst (cmp_handle rec s p (Some v) (Some v) (handle_atom (deduce_atom a (Some v))))) = cmp_empty).
    { apply cmp_handle_self.
      - intros t Ht. apply handle_atom_list in Ht. apply deduce_list in Ht.
        eapply (so_list s R Hok); eauto.
      - intros t Ht k. apply handle_atom_map in Ht. apply deduce_map in Ht.
        eapply (so_map s R Hok); eauto. }
    destruct (cmp_handle rec s p (Some v) (Some v) (handle_atom (deduce_atom a (Some v)))) as [[e c] lf].
    simpl in *. subst c. destruct lf; reflexivity.
  Qed.
End BodySelf.

Theorem compare_w_self : forall s R, schema_ok s R -> forall f tr p o,
  R tr -> wf_ov o = true -> snd (compare_w f s tr p o o) = cmp_empty.
Proof.
  intros s R Hok f. induction f as [|f IH]; intros tr p o HR Ho.
  - reflexivity.
  - rewrite compare_w_S. destruct o as [v|]; [|reflexivity].
    apply (compare_body_self s R Hok); auto.
Qed.
