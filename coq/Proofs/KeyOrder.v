(* C16: the fields of a key may be written in any order.  DeserializePathElement reads the
   fields of a "k:{...}" key and sorts them by name (fieldpath/serialize-pe.go,
   FieldList.Sort -- the model's [fl_sort]); for keys whose field names are distinct, any
   two orders of the same fields give the same sorted list, hence the same path element
   and the same serialised text. *)
From Coq Require Import List String Bool Permutation Sorting.Sorted.
From SMD Require Import Model.Value Model.Order Proofs.OrderLaws.
Import ListNotations.

Definition name_lt (a b : string * value) : Prop := String.compare (fst a) (fst b) = Lt.

Lemma fl_insert_perm : forall x l, Permutation (fl_insert x l) (x :: l).
Proof.
  intros x l. induction l as [|y t IH]; simpl; [apply Permutation_refl|].
  destruct (str_ltb (fst y) (fst x)).
  - eapply Permutation_trans; [apply perm_skip; exact IH|apply perm_swap].
  - apply Permutation_refl.
Qed.

Lemma fl_sort_perm : forall l, Permutation (fl_sort l) l.
Proof.
  induction l as [|x t IH]; [apply Permutation_refl|].
  change (fl_sort (x :: t)) with (fl_insert x (fl_sort t)).
  eapply Permutation_trans; [apply fl_insert_perm|apply perm_skip; exact IH].
Qed.

Lemma str_ltb_false : forall a b, str_ltb a b = false -> a <> b -> String.compare b a = Lt.
Proof.
  intros a b H Hne. unfold str_ltb in H. destruct (String.compare a b) eqn:E; try discriminate.
  - apply str_cmp_eq in E. contradiction.
  - apply str_cmp_gt_lt. exact E.
Qed.

Lemma str_ltb_true : forall a b, str_ltb a b = true -> String.compare a b = Lt.
Proof. intros a b H. unfold str_ltb in H. destruct (String.compare a b); try discriminate. reflexivity. Qed.

Lemma fl_insert_sorted : forall x l, StronglySorted name_lt l -> ~ In (fst x) (map fst l) ->
  StronglySorted name_lt (fl_insert x l).
Proof.
  intros x l Hs. induction Hs as [|y t Hst IH Hall]; intros Hnin; simpl.
  - constructor; constructor.
  - destruct (str_ltb (fst y) (fst x)) eqn:E.
    + constructor.
      * apply IH. intros Hin. apply Hnin. simpl. right. exact Hin.
      * assert (HF : Forall (name_lt y) (x :: t))
          by (constructor; [apply str_ltb_true; exact E|exact Hall]).
        rewrite Forall_forall in *. intros z Hz. apply HF.
        eapply Permutation_in; [apply fl_insert_perm|exact Hz].
    + assert (Hxy : name_lt x y).
      { apply str_ltb_false; [exact E|]. intros Heq. apply Hnin. simpl. left. exact Heq. }
      constructor; [constructor; assumption|].
      constructor; [exact Hxy|].
      eapply Forall_impl; [|exact Hall]. intros z Hz. unfold name_lt in *.
      eapply str_cmp_trans; eassumption.
Qed.

Lemma fl_sort_sorted : forall l, NoDup (map fst l) -> StronglySorted name_lt (fl_sort l).
Proof.
  induction l as [|x t IH]; intros Hnd; [constructor|].
  change (fl_sort (x :: t)) with (fl_insert x (fl_sort t)).
  simpl in Hnd. inversion Hnd as [|a b Hnin Hnd']; subst.
  apply fl_insert_sorted; [apply IH; exact Hnd'|].
  intros Hin. apply Hnin.
  apply (Permutation_in (l := map fst (fl_sort t))); [|exact Hin].
  apply Permutation_map. apply fl_sort_perm.
Qed.

Lemma name_lt_irrefl : forall a, ~ name_lt a a.
Proof. intros a H. unfold name_lt in H. rewrite str_cmp_refl in H. discriminate. Qed.

Lemma sorted_perm_eq : forall a b, StronglySorted name_lt a -> StronglySorted name_lt b ->
  Permutation a b -> a = b.
Proof.
  induction a as [|x ta IH]; intros b Ha Hb Hp.
  - apply Permutation_nil in Hp. symmetry. exact Hp.
  - destruct b as [|y tb]; [apply Permutation_sym, Permutation_nil in Hp; discriminate|].
    inversion Ha as [|x' ta' Hsa Hxa]; subst. inversion Hb as [|y' tb' Hsb Hyb]; subst.
    assert (Hxy : x = y).
    { assert (Hx : In x (y :: tb)) by (eapply Permutation_in; [exact Hp|left; reflexivity]).
      assert (Hy : In y (x :: ta)) by (eapply Permutation_in; [apply Permutation_sym; exact Hp|left; reflexivity]).
      destruct Hx as [Hx|Hx]; [symmetry; exact Hx|].
      destruct Hy as [Hy|Hy]; [exact Hy|].
      rewrite Forall_forall in Hxa, Hyb. pose proof (Hxa y Hy) as H1. pose proof (Hyb x Hx) as H2.
      exfalso. apply (name_lt_irrefl x). unfold name_lt in *. eapply str_cmp_trans; eassumption. }
    subst y. f_equal. apply IH; [exact Hsa|exact Hsb|].
    eapply Permutation_cons_inv. exact Hp.
Qed.

(* any two orders of the fields of a key (distinct names) are read as the same key *)
Theorem key_field_order_irrelevant : forall a b : fieldlist,
  NoDup (map fst a) -> Permutation a b -> fl_sort a = fl_sort b.
Proof.
  intros a b Hnd Hp.
  assert (Hndb : NoDup (map fst b)).
  { eapply Permutation_NoDup; [apply Permutation_map; exact Hp|exact Hnd]. }
  apply sorted_perm_eq; [apply fl_sort_sorted; exact Hnd|apply fl_sort_sorted; exact Hndb|].
  eapply Permutation_trans; [apply fl_sort_perm|].
  eapply Permutation_trans; [exact Hp|apply Permutation_sym, fl_sort_perm].
Qed.

(* and reading a key that is already in canonical order changes nothing *)
Theorem key_canonical_fixed : forall a : fieldlist,
  NoDup (map fst a) -> fl_sort (fl_sort a) = fl_sort a.
Proof.
  intros a Hnd. symmetry. apply key_field_order_irrelevant; [exact Hnd|].
  apply Permutation_sym. apply fl_sort_perm.
Qed.
