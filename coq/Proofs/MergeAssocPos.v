(* C12, associativity: merging is associative up to the order of set and keyed-list members,
   PROVIDED no operand gives a field a value of another kind (scalar / list / map) than another
   operand holds there -- across a change of kind it is refuted (Proofs/MergeAssoc.v, known
   finding F18).  The harness evaluates exactly this on the implementation (Driver/Typed.v,
   kind_changed).

   Delivered (both statements VERBATIM from Proofs/MergeAssocPos_statements.v, both proved,
   nothing refuted, no hypothesis added):

     [merge_associative]        (l . r) . x  and  l . (r . x)  are equal up to member order
     [merge_associative_total]  the four merges of the two groupings are all defined

   and, in addition,

     [merge_associative_rx]     the same conclusion as [merge_associative] from [same_kinds]
                                between the MIDDLE and the RIGHT operand only: the hypotheses
                                [same_kinds s tr l r] and [same_kinds s tr l x] of the given
                                statement are not used by the proof (the given statement is its
                                corollary).  The witness of F18 (Proofs/MergeAssoc.v) changes
                                the kind between r and x, as it must.
     [cfg_merge]                the merge of two plain, duplicate-free, valid objects is plain,
                                duplicate-free and valid
     [single_kind_same_kinds]   when every type of the family allows one kind of value only
                                (scalar, list or map: the example schema), valid objects never
                                differ in kind: [same_kinds] holds for free
     [F18_witness_changes_kind_r_x]  the witness of F18 violates [same_kinds s tr r x]
     [merge_associative_example_hypotheses], [merge_associative_example],
     [merge_associative_example_by_evaluation], [merge_associative_total_example]  non-vacuity: three configurations over the example schema
                                whose keyed-list members come in different orders satisfy
                                every hypothesis; the two groupings evaluate to objects that
                                DIFFER (member order) and are equal up to member order -- the
                                latter both by the theorem and by evaluation.

   Method.  No reasoning about the order in which the merging walker emits list members.  An
   object that conforms and has no group of duplicate members is determined up to member order
   by its leaves (Proofs/CommuteLeaves.v, [same_leaves_nodup_veq_assoc]); a successful merge
   [merge l r = o] with a plain duplicate-free r is a "merging step on leaves" [mstep l r o]
   (ibid.): every leaf of r is a leaf of o, every leaf of o is r's or l's, and a leaf of l at a
   path p along which r is open (interior nodes or nothing above p, nothing at p) is kept.
   From these three facts:
     - every leaf of (l.r).x is a leaf of l.(r.x): no hypothesis on kinds is needed
       ([open_merge]: where r and x are both open, so is r.x);
     - every leaf of l.(r.x) is a leaf of (l.r).x: needs that where r.x is open, r and x are
       both open ([open_split]).  This is where a change of kind between r and x breaks
       associativity: r holds a leaf (a scalar) at a proper prefix q of p where x holds a
       container that does not reach p; r.x is then open along p, r is not, and the leaf of l
       at p survives in l.(r.x) but not in (l.r).x. *)
From Coq Require Import List ZArith String Bool Arith Lia.
From SMD Require Import Model.Value Model.Order Model.PathElem Model.PathSet Model.Schema Model.Walk
  Model.Validate Model.FieldSet Model.Remove Model.Merge Model.Compare Model.Matcher Model.Reconcile
  Model.Updater
  Spec.PathsAsSets Spec.RefValid Spec.Resolve Spec.Agree Spec.RefDiff Spec.Examples
  Proofs.OrderLaws Proofs.PathSetLaws Proofs.SchemaOk Proofs.FieldSetBase Proofs.FieldSetPaths
  Proofs.FieldSetWf Proofs.FieldSetLaws Proofs.RemoveAbsent Proofs.RemoveWf Proofs.ResolveLaws
  Proofs.UpdaterLaws Proofs.UpdaterLaws2 Proofs.MergeLaws Proofs.MergeAgree
  Proofs.RemoveFrame Proofs.EnLaws Proofs.NodeSet Proofs.KeyFields Proofs.VeqbResolve
  Proofs.SetCheckers Proofs.ApplyEffect Proofs.RefDiffBoth Proofs.RefDiffLaws Proofs.RefDiffPresent
  Proofs.ApplyInv Proofs.History Proofs.Reapply Proofs.ConflictsApply.
Import ListNotations.
Open Scope bool_scope.
Open Scope list_scope.

From SMD Require Import Proofs.MergeBase Proofs.MergeKeeps Proofs.MergeThru Proofs.MergeRestBase
  Proofs.MergeRest1 Proofs.MergeRest2a Proofs.MergeRest2 Proofs.MergeRest3 Proofs.MergeRest
  Proofs.SameLeaves Proofs.MergeAssoc.
From SMD Require Import Proofs.CommuteLeaves.
From SMD Require Proofs.ReconcileBase Proofs.MergeWf Proofs.TransparentMerge Proofs.HollowFreeMerge
  Proofs.HollowFreeBase Proofs.ValidateLaws.

(* no node that both objects have holds values of different kinds (kind_differs: Proofs/MergeRest.v) *)
Definition same_kinds (s : schema) (tr : typeref) (a b : value) : Prop :=
  forall q ta x tb y,
    resolve_path s tr a q = Some (RNode ta x) -> resolve_path s tr b q = Some (RNode tb y) ->
    kind_differs x y = false.

Section Assoc.
  Variables (s : schema) (R : typeref -> Prop).
  Hypothesis Hok : schema_ok s R.
  Hypothesis Hfam : family_refs s R.
  Hypothesis Hpure : lists_pure s R.

  Notation rs := (resolve_path s).

  (* ---------- the merge of two configurations is a configuration ---------- *)
  Lemma cfg_merge : forall tr l r o, R tr -> cfg_ok s tr l -> cfg_ok s tr r ->
    merge s tr l r = Some (Some o) -> cfg_ok s tr o.
  Proof.
    intros tr l r o Htr (Wl & Cl & Pl) (Wr & Cr & Pr) Em.
    pose proof (MergeBase.conforms_dup_mono s l tr Cl) as Cl1.
    split; [exact (MergeWf.merge_wf s tr l r o Wl Wr Em)|]. split.
    - exact (proj2 (TransparentMerge.merge_keeps s R Hok Hfam tr l r o Htr Wl Wr Cl1 Cr Em) Cl).
    - apply (proj2 (HollowFreeMerge.merge_hollow s R Hok Hfam tr l r o Htr Wl Wr Cl1 Cr Em Pr)).
      right. exact Pl.
  Qed.

  (* ---------- small facts on paths ---------- *)
  Lemma leaf_not_interior : forall tr v q m, rs tr v q = Some m -> rnode_is_leaf s m = true ->
    interior_or_absent s tr v q -> False.
  Proof.
    intros tr v q m Hm Lm Hi. unfold interior_or_absent in Hi. rewrite Hm in Hi.
    destruct m as [t y|t ys]; [|exact Hi]. cbn [rnode_is_leaf] in Lm. unfold granular in Hi.
    destruct (kind_of s t y); try discriminate; contradiction.
  Qed.

  Lemma hl_not_interior : forall tr v q n, has_leaf s tr v q n = true ->
    interior_or_absent s tr v q -> False.
  Proof.
    intros tr v q n H Hi. destruct (hl_inv s tr v q n H) as (m & Hm & Lm & _).
    exact (leaf_not_interior tr v q m Hm Lm Hi).
  Qed.

  Lemma node_prefix : forall tr v p q m, rs tr v (p ++ q) = Some m -> rs tr v p = None -> False.
  Proof. intros tr v p q m H E. rewrite resolve_path_app, E in H. discriminate. Qed.

  Lemma prefixes_firstn : forall tr r (p : path) j0, j0 <= List.length p ->
    (forall j, j < List.length p -> interior_or_absent s tr r (firstn j p)) ->
    forall j, j < List.length (firstn j0 p) -> interior_or_absent s tr r (firstn j (firstn j0 p)).
  Proof.
    intros tr r p j0 Hj0 H j Hj. rewrite firstn_length_le in Hj by exact Hj0.
    rewrite firstn_firstn, Nat.min_l by lia. apply H. lia.
  Qed.

  (* ---------- where both operands are open, so is their merge ---------- *)
  Lemma open_merge : forall tr r x rx p, R tr -> cfg_ok s tr rx ->
    mstep s tr r x rx -> wf_path p = true ->
    open_along s tr r p -> open_along s tr x p -> open_along s tr rx p.
  Proof.
    intros tr r x rx p Htr Crx HM Hp [Or Nr] [Ox Nx].
    pose proof (cfg_good s tr rx Crx) as Grx.
    assert (FO : forall q n, wf_path q = true -> rs tr rx q = Some n -> rnode_is_leaf s n = true ->
              (exists m, rs tr x q = Some m /\ rnode_is_leaf s m = true) \/
              (exists m, rs tr r q = Some m /\ rnode_is_leaf s m = true)).
    { intros q n Hq Hn Ln. destruct (ms_fo s tr r x rx HM q n Hq Hn Ln) as [H|H];
        destruct (hl_inv s _ _ _ _ H) as (m & Hm & Lm & _); [left|right]; exists m; auto. }
    split.
    - intros j Hj. unfold interior_or_absent.
      assert (Hpj : wf_path (firstn j p) = true) by (apply ReconcileBase.wf_path_firstn; exact Hp).
      destruct (rs tr rx (firstn j p)) as [[t y|t ys]|] eqn:Ej; [| |exact I].
      + destruct (leafy_or_granular s t y) as [Ly|Gy]; [|exact Gy]. exfalso.
        assert (Ll : rnode_is_leaf s (RNode t y) = true) by (apply rnode_leaf_leafy; exact Ly).
        destruct (FO _ _ Hpj Ej Ll) as [(m & Hm & Lm)|(m & Hm & Lm)].
        * exact (leaf_not_interior tr x _ m Hm Lm (Ox j Hj)).
        * exact (leaf_not_interior tr r _ m Hm Lm (Or j Hj)).
      + exfalso. exact (cfg_nodup s R Hok Hfam tr rx Htr Crx (firstn j p) t ys Hpj Ej).
    - destruct (rs tr rx p) as [c|] eqn:Ec; [|reflexivity]. exfalso.
      destruct (node_leaf_beneath s R Hok Hfam tr rx p c Htr Grx Hp Ec) as (q & m & Hq & Hm & Lm).
      assert (Hpq : wf_path (p ++ q) = true) by (apply ReconcileBase.wf_path_app; split; assumption).
      destruct (FO _ _ Hpq Hm Lm) as [(m' & Hm' & _)|(m' & Hm' & _)].
      + exact (node_prefix tr x p q m' Hm' Nx).
      + exact (node_prefix tr r p q m' Hm' Nr).
  Qed.

  (* ---------- where the merge is open, both operands are: needs same kinds ---------- *)
  Lemma open_split : forall tr r x rx p, R tr -> cfg_ok s tr r -> cfg_ok s tr x ->
    merge s tr r x = Some (Some rx) -> same_kinds s tr r x -> wf_path p = true ->
    open_along s tr rx p -> open_along s tr r p /\ open_along s tr x p.
  Proof.
    intros tr r x rx p Htr Cr Cx Em Hsk Hp [Orx Nrx].
    pose proof (cfg_good s tr r Cr) as Gr. pose proof (cfg_good s tr x Cx) as Gx.
    pose proof (mstep_merge s R Hok Hfam Hpure tr r x rx Htr Gr Cx Em) as HM.
    pose proof Cr as (Wr & Cr0 & Pr). pose proof Cx as (Wx & Cx0 & Px).
    pose proof (MergeBase.conforms_dup_mono s r tr Cr0) as Cr1.
    (* x has no leaf at a proper prefix of p *)
    assert (XL : forall j m, j < List.length p -> rs tr x (firstn j p) = Some m ->
                   rnode_is_leaf s m = true -> False).
    { intros j m Hj Hm Lm.
      pose proof (ms_rw s tr r x rx HM (firstn j p) m (ReconcileBase.wf_path_firstn j p Hp) Hm Lm) as H.
      exact (hl_not_interior tr rx _ m H (Orx j Hj)). }
    assert (Ox : forall j, j < List.length p -> interior_or_absent s tr x (firstn j p)).
    { intros j Hj. unfold interior_or_absent.
      destruct (rs tr x (firstn j p)) as [[t y|t ys]|] eqn:Ej; [| |exact I].
      - destruct (leafy_or_granular s t y) as [Ly|Gy]; [|exact Gy]. exfalso.
        apply (XL j (RNode t y) Hj Ej). apply rnode_leaf_leafy. exact Ly.
      - exfalso. exact (XL j (RDup t ys) Hj Ej eq_refl). }
    assert (Nx : rs tr x p = None).
    { destruct (rs tr x p) as [c|] eqn:Ec; [|reflexivity]. exfalso.
      destruct (node_leaf_beneath s R Hok Hfam tr x p c Htr Gx Hp Ec) as (q & m & Hq & Hm & Lm).
      assert (Hpq : wf_path (p ++ q) = true) by (apply ReconcileBase.wf_path_app; split; assumption).
      pose proof (ms_rw s tr r x rx HM (p ++ q) m Hpq Hm Lm) as H.
      destruct (hl_inv s _ _ _ _ H) as (m' & Hm' & _). exact (node_prefix tr rx p q m' Hm' Nrx). }
    assert (Nr : rs tr r p = None).
    { destruct (rs tr r p) as [c|] eqn:Ec; [|reflexivity]. exfalso.
      assert (Hpr : present s tr r p = true) by (unfold present; rewrite Ec; reflexivity).
      destruct (merge_removes_nothing_j s R tr r x rx p Hok Hfam Hpure Htr Wr Wx Cr1 Cx0 Px Em Hp Hpr)
        as [H|(j & Hj & tq & y & Hy & Ly)].
      - unfold present in H. rewrite Nrx in H. discriminate.
      - apply (XL j (RNode tq y) Hj Hy). apply rnode_leaf_leafy. exact Ly. }
    split; [split; [|exact Nr]|split; [exact Ox|exact Nx]].
    intros j Hj. unfold interior_or_absent.
    assert (Hq : wf_path (firstn j p) = true) by (apply ReconcileBase.wf_path_firstn; exact Hp).
    destruct (rs tr r (firstn j p)) as [[t y|t ys]|] eqn:Ej; [| |exact I].
    2:{ exfalso. exact (cfg_nodup s R Hok Hfam tr r Htr Cr (firstn j p) t ys Hq Ej). }
    destruct (leafy_or_granular s t y) as [Ly|Gy]; [|exact Gy]. exfalso.
    assert (Ll : rnode_is_leaf s (RNode t y) = true) by (apply rnode_leaf_leafy; exact Ly).
    destruct (rs tr x (firstn j p)) as [[t' z|t' zs]|] eqn:Ez.
    - (* x has a node there: it is interior, of the same type: the kinds differ *)
      pose proof (Ox j Hj) as Hi. unfold interior_or_absent in Hi. rewrite Ez in Hi.
      pose proof (node_type_det s R Hok Hfam (firstn j p) false false tr r x t y t' z Htr Wr Wx Cr0 Cx0 Hq Ej Ez) as Et.
      subst t'.
      destruct (node_sub s R Hok Hfam (firstn j p) false tr r t y Htr Wr Cr0 Hq Ej) as (_ & _ & _ & _ & Py).
      pose proof (Hsk (firstn j p) t y t z Ej Ez) as Hk.
      rewrite (leafy_granular_differs s t y z (Py Pr) Ly Hi) in Hk. discriminate.
    - exact (cfg_nodup s R Hok Hfam tr x Htr Cx (firstn j p) t' zs Hq Ez).
    - (* x is open along that prefix: the leaf of r is kept in the merge *)
      assert (Oq : open_along s tr x (firstn j p)).
      { split; [|exact Ez]. apply prefixes_firstn; [lia|exact Ox]. }
      pose proof (ms_kp s tr r x rx HM (firstn j p) (RNode t y) Hq Oq Ej Ll) as H.
      exact (hl_not_interior tr rx _ _ H (Orx j Hj)).
  Qed.

  (* ---------- the two groupings have the same leaves ---------- *)
  Section Groupings.
    Variables (tr : typeref) (l r x lr rx a b : value).
    Hypothesis Htr : R tr.
    Hypothesis Cl : cfg_ok s tr l.
    Hypothesis Cr : cfg_ok s tr r.
    Hypothesis Cx : cfg_ok s tr x.
    Hypothesis Elr : merge s tr l r = Some (Some lr).
    Hypothesis Ea : merge s tr lr x = Some (Some a).
    Hypothesis Erx : merge s tr r x = Some (Some rx).
    Hypothesis Eb : merge s tr l rx = Some (Some b).

    Let Gl : good s tr l := cfg_good s tr l Cl.
    Let Gr : good s tr r := cfg_good s tr r Cr.
    Let Gx : good s tr x := cfg_good s tr x Cx.
    Let Clr : cfg_ok s tr lr := cfg_merge tr l r lr Htr Cl Cr Elr.
    Let Crx : cfg_ok s tr rx := cfg_merge tr r x rx Htr Cr Cx Erx.
    Let Glr : good s tr lr := cfg_good s tr lr Clr.
    Let Grx : good s tr rx := cfg_good s tr rx Crx.
    Let HLR : mstep s tr l r lr := mstep_merge s R Hok Hfam Hpure tr l r lr Htr Gl Cr Elr.
    Let HA : mstep s tr lr x a := mstep_merge s R Hok Hfam Hpure tr lr x a Htr Glr Cx Ea.
    Let HRX : mstep s tr r x rx := mstep_merge s R Hok Hfam Hpure tr r x rx Htr Gr Cx Erx.
    Let HB : mstep s tr l rx b := mstep_merge s R Hok Hfam Hpure tr l rx b Htr Gl Crx Eb.
    Let Ga : good s tr a := ms_good s tr lr x a HA.
    Let Gb : good s tr b := ms_good s tr l rx b HB.

    Lemma grouping_good_a : good s tr a.
    Proof. exact Ga. Qed.
    Lemma grouping_good_b : good s tr b.
    Proof. exact Gb. Qed.

    Lemma grouping_nodup_b : nodup s tr b.
    Proof.
      apply (mstep_nodup s R Hok Hfam tr l rx b Htr); [|exact Crx|exact HB].
      apply (cfg_nodup s R Hok Hfam tr l Htr Cl).
    Qed.

    (* the right-hand side of a step wins: its leaves are leaves of the result *)
    Lemma lin_x_rx : lin s tr x rx.
    Proof. intros p n Hp Hn Ln. exact (ms_rw s tr r x rx HRX p n Hp Hn Ln). Qed.
    Lemma lin_rx_b : lin s tr rx b.
    Proof. intros p n Hp Hn Ln. exact (ms_rw s tr l rx b HB p n Hp Hn Ln). Qed.
    Lemma lin_x_a : lin s tr x a.
    Proof. intros p n Hp Hn Ln. exact (ms_rw s tr lr x a HA p n Hp Hn Ln). Qed.
    Lemma lin_r_lr : lin s tr r lr.
    Proof. intros p n Hp Hn Ln. exact (ms_rw s tr l r lr HLR p n Hp Hn Ln). Qed.

    (* (l . r) . x  is within  l . (r . x): no hypothesis on kinds *)
    Lemma grouping_lin_ab : lin s tr a b.
    Proof.
      intros p n Hp Hn Ln.
      pose proof (good_nwf s R Hok tr a p n Htr Ga Hp Hn) as Wn.
      assert (X1 : forall k, nwf k -> has_leaf s tr x p k = true -> has_leaf s tr b p k = true).
      { intros k Wk H.
        apply (lin_hl s R Hok tr rx b p k Htr Grx Gb Hp Wk lin_rx_b).
        apply (lin_hl s R Hok tr x rx p k Htr Gx Grx Hp Wk lin_x_rx). exact H. }
      destruct (dich s R Hok Hfam tr lr x a p n Htr Cx HA Hp Hn Ln) as [D|OX]; [exact (X1 n Wn D)|].
      destruct (ms_fo s tr lr x a HA p n Hp Hn Ln) as [H|H]; [exact (X1 n Wn H)|].
      destruct (hl_inv s tr lr p n H) as (m & Hm & Lm & Em).
      pose proof (good_nwf s R Hok tr lr p m Htr Glr Hp Hm) as Wm.
      apply (hl_eqb s R Hok tr b p m n Htr Gb Hp Wm Wn); [|exact Em].
      assert (X2 : has_leaf s tr r p m = true -> has_leaf s tr b p m = true).
      { intros H2. destruct (hl_inv s tr r p m H2) as (m2 & Hm2 & Lm2 & Em2).
        pose proof (good_nwf s R Hok tr r p m2 Htr Gr Hp Hm2) as Wm2.
        apply (hl_eqb s R Hok tr b p m2 m Htr Gb Hp Wm2 Wm); [|exact Em2].
        apply (lin_hl s R Hok tr rx b p m2 Htr Grx Gb Hp Wm2 lin_rx_b).
        exact (ms_kp s tr r x rx HRX p m2 Hp OX Hm2 Lm2). }
      destruct (dich s R Hok Hfam tr l r lr p m Htr Cr HLR Hp Hm Lm) as [D|OR]; [exact (X2 D)|].
      destruct (ms_fo s tr l r lr HLR p m Hp Hm Lm) as [H2|H2]; [exact (X2 H2)|].
      destruct (hl_inv s tr l p m H2) as (m3 & Hm3 & Lm3 & Em3).
      pose proof (good_nwf s R Hok tr l p m3 Htr Gl Hp Hm3) as Wm3.
      apply (hl_eqb s R Hok tr b p m3 m Htr Gb Hp Wm3 Wm); [|exact Em3].
      pose proof (open_merge tr r x rx p Htr Crx HRX Hp OR OX) as ORX.
      exact (ms_kp s tr l rx b HB p m3 Hp ORX Hm3 Lm3).
    Qed.

    (* l . (r . x)  is within  (l . r) . x: same kinds between r and x *)
    Lemma grouping_lin_ba : same_kinds s tr r x -> lin s tr b a.
    Proof.
      intros Hsk p n Hp Hn Ln.
      pose proof (good_nwf s R Hok tr b p n Htr Gb Hp Hn) as Wn.
      assert (Y1 : forall k, nwf k -> has_leaf s tr x p k = true -> has_leaf s tr a p k = true).
      { intros k Wk H. apply (lin_hl s R Hok tr x a p k Htr Gx Ga Hp Wk lin_x_a). exact H. }
      assert (Y2 : forall k, nwf k -> open_along s tr x p -> has_leaf s tr r p k = true ->
                     has_leaf s tr a p k = true).
      { intros k Wk OX H.
        pose proof (lin_hl s R Hok tr r lr p k Htr Gr Glr Hp Wk lin_r_lr H) as H1.
        destruct (hl_inv s tr lr p k H1) as (m1 & Hm1 & Lm1 & Em1).
        pose proof (good_nwf s R Hok tr lr p m1 Htr Glr Hp Hm1) as Wm1.
        apply (hl_eqb s R Hok tr a p m1 k Htr Ga Hp Wm1 Wk); [|exact Em1].
        exact (ms_kp s tr lr x a HA p m1 Hp OX Hm1 Lm1). }
      assert (Y3 : forall k, nwf k -> has_leaf s tr rx p k = true -> has_leaf s tr a p k = true).
      { intros k Wk H. destruct (hl_inv s tr rx p k H) as (m & Hm & Lm & Em).
        pose proof (good_nwf s R Hok tr rx p m Htr Grx Hp Hm) as Wm.
        apply (hl_eqb s R Hok tr a p m k Htr Ga Hp Wm Wk); [|exact Em].
        destruct (dich s R Hok Hfam tr r x rx p m Htr Cx HRX Hp Hm Lm) as [D|OX]; [exact (Y1 m Wm D)|].
        destruct (ms_fo s tr r x rx HRX p m Hp Hm Lm) as [H2|H2]; [exact (Y1 m Wm H2)|].
        exact (Y2 m Wm OX H2). }
      destruct (dich s R Hok Hfam tr l rx b p n Htr Crx HB Hp Hn Ln) as [D|ORX]; [exact (Y3 n Wn D)|].
      destruct (ms_fo s tr l rx b HB p n Hp Hn Ln) as [H|H]; [exact (Y3 n Wn H)|].
      destruct (hl_inv s tr l p n H) as (m & Hm & Lm & Em).
      pose proof (good_nwf s R Hok tr l p m Htr Gl Hp Hm) as Wm.
      apply (hl_eqb s R Hok tr a p m n Htr Ga Hp Wm Wn); [|exact Em].
      destruct (open_split tr r x rx p Htr Cr Cx Erx Hsk Hp ORX) as [OR OX].
      pose proof (ms_kp s tr l r lr HLR p m Hp OR Hm Lm) as H1.
      destruct (hl_inv s tr lr p m H1) as (m1 & Hm1 & Lm1 & Em1).
      pose proof (good_nwf s R Hok tr lr p m1 Htr Glr Hp Hm1) as Wm1.
      apply (hl_eqb s R Hok tr a p m1 m Htr Ga Hp Wm1 Wm); [|exact Em1].
      exact (ms_kp s tr lr x a HA p m1 Hp OX Hm1 Lm1).
    Qed.
  End Groupings.

  Theorem assoc_rx : forall tr l r x lr rx a b, R tr ->
    cfg_ok s tr l -> cfg_ok s tr r -> cfg_ok s tr x -> same_kinds s tr r x ->
    merge s tr l r = Some (Some lr) -> merge s tr lr x = Some (Some a) ->
    merge s tr r x = Some (Some rx) -> merge s tr l rx = Some (Some b) ->
    veq_assoc s tr a b = true.
  Proof.
    intros tr l r x lr rx a b Htr Cl Cr Cx Hsk Elr Ea Erx Eb.
    apply (same_leaves_nodup_veq_assoc s R Hok Hfam tr b a Htr).
    - exact (grouping_good_b tr l r x rx b Htr Cl Cr Cx Erx Eb).
    - exact (grouping_nodup_b tr l r x rx b Htr Cl Cr Cx Erx Eb).
    - exact (grouping_good_a tr l r x lr a Htr Cl Cr Cx Elr Ea).
    - exact (grouping_lin_ba tr l r x lr rx a b Htr Cl Cr Cx Elr Ea Erx Eb Hsk).
    - exact (grouping_lin_ab tr l r x lr rx a b Htr Cl Cr Cx Elr Ea Erx Eb).
  Qed.

  (* ---------- one kind per type: valid objects never differ in kind ---------- *)
  Definition single_kind : Prop :=
    forall t sc li ma, R t -> resolve s t = Some (Atom sc li ma) ->
      match sc, li, ma with
      | Some _, None, None | None, Some _, None | None, None, Some _ | None, None, None => True
      | _, _, _ => False
      end.

  Lemma single_kind_same : forall t d1 d2 x y, single_kind -> R t ->
    conforms s t d1 x = true -> conforms s t d2 y = true -> kind_differs x y = false.
  Proof.
    intros t d1 d2 x y Hsk Ht Cx Cy.
    rewrite ValidateLaws.conforms_eq in Cx, Cy.
    destruct (resolve s t) as [[sc li ma]|] eqn:Er; [|discriminate].
    pose proof (Hsk t sc li ma Ht Er) as H1.
    destruct sc as [sc0|]; destruct li as [li0|]; destruct ma as [ma0|]; try contradiction;
      destruct x as [| | | | |lx|mx]; destruct y as [| | | | |ly|my];
      try reflexivity; try discriminate.
  Qed.

  (* what a path designates conforms to its type (any path, well formed or not) *)
  Lemma node_conf_any : forall p tr v t x dup, R tr -> conforms s tr dup v = true ->
    resolve_path s tr v p = Some (RNode t x) -> R t /\ conforms s t dup x = true.
  Proof.
    induction p as [|e rest IH]; intros tr v t x dup Htr Hc Hres.
    - cbn [resolve_path] in Hres. inversion Hres; subst t x. split; assumption.
    - cbn [resolve_path] in Hres.
      destruct (kind_of s tr v) as [|t0 m|t0 l|] eqn:Ek; try discriminate.
      + destruct e as [k| | |]; try discriminate.
        destruct (assoc_get k m) as [c|] eqn:Eg; [|discriminate].
        destruct (kind_map_inv _ _ _ _ _ Ek) as (a0 & Hr & Ham & Hv & _ & _). subst v.
        apply (IH (field_type t0 k) c t x dup); [| |exact Hres].
        * exact (so_map s R Hok tr a0 t0 k Htr Hr Ham).
        * rewrite ValidateLaws.conforms_eq, Hr in Hc. destruct a0 as [sc li ma0]. simpl in Ham. subst ma0.
          apply (cmap_each_in s dup t0 m k c Hc). apply assoc_get_In. exact Eg.
      + assert (Hgo : match group_items s t0 l [] with
                      | None => None
                      | Some g =>
                          match lookup_group e g with
                          | Some [x0] => resolve_path s (list_elem t0) x0 rest
                          | Some (x0 :: y :: more) =>
                              match rest with [] => Some (RDup (list_elem t0) (x0 :: y :: more)) | _ => None end
                          | _ => None
                          end
                      end = Some (RNode t x)).
        { destruct e; try discriminate; exact Hres. }
        clear Hres.
        destruct (group_items s t0 l []) as [g|] eqn:Eg; [|discriminate].
        destruct (lookup_group e g) as [[|x0 [|y more]]|] eqn:El; try discriminate.
        2:{ destruct rest; discriminate. }
        destruct (RefDiffBase.lookup_group_In e g [x0] El) as (ex & Hin & _ & Hsnd).
        assert (Hx0 : In x0 l).
        { apply (RefDiffBase.group_items_nil_In s t0 l g Eg ex x0 Hin). rewrite Hsnd. left. reflexivity. }
        destruct (kind_list_inv _ _ _ _ _ Ek) as (a0 & _ & _ & Hv & _ & _). subst v.
        destruct (conf_list_facts s R Hok Hfam tr dup t0 l Htr Hc Ek) as (sc & ma & _ & Rte & _ & _ & _ & Hcs & _).
        apply (IH (list_elem t0) x0 t x dup); [exact Rte| |exact Hgo].
        rewrite forallb_forall in Hcs. exact (Hcs x0 Hx0).
  Qed.

  Lemma single_kind_same_kinds : forall tr d1 d2 u v, single_kind -> R tr ->
    conforms s tr d1 u = true -> conforms s tr d2 v = true -> same_kinds s tr u v.
  Proof.
    intros tr d1 d2 u v Hsk Htr Cu Cv q ta x tb y Hx Hy.
    pose proof (KeySync.resolve_type_det s q u v tr ta x tb y Hx Hy) as Et. subst tb.
    destruct (node_conf_any q tr u ta x d1 Htr Cu Hx) as (Rt & Cx).
    destruct (node_conf_any q tr v ta y d2 Htr Cv Hy) as (_ & Cy).
    exact (single_kind_same ta d1 d2 x y Hsk Rt Cx Cy).
  Qed.
End Assoc.

(* ================= the delivered statements ================= *)

(* [same_kinds] between the middle and the right operand is all that is needed *)
Theorem merge_associative_rx : forall s R tr l r x lr rx a b,
  schema_ok s R -> family_refs s R -> lists_pure s R -> R tr ->
  wf_value l = true -> wf_value r = true -> wf_value x = true ->
  conforms s tr false l = true -> conforms s tr false r = true -> conforms s tr false x = true ->
  plain l = true -> plain r = true -> plain x = true ->
  same_kinds s tr r x ->
  merge s tr l r = Some (Some lr) -> merge s tr lr x = Some (Some a) ->
  merge s tr r x = Some (Some rx) -> merge s tr l rx = Some (Some b) ->
  veq_assoc s tr a b = true.
Proof.
  intros s R tr l r x lr rx a b Hok Hfam Hpure Htr Wl Wr Wx Cl Cr Cx Pl Pr Px Hsk Elr Ea Erx Eb.
  apply (assoc_rx s R Hok Hfam Hpure tr l r x lr rx a b Htr); try assumption;
    unfold cfg_ok; repeat split; assumption.
Qed.

Theorem merge_associative : forall s R tr l r x lr rx a b,
  schema_ok s R -> family_refs s R -> lists_pure s R -> R tr ->
  wf_value l = true -> wf_value r = true -> wf_value x = true ->
  conforms s tr false l = true -> conforms s tr false r = true -> conforms s tr false x = true ->
  plain l = true -> plain r = true -> plain x = true ->
  same_kinds s tr l r -> same_kinds s tr r x -> same_kinds s tr l x ->
  merge s tr l r = Some (Some lr) -> merge s tr lr x = Some (Some a) ->
  merge s tr r x = Some (Some rx) -> merge s tr l rx = Some (Some b) ->
  veq_assoc s tr a b = true.
Proof.
  intros s R tr l r x lr rx a b Hok Hfam Hpure Htr Wl Wr Wx Cl Cr Cx Pl Pr Px _ Hsk _ Elr Ea Erx Eb.
  exact (merge_associative_rx s R tr l r x lr rx a b Hok Hfam Hpure Htr Wl Wr Wx Cl Cr Cx Pl Pr Px Hsk
           Elr Ea Erx Eb).
Qed.

(* both groupings are defined together *)
Theorem merge_associative_total : forall s R tr l r x,
  schema_ok s R -> family_refs s R -> lists_pure s R -> R tr ->
  wf_value l = true -> wf_value r = true -> wf_value x = true ->
  conforms s tr false l = true -> conforms s tr false r = true -> conforms s tr false x = true ->
  plain l = true -> plain r = true -> plain x = true ->
  exists lr rx a b,
    merge s tr l r = Some (Some lr) /\ merge s tr lr x = Some (Some a) /\
    merge s tr r x = Some (Some rx) /\ merge s tr l rx = Some (Some b).
Proof.
  intros s R tr l r x Hok Hfam _ Htr Wl Wr Wx Cl Cr Cx _ _ _.
  pose proof (MergeBase.conforms_dup_mono s l tr Cl) as Cl1.
  pose proof (MergeBase.conforms_dup_mono s r tr Cr) as Cr1.
  destruct (merge_total s R tr l r Hok Hfam Htr Wl Wr Cl1 Cr) as (lr & Elr).
  destruct (merge_conforms s R tr l r lr Hok Hfam Htr Wl Wr Cl1 Cr Elr) as (Clr & Wlr).
  destruct (merge_total s R tr lr x Hok Hfam Htr Wlr Wx Clr Cx) as (a & Ea).
  destruct (merge_total s R tr r x Hok Hfam Htr Wr Wx Cr1 Cx) as (rx & Erx).
  destruct (merge_conforms s R tr r x rx Hok Hfam Htr Wr Wx Cr1 Cx Erx) as (_ & Wrx).
  pose proof (proj2 (TransparentMerge.merge_keeps s R Hok Hfam tr r x rx Htr Wr Wx Cr1 Cx Erx) Cr) as Crx.
  destruct (merge_total s R tr l rx Hok Hfam Htr Wl Wrx Cl1 Crx) as (b & Eb).
  exists lr, rx, a, b. repeat split; assumption.
Qed.

(* ================= non-vacuity: the example schema ================= *)
Section Example.
  Open Scope string_scope.
  Open Scope Z_scope.

  Definition ax_item (n : string) (v : Z) : value := VMap [("name", VStr n); ("vv", VInt v)].

  (* three configurations whose keyed-list members come in different orders *)
  Definition ax_L : value :=
    VMap [("aa", VInt 1); ("items", VList [ax_item "a" 1; ax_item "b" 2; ax_item "c" 3]);
          ("mm", VMap [("j", VInt 1)])].
  Definition ax_R : value :=
    VMap [("items", VList [VMap [("name", VStr "c")];
                           VMap [("name", VStr "a"); ("tags", VList [VStr "t"]); ("vv", VInt 4)]]);
          ("mm", VMap [("k", VInt 2)])].
  Definition ax_X : value :=
    VMap [("aa", VInt 5); ("items", VList [ax_item "b" 5; VMap [("name", VStr "d")]]);
          ("mm", VMap [("j", VInt 7)])].

  Definition ax_LR : value :=
    VMap [("aa", VInt 1);
          ("items", VList [ax_item "b" 2; ax_item "c" 3;
                           VMap [("name", VStr "a"); ("tags", VList [VStr "t"]); ("vv", VInt 4)]]);
          ("mm", VMap [("j", VInt 1); ("k", VInt 2)])].
  Definition ax_RX : value :=
    VMap [("aa", VInt 5);
          ("items", VList [VMap [("name", VStr "c")];
                           VMap [("name", VStr "a"); ("tags", VList [VStr "t"]); ("vv", VInt 4)];
                           ax_item "b" 5; VMap [("name", VStr "d")]]);
          ("mm", VMap [("j", VInt 7); ("k", VInt 2)])].
  (* (L . R) . X : member b first *)
  Definition ax_A : value :=
    VMap [("aa", VInt 5);
          ("items", VList [ax_item "b" 5; ax_item "c" 3;
                           VMap [("name", VStr "a"); ("tags", VList [VStr "t"]); ("vv", VInt 4)];
                           VMap [("name", VStr "d")]]);
          ("mm", VMap [("j", VInt 7); ("k", VInt 2)])].
  (* L . (R . X) : member c first *)
  Definition ax_B : value :=
    VMap [("aa", VInt 5);
          ("items", VList [ax_item "c" 3;
                           VMap [("name", VStr "a"); ("tags", VList [VStr "t"]); ("vv", VInt 4)];
                           ax_item "b" 5; VMap [("name", VStr "d")]]);
          ("mm", VMap [("j", VInt 7); ("k", VInt 2)])].

  Lemma ex_single_kind : single_kind ex_schema FieldSetLaws.ex_R.
  Proof.
    intros t sc li ma Ht Hr. unfold FieldSetLaws.ex_R in Ht. cbn [In] in Ht.
    repeat (destruct Ht as [Ht|Ht]; [subst t; vm_compute in Hr; inversion Hr; exact I|]).
    destruct Ht.
  Qed.

  Lemma ax_same_kinds : forall u v, conforms ex_schema ex_rt false u = true ->
    conforms ex_schema ex_rt false v = true -> same_kinds ex_schema ex_rt u v.
  Proof.
    intros u v Cu Cv.
    exact (single_kind_same_kinds ex_schema FieldSetLaws.ex_R FieldSetLaws.ex_schema_ok
             FieldSetLaws.ex_family ex_rt false false u v ex_single_kind FieldSetLaws.ex_R_root Cu Cv).
  Qed.

  (* every hypothesis of [merge_associative] holds of the three configurations, the four merges
     evaluate as displayed, and the two groupings differ (in member order) *)
  Theorem merge_associative_example_hypotheses :
    schema_ok ex_schema FieldSetLaws.ex_R /\ family_refs ex_schema FieldSetLaws.ex_R /\
    lists_pure ex_schema FieldSetLaws.ex_R /\ FieldSetLaws.ex_R ex_rt /\
    wf_value ax_L = true /\ wf_value ax_R = true /\ wf_value ax_X = true /\
    conforms ex_schema ex_rt false ax_L = true /\ conforms ex_schema ex_rt false ax_R = true /\
    conforms ex_schema ex_rt false ax_X = true /\
    plain ax_L = true /\ plain ax_R = true /\ plain ax_X = true /\
    same_kinds ex_schema ex_rt ax_L ax_R /\ same_kinds ex_schema ex_rt ax_R ax_X /\
    same_kinds ex_schema ex_rt ax_L ax_X /\
    merge ex_schema ex_rt ax_L ax_R = Some (Some ax_LR) /\
    merge ex_schema ex_rt ax_LR ax_X = Some (Some ax_A) /\
    merge ex_schema ex_rt ax_R ax_X = Some (Some ax_RX) /\
    merge ex_schema ex_rt ax_L ax_RX = Some (Some ax_B) /\
    veqb ax_A ax_B = false.
  Proof.
    split; [exact FieldSetLaws.ex_schema_ok|]. split; [exact FieldSetLaws.ex_family|].
    split; [exact ex_lists_pure_fs|]. split; [exact FieldSetLaws.ex_R_root|].
    repeat (split; [vm_compute; reflexivity|]).
    split; [apply ax_same_kinds; vm_compute; reflexivity|].
    split; [apply ax_same_kinds; vm_compute; reflexivity|].
    split; [apply ax_same_kinds; vm_compute; reflexivity|].
    repeat (split; [vm_compute; reflexivity|]).
    vm_compute. reflexivity.
  Qed.

  (* the conclusion, by the theorem ... *)
  Theorem merge_associative_example : veq_assoc ex_schema ex_rt ax_A ax_B = true.
  Proof.
    destruct merge_associative_example_hypotheses as
      (Hok & Hfam & Hpure & Htr & Wl & Wr & Wx & Cl & Cr & Cx & Pl & Pr & Px & K1 & K2 & K3 &
       Elr & Ea & Erx & Eb & _).
    exact (merge_associative ex_schema FieldSetLaws.ex_R ex_rt ax_L ax_R ax_X ax_LR ax_RX ax_A ax_B
             Hok Hfam Hpure Htr Wl Wr Wx Cl Cr Cx Pl Pr Px K1 K2 K3 Elr Ea Erx Eb).
  Qed.

  (* ... and by evaluation *)
  Theorem merge_associative_example_by_evaluation : veq_assoc ex_schema ex_rt ax_A ax_B = true.
  Proof. vm_compute. reflexivity. Qed.

  (* the four merges exist by the totality theorem, too *)
  Theorem merge_associative_total_example : exists lr rx a b,
    merge ex_schema ex_rt ax_L ax_R = Some (Some lr) /\ merge ex_schema ex_rt lr ax_X = Some (Some a) /\
    merge ex_schema ex_rt ax_R ax_X = Some (Some rx) /\ merge ex_schema ex_rt ax_L rx = Some (Some b).
  Proof.
    destruct merge_associative_example_hypotheses as
      (Hok & Hfam & Hpure & Htr & Wl & Wr & Wx & Cl & Cr & Cx & Pl & Pr & Px & _).
    exact (merge_associative_total ex_schema FieldSetLaws.ex_R ex_rt ax_L ax_R ax_X
             Hok Hfam Hpure Htr Wl Wr Wx Cl Cr Cx Pl Pr Px).
  Qed.
End Example.

(* the witness of finding F18 (Proofs/MergeAssoc.v) changes the kind between the middle and the
   right operand: the hypothesis [same_kinds s tr r x] is the one it violates *)
Theorem F18_witness_changes_kind_r_x :
  ~ same_kinds ded_schema (ded_named "deduced") assoc_R assoc_X.
Proof.
  intros H.
  specialize (H [PEField "ka"%string] (ded_named "deduced") (VBool false) (ded_named "deduced")
                (VMap [("ka"%string, VStr "b"%string)]) eq_refl eq_refl).
  discriminate H.
Qed.

