(* C06, the Update step: if every owned path designates something present in the live
   object, the same holds after an update, for the submitted object and the new records.
   Single version, no ignore configuration.  Every theorem is proved with Qed.

   Groundwork: Proofs/RefDiffPresent.v (what the reference diff says about presence) and
   Proofs/ReconcileOwned.v (the opening schema reconciliation only replaces members by
   non-empty prefixes of members, which designate nodes too).  The hypothesis [conv_id] of
   the statement is kept but is not used: a converter that reports a version as missing
   only makes the reconciliation drop records. *)
From Coq Require Import List ZArith String Bool Arith Lia.
From SMD Require Import Model.Value Model.Order Model.PathElem Model.PathSet Model.Schema Model.Walk
  Model.Validate Model.FieldSet Model.Compare Model.Matcher Model.Updater
  Spec.PathsAsSets Spec.RefValid Spec.Resolve Spec.RefDiff Spec.Examples
  Proofs.OrderLaws Proofs.SchemaOk Proofs.UpdaterLaws Proofs.UpdaterLaws2 Proofs.CompareLaws Proofs.RefDiffBoth Proofs.RefDiffLaws.
From SMD Require Import Proofs.PathSetLaws Proofs.RefDiffPresent Proofs.ReconcileOwned.
From SMD Require Proofs.ReconcileLaws Proofs.FieldSetPaths.
Import ListNotations.

Definition conv_id (c : config) : Prop := forall n from to v, cfg_convert c n from to v = COk v.

(* every path of every record designates a node of the object *)
Definition owned_present (s : schema) (tr : typeref) (v : value) (mf : managed) : Prop :=
  forall m r p, mf_get m mf = Some r -> wf_path p = true -> ps_has p (mr_set r) = true ->
                present s tr v p = true.

(* ---------- the comparison and presence ---------- *)
Lemma compare_present : forall s R tr l r cmp,
  schema_ok s R -> family_refs s R -> lists_pure s R -> R tr ->
  wf_value l = true -> wf_value r = true ->
  conforms s tr true l = true -> conforms s tr true r = true ->
  compare s tr l r = Some cmp ->
  forall p, wf_path p = true -> p <> [] ->
    (present s tr l p = true -> ps_has p (removed cmp) = false -> present s tr r p = true) /\
    (ps_has p (modified cmp) = true -> present s tr r p = true) /\
    (ps_has p (added cmp) = true -> present s tr r p = true).
Proof.
  intros s R tr l r cmp Hso Hfam Hpure HR Hl Hr Cl Cr Hc p Hp Hne.
  destruct (compare_refines_ref_diff_restricted s R tr l r cmp Hso Hfam Hpure HR Hl Hr Cl Cr Hc p Hp Hne)
    as (E1 & E2 & E3).
  destruct (ref_diff_present s R Hso Hfam tr l r HR Hl Hr Cl Cr p Hp Hne) as (P1 & P2 & P3).
  rewrite E1, E2, E3. auto.
Qed.

(* ---------- the opening reconciliation ---------- *)
Lemma reconcile_owned_present : forall c R ver live mf mf0 n0,
  schema_ok (schema_of c ver) R -> R (tr_of c ver) ->
  wf_value (snd live) = true ->
  single_version ver mf -> mf_ok mf ->
  owned_present (schema_of c ver) (tr_of c ver) (snd live) mf ->
  reconcile_managed c O live mf = UOk (mf0, n0) ->
  mf_ok mf0 /\ single_version ver mf0 /\
  owned_present (schema_of c ver) (tr_of c ver) (snd live) mf0.
Proof.
  intros c R ver live mf mf0 n0 Hso HR Hwl Hsv Hok Hown Hrec.
  destruct (reconcile_managed_rel c O live mf mf0 n0 (proj1 Hok) Hrec) as [Hs0 Hall].
  (* what a kept record looks like *)
  assert (forall m r0, mf_get m mf0 = Some r0 ->
            exists r, mf_get m mf = Some r /\ mr_ver r = ver /\ mr_ver r0 = ver /\
              (r0 = r \/ Reconcile.reconcile_field_set (schema_of c ver) (tr_of c ver) (mr_set r)
                         = Some (Some (mr_set r0)))) as Hkept.
  { intros m r0 Hg. destruct (Hall m r0 Hg) as (r & Hr & Hv & _ & _ & Hset). cbn [snd] in Hv, Hset.
    pose proof (single_version_get ver mf m r Hsv Hr) as Ev. apply String.eqb_eq in Ev.
    exists r. split; [exact Hr|]. split; [exact Ev|]. split; [congruence|].
    rewrite Ev in Hset. exact Hset. }
  split; [|split].
  - split; [exact Hs0|]. apply forallb_forall. intros [m r0] Hin. cbn [snd].
    apply (in_assoc_get _ _ _ Hs0) in Hin.
    destruct (Hkept m r0 Hin) as (r & Hr & _ & _ & [E|E]).
    + subst r0. apply (mf_ok_get mf m r Hok Hr).
    + apply (reconcile_field_set_ok _ _ _ _ (mf_ok_get mf m r Hok Hr) E).
  - unfold single_version. apply forallb_forall. intros [m r0] Hin. cbn [snd].
    apply (in_assoc_get _ _ _ Hs0) in Hin.
    destruct (Hkept m r0 Hin) as (r & _ & _ & Ev & _). rewrite Ev. apply String.eqb_refl.
  - intros m r0 p Hg Hp Hhas. destruct (Hkept m r0 Hg) as (r & Hr & _ & _ & [E|E]).
    + subst r0. apply (Hown m r p Hr Hp Hhas).
    + destruct (reconcile_field_set_members _ _ _ _ (mf_ok_get mf m r Hok Hr) E p Hp Hhas)
        as [Hh|(m1 & q' & rest & Wm & Hm & Em & Wq & Hpq)].
      * apply (Hown m r p Hr Hp Hh).
      * pose proof (Hown m r m1 Hr Wm Hm) as Hpm. rewrite Em in Hpm.
        apply present_prefix in Hpm.
        rewrite (FieldSetPaths.present_patheqb _ R Hso p q' Hpq Hp Wq (snd live) _ HR Hwl).
        exact Hpm.
Qed.

Lemma single_version_del : forall ver m mf, single_version ver mf -> single_version ver (mf_del m mf).
Proof.
  intros ver m mf H. unfold single_version in *. apply forallb_forall. intros x Hin.
  unfold mf_del in Hin. apply in_assoc_remove in Hin. rewrite forallb_forall in H. exact (H x Hin).
Qed.

Lemma ps_has_nonnil : forall p s, ps_has p s = true -> p <> [].
Proof. intros p s H E. subst p. discriminate H. Qed.

(* ---------- the theorem ---------- *)
Theorem update_preserves_owned_present : forall c R ver live new mf mgr o mf',
  no_ignore c -> conv_id c ->
  schema_ok (schema_of c ver) R -> family_refs (schema_of c ver) R -> lists_pure (schema_of c ver) R ->
  R (tr_of c ver) ->
  fst live = ver -> fst new = ver -> single_version ver mf -> mf_ok mf ->
  wf_value (snd live) = true -> wf_value (snd new) = true ->
  conforms (schema_of c ver) (tr_of c ver) true (snd live) = true ->
  conforms (schema_of c ver) (tr_of c ver) true (snd new) = true ->
  owned_present (schema_of c ver) (tr_of c ver) (snd live) mf ->
  update_op c live new ver mf mgr = UOk (o, mf') ->
  o = new /\
  owned_present (schema_of c ver) (tr_of c ver) (snd new) mf' /\
  mf_ok mf' /\ single_version ver mf' /\
  (forall m r, mf_get m mf' = Some r -> ps_empty (mr_set r) = false).
Proof.
  intros c R ver live new mf mgr o mf' Hni _ Hso Hfam Hpure HR Hfl Hfn Hsv Hok Hwl Hwn Cl Cn Hown H.
  unfold update_op in H.
  destruct (reconcile_managed c 0 live mf) as [[mf0 n0]|e] eqn:Hrec; [|discriminate].
  destruct (reconcile_owned_present c R ver live mf mf0 n0 Hso HR Hwl Hsv Hok Hown Hrec)
    as (Hok0 & Hsv0 & Hown0).
  destruct (update_core c n0 live new ver mf0 mgr true) as [[[mf1 cmp] n1]|e] eqn:Hupd; [|discriminate].
  rewrite (no_ignore_filter c ver Hni) in H. cbn [filter_set] in H.
  (* the comparison of the live and the submitted object *)
  assert (forall cmp0, compare_tv c live new = Some cmp0 -> cmp_ok cmp0) as Hcok.
  { intros cmp0 Hc0. unfold compare_tv in Hc0. rewrite Hfl in Hc0.
    exact (compare_sets_ok _ R _ _ _ _ Hso HR Hwl Hwn Hc0). }
  destruct (update_core_records c n0 live new ver mf0 mgr true mf1 cmp n1 Hni Hsv0 Hok0 Hcok Hupd)
    as (Hcmp & _ & Hok1 & Hsv1 & Hne1 & Hw & Hothers).
  pose proof (Hcok cmp Hcmp) as Hc.
  assert (forall p, wf_path p = true -> p <> [] ->
    (present (schema_of c ver) (tr_of c ver) (snd live) p = true -> ps_has p (removed cmp) = false ->
     present (schema_of c ver) (tr_of c ver) (snd new) p = true) /\
    (ps_has p (modified cmp) = true -> present (schema_of c ver) (tr_of c ver) (snd new) p = true) /\
    (ps_has p (added cmp) = true -> present (schema_of c ver) (tr_of c ver) (snd new) p = true)) as Hkey.
  { unfold compare_tv in Hcmp. rewrite Hfl in Hcmp.
    apply (compare_present _ R _ _ _ cmp Hso Hfam Hpure HR Hwl Hwn Cl Cn Hcmp). }
  (* the updater's set *)
  set (cur := match mf_get mgr mf1 with Some r => mr_set r | None => ps_empty_set end) in *.
  assert (ps_ok cur = true) as Hcur by (apply cur_ok; exact Hok1).
  assert (forall p, wf_path p = true -> ps_has p cur = true ->
            present (schema_of c ver) (tr_of c ver) (snd live) p = true) as Hcurp.
  { intros p Hp Hh. unfold cur in Hh. rewrite Hw in Hh.
    destruct (mf_get mgr mf0) as [r|] eqn:Er; [|rewrite ps_has_empty_set in Hh; discriminate].
    destruct (ps_empty (mr_set r)); [rewrite ps_has_empty_set in Hh; discriminate|].
    apply (Hown0 mgr r p Er Hp Hh). }
  destruct (update_set_spec cur cmp Hcur Hc) as [Hok2 Hhas2].
  set (set0 := ps_union (ps_union (ps_diff cur (removed cmp)) (modified cmp)) (added cmp)) in *.
  assert (forall p, wf_path p = true -> ps_has p set0 = true ->
            present (schema_of c ver) (tr_of c ver) (snd new) p = true) as Hset0.
  { intros p Hp Hh. pose proof (ps_has_nonnil p set0 Hh) as Np.
    destruct (Hkey p Hp Np) as (K1 & K2 & K3).
    rewrite (Hhas2 p Hp) in Hh. apply orb_true_iff in Hh. destruct Hh as [Hh|Hh]; [|apply K3; exact Hh].
    apply orb_true_iff in Hh. destruct Hh as [Hh|Hh]; [|apply K2; exact Hh].
    apply andb_true_iff in Hh. destruct Hh as [H1 H2]. apply negb_true_iff in H2.
    apply K1; [apply (Hcurp p Hp H1)|exact H2]. }
  (* the records of the other managers *)
  assert (forall m r p, m <> mgr -> mf_get m mf1 = Some r -> wf_path p = true ->
            ps_has p (mr_set r) = true ->
            present (schema_of c ver) (tr_of c ver) (snd new) p = true) as Hoth.
  { intros m r p Hm Hg Hp Hh. pose proof (ps_has_nonnil p _ Hh) as Np.
    pose proof (Hothers m Hm) as Ho. destruct (mf_get m mf0) as [r0|] eqn:E0; [|congruence].
    rewrite Hg in Ho. destruct Ho as (_ & _ & Hk). rewrite (Hk p Hp Np) in Hh.
    unfold keeps in Hh. apply andb_true_iff in Hh. destruct Hh as [Hh H3].
    apply andb_true_iff in Hh. destruct Hh as [H1 _]. apply negb_true_iff in H3.
    destruct (Hkey p Hp Np) as (K1 & _ & _). apply K1; [apply (Hown0 m r0 p E0 Hp H1)|exact H3]. }
  destruct (ps_empty set0) eqn:Ee; inversion H; subst o mf'; clear H.
  - (* the updater ends up owning nothing: its record is deleted *)
    split; [reflexivity|]. split; [|split; [apply mf_del_ok; exact Hok1|split; [apply single_version_del; exact Hsv1|]]].
    + intros m r p Hg Hp Hh. rewrite (mf_get_del m mgr mf1 (proj1 Hok1)) in Hg.
      destruct (String.eqb_spec m mgr) as [E|E]; [discriminate|]. apply (Hoth m r p E Hg Hp Hh).
    + intros m r Hg. rewrite (mf_get_del m mgr mf1 (proj1 Hok1)) in Hg.
      destruct (String.eqb m mgr); [discriminate|]. apply (Hne1 m r Hg).
  - split; [reflexivity|]. split; [|split; [apply mf_set_ok; assumption|split; [apply mf_set_single; [exact Hsv1|reflexivity]|]]].
    + intros m r p Hg Hp Hh. destruct (String.eqb_spec m mgr) as [E|E].
      * subst m. rewrite mf_get_set_same in Hg. inversion Hg; subst r. cbn [mr_set] in Hh.
        apply (Hset0 p Hp Hh).
      * rewrite (mf_get_set_other m mgr _ mf1 E) in Hg. apply (Hoth m r p E Hg Hp Hh).
    + intros m r Hg. destruct (String.eqb_spec m mgr) as [E|E].
      * subst m. rewrite mf_get_set_same in Hg. inversion Hg; subst r. exact Ee.
      * rewrite (mf_get_set_other m mgr _ mf1 E) in Hg. apply (Hne1 m r Hg).
Qed.

(* ---------- non-vacuity ---------- *)

(* an executable sufficient check of [owned_present] *)
Lemma owned_present_check : forall s R tr v mf,
  schema_ok s R -> R tr -> wf_value v = true -> mf_ok mf ->
  forallb (fun mr : string * mrec =>
             forallb (fun p => present s tr v p) (ps_elems (mr_set (snd mr)))) mf = true ->
  owned_present s tr v mf.
Proof.
  intros s R tr v mf Hso HR Hwf Hok Hall m r p Hg Hp Hh.
  pose proof (mf_ok_get mf m r Hok Hg) as Hrok.
  apply assoc_get_in in Hg. rewrite forallb_forall in Hall. specialize (Hall (m, r) Hg). cbn [snd] in Hall.
  destruct (ReconcileLaws.has_in_elems (mr_set r) p Hrok Hp Hh) as (p0 & Hin & W0 & Hpp).
  rewrite forallb_forall in Hall.
  rewrite (FieldSetPaths.present_patheqb s R Hso p p0 Hpp Hp W0 v tr HR Hwf). apply (Hall p0 Hin).
Qed.

Open Scope string_scope.

(* the live object, owned by two managers; m2 submits an object in which the field mm.x
   (owned by m1) is removed and the field aa (owned by m1) is changed *)
Definition ui_live : tv :=
  ("v1", VMap [("aa", VInt 1); ("mm", VMap [("x", VInt 1); ("y", VInt 2); ("z", VInt 3)])]).
Definition ui_new : tv :=
  ("v1", VMap [("aa", VInt 5); ("mm", VMap [("y", VInt 2); ("z", VInt 3)])]).
Definition ui_mf : managed :=
  [("m1", mkRec (ps_of_paths [[PEField "aa"]; [PEField "mm"; PEField "x"]; [PEField "mm"; PEField "z"]]) "v1" true);
   ("m2", mkRec (ps_of_paths [[PEField "mm"; PEField "y"]]) "v1" false)].
Definition ui_mf' : managed :=
  [("m1", mkRec (ps_of_paths [[PEField "mm"; PEField "z"]]) "v1" true);
   ("m2", mkRec (ps_of_paths [[PEField "aa"]; [PEField "mm"; PEField "y"]]) "v1" false)].

Example ui_update_computed : update_op ex_config ui_live ui_new "v1" ui_mf "m2" = UOk (ui_new, ui_mf').
Proof. vm_compute. reflexivity. Qed.

Example update_preserves_owned_present_example :
  ui_new = ui_new /\
  owned_present ex_schema ex_rt (snd ui_new) ui_mf' /\
  mf_ok ui_mf' /\ single_version "v1" ui_mf' /\
  (forall m r, mf_get m ui_mf' = Some r -> ps_empty (mr_set r) = false).
Proof.
  apply (update_preserves_owned_present ex_config ex_R "v1" ui_live ui_new ui_mf "m2" ui_new ui_mf').
  - exact ex_config_no_ignore.
  - intros n from to v. reflexivity.
  - exact ex_schema_ok.
  - exact ex_family_refs.
  - exact ex_lists_pure.
  - exact ex_R_root.
  - reflexivity.
  - reflexivity.
  - vm_compute. reflexivity.
  - split; vm_compute; reflexivity.
  - vm_compute. reflexivity.
  - vm_compute. reflexivity.
  - vm_compute. reflexivity.
  - vm_compute. reflexivity.
  - apply (owned_present_check ex_schema ex_R ex_rt (snd ui_live) ui_mf ex_schema_ok ex_R_root).
    + vm_compute. reflexivity.
    + split; vm_compute; reflexivity.
    + vm_compute. reflexivity.
  - exact ui_update_computed.
Qed.

(* the example is not degenerate: m1 really owned the removed and the changed field, and
   after the update it owns neither; the changed field went to m2 *)
Example ui_example_facts :
  (forall r, mf_get "m1" ui_mf = Some r ->
     ps_has [PEField "mm"; PEField "x"] (mr_set r) = true /\ ps_has [PEField "aa"] (mr_set r) = true) /\
  present ex_schema ex_rt (snd ui_live) [PEField "mm"; PEField "x"] = true /\
  present ex_schema ex_rt (snd ui_new) [PEField "mm"; PEField "x"] = false /\
  (forall r, mf_get "m1" ui_mf' = Some r ->
     ps_has [PEField "mm"; PEField "x"] (mr_set r) = false /\ ps_has [PEField "aa"] (mr_set r) = false /\
     ps_has [PEField "mm"; PEField "z"] (mr_set r) = true) /\
  (forall r, mf_get "m2" ui_mf' = Some r -> ps_has [PEField "aa"] (mr_set r) = true).
Proof.
  split; [|split; [|split; [|split]]].
  - intros r Hr. vm_compute in Hr. inversion Hr; subst r. split; vm_compute; reflexivity.
  - vm_compute. reflexivity.
  - vm_compute. reflexivity.
  - intros r Hr. vm_compute in Hr. inversion Hr; subst r. repeat split; vm_compute; reflexivity.
  - intros r Hr. vm_compute in Hr. inversion Hr; subst r. vm_compute. reflexivity.
Qed.

