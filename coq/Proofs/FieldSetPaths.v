(* The paths inserted by the field-set walker: well formed, no error on conforming
   values, and each designates a node of the value. *)
From Coq Require Import List ZArith String Bool Arith Lia.
From SMD Require Import Model.Value Model.Order Model.PathElem Model.PathSet Model.Schema
  Model.Walk Model.FieldSet Model.Remove Spec.PathsAsSets Spec.RefValid Spec.Resolve
  Proofs.OrderLaws Proofs.KeyLaws Proofs.PathSetLaws Proofs.ValidateLaws Proofs.SchemaOk
  Proofs.FieldSetMirrors Proofs.FieldSetBase Proofs.FieldSetShape.
From SMD Require Proofs.CompareBase Proofs.FieldSetWf.
Import ListNotations.
Open Scope bool_scope.

(* ---------- small helpers ---------- *)
Lemma own0_in : forall t k c q, In q (own0 t k c) -> q = [].
Proof.
  intros t k c q. unfold own0.
  destruct c as [| | | | | |[|kv m]]; try destruct (has_field t k); simpl; intros H;
    repeat (destruct H as [H|H]; auto); contradiction.
Qed.

Lemma field_type_nofield : forall t k, has_field t k = false -> field_type t k = map_elem t.
Proof. intros t k. unfold has_field, field_type. destruct (find_field (map_fields t) k); [discriminate|reflexivity]. Qed.

Lemma cmap_each_in : forall s dup t m k x, cmap_each s dup t m = true -> In (k, x) m ->
  conforms s (field_type t k) dup x = true.
Proof.
  intros s dup t m k x. induction m as [|[k' x'] m IH]; simpl; intros H Hin; [contradiction|].
  apply andb_true_iff in H. destruct H as [H1 H2]. destruct Hin as [Heq|Hin]; [|auto].
  inversion Heq; subst. destruct (has_field t k) eqn:Ef; [exact H1|].
  apply andb_true_iff in H1. rewrite (field_type_nofield t k Ef). apply H1.
Qed.

Lemma assoc_get_in_sorted : forall (m : list (string * value)) k c,
  sorted_keys m = true -> In (k, c) m -> assoc_get k m = Some c.
Proof.
  induction m as [|[k' c'] m IH]; intros k c Hs Hin; [contradiction|].
  apply sorted_keys_cons in Hs. destruct Hs as [Hs Hgt]. simpl.
  destruct Hin as [Heq|Hin].
  - inversion Heq; subst. rewrite String.eqb_refl. reflexivity.
  - destruct (String.eqb_spec k k') as [E|E].
    + subst k'. unfold keys_gt in Hgt. rewrite Forall_forall in Hgt.
      specialize (Hgt (k, c) Hin). simpl in Hgt. rewrite str_cmp_refl in Hgt. discriminate.
    + apply IH; assumption.
Qed.

Lemma wf_value_map_in : forall m k c, wf_value (VMap m) = true -> In (k, c) m -> wf_value c = true.
Proof.
  intros m k c H Hin. simpl in H. apply andb_true_iff in H. destruct H as [_ H].
  rewrite forallb_forall in H. apply (H (k, c) Hin).
Qed.

Lemma wf_value_list_in : forall l x, wf_value (VList l) = true -> In x l -> wf_value x = true.
Proof. intros l x H Hin. simpl in H. rewrite forallb_forall in H. apply H. exact Hin. Qed.

Lemma length_lt2_in : forall (A : Type) (L : list A) x, In x L -> (2 <=? List.length L) = false -> L = [x].
Proof.
  intros A L x Hin Hlen. destruct L as [|a [|b L']]; simpl in *.
  - contradiction.
  - destruct Hin as [H|[]]. subst. reflexivity.
  - discriminate.
Qed.

(* ---------- kinds ---------- *)
Lemma kind_map_inv : forall s tr v t m, kind_of s tr v = KMap t m ->
  exists a, resolve s tr = Some a /\ atom_map a = Some t /\ v = VMap m /\
            rel_is_atomic (map_rel t) = false /\ m <> [].
Proof.
  intros s tr v t m. unfold kind_of. destruct (resolve s tr) as [[sc li ma]|]; [|discriminate].
  destruct v as [| | | | |l|m0]; try (destruct sc; discriminate).
  - destruct li as [t0|]; [|discriminate]. destruct (rel_is_atomic (list_rel t0)); [discriminate|].
    destruct l; discriminate.
  - destruct ma as [t0|]; [|discriminate]. destruct (rel_is_atomic (map_rel t0)) eqn:Ea; [discriminate|].
    destruct m0 as [|kv m0]; [discriminate|]. intros H. inversion H; subst.
    exists (Atom sc li (Some t)). repeat split; auto. discriminate.
Qed.

Lemma kind_list_inv : forall s tr v t l, kind_of s tr v = KList t l ->
  exists a, resolve s tr = Some a /\ atom_list a = Some t /\ v = VList l /\
            rel_is_atomic (list_rel t) = false /\ l <> [].
Proof.
  intros s tr v t l. unfold kind_of. destruct (resolve s tr) as [[sc li ma]|]; [|discriminate].
  destruct v as [| | | | |l0|m0]; try (destruct sc; discriminate).
  - destruct li as [t0|]; [|discriminate]. destruct (rel_is_atomic (list_rel t0)) eqn:Ea; [discriminate|].
    destruct l0 as [|x l0]; [discriminate|]. intros H. inversion H; subst.
    exists (Atom sc (Some t) ma). repeat split; auto. discriminate.
  - destruct ma as [t0|]; [|discriminate]. destruct (rel_is_atomic (map_rel t0)); [discriminate|].
    destruct m0; discriminate.
Qed.

(* ---------- the resolver, one step ---------- *)
Lemma resolve_path_map : forall s tr v t m k rest, kind_of s tr v = KMap t m ->
  resolve_path s tr v (PEField k :: rest) =
  match assoc_get k m with
  | Some child => resolve_path s (field_type t k) child rest
  | None => None
  end.
Proof. intros s tr v t m k rest H. simpl. rewrite H. reflexivity. Qed.

Lemma resolve_path_list : forall s tr v t l e rest, kind_of s tr v = KList t l ->
  is_keyval e = true ->
  resolve_path s tr v (e :: rest) =
  match group_items s t l [] with
  | None => None
  | Some g =>
      match lookup_group e g with
      | Some [x] => resolve_path s (list_elem t) x rest
      | Some (x :: y :: more) =>
          match rest with [] => Some (RDup (list_elem t) (x :: y :: more)) | _ => None end
      | _ => None
      end
  end.
Proof. intros s tr v t l e rest H He. simpl. rewrite H. destruct e; try discriminate; reflexivity. Qed.

Lemma resolve_path_map_other : forall s tr v t m e rest, kind_of s tr v = KMap t m ->
  match e with PEField _ => False | _ => True end -> resolve_path s tr v (e :: rest) = None.
Proof. intros s tr v t m e rest H He. simpl. rewrite H. destruct e; try reflexivity. contradiction. Qed.

Lemma resolve_path_list_other : forall s tr v t l e rest, kind_of s tr v = KList t l ->
  is_keyval e = false -> resolve_path s tr v (e :: rest) = None.
Proof. intros s tr v t l e rest H He. simpl. rewrite H. destruct e; try reflexivity; discriminate. Qed.

Lemma resolve_path_leaf : forall s tr v e rest,
  match kind_of s tr v with KLeaf | KBad => True | _ => False end ->
  resolve_path s tr v (e :: rest) = None.
Proof. intros s tr v e rest H. simpl. destruct (kind_of s tr v); try contradiction; reflexivity. Qed.

Lemma present_nil : forall s tr v, present s tr v [] = true.
Proof. reflexivity. Qed.

(* kind of a list / map value as the walkers see it *)
Lemma handle_list_kind : forall s tr a t l,
  resolve s tr = Some a -> handle_atom (deduce_atom a (Some (VList l))) = HList t ->
  rel_is_atomic (list_rel t) = false -> l <> [] -> kind_of s tr (VList l) = KList t l.
Proof.
  intros s tr [sc li ma] t l Hr Hh Ha Hl. unfold kind_of. rewrite Hr.
  destruct li as [t0|].
  - rewrite handle_vlist in Hh. inversion Hh; subst. rewrite Ha. destruct l; [contradiction|reflexivity].
  - destruct sc, ma; simpl in Hh; discriminate.
Qed.

Lemma handle_map_kind : forall s tr a t m,
  resolve s tr = Some a -> handle_atom (deduce_atom a (Some (VMap m))) = HMap t ->
  rel_is_atomic (map_rel t) = false -> m <> [] -> kind_of s tr (VMap m) = KMap t m.
Proof.
  intros s tr [sc li ma] t m Hr Hh Ha Hm. unfold kind_of. rewrite Hr.
  destruct ma as [t0|].
  - rewrite handle_vmap in Hh. inversion Hh; subst. rewrite Ha. destruct m; [contradiction|reflexivity].
  - destruct sc, li; simpl in Hh; discriminate.
Qed.

Section Paths.
  Variables (s : schema) (R : typeref -> Prop).
  Hypothesis Hok : schema_ok s R.

  Lemma items_wf_R : forall t l, R (list_elem t) -> forallb wf_value l = true -> items_wf s t l.
  Proof.
    intros t l Ht Hl x e Hx He. rewrite forallb_forall in Hl.
    eapply (lipe_wf_elem s R Hok); eauto.
  Qed.

  (* ---- the inserted paths are well formed ---- *)
  Lemma fsp_wf : forall v tr q, R tr -> wf_value v = true -> In q (fsp s tr v) -> wf_path q = true.
  Proof.
    intros v tr q Htr Hwf Hin.
    pose proof (FieldSetWf.fs_paths_wf s R Hok v tr [] Htr eq_refl Hwf) as Hall.
    rewrite forallb_forall in Hall. apply Hall. exact Hin.
  Qed.

  Lemma fsp_wf_all : forall v tr, R tr -> wf_value v = true -> forallb wf_path (fsp s tr v) = true.
  Proof. intros v tr Htr Hwf. apply forallb_forall. intros q Hq. eapply fsp_wf; eauto. Qed.

  (* ---- no error on conforming values of the family ---- *)
  Hypothesis Hfam : family_refs s R.

  Lemma fse_ok : forall v tr, R tr -> wf_value v = true -> conforms s tr true v = true ->
    fse s tr v = false.
  Proof.
    intros v. induction v as [|b|z|q0|str|l IHl|m IHm] using value_ind'; intros tr Htr Hwf Hc;
      unfold fse; rewrite fs_paths_nil_eq; rewrite conforms_eq in Hc;
      (destruct (resolve s tr) as [[sc li ma]|] eqn:Er; [|discriminate]).
    - destruct sc, li as [t|], ma as [t'|]; simpl in *; try discriminate; try reflexivity;
        destruct (rel_is_atomic _); reflexivity.
    - destruct sc; [reflexivity|discriminate].
    - destruct sc; [reflexivity|discriminate].
    - destruct sc; [reflexivity|discriminate].
    - destruct sc; [reflexivity|discriminate].
    - destruct li as [t|]; [|discriminate]. rewrite handle_vlist.
      destruct (rel_is_atomic (list_rel t)) eqn:Eat; [reflexivity|].
      assert (Hrel : list_rel t = RAssociative).
      { destruct (Hfam tr _ t Htr Er eq_refl) as [H|H]; [exact H|]. rewrite H in Eat. discriminate. }
      rewrite Hrel in Hc. apply andb_true_iff in Hc. destruct Hc as [Hc _].
      apply andb_true_iff in Hc. destruct Hc as [Hhas Hconf].
      assert (Hte : R (list_elem t)) by (eapply (so_list s R Hok); eauto; reflexivity).
      assert (Hiw : items_wf s t l) by (apply items_wf_R; auto).
      destruct (pass1_spec s t [] l [] [] [] false eq_refl eq_refl eq_refl eq_refl Hiw Hhas)
        as (d & new & Heq & _ & _ & _ & _).
      rewrite Heq. simpl.
      destruct (existsb (item_err s t d) l) eqn:Ex; [|reflexivity].
      apply existsb_exists in Ex. destruct Ex as (x & Hx & Hex).
      unfold item_err in Hex. cbv zeta in Hex.
      destruct (pes_has (list_item_pe_or_zero s t x) d); [discriminate|].
      rewrite Forall_forall in IHl. rewrite forallb_forall in Hconf.
      rewrite (IHl x Hx (list_elem t) Hte) in Hex; [discriminate| |apply Hconf; exact Hx].
      eapply wf_value_list_in; eauto.
    - destruct ma as [t|]; [|discriminate]. rewrite handle_vmap.
      destruct (rel_is_atomic (map_rel t)); [reflexivity|]. simpl.
      destruct (existsb (entry_err s t) m) eqn:Ex; [|reflexivity].
      apply existsb_exists in Ex. destruct Ex as ([k c] & Hkc & Hex).
      unfold entry_err in Hex. simpl in Hex.
      rewrite Forall_forall in IHm.
      pose proof (IHm (k, c) Hkc (field_type t k)) as IH. simpl in IH.
      rewrite IH in Hex; [discriminate| | |].
      + eapply (so_map s R Hok); eauto.
      + eapply wf_value_map_in; eauto.
      + eapply cmap_each_in; eauto.
  Qed.
End Paths.

(* ---------- every inserted path designates a node ---------- *)
Lemma present_map_step : forall s tr v t m k c rest, kind_of s tr v = KMap t m ->
  assoc_get k m = Some c ->
  present s tr v (PEField k :: rest) = present s (field_type t k) c rest.
Proof.
  intros s tr v t m k c rest Hk Hg. unfold present. rewrite (resolve_path_map _ _ _ _ _ _ _ Hk), Hg.
  reflexivity.
Qed.

Lemma present_list_step : forall s tr v t l e g x rest, kind_of s tr v = KList t l ->
  is_keyval e = true -> group_items s t l [] = Some g -> lookup_group e g = Some [x] ->
  present s tr v (e :: rest) = present s (list_elem t) x rest.
Proof.
  intros s tr v t l e g x rest Hk He Hg Hl. unfold present.
  rewrite (resolve_path_list _ _ _ _ _ _ _ Hk He), Hg, Hl. reflexivity.
Qed.

Lemma present_list_dup : forall s tr v t l e g x y more, kind_of s tr v = KList t l ->
  is_keyval e = true -> group_items s t l [] = Some g ->
  lookup_group e g = Some (x :: y :: more) -> present s tr v [e] = true.
Proof.
  intros s tr v t l e g x y more Hk He Hg Hl. unfold present.
  rewrite (resolve_path_list _ _ _ _ _ _ _ Hk He), Hg, Hl. reflexivity.
Qed.

Lemma existsb_false_in : forall (A : Type) (f : A -> bool) l x,
  existsb f l = false -> In x l -> f x = false.
Proof.
  intros A f l x H Hin. destruct (f x) eqn:E; [|reflexivity].
  assert (existsb f l = true) by (apply existsb_exists; exists x; auto). congruence.
Qed.

Lemma occ_cong : forall s t l e e', items_wf s t l -> wf_pe e = true -> wf_pe e' = true ->
  peeqb e e' = true -> occ s t e l = occ s t e' l.
Proof.
  intros s t l e e' Hiw He He' Hee. unfold occ. apply filter_ext_in. intros x Hx.
  unfold pe_matches. destruct (list_item_to_pe s t x) as [ex|] eqn:Ex; [|reflexivity].
  apply peeqb_cong_r; auto. apply (Hiw x ex Hx Ex).
Qed.

Section Present.
  Variables (s : schema) (R : typeref -> Prop).
  Hypothesis Hok : schema_ok s R.

  Hypothesis Hfam : family_refs s R.

  Lemma fsp_present : forall v tr q, R tr -> wf_value v = true -> conforms s tr true v = true ->
    In q (fsp s tr v) -> present s tr v q = true.
  Proof.
    intros v. induction v as [|b|z|q0|str|l IHl|m IHm] using value_ind'; intros tr q Htr Hwf Hc;
      unfold fsp; rewrite fs_paths_nil_eq;
      (destruct (resolve s tr) as [a|] eqn:Er; [|intros []]);
      (destruct (handle_atom (deduce_atom a _)) as [t|t|t|] eqn:Eh; [| | |intros []]);
      try (simpl; intros [H|[]]; subst; reflexivity);
      try (destruct (rel_is_atomic _); simpl; [intros [H|[]]; subst; reflexivity|intros []]).
    - (* list *)
      destruct (rel_is_atomic (list_rel t)) eqn:Ea; [simpl; intros [H|[]]; subst; reflexivity|].
      assert (Hte : R (list_elem t)) by (eapply R_list_elem; eauto).
      assert (Hiw : items_wf s t l) by (eapply items_wf_R; eauto).
      assert (Hal : atom_list a = Some t).
      { pose proof Eh as Eh'. apply CompareBase.handle_atom_list in Eh'.
        apply CompareBase.deduce_list in Eh'. exact Eh'. }
      assert (Hrel : list_rel t = RAssociative).
      { destruct (Hfam tr a t Htr Er Hal) as [H|H]; [exact H|]. rewrite H in Ea. discriminate. }
      assert (Hhc : forallb (has_pe s t) l = true /\
                    forallb (fun x => conforms s (list_elem t) true x) l = true).
      { rewrite conforms_eq, Er in Hc. destruct a as [sc li ma]. simpl in Hal. subst li.
        rewrite Hrel in Hc. apply andb_true_iff in Hc. destruct Hc as [Hc _].
        apply andb_true_iff in Hc. exact Hc. }
      destruct Hhc as [Hhas Hconf].
      destruct (pass1_spec s t [] l [] [] [] false eq_refl eq_refl eq_refl eq_refl Hiw Hhas)
        as (d & new & Heq & Hsd & Hwd & Hmem & Hnew).
      rewrite Heq. simpl. intros Hin.
      destruct (group_items_nil_spec s t l Hiw Hhas) as (g & Hg & Hgw & Hlk).
      apply in_app_or in Hin. destruct Hin as [Hin|Hin].
      + destruct (Hnew q Hin) as (e & Hq & He & H3). subst q. simpl in H3. simpl app.
        destruct (occ s t e l) as [|x [|y more]] eqn:Eocc; simpl in H3; try discriminate.
        assert (Hx : In x (occ s t e l)) by (rewrite Eocc; simpl; auto).
        apply occ_In in Hx. destruct Hx as [Hxl Hxm].
        assert (Hkv : is_keyval e = true).
        { unfold pe_matches in Hxm. destruct (list_item_to_pe s t x) as [ex|] eqn:Ex; [|discriminate].
          rewrite <- (peeqb_keyval ex e Hxm). eapply lipe_keyval; eauto. }
        assert (Hk : kind_of s tr (VList l) = KList t l).
        { eapply handle_list_kind; eauto. intros ->. contradiction. }
        eapply present_list_dup; eauto. rewrite (Hlk e He), Eocc. reflexivity.
      + apply in_flat_map in Hin. destruct Hin as (x & Hx & Hin).
        pose proof Hhas as Hhx. rewrite forallb_forall in Hhx. specialize (Hhx x Hx).
        unfold has_pe in Hhx.
        destruct (list_item_to_pe s t x) as [e|] eqn:Ee; [|discriminate]. clear Hhx.
        rewrite (item_paths_some s t d x e Ee) in Hin.
        destruct (pes_has e d) eqn:Ed; [contradiction|].
        apply in_map_iff in Hin. destruct Hin as (q1 & Hq & Hin). subst q.
        assert (He : wf_pe e = true) by (apply (Hiw x e Hx Ee)).
        rewrite (pes_has_spec e d Hsd Hwd He), (Hmem e He) in Ed. simpl in Ed.
        assert (Hxo : In x (occ s t e l)).
        { apply In_occ; [exact Hx|]. unfold pe_matches. rewrite Ee. apply peeqb_refl. exact He. }
        pose proof (length_lt2_in _ _ _ Hxo Ed) as Eocc.
        assert (Hk : kind_of s tr (VList l) = KList t l).
        { eapply handle_list_kind; eauto. intros ->. contradiction. }
        rewrite (present_list_step s tr (VList l) t l e g x q1 Hk (lipe_keyval _ _ _ _ Ee) Hg).
        2:{ rewrite (Hlk e He), Eocc. reflexivity. }
        apply in_app_or in Hin. destruct Hin as [Hin|[Hin|[]]]; [|subst; reflexivity].
        rewrite Forall_forall in IHl. apply (IHl x Hx (list_elem t) q1 Hte); auto.
        * eapply wf_value_list_in; eauto.
        * rewrite forallb_forall in Hconf. apply Hconf. exact Hx.
    - (* map *)
      destruct (rel_is_atomic (map_rel t)) eqn:Ea; [simpl; intros [H|[]]; subst; reflexivity|].
      assert (Ham : atom_map a = Some t).
      { pose proof Eh as Eh'. apply CompareBase.handle_atom_map in Eh'.
        apply CompareBase.deduce_map in Eh'. exact Eh'. }
      assert (Hcm : cmap_each s true t m = true).
      { rewrite conforms_eq, Er in Hc. destruct a as [sc li ma]. simpl in Ham. subst ma. exact Hc. }
      simpl. intros Hin. apply in_flat_map in Hin. destruct Hin as ([k c] & Hkc & Hin).
      unfold entry_paths in Hin. simpl in Hin.
      apply in_map_iff in Hin. destruct Hin as (q1 & Hq & Hin). subst q.
      assert (Hk : kind_of s tr (VMap m) = KMap t m).
      { eapply handle_map_kind; eauto. intros ->. contradiction. }
      assert (Hget : assoc_get k m = Some c).
      { apply assoc_get_in_sorted; auto. simpl in Hwf. apply andb_true_iff in Hwf. apply Hwf. }
      rewrite (present_map_step s tr (VMap m) t m k c q1 Hk Hget).
      apply in_app_or in Hin. destruct Hin as [Hin|Hin].
      + rewrite Forall_forall in IHm. apply (IHm (k, c) Hkc (field_type t k) q1); auto.
        * eapply R_field_type; eauto.
        * eapply wf_value_map_in; eauto.
        * eapply cmap_each_in; eauto.
      + apply own0_in in Hin. subst. reflexivity.
  Qed.

  (* presence is invariant under Path.Equals *)
  Lemma present_patheqb : forall p q, patheqb p q = true -> wf_path p = true -> wf_path q = true ->
    forall v tr, R tr -> wf_value v = true -> present s tr v p = present s tr v q.
  Proof.
    induction p as [|e p IH]; intros [|e' q] Hpq Hp Hq v tr Htr Hwf; simpl in Hpq; try discriminate.
    - reflexivity.
    - apply andb_true_iff in Hpq. destruct Hpq as [Hee Hpq].
      apply wf_path_cons in Hp. destruct Hp as [He Hp].
      apply wf_path_cons in Hq. destruct Hq as [He' Hq].
      destruct (kind_of s tr v) eqn:Ek.
      + unfold present. rewrite !resolve_path_leaf by (rewrite Ek; exact I). reflexivity.
      + destruct (kind_map_inv _ _ _ _ _ Ek) as (a & Hr & Ham & Hv & _ & _). subst v.
        destruct e, e'; simpl in Hee; try discriminate;
          try (unfold present; rewrite !(resolve_path_map_other _ _ _ _ _ _ _ Ek) by exact I; reflexivity).
        apply String.eqb_eq in Hee. subst name0.
        unfold present. rewrite !(resolve_path_map _ _ _ _ _ _ _ Ek).
        destruct (assoc_get name m) as [c|] eqn:Eg; [|reflexivity].
        apply IH; auto.
        * eapply (so_map s R Hok); eauto.
        * simpl in Hwf. apply andb_true_iff in Hwf. eapply assoc_get_wf; [apply Hwf|exact Eg].
      + destruct (kind_list_inv _ _ _ _ _ Ek) as (a & Hr & Hal & Hv & _ & _). subst v.
        pose proof (peeqb_keyval e e' Hee) as Hkv.
        destruct (is_keyval e) eqn:Ekv.
        * unfold present. rewrite !(resolve_path_list _ _ _ _ _ _ _ Ek) by auto.
          destruct (group_items s t l []) as [g|] eqn:Eg; [|reflexivity].
          assert (Hte : R (list_elem t)) by (eapply (so_list s R Hok); eauto).
          assert (Hiw : items_wf s t l) by (eapply items_wf_R; eauto).
          destruct (group_items_some s t l g Hiw Eg) as (_ & _ & Hlk).
          rewrite (Hlk e He), (Hlk e' He'), (occ_cong s t l e e' Hiw He He' Hee).
          destruct (occ s t e' l) as [|x [|y more]] eqn:Eocc; [reflexivity| |].
          -- apply IH; auto.
             assert (Hx : In x (occ s t e' l)) by (rewrite Eocc; simpl; auto).
             apply occ_In in Hx. eapply wf_value_list_in; eauto. apply Hx.
          -- destruct p, q; simpl in Hpq; try discriminate; reflexivity.
        * unfold present. rewrite !(resolve_path_list_other _ _ _ _ _ _ _ Ek) by congruence.
          reflexivity.
      + unfold present. rewrite !resolve_path_leaf by (rewrite Ek; exact I). reflexivity.
  Qed.
End Present.
