(* Serialisation laws, part 3: the emitted list, seen as a list of parsing actions; the
   parse of a permuted emission; canonical emission. *)
From Coq Require Import List ZArith String Bool Arith Lia Permutation.
From SMD Require Import Base.Search Model.Value Model.Order Model.PathElem Model.PathSet Model.Serialize
  Spec.PathsAsSets Proofs.OrderLaws Proofs.SearchLaws Proofs.KeyLaws Proofs.PesLaws Proofs.TrieBase
  Proofs.TrieElems Proofs.SerializeBase Proofs.SerializeRun.
Import ListNotations.
Open Scope bool_scope.

(* ---------- induction following the two-index loop ---------- *)
Lemma em_ind : forall (P : list (pe * pset) -> pes -> Prop),
  P [] [] ->
  (forall m ms, P [] ms -> P [] (m :: ms)) ->
  (forall c sub cs, P cs [] -> P ((c, sub) :: cs) []) ->
  (forall m ms c sub cs,
     (pecmp m c = Lt -> P ((c, sub) :: cs) ms) ->
     (pecmp m c = Gt -> P cs (m :: ms)) ->
     (pecmp m c = Eq -> P cs ms) -> P ((c, sub) :: cs) (m :: ms)) ->
  forall cs ms, P cs ms.
Proof.
  intros P H00 H0m Hc0 Hcm. induction cs as [|[c sub] cs IHc].
  - induction ms as [|m ms IHm]; auto.
  - induction ms as [|m ms IHm]; auto.
Qed.

(* ---------- what is emitted ---------- *)
Lemma emit_list_In : forall (T : Type) (f : bool -> pset -> T) (leaf : T) cs ms a,
  In a (emit_list f leaf cs ms) ->
  (exists m, In m ms /\ a = (JPe m, leaf)) \/
  (exists c sub b, In (c, sub) cs /\ a = (JPe c, f b sub)).
Proof.
  intros T f leaf cs ms a. revert cs ms.
  apply (em_ind (fun cs ms => In a (emit_list f leaf cs ms) ->
    (exists m, In m ms /\ a = (JPe m, leaf)) \/ (exists c sub b, In (c, sub) cs /\ a = (JPe c, f b sub)))).
  - intros [].
  - intros m ms IH. rewrite emit_list_m_nil. intros [<-|H].
    + left. exists m. simpl. auto.
    + destruct (IH H) as [(m' & Hm & E)|(c & sub & b & [] & _)]. left. exists m'. simpl. auto.
  - intros c sub cs IH. rewrite emit_list_nil_c. intros [<-|H].
    + right. exists c, sub, false. simpl. auto.
    + destruct (IH H) as [(m' & [] & _)|(c' & sub' & b & Hc & E)]. right. exists c', sub', b. simpl. auto.
  - intros m ms c sub cs IH1 IH2 IH3. rewrite emit_list_cons.
    destruct (pecmp m c) eqn:Hc; intros [<-|H].
    + right. exists c, sub, true. simpl. auto.
    + destruct (IH3 eq_refl H) as [(m' & Hm & E)|(c' & sub' & b & Hc' & E)].
      * left. exists m'. simpl. auto.
      * right. exists c', sub', b. simpl. auto.
    + left. exists m. simpl. auto.
    + destruct (IH1 eq_refl H) as [(m' & Hm & E)|(c' & sub' & b & Hc' & E)].
      * left. exists m'. simpl. auto.
      * right. exists c', sub', b. auto.
    + right. exists c, sub, false. simpl. auto.
    + destruct (IH2 eq_refl H) as [(m' & Hm & E)|(c' & sub' & b & Hc' & E)].
      * left. exists m'. auto.
      * right. exists c', sub', b. simpl. auto.
Qed.

Definition Fres (b : bool) (s : pset) : pres := (Some s, b, false).
Definition leafres : pres := (None, true, false).
Definition eacts (cs : list (pe * pset)) (ms : pes) : list (jkey * pres) := emit_list Fres leafres cs ms.

Lemma eacts_clean : forall cs ms, wf_pes ms = true -> Forall cok cs -> Forall clean_act (eacts cs ms).
Proof.
  intros cs ms Hm Hc. apply Forall_forall. intros a Ha. apply emit_list_In in Ha.
  unfold wf_pes in Hm. rewrite forallb_forall in Hm. rewrite Forall_forall in Hc.
  destruct Ha as [(m & Hin & ->)|(c & sub & b & Hin & ->)]; cbn.
  - split; [auto|]. split; [discriminate|reflexivity].
  - destruct (Hc _ Hin) as (H1 & H2 & H3). simpl in *. split; [auto|]. split; [|reflexivity].
    intros g E. inversion E; subst. auto.
Qed.

Lemma eacts_klt : forall e cs ms, klt idk e ms -> klt fst e cs -> klt akey e (eacts cs ms).
Proof.
  intros e cs ms Hm Hc. unfold klt in *. rewrite Forall_forall in *. intros a Ha.
  apply emit_list_In in Ha. destruct Ha as [(m & Hin & ->)|(c & sub & b & Hin & ->)]; unfold akey; cbn.
  - apply (Hm m Hin).
  - apply (Hc (c, sub) Hin).
Qed.

Lemma eacts_sorted : forall cs ms, ksorted idk ms -> ksorted fst cs -> ksorted akey (eacts cs ms).
Proof.
  unfold eacts.
  apply (em_ind (fun cs ms => ksorted idk ms -> ksorted fst cs -> ksorted akey (emit_list Fres leafres cs ms))).
  - intros _ _. exact I.
  - intros m ms IH [Hm Hms] Hc. rewrite emit_list_m_nil. split; auto.
    apply eacts_klt; auto. constructor.
  - intros c sub cs IH Hm [Hc Hcs]. rewrite emit_list_nil_c. split; auto.
    apply eacts_klt; auto. constructor.
  - intros m ms c sub cs IH1 IH2 IH3 [Hm Hms] [Hc Hcs]. rewrite emit_list_cons.
    destruct (pecmp m c) eqn:Hmc.
    + split; [|apply IH3; auto]. apply eacts_klt; auto. cbn.
      apply (klt_eq idk c m); auto. apply pecmp_eq_sym. exact Hmc.
    + split; [|apply IH1; simpl; auto]. apply eacts_klt; auto. cbn. constructor; auto.
      apply (klt_trans fst m c); auto.
    + apply pecmp_gt_lt in Hmc. split; [|apply IH2; simpl; auto]. apply eacts_klt; auto. cbn.
      constructor; auto. apply (klt_trans idk c m); auto.
Qed.

Lemma eacts_amem : forall x cs ms, wf_pe x = true -> wf_pes ms = true -> kwf fst cs ->
  amem x (eacts cs ms) = pes_mem x ms.
Proof.
  intros x cs ms Hx. revert cs ms. unfold eacts.
  apply (em_ind (fun cs ms => wf_pes ms = true -> kwf fst cs ->
    amem x (emit_list Fres leafres cs ms) = pes_mem x ms)).
  - reflexivity.
  - intros m ms IH Hm Hc. rewrite emit_list_m_nil. unfold wf_pes in Hm. simpl in Hm.
    apply andb_true_iff in Hm. destruct Hm as [Hm Hms]. rewrite pes_mem_cons, <- IH by auto. reflexivity.
  - intros c sub cs IH Hm Hc. inversion Hc; subst. rewrite emit_list_nil_c. unfold amem. cbn. apply IH; auto.
  - intros m ms c sub cs IH1 IH2 IH3 Hm Hc. inversion Hc as [|? ? Hwc Hwcs]; subst.
    pose proof Hm as Hm'. unfold wf_pes in Hm'. simpl in Hm', Hwc.
    apply andb_true_iff in Hm'. destruct Hm' as [Hwm Hms].
    rewrite emit_list_cons. destruct (pecmp m c) eqn:Hmc.
    + rewrite pes_mem_cons, <- (IH3 eq_refl Hms Hwcs). unfold amem. cbn. f_equal.
      apply peeqb_cong_r; auto. apply pecmp_eq_iff; auto. apply pecmp_eq_sym. exact Hmc.
    + rewrite pes_mem_cons, <- (IH1 eq_refl Hms Hc). reflexivity.
    + rewrite <- (IH2 eq_refl Hm Hwcs). reflexivity.
Qed.

Lemma eacts_alook : forall x cs ms, wf_pe x = true -> ksorted fst cs -> kwf fst cs ->
  alook x (eacts cs ms) = option_map snd (klook fst x cs).
Proof.
  intros x cs ms Hx. revert cs ms. unfold eacts.
  assert (Hstep : forall c sub b rest cs, wf_pe c = true -> kwf fst cs -> klt fst c cs ->
            alook x rest = option_map snd (klook fst x cs) ->
            alook x ((JPe c, Fres b sub) :: rest) = option_map snd (klook fst x ((c, sub) :: cs))).
  { intros c sub b rest cs Hwc Hwcs Hlt E. cbn [alook]. rewrite E, klook_cons. cbn [fst amatch_child Fres].
    destruct (peeqb x c) eqn:Hxc.
    - rewrite (klook_above_eq fst x c cs) by auto. reflexivity.
    - destruct (klook fst x cs); reflexivity. }
  apply (em_ind (fun cs ms => ksorted fst cs -> kwf fst cs ->
    alook x (emit_list Fres leafres cs ms) = option_map snd (klook fst x cs))).
  - reflexivity.
  - intros m ms IH Hs Hw. rewrite emit_list_m_nil. cbn [alook]. rewrite (IH Hs Hw). reflexivity.
  - intros c sub cs IH [Hc Hs] Hw. inversion Hw; subst. rewrite emit_list_nil_c. apply Hstep; auto.
  - intros m ms c sub cs IH1 IH2 IH3 [Hc Hs] Hw. inversion Hw as [|? ? Hwc Hwcs]; subst.
    rewrite emit_list_cons. destruct (pecmp m c) eqn:Hmc.
    + apply Hstep; auto.
    + cbn [alook]. rewrite (IH1 eq_refl (conj Hc Hs) Hw).
      destruct (option_map snd (klook fst x ((c, sub) :: cs))); reflexivity.
    + apply Hstep; auto.
Qed.

Lemma eacts_aself : forall cs ms, aself (eacts cs ms) = false.
Proof.
  intros cs ms. unfold aself. destruct (existsb is_self (eacts cs ms)) eqn:E; [|reflexivity].
  apply existsb_exists in E. destruct E as (a & Ha & Hs). apply emit_list_In in Ha.
  destruct Ha as [(m & _ & ->)|(c & sub & b & _ & ->)]; discriminate.
Qed.

(* ---------- parsing a permuted emission ---------- *)
Section Perm.
  Variable JP : jtree -> jtree -> Prop.
  Hypothesis JP_inv : forall ms t, JP (JObj ms) t ->
    exists ms' ms'', t = JObj ms'' /\
      Forall2 (fun a b => fst a = fst b /\ JP (snd a) (snd b)) ms ms' /\ Permutation ms' ms''.

  Let R := fun a b : jkey * jtree => fst a = fst b /\ JP (snd a) (snd b).

  Lemma JP_leaf : forall t, JP (JObj []) t -> t = JObj [].
  Proof.
    intros t H. destruct (JP_inv _ _ H) as (ms' & ms'' & -> & HF & HP).
    inversion HF; subst. apply Permutation_nil in HP. subst. reflexivity.
  Qed.

  Definition child_ok (sub : pset) : Prop :=
    forall b t', JP (emit b sub) t' ->
      exists sub', parse t' = (Some sub', b, false) /\ ps_ok sub' = true /\ ps_empty sub' = false /\
                   ps_equals sub sub' = true.

  Definition csrel (ec ec' : pe * pset) : Prop :=
    fst ec = fst ec' /\ ps_ok (snd ec') = true /\ ps_empty (snd ec') = false /\
    ps_equals (snd ec) (snd ec') = true.

  Lemma parse_leaf : parse (JObj []) = leafres.
  Proof. reflexivity. Qed.

  Lemma perm_acts : forall cs ms l', Forall (fun ec => child_ok (snd ec)) cs ->
    Forall2 R (emit_list emit (JObj []) cs ms) l' ->
    exists cs', Forall2 csrel cs cs' /\ map act_of l' = eacts cs' ms.
  Proof.
    unfold eacts.
    apply (em_ind (fun cs ms => forall l', Forall (fun ec => child_ok (snd ec)) cs ->
      Forall2 R (emit_list emit (JObj []) cs ms) l' ->
      exists cs', Forall2 csrel cs cs' /\ map act_of l' = emit_list Fres leafres cs' ms)).
    - intros l' _ HF. inversion HF; subst. exists []. split; [constructor|reflexivity].
    - intros m ms IH l' Hc HF. rewrite emit_list_m_nil in HF.
      inversion HF as [|? [k t'] ? l'' [Hk Ht] HF']; subst. cbn [fst snd] in *. subst k.
      apply JP_leaf in Ht. subst t'.
      destruct (IH l'' Hc HF') as (cs' & Hrel & E). inversion Hrel; subst.
      exists []. split; [constructor|]. cbn [map]. rewrite E, emit_list_m_nil.
      unfold act_of. cbn [fst snd]. rewrite parse_leaf. reflexivity.
    - intros c sub cs IH l' Hc HF. rewrite emit_list_nil_c in HF.
      inversion HF as [|? [k t'] ? l'' [Hk Ht] HF']; subst. cbn [fst snd] in *. subst k.
      inversion Hc as [|? ? Hc1 Hcs]; subst. cbn [snd] in Hc1.
      destruct (Hc1 false t' Ht) as (sub' & Hp & Hok & Hne & Heq).
      destruct (IH l'' Hcs HF') as (cs' & Hrel & E).
      exists ((c, sub') :: cs'). split.
      + constructor; auto. unfold csrel. cbn [fst snd]. auto.
      + cbn [map]. rewrite E, emit_list_nil_c. unfold act_of. cbn [fst snd]. rewrite Hp. reflexivity.
    - intros m ms c sub cs IH1 IH2 IH3 l' Hc HF. rewrite emit_list_cons in HF.
      inversion Hc as [|? ? Hc1 Hcs]; subst. cbn [snd] in Hc1.
      destruct (pecmp m c) eqn:Hmc;
        inversion HF as [|? [k t'] ? l'' [Hk Ht] HF']; subst; cbn [fst snd] in *; subst k.
      + destruct (Hc1 true t' Ht) as (sub' & Hp & Hok & Hne & Heq).
        destruct (IH3 eq_refl l'' Hcs HF') as (cs' & Hrel & E).
        exists ((c, sub') :: cs'). split.
        * constructor; auto. unfold csrel. cbn [fst snd]. auto.
        * cbn [map]. rewrite E, emit_list_cons, Hmc. unfold act_of. cbn [fst snd]. rewrite Hp. reflexivity.
      + apply JP_leaf in Ht. subst t'.
        destruct (IH1 eq_refl l'' Hc HF') as (cs' & Hrel & E).
        exists cs'. split; auto.
        inversion Hrel as [|? [c' sub'] ? cs'' [Hk _] _]; subst. cbn [fst] in Hk. subst c'.
        cbn [map]. rewrite E, emit_list_cons, Hmc. unfold act_of. cbn [fst snd]. rewrite parse_leaf. reflexivity.
      + destruct (Hc1 false t' Ht) as (sub' & Hp & Hok & Hne & Heq).
        destruct (IH2 eq_refl l'' Hcs HF') as (cs' & Hrel & E).
        exists ((c, sub') :: cs'). split.
        * constructor; auto. unfold csrel. cbn [fst snd]. auto.
        * cbn [map]. rewrite E, emit_list_cons, Hmc. unfold act_of. cbn [fst snd]. rewrite Hp. reflexivity.
  Qed.

  Lemma csrel_klt : forall e cs cs', Forall2 csrel cs cs' -> klt fst e cs -> klt fst e cs'.
  Proof.
    intros e cs cs' H. unfold klt. induction H as [|x y l l' Hxy Hl IH]; intros Hk; [constructor|].
    inversion Hk; subst. constructor; auto. destruct Hxy as [<- _]. auto.
  Qed.

  Lemma csrel_facts : forall cs cs', Forall2 csrel cs cs' -> ksorted fst cs -> Forall cok cs ->
    ksorted fst cs' /\ Forall cok cs' /\ cequals cs cs' = true.
  Proof.
    intros cs cs' H. induction H as [|x y l l' Hxy Hl IH]; intros Hs Hc.
    - repeat split; constructor.
    - destruct Hs as [Hx Hs]. inversion Hc as [|? ? Hcx Hcl]; subst.
      destruct (IH Hs Hcl) as (I1 & I2 & I3).
      destruct Hxy as (Hk & Hok & Hne & Heq). destruct Hcx as (Hw & _ & _).
      split; [|split].
      + split; auto. rewrite <- Hk. eapply csrel_klt; eauto.
      + constructor; auto. unfold cok. rewrite <- Hk. auto.
      + destruct x as [c sub], y as [c' sub']. cbn [fst snd] in *. subst c'.
        cbn [cequals]. rewrite peeqb_refl, Heq, I3 by auto. reflexivity.
  Qed.

  Lemma pes_equals_refl : forall l, wf_pes l = true -> pes_equals l l = true.
  Proof.
    induction l as [|x t IH]; intros H; [reflexivity|]. unfold wf_pes in H. simpl in H.
    apply andb_true_iff in H. destruct H as [Hx Ht]. cbn [pes_equals]. rewrite peeqb_refl, IH by auto.
    reflexivity.
  Qed.

  Definition order_goal (s : pset) : Prop :=
    forall b t, ps_ok s = true -> JP (emit b s) t ->
      exists st i, parse t = (st, i, false) /\ stok st /\ ps_equals s (norm st) = true /\
                   (ps_empty s = false -> st <> None /\ i = b).

  Lemma order_child : forall ec, order_goal (snd ec) -> cok ec -> child_ok (snd ec).
  Proof.
    intros ec Hg (Hw & Hok & Hne) b t' HJ.
    destruct (Hg b t' Hok HJ) as (st & i & Hp & Hst & Heq & Hi).
    destruct (Hi Hne) as [Hn ->]. destruct st as [sub'|]; [|congruence].
    exists sub'. destruct Hst as [H1 H2]. cbn [norm] in *. repeat split; auto.
  Qed.

  Lemma order_main : forall s, order_goal s.
  Proof.
    induction s as [ms cs IH] using pset_ind'. intros b t Hok HJ.
    pose proof Hok as Hok'. apply ps_ok_PSet in Hok'. destruct Hok' as (H1 & H2 & H3 & H4).
    assert (Hch : Forall (fun ec => child_ok (snd ec)) cs).
    { rewrite Forall_forall in *. intros ec Hin. apply order_child; auto. }
    rewrite emit_unfold in HJ.
    destruct (JP_inv _ _ HJ) as (l' & l'' & -> & HF & HP).
    apply Forall2_app_inv_l in HF. destruct HF as (l1' & l2' & HF1 & HF2 & ->).
    destruct (perm_acts cs ms l2' Hch HF2) as (cs' & Hrel & Emap).
    destruct (csrel_facts cs cs' Hrel H3 H4) as (H3' & H4' & Hceq).
    set (acts' := map act_of (l1' ++ l2')).
    set (acts'' := map act_of l'').
    assert (HPa : Permutation acts' acts'') by (apply Permutation_map; exact HP).
    (* the shape of the marker part *)
    assert (Hself : (self_part b ms cs = [] /\ l1' = [] /\ b && negb (is_nilnil ms cs) = false) \/
                    (exists r, map act_of l1' = [(JSelf, r)] /\ b && negb (is_nilnil ms cs) = true)).
    { unfold self_part in *. destruct (b && negb (is_nilnil ms cs)).
      - right. inversion HF1 as [|? [k t1] ? ? [Hk _] HF1']; subst. inversion HF1'; subst.
        cbn [fst] in Hk. subst k. exists (parse t1). split; reflexivity.
      - left. inversion HF1; subst. auto. }
    assert (Hacts : (acts' = eacts cs' ms /\ b && negb (is_nilnil ms cs) = false) \/
                    (exists r, acts' = (JSelf, r) :: eacts cs' ms /\ b && negb (is_nilnil ms cs) = true)).
    { unfold acts'. rewrite map_app, Emap. destruct Hself as [(_ & -> & E)|(r & -> & E)]; [left|right; exists r]; split; auto. }
    assert (Hclean0 : Forall clean_act (eacts cs' ms)) by (apply eacts_clean; auto).
    assert (Huniq0 : uniq (eacts cs' ms)).
    { apply ksorted_uniq. apply eacts_sorted; auto. apply sorted_pes_iff. exact H1. }
    assert (Hclean : Forall clean_act acts').
    { destruct Hacts as [[-> _]|(r & -> & _)]; auto. constructor; auto. exact I. }
    assert (Huniq : uniq acts').
    { destruct Hacts as [[-> _]|(r & -> & _)]; auto. apply uniq_self; auto. }
    assert (Hwfk : Forall wfkey acts').
    { eapply Forall_impl; [|exact Hclean]. intros [[| e | |] [[g c] er]]; unfold wfkey; cbn; tauto. }
    assert (Hmem : forall x, wf_pe x = true -> amem x acts'' = pes_mem x ms).
    { intros x Hx. unfold amem. rewrite <- (existsb_perm _ _ _ _ HPa). fold (amem x acts').
      destruct Hacts as [[-> _]|(r & -> & _)]; [|rewrite amem_self]; apply eacts_amem; auto;
        apply cok_kwf; auto. }
    assert (Hlook : forall x, wf_pe x = true -> alook x acts'' = option_map snd (klook fst x cs')).
    { intros x Hx. rewrite <- (alook_perm x acts' acts'' HPa Huniq Hwfk Hx).
      destruct Hacts as [[-> _]|(r & -> & _)]; [|rewrite alook_self]; apply eacts_alook; auto;
        apply cok_kwf; auto. }
    assert (Hselfb : aself acts'' = b && negb (is_nilnil ms cs)).
    { unfold aself. rewrite <- (existsb_perm _ _ _ _ HPa). fold (aself acts').
      destruct Hacts as [[-> E]|(r & -> & E)]; rewrite E.
      - apply eacts_aself.
      - reflexivity. }
    assert (Hclean'' : Forall clean_act acts'') by (eapply Permutation_Forall; eauto).
    destruct (run_sem acts'' None false Hclean'' stok_None) as (st' & Hr & Hst' & Hm & Hc).
    assert (Hok2 : ps_ok (PSet ms cs') = true) by (apply ps_ok_PSet; auto).
    assert (Heq2 : ps_equals (PSet ms cs) (PSet ms cs') = true).
    { rewrite ps_equals_eq, pes_equals_refl, Hceq by auto. reflexivity. }
    assert (Hhas : forall p, wf_path p = true -> ps_has p (PSet ms cs) = ps_has p (norm st')).
    { intros p Hp. rewrite (proj1 (ps_equals_ext _ _ Hok Hok2) Heq2 p Hp).
      destruct p as [|x [|p0 p']]; [reflexivity| |]; apply wf_path_cons in Hp; destruct Hp as [Hx Hp].
      - rewrite ps_has_one, (Hm x Hx), (Hmem x Hx) by auto. reflexivity.
      - rewrite ps_has_more, (Hc x p0 p' Hx), (Hlook x Hx) by auto.
        destruct (klook fst x cs'); reflexivity. }
    exists st', (match st' with None => true | Some _ => false || aself acts'' end).
    split; [|split; [|split]].
    - rewrite parse_run. fold acts''. rewrite Hr. reflexivity.
    - exact Hst'.
    - apply (ps_equals_ext _ _ Hok (proj1 Hst')). exact Hhas.
    - intros Hne. destruct (ps_nonempty_witness _ Hok Hne) as (p & Hp & Hhp).
      rewrite (Hhas p Hp) in Hhp. destruct st' as [c|].
      + split; [discriminate|]. rewrite Hselfb. cbn [orb].
        destruct ms, cs; try discriminate; cbn [is_nilnil negb]; apply andb_true_r.
      + cbn [norm] in Hhp. rewrite (ps_empty_has ps_empty_set p eq_refl) in Hhp. discriminate.
  Qed.

  Lemma order_from_json : forall s t, ps_ok s = true -> JP (to_json s) t ->
    exists s', from_json t = (s', false) /\ ps_ok s' = true /\ ps_equals s s' = true.
  Proof.
    intros s t Hok HJ. destruct (order_main s false t Hok HJ) as (st & i & Hp & Hst & Heq & _).
    exists (norm st). unfold from_json. rewrite Hp. split; [destruct st; reflexivity|].
    split; [apply Hst|exact Heq].
  Qed.
End Perm.

(* ---------- canonical emission ---------- *)
Fixpoint jlist_eqb (m1 m2 : list (jkey * jtree)) {struct m1} : bool :=
  match m1, m2 with
  | [], [] => true
  | (k1, t1) :: r1, (k2, t2) :: r2 => jkey_eqb k1 k2 && jtree_eqb t1 t2 && jlist_eqb r1 r2
  | _, _ => false
  end.

Lemma jtree_eqb_unfold : forall m1 m2, jtree_eqb (JObj m1) (JObj m2) = jlist_eqb m1 m2.
Proof. reflexivity. Qed.

Definition canon_goal (a : pset) : Prop :=
  forall b f, ps_ok a = true -> ps_ok b = true -> ps_equals a b = true ->
    jtree_eqb (emit f a) (emit f b) = true.

Lemma pecmp_peeqb_same : forall m m' c c', wf_pe m = true -> wf_pe m' = true -> wf_pe c = true ->
  wf_pe c' = true -> peeqb m m' = true -> peeqb c c' = true -> pecmp m' c' = pecmp m c.
Proof.
  intros m m' c c' Hm Hm' Hc Hc' E1 E2. apply peeqb_cmp in E1, E2; auto.
  rewrite (pecmp_eq_l m m' c E1). symmetry. apply pecmp_eq_r. exact E2.
Qed.

Lemma emit_list_eqb : forall c1 m1 c2 m2,
  Forall (fun ec => canon_goal (snd ec)) c1 ->
  wf_pes m1 = true -> wf_pes m2 = true -> Forall cok c1 -> Forall cok c2 ->
  pes_equals m1 m2 = true -> cequals c1 c2 = true ->
  jlist_eqb (emit_list emit (JObj []) c1 m1) (emit_list emit (JObj []) c2 m2) = true.
Proof.
  apply (em_ind (fun c1 m1 => forall c2 m2,
    Forall (fun ec => canon_goal (snd ec)) c1 ->
    wf_pes m1 = true -> wf_pes m2 = true -> Forall cok c1 -> Forall cok c2 ->
    pes_equals m1 m2 = true -> cequals c1 c2 = true ->
    jlist_eqb (emit_list emit (JObj []) c1 m1) (emit_list emit (JObj []) c2 m2) = true)).
  - intros [|y c2] [|x m2] _ _ _ _ _ E1 E2; try discriminate. reflexivity.
  - intros m ms IH [|y c2] [|m' m2] HG W1 W2 K1 K2 E1 E2; try discriminate.
    cbn [pes_equals] in E1. apply andb_true_iff in E1. destruct E1 as [Em E1].
    unfold wf_pes in W1, W2. simpl in W1, W2. apply andb_true_iff in W1, W2.
    rewrite !emit_list_m_nil. cbn [jlist_eqb jkey_eqb]. rewrite Em.
    rewrite (IH [] m2); auto; tauto.
  - intros c sub cs IH [|[c' sub'] c2] [|m' m2] HG W1 W2 K1 K2 E1 E2; try discriminate.
    cbn [cequals] in E2. apply andb_true_iff in E2. destruct E2 as [E2 E3].
    apply andb_true_iff in E2. destruct E2 as [Ec Es].
    inversion HG as [|? ? G1 G2]; subst. inversion K1 as [|? ? (A1 & A2 & A3) K1']; subst.
    inversion K2 as [|? ? (B1 & B2 & B3) K2']; subst. cbn [fst snd] in *.
    rewrite !emit_list_nil_c. cbn [jlist_eqb jkey_eqb]. rewrite Ec, (G1 sub' false), (IH c2 []); auto.
  - intros m ms c sub cs IH1 IH2 IH3 [|[c' sub'] c2] [|m' m2] HG W1 W2 K1 K2 E1 E2; try discriminate.
    pose proof E1 as E1'. pose proof E2 as E2'.
    cbn [pes_equals] in E1. apply andb_true_iff in E1. destruct E1 as [Em E1].
    pose proof W1 as W1'. pose proof W2 as W2'.
    unfold wf_pes in W1, W2. simpl in W1, W2. apply andb_true_iff in W1, W2.
    destruct W1 as [Wm W1]. destruct W2 as [Wm' W2].
    cbn [cequals] in E2. apply andb_true_iff in E2. destruct E2 as [E2 E3].
    apply andb_true_iff in E2. destruct E2 as [Ec Es].
    inversion HG as [|? ? G1 G2]; subst. inversion K1 as [|? ? (A1 & A2 & A3) K1']; subst.
    inversion K2 as [|? ? (B1 & B2 & B3) K2']; subst. cbn [fst snd] in *.
    rewrite !emit_list_cons. rewrite (pecmp_peeqb_same m m' c c') by auto.
    destruct (pecmp m c) eqn:Hmc; cbn [jlist_eqb jkey_eqb].
    + rewrite Ec, (G1 sub' true), (IH3 eq_refl c2 m2); auto.
    + rewrite Em, (IH1 eq_refl ((c', sub') :: c2) m2); auto.
    + rewrite Ec, (G1 sub' false), (IH2 eq_refl c2 (m' :: m2)); auto.
Qed.

Lemma nilnil_equals : forall m1 c1 m2 c2, pes_equals m1 m2 = true -> cequals c1 c2 = true ->
  is_nilnil m1 c1 = is_nilnil m2 c2.
Proof.
  intros [|x m1] [|[e s] c1] [|y m2] [|[e' s'] c2] E1 E2; try discriminate; reflexivity.
Qed.

Lemma canon_main : forall a, canon_goal a.
Proof.
  induction a as [m1 c1 IH] using pset_ind'. intros [m2 c2] f Ha Hb Heq.
  apply ps_ok_PSet in Ha, Hb. destruct Ha as (A1 & A2 & A3 & A4). destruct Hb as (B1 & B2 & B3 & B4).
  rewrite ps_equals_eq in Heq. apply andb_true_iff in Heq. destruct Heq as [E1 E2].
  rewrite !emit_unfold, jtree_eqb_unfold. unfold self_part.
  rewrite (nilnil_equals m1 c1 m2 c2 E1 E2).
  assert (H := emit_list_eqb c1 m1 c2 m2 IH A2 B2 A4 B4 E1 E2).
  destruct (f && negb (is_nilnil m2 c2)); cbn [app jlist_eqb jkey_eqb]; auto.
Qed.
