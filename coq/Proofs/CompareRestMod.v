(* Completeness of the "modified" set of the reference diff (Spec/RefDiff.v), and hence of
   the comparison: a path that designates, in both objects, leaves of the same multiplicity
   (two single nodes, or two groups of duplicate members) with different values is reported
   modified.  (Proofs/RefDiffChar.v has the converse: what a reported path designates.)
   Same structure as Proofs/RefDiffChar.v. *)
From Coq Require Import List ZArith String Bool Arith Lia.
From SMD Require Import Model.Value Model.Order Model.PathElem Model.PathSet Model.Schema Model.Walk
  Model.Validate Model.Merge Model.Compare Spec.PathsAsSets Spec.RefValid Spec.Resolve Spec.RefDiff
  Proofs.OrderLaws Proofs.KeyLaws Proofs.ValidateLaws Proofs.SchemaOk Proofs.FieldSetBase Proofs.FieldSetPaths
  Proofs.CompareBase Proofs.CompareTotal Proofs.RefDiffBase Proofs.RefDiffOneSided Proofs.RefDiffBoth
  Proofs.RefDiffPresent Proofs.RefDiffLaws Proofs.RefDiffChar.
From SMD Require Proofs.ResolveLaws.
Import ListNotations.
Open Scope bool_scope.
Open Scope list_scope.

(* the two resolutions are leaves of the same multiplicity, with different values *)
Definition leafdiff_o (s : schema) (oa ob : option rnode) : Prop :=
  match oa, ob with
  | Some (RNode t1 x), Some (RNode t2 y) =>
      kind_of s t1 x = KLeaf /\ kind_of s t2 y = KLeaf /\ veqb y x = false
  | Some (RDup _ xs), Some (RDup _ ys) => values_eqb_dup xs ys = false
  | _, _ => False
  end.

Section RDM.
  Variables (s : schema) (R : typeref -> Prop).
  Hypothesis Hok : schema_ok s R.
  Hypothesis Hfam : family_refs s R.
  Hypothesis Hpure : lists_pure s R.

  Notation rs := (resolve_path s).

  Definition mod_cov (q : path) (tr : typeref) (l r : value) (L : list path) : Prop :=
    forall p1, wf_path p1 = true -> leafdiff_o s (rs tr l p1) (rs tr r p1) ->
      exists p2, patheqb p1 p2 = true /\ In (q ++ p2) L.

  (* beneath the root only *)
  Definition mod_cov1 (q : path) (tr : typeref) (l r : value) (L : list path) : Prop :=
    forall e rest, wf_path (e :: rest) = true -> leafdiff_o s (rs tr l (e :: rest)) (rs tr r (e :: rest)) ->
      exists p2, patheqb (e :: rest) p2 = true /\ In (q ++ p2) L.

  Lemma mod_cov_of1 : forall q tr l r L,
    (kind_of s tr l <> KLeaf \/ kind_of s tr r <> KLeaf) ->
    mod_cov1 q tr l r L -> mod_cov q tr l r L.
  Proof.
    intros q tr l r L Hk H1 p1 Hw Hd. destruct p1 as [|e rest]; [|apply H1; assumption].
    cbn [resolve_path leafdiff_o] in Hd. destruct Hd as (K1 & K2 & _). destruct Hk as [Hk|Hk]; contradiction.
  Qed.

  (* a leaf against a container: nothing to cover *)
  Lemma leaf_modcov1 : forall q tr l r L, kind_of s tr l = KLeaf \/ kind_of s tr r = KLeaf ->
    mod_cov1 q tr l r L.
  Proof.
    intros q tr l r L [Ek|Ek] e rest _ Hd.
    - rewrite (leaf_none s tr l (e :: rest) Ek) in Hd by discriminate. destruct Hd.
    - rewrite (leaf_none s tr r (e :: rest) Ek) in Hd by discriminate.
      destruct (rs tr l (e :: rest)) as [[? ?|? ?]|]; destruct Hd.
  Qed.

  (* ---------- two maps ---------- *)
  Section Maps.
    Variable rrec : typeref -> path -> value -> value -> rdiff.
    Variables (q : path) (tr : typeref) (l r : value) (t : mapT) (lm rm : list (string * value)).
    Variables (nl nr : nat).
    Hypothesis Vl : map_viewR s tr l t lm.
    Hypothesis Vr : map_viewR s tr r t rm.
    Hypothesis Cl : forall k c, assoc_get k lm = Some c -> child_ok s R (field_type t k) c nl.
    Hypothesis Cr : forall k c, assoc_get k rm = Some c -> child_ok s R (field_type t k) c nr.
    Hypothesis IH : forall ct q' x y, child_ok s R ct x nl -> child_ok s R ct y nr ->
      mod_cov q' ct x y (rd_modified (rrec ct q' x y)).

    Lemma maps_modcov : mod_cov1 q tr l r (rd_modified (rd_maps rrec s q t lm rm)).
    Proof.
      intros e rest Hw Hd. apply wf_path_cons in Hw. destruct Hw as [He Hrest].
      rewrite Vl, Vr in Hd. destruct e as [k|k|k|k]; try (destruct Hd; fail).
      destruct (assoc_get k lm) as [c|] eqn:El; [|destruct Hd].
      destruct (assoc_get k rm) as [y|] eqn:Er;
        [|destruct (rs (field_type t k) c rest) as [[? ?|? ?]|]; destruct Hd].
      destruct (IH (field_type t k) (q ++ [PEField k]) c y (Cl k c El) (Cr k y Er) rest Hrest Hd)
        as (p2 & Hpp & Hin).
      exists (PEField k :: p2). split.
      - rewrite pq_cons. cbn [peeqb]. rewrite String.eqb_refl. exact Hpp.
      - unfold rd_maps. apply (rd_fold_in rd_modified (fun a b => eq_refl)). right. exists k. split.
        + apply keys_union_In. left. apply (assoc_get_some_key lm k c El).
        + unfold rd_map_G. rewrite El, Er. rewrite <- app_assoc in Hin. exact Hin.
    Qed.
  End Maps.

  (* ---------- two associative lists ---------- *)
  Section Lists.
    Variable rrec : typeref -> path -> value -> value -> rdiff.
    Variables (q : path) (tr : typeref) (l r : value) (t : listT) (ll rl : list value).
    Variables (gl gr : list (pe * list value)) (nl nr : nat).
    Hypothesis Vl : list_viewR s tr l t ll.
    Hypothesis Vr : list_viewR s tr r t rl.
    Hypothesis Il : items_wf s t ll.
    Hypothesis Ir : items_wf s t rl.
    Hypothesis Hgl : group_items s t ll [] = Some gl.
    Hypothesis Hgr : group_items s t rl [] = Some gr.
    Hypothesis Cl : forall x, In x ll -> child_ok s R (list_elem t) x nl.
    Hypothesis Cr : forall x, In x rl -> child_ok s R (list_elem t) x nr.
    Hypothesis IH : forall ct q' x y, child_ok s R ct x nl -> child_ok s R ct y nr ->
      mod_cov q' ct x y (rd_modified (rrec ct q' x y)).

    Let G := rd_list_G rrec s q t gl gr.

    Lemma listG_modcov : forall e rest, wf_pe e = true -> wf_path rest = true ->
      leafdiff_o s (rs tr l (e :: rest)) (rs tr r (e :: rest)) ->
      exists p2, patheqb rest p2 = true /\ In ((q ++ [e]) ++ p2) (rd_modified (G e)).
    Proof.
      intros e rest He Hw Hd.
      pose proof (side_l s tr l t ll Vl e He) as Sl. pose proof (side_r s tr r t rl Vr e He) as Sr.
      unfold G, rd_list_G. rewrite (LklR s t ll gl Il Hgl e He), (LklR s t rl gr Ir Hgr e He).
      destruct (occ s t e ll) as [|x1 [|x2 xs]] eqn:El.
      { rewrite Sl in Hd. destruct Hd. }
      - destruct (occ s t e rl) as [|y1 [|y2 ys]] eqn:Er; cbv beta iota zeta.
        { rewrite Sr in Hd. destruct (rs tr l (e :: rest)) as [[? ?|? ?]|]; destruct Hd. }
        + rewrite Sl, Sr in Hd.
          apply (IH (list_elem t) (q ++ [e]) x1 y1).
          * apply (occ_child_lR s R t ll nl Cl e). rewrite El. left. reflexivity.
          * apply (occ_child_lR s R t rl nr Cr e). rewrite Er. left. reflexivity.
          * exact Hw.
          * exact Hd.
        + rewrite Sl, Sr in Hd. exfalso. destruct rest as [|e2 rest2].
          * cbn [resolve_path dupres leafdiff_o] in Hd. exact Hd.
          * cbn [dupres] in Hd. destruct (rs (list_elem t) x1 (e2 :: rest2)) as [[? ?|? ?]|]; destruct Hd.
      - rewrite Sl in Hd. destruct rest as [|e2 rest2]; [|destruct Hd].
        cbn [dupres] in Hd.
        destruct (occ s t e rl) as [|y1 [|y2 ys]] eqn:Er; cbv beta iota zeta.
        { rewrite Sr in Hd. destruct Hd. }
        + rewrite Sr in Hd. cbn [resolve_path] in Hd. destruct Hd.
        + rewrite Sr in Hd. cbn [dupres leafdiff_o] in Hd. rewrite Hd.
          exists []. split; [reflexivity|]. rewrite app_nil_r. left. reflexivity.
    Qed.

    Lemma lists_modcov : mod_cov1 q tr l r (rd_modified (rd_lists rrec s q t ll rl)).
    Proof.
      unfold rd_lists. rewrite Hgl, Hgr. fold G.
      intros e rest Hw Hd. apply wf_path_cons in Hw. destruct Hw as [He Hrest].
      assert (Hl : isso (rs tr l (e :: rest)) = true).
      { destruct (rs tr l (e :: rest)) as [[? ?|? ?]|]; [reflexivity|reflexivity|destruct Hd]. }
      assert (exists e', In e' (rd_all gl gr) /\ wf_pe e' = true /\ peeqb e e' = true) as (e' & Hin' & He' & Hee).
      { pose proof (LklR s t ll gl Il Hgl e He) as Hlk. rewrite (Vl e rest He) in Hl.
        destruct (occ s t e ll) as [|x1 xs] eqn:El; [discriminate|].
        apply lookup_group_In in Hlk. destruct Hlk as (ex & Hex & Hpe & _).
        assert (In (fst ex) (rd_all gl gr)) as Hall.
        { unfold rd_all. apply in_or_app. left. apply in_map. exact Hex. }
        exists (fst ex). split; [exact Hall|].
        pose proof (all_wfR s t ll rl gl gr Il Ir Hgl Hgr _ Hall) as W. split; [exact W|].
        rewrite (peeqb_sym e (fst ex) He W). exact Hpe. }
      assert (El' : rs tr l (e :: rest) = rs tr l (e' :: rest)).
      { rewrite (Vl e rest He), (Vl e' rest He'), (occ_cong s t ll e e' Il He He' Hee). reflexivity. }
      assert (Er' : rs tr r (e :: rest) = rs tr r (e' :: rest)).
      { rewrite (Vr e rest He), (Vr e' rest He'), (occ_cong s t rl e e' Ir He He' Hee). reflexivity. }
      rewrite El', Er' in Hd.
      destruct (listG_modcov e' rest He' Hrest Hd) as (p2 & Hpp & Hin).
      exists (e' :: p2). split; [rewrite pq_cons, Hee; exact Hpp|].
      apply (rd_fold_in rd_modified (fun a b => eq_refl)). right. exists e'. split; [exact Hin'|].
      rewrite <- app_assoc in Hin. exact Hin.
    Qed.
  End Lists.
  (* ---------- the reference diff, any sufficient fuel ---------- *)
  Theorem ref_diff_fuel_modcov : forall f q tr l r, R tr ->
    wf_value l = true -> wf_value r = true ->
    conforms s tr true l = true -> conforms s tr true r = true ->
    vdepth l + vdepth r < f ->
    mod_cov q tr l r (rd_modified (ref_diff_fuel f s tr q l r)).
  Proof.
    induction f as [|f IHf]; intros q tr l r Htr Hl Hr Cl Cr Hf; [lia|].
    rewrite ref_diff_fuel_S. unfold ref_body.
    destruct (conf_resolve s tr true l Cl) as [a Hres].
    pose proof (conf_not_bad s tr a Hres l Cl) as Nl.
    pose proof (conf_not_bad s tr a Hres r Cr) as Nr.
    assert (IH' : forall ct q' x y, child_ok s R ct x (vdepth l) -> child_ok s R ct y (vdepth r) ->
              mod_cov q' ct x y (rd_modified (ref_diff_fuel f s ct q' x y))).
    { intros ct q' x y (A1 & A2 & A3 & A4) (B1 & B2 & B3 & B4). apply IHf; auto. lia. }
    destruct (kind_of s tr l) as [|t lm|t ll|] eqn:Kl; [| | |contradiction Nl; reflexivity];
      (destruct (kind_of s tr r) as [|t2 rm|t2 rl|] eqn:Kr; [| | |contradiction Nr; reflexivity]).
    - (* leaf, leaf *)
      intros p1 Hw Hd. destruct p1 as [|e rest].
      + cbn [resolve_path leafdiff_o] in Hd. destruct Hd as (_ & _ & Hv). rewrite Hv.
        exists []. split; [reflexivity|]. rewrite app_nil_r. left. reflexivity.
      + rewrite (leaf_none s tr l (e :: rest) Kl) in Hd by discriminate. destruct Hd.
    - (* leaf, map *)
      apply mod_cov_of1; [right; rewrite Kr; discriminate|]. apply leaf_modcov1. left. exact Kl.
    - (* leaf, list *)
      apply mod_cov_of1; [right; rewrite Kr; discriminate|]. apply leaf_modcov1. left. exact Kl.
    - (* map, leaf *)
      apply mod_cov_of1; [left; rewrite Kl; discriminate|]. apply leaf_modcov1. right. exact Kr.
    - (* map, map *)
      destruct (map_side s R Hok tr a l t lm Htr Hres Hl Cl Kl) as [Ht Hcl].
      destruct (map_side s R Hok tr a r t2 rm Htr Hres Hr Cr Kr) as [Ht2 Hcr].
      rewrite Ht in Ht2. inversion Ht2; subst t2.
      apply mod_cov_of1; [left; rewrite Kl; discriminate|].
      apply (maps_modcov (ref_diff_fuel f s) q tr l r t lm rm (vdepth l) (vdepth r)
               (map_viewR_kind s tr l t lm Kl) (map_viewR_kind s tr r t rm Kr) Hcl Hcr IH').
    - (* map, list *)
      exfalso. apply (no_mixed s R Hpure tr l r t lm t2 rl Htr Kl Kr).
    - (* list, leaf *)
      apply mod_cov_of1; [left; rewrite Kl; discriminate|]. apply leaf_modcov1. right. exact Kr.
    - (* list, map *)
      exfalso. apply (no_mixed s R Hpure tr r l t2 rm t ll Htr Kr Kl).
    - (* list, list *)
      destruct (list_side s R Hok Hfam tr a l t ll Htr Hres Hl Cl Kl) as (Ht & Hiwl & Hhl & (gl & Hgl) & Hcl).
      destruct (list_side s R Hok Hfam tr a r t2 rl Htr Hres Hr Cr Kr) as (Ht2 & Hiwr & Hhr & (gr & Hgr) & Hcr).
      rewrite Ht in Ht2. inversion Ht2; subst t2.
      apply mod_cov_of1; [left; rewrite Kl; discriminate|].
      apply (lists_modcov (ref_diff_fuel f s) q tr l r t ll rl gl gr (vdepth l) (vdepth r)
               (list_viewR_kind s R Hok tr l t ll Htr Hl Kl Hhl) (list_viewR_kind s R Hok tr r t rl Htr Hr Kr Hhr)
               Hiwl Hiwr Hgl Hgr Hcl Hcr IH').
  Qed.

  (* ---------- the comparison ---------- *)
  Theorem compare_mod_complete : forall tr l r c, R tr ->
    wf_value l = true -> wf_value r = true ->
    conforms s tr true l = true -> conforms s tr true r = true ->
    compare s tr l r = Some c ->
    forall p, wf_path p = true -> p <> [] ->
      leafdiff_o s (rs tr l p) (rs tr r p) -> ps_has p (modified c) = true.
  Proof.
    intros tr l r c Htr Hl Hr Cl Cr Hc p Hp Hne Hd.
    destruct (compare_refines_ref_diff_restricted s R tr l r c Hok Hfam Hpure Htr Hl Hr Cl Cr Hc p Hp Hne)
      as (_ & E2 & _).
    rewrite E2.
    destruct (ref_diff_fuel_modcov (merge_fuel l r) [] tr l r Htr Hl Hr Cl Cr) with (p1 := p)
      as (p2 & Hpp & Hin); [unfold merge_fuel; lia|exact Hp|exact Hd|].
    unfold pmem. apply existsb_exists. exists p2. split; [exact Hin|exact Hpp].
  Qed.
End RDM.
