(* Small facts about the reference resolver (Spec/Resolve.v): the kind of a value decides
   the first element of the paths it resolves; a granular value has a node at depth one;
   every value has a leaf at or beneath its root. *)
From Coq Require Import List ZArith String Bool Arith Lia.
From SMD Require Import Model.Value Model.Order Model.PathElem Model.PathSet Model.Schema
  Model.Walk Model.FieldSet Model.Remove Spec.PathsAsSets Spec.RefValid Spec.Resolve Spec.Agree
  Proofs.OrderLaws Proofs.KeyLaws Proofs.PathSetLaws Proofs.ValidateLaws Proofs.SchemaOk
  Proofs.FieldSetMirrors Proofs.FieldSetBase Proofs.FieldSetShape Proofs.FieldSetPaths
  Proofs.RemoveBase Proofs.ExtractBase Proofs.ExtractLaws Proofs.RemoveAbsent Proofs.RemoveWf
  Proofs.ResolveLaws Proofs.ReconcileBase Proofs.CompareTotal Proofs.RemoveFrame.
Import ListNotations.
Open Scope bool_scope.

(* ---------- prefixes ---------- *)
Lemma is_prefix_app : forall p r, wf_path p = true -> is_prefix p (p ++ r) = true.
Proof.
  induction p as [|e p IH]; intros r Hp; [reflexivity|].
  apply wf_path_cons in Hp. destruct Hp as [He Hp].
  cbn [app is_prefix]. rewrite (peeqb_refl e He), (IH r Hp). reflexivity.
Qed.

Lemma is_prefix_firstn : forall n p, wf_path p = true -> is_prefix (firstn n p) p = true.
Proof.
  intros n p Hp. rewrite <- (firstn_skipn n p) at 2. apply is_prefix_app.
  apply wf_path_firstn. exact Hp.
Qed.

(* ---------- kinds and first elements ---------- *)
Lemma present_first : forall s tr v e rest, present s tr v (e :: rest) = true ->
  match kind_of s tr v with
  | KMap _ _ => exists k, e = PEField k
  | KList _ _ => is_keyval e = true
  | _ => False
  end.
Proof.
  intros s tr v e rest H. unfold present in H.
  destruct (kind_of s tr v) as [|t m|t l|] eqn:Ek.
  - rewrite resolve_path_leaf in H by (rewrite Ek; exact I). discriminate.
  - destruct e as [k|k|k|k];
      try (rewrite (resolve_path_map_other _ _ _ _ _ _ _ Ek) in H by exact I; discriminate).
    exists k. reflexivity.
  - destruct (is_keyval e) eqn:Ekv; [reflexivity|].
    rewrite (resolve_path_list_other _ _ _ _ _ _ _ Ek Ekv) in H. discriminate.
  - rewrite resolve_path_leaf in H by (rewrite Ek; exact I). discriminate.
Qed.

Section Tree.
  Variables (s : schema) (R : typeref -> Prop).
  Hypothesis Hok : schema_ok s R.
  Hypothesis Hfam : family_refs s R.

  (* the first member of a granular list, as a node *)
  Lemma list_head_node : forall tr dup t l, R tr -> wf_value (VList l) = true ->
    conforms s tr dup (VList l) = true -> kind_of s tr (VList l) = KList t l ->
    exists x ex more, In x l /\ wf_pe ex = true /\ is_keyval ex = true /\
      occ s t ex l = x :: more /\
      forall rest, resolve_path s tr (VList l) (ex :: rest) =
        match more with
        | [] => resolve_path s (list_elem t) x rest
        | y :: more' => match rest with [] => Some (RDup (list_elem t) (x :: y :: more')) | _ => None end
        end.
  Proof.
    intros tr dup t l Htr Hwf Hc Ek.
    destruct (conf_list_facts s R Hok Hfam tr dup t l Htr Hc Ek) as (sc & ma & Hr & Hte & Hna & Hlne & Hhp & Hcs & _).
    assert (Hiw : items_wf s t l) by (eapply items_wf_R; eauto).
    destruct l as [|x l']; [congruence|].
    pose proof Hhp as Hhp'. cbn [forallb] in Hhp'. apply andb_true_iff in Hhp'. destruct Hhp' as [Hx _].
    unfold has_pe in Hx. destruct (list_item_to_pe s t x) as [ex|] eqn:Ex; [|discriminate].
    assert (Hwex : wf_pe ex = true) by (apply (Hiw x ex (or_introl eq_refl) Ex)).
    assert (Hm : pe_matches s t ex x = true).
    { unfold pe_matches. rewrite Ex. apply peeqb_refl. exact Hwex. }
    pose proof (pe_matches_keyval s t ex x Hm) as Hkv.
    exists x, ex, (occ s t ex l'). split; [left; reflexivity|]. split; [exact Hwex|]. split; [exact Hkv|].
    assert (Hocc : occ s t ex (x :: l') = x :: occ s t ex l').
    { unfold occ. cbn [filter]. rewrite Hm. reflexivity. }
    split; [exact Hocc|]. intros rest.
    rewrite (resolve_path_list_occ s R Hok tr _ t (x :: l') ex rest Htr Hwf Ek Hwex), Hhp, Hkv, Hocc.
    cbn [andb]. destruct (occ s t ex l'); reflexivity.
  Qed.

  (* a granular value has a node at depth one, of the shape its kind prescribes *)
  Lemma first_node : forall tr dup v, R tr -> wf_value v = true -> conforms s tr dup v = true ->
    granular s tr v ->
    exists e, wf_pe e = true /\ present s tr v [e] = true.
  Proof.
    intros tr dup v Htr Hwf Hc Hg. unfold granular in Hg.
    destruct (kind_of s tr v) as [|t m|t l|] eqn:Ek; try contradiction.
    - destruct (kind_map_inv _ _ _ _ _ Ek) as (a & Hr & Ham & Hv & Hna & Hmne). subst v.
      destruct m as [|[k c] m']; [congruence|].
      exists (PEField k). split; [reflexivity|]. unfold present.
      rewrite (resolve_path_map _ _ _ _ _ _ _ Ek). cbn [assoc_get]. rewrite String.eqb_refl. reflexivity.
    - destruct (kind_list_inv _ _ _ _ _ Ek) as (a & Hr0 & Hal & Hv & _ & _). subst v.
      destruct (list_head_node tr dup t l Htr Hwf Hc Ek) as (x & ex & more & Hx & Hwex & Hkv & Hocc & Hres).
      exists ex. split; [exact Hwex|]. unfold present. rewrite (Hres []).
      destruct more; reflexivity.
  Qed.

  (* every value has a leaf at or beneath its root *)
  Lemma leaf_beneath : forall f tr dup v, vdepth v < f -> R tr -> wf_value v = true ->
    conforms s tr dup v = true ->
    exists r n, wf_path r = true /\ resolve_path s tr v r = Some n /\ rnode_is_leaf s n = true.
  Proof.
    induction f as [|f IH]; intros tr dup v Hd Htr Hwf Hc; [lia|].
    destruct (kind_of s tr v) as [|t m|t l|] eqn:Ek.
    - exists [], (RNode tr v). split; [reflexivity|]. split; [reflexivity|]. simpl. rewrite Ek. reflexivity.
    - destruct (kind_map_inv _ _ _ _ _ Ek) as (a & Hr & Ham & Hv & Hna & Hmne). subst v.
      destruct m as [|[k c] m']; [congruence|].
      assert (Eg : assoc_get k ((k, c) :: m') = Some c) by (cbn [assoc_get]; rewrite String.eqb_refl; reflexivity).
      assert (Hin : In (k, c) ((k, c) :: m')) by (left; reflexivity).
      destruct (IH (field_type t k) dup c) as (r & n & Hr' & Hres & Hleaf).
      + pose proof (vdepth_map_get _ k c Eg). lia.
      + eapply (so_map s R Hok); eauto.
      + eapply wf_value_map_in; eauto.
      + pose proof Hc as Hc'. rewrite conforms_eq, Hr in Hc'.
        destruct a as [sc li ma]. simpl in Ham. subst ma. eapply cmap_each_in; eauto.
      + exists (PEField k :: r), n. split; [apply wf_path_cons; split; [reflexivity|exact Hr']|].
        split; [|exact Hleaf].
        rewrite (resolve_path_map _ _ _ _ _ _ _ Ek), Eg. exact Hres.
    - destruct (kind_list_inv _ _ _ _ _ Ek) as (a & Hr0 & Hal & Hv & _ & _). subst v.
      destruct (conf_list_facts s R Hok Hfam tr dup t l Htr Hc Ek) as (sc & ma & Hr & Hte & Hna & Hlne & Hhp & Hcs & _).
      destruct (list_head_node tr dup t l Htr Hwf Hc Ek) as (x & ex & more & Hx & Hwex & Hkv & Hocc & Hres).
      destruct more as [|y more'].
      + destruct (IH (list_elem t) dup x) as (r & n & Hr' & Hresx & Hleaf).
        * pose proof (vdepth_list_In l x Hx). lia.
        * exact Hte.
        * eapply wf_value_list_in; eauto.
        * rewrite forallb_forall in Hcs. exact (Hcs x Hx).
        * exists (ex :: r), n. split; [apply wf_path_cons; split; assumption|].
          split; [|exact Hleaf]. rewrite (Hres r). exact Hresx.
      + exists [ex], (RDup (list_elem t) (x :: y :: more')).
        split; [apply wf_path_cons; split; [exact Hwex|reflexivity]|].
        split; [rewrite (Hres []); reflexivity|reflexivity].
    - exists [], (RNode tr v). split; [reflexivity|]. split; [reflexivity|]. simpl. rewrite Ek. reflexivity.
  Qed.
End Tree.
