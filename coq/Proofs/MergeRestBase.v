(* C12, remaining clauses: shared facts about the path resolver on conforming objects
   (one step down a path, no duplicate group in a duplicate-free object, the type a path
   designates depends on the path only, every granular node has a leaf beneath it). *)
From Coq Require Import List ZArith String Bool Arith Lia.
From SMD Require Import Model.Value Model.Order Model.PathElem Model.PathSet Model.Schema
  Model.Walk Model.Merge Spec.PathsAsSets Spec.RefValid Spec.Resolve Spec.Agree
  Proofs.OrderLaws Proofs.KeyLaws Proofs.PathSetLaws Proofs.ValidateLaws Proofs.SchemaOk Proofs.MergeLaws.
From SMD Require Import Proofs.FieldSetBase Proofs.FieldSetPaths Proofs.ResolveLaws
  Proofs.PesLaws Proofs.MergeBase Proofs.MergeLoop Proofs.MergeWalk Proofs.MergeConf
  Proofs.MergeInter Proofs.MergeVeqb Proofs.MergeDescent Proofs.MergeAgree.
From SMD Require Import Proofs.MergeKeeps Proofs.RemoveFrame Proofs.RefDiffBoth Proofs.EnLaws.
Import ListNotations.
Open Scope bool_scope.

(* the type of the child designated by e under a node of type tr *)
Definition child_tr (s : schema) (tr : typeref) (e : pe) : typeref :=
  match e, atom_at s tr with
  | PEField n, Atom _ _ (Some mt) => field_type mt n
  | (PEKey _ | PEValue _), Atom _ (Some lt) _ => list_elem lt
  | _, _ => empty_tr
  end.

Fixpoint path_tr (s : schema) (tr : typeref) (p : path) : typeref :=
  match p with
  | [] => tr
  | e :: rest => path_tr s (child_tr s tr e) rest
  end.

Section Base.
  Variables (s : schema) (R : typeref -> Prop).
  Hypothesis Hok : schema_ok s R.
  Hypothesis Hfam : family_refs s R.

  (* one step down a path *)
  Lemma node_step : forall dup tr v e rest n, R tr -> wf_value v = true ->
    conforms s tr dup v = true -> wf_pe e = true ->
    resolve_path s tr v (e :: rest) = Some n ->
    (exists c, R (child_tr s tr e) /\ wf_value c = true /\
       conforms s (child_tr s tr e) dup c = true /\ vdepth c < vdepth v /\
       (plain v = true -> plain c = true) /\
       forall q, resolve_path s tr v (e :: q) = resolve_path s (child_tr s tr e) c q)
    \/ (rest = [] /\ dup = true /\ exists t xs, n = RDup t xs).
  Proof.
    intros dup tr v e rest n Htr Hwf Hc He Hres.
    destruct (kind_of s tr v) as [|t m|t l|] eqn:Ek.
    - rewrite resolve_path_leaf in Hres by (rewrite Ek; exact I). discriminate.
    - destruct (kind_map_inv _ _ _ _ _ Ek) as (a & Hr & Ham & Hv & Hna & Hmne). subst v.
      destruct e as [k|fl|ev|i];
        try (rewrite (resolve_path_map_other _ _ _ _ _ _ _ Ek) in Hres by exact I; discriminate).
      rewrite (resolve_path_map _ _ _ _ _ _ _ Ek) in Hres.
      destruct (assoc_get k m) as [c|] eqn:Eg; [|discriminate].
      pose proof (MergeBase.assoc_get_in _ k m c Eg) as Hin.
      destruct a as [sc li ma]. simpl in Ham. subst ma.
      assert (Ect : child_tr s tr (PEField k) = field_type t k).
      { unfold child_tr, atom_at. rewrite Hr. reflexivity. }
      left. exists c. rewrite Ect. repeat split.
      + apply (so_map s R Hok tr _ t k Htr Hr eq_refl).
      + apply (wf_value_map_in m k c Hwf Hin).
      + rewrite conforms_eq, Hr in Hc. eapply cmap_each_in; eauto.
      + apply (vdepth_map_in m k c Hin).
      + intros Hpl. apply (MergeAgree.plain_map_in m k c Hpl Hin).
      + intros q. rewrite (resolve_path_map _ _ _ _ _ _ _ Ek), Eg. reflexivity.
    - destruct (kind_list_inv _ _ _ _ _ Ek) as (a & Hr0 & Hal & Hv & _ & _). subst v.
      destruct (conf_list_facts s R Hok Hfam tr dup t l Htr Hc Ek)
        as (sc & ma & Hr & Hte & Hna & Hlne & Hhp & Hcs & Hdis).
      destruct (is_keyval e) eqn:Ekv;
        [|rewrite (resolve_path_list_other _ _ _ _ _ _ _ Ek Ekv) in Hres; discriminate].
      pose proof (resolve_path_list_occ s R Hok tr (VList l) t l e) as Hocc.
      rewrite (Hocc rest Htr Hwf Ek He), Hhp, Ekv in Hres. cbn [andb] in Hres.
      assert (Ect : child_tr s tr e = list_elem t).
      { unfold child_tr, atom_at. rewrite Hr. destruct e; try discriminate; reflexivity. }
      destruct (occ s t e l) as [|x0 [|y more]] eqn:Eo; [discriminate| |].
      + left. exists x0. rewrite Ect.
        assert (Hx0 : In x0 (occ s t e l)) by (rewrite Eo; left; reflexivity).
        apply occ_In in Hx0. destruct Hx0 as [Hx0 _].
        repeat split.
        * exact Hte.
        * apply (wf_value_list_in l x0 Hwf Hx0).
        * rewrite forallb_forall in Hcs. exact (Hcs x0 Hx0).
        * apply (vdepth_list_in l x0 Hx0).
        * intros Hpl. apply (MergeAgree.plain_list_in l x0 Hpl Hx0).
        * intros q. rewrite (Hocc q Htr Hwf Ek He), Hhp, Ekv. reflexivity.
      + right. destruct rest; [|discriminate]. split; [reflexivity|].
        destruct dup; [split; [reflexivity|]; inversion Hres; eauto|].
        exfalso. simpl in Hdis.
        assert (Hiw : items_wf s t l) by (eapply items_wf_R; eauto).
        assert (HwfR : forall e0, In e0 (MergeBase.pes_of s t l) -> wf_pe e0 = true).
        { intros e0 He0. destruct (pes_of_in s t l e0 He0) as [c0 [Hc0 Hpe0]]. apply (Hiw c0 e0 Hc0 Hpe0). }
        rewrite (occ_distinct s t l e HwfR Hdis He) in Eo.
        destruct (lfind s t e l); discriminate.
    - rewrite resolve_path_leaf in Hres by (rewrite Ek; exact I). discriminate.
  Qed.

  (* what a path designates in a conforming object *)
  Lemma node_sub : forall p dup tr v tr' x, R tr -> wf_value v = true ->
    conforms s tr dup v = true -> wf_path p = true ->
    resolve_path s tr v p = Some (RNode tr' x) ->
    tr' = path_tr s tr p /\ R tr' /\ wf_value x = true /\ conforms s tr' dup x = true /\
    (plain v = true -> plain x = true).
  Proof.
    induction p as [|e rest IH]; intros dup tr v tr' x Htr Hwf Hc Hp Hres.
    - simpl in Hres. inversion Hres; subst. simpl. auto.
    - apply wf_path_cons in Hp. destruct Hp as [He Hrest].
      destruct (node_step dup tr v e rest _ Htr Hwf Hc He Hres)
        as [(c & Hct & Hwc & Hcc & _ & Hplc & Hq)|(_ & _ & t & xs & Hn)]; [|discriminate].
      rewrite Hq in Hres.
      destruct (IH dup _ c tr' x Hct Hwc Hcc Hrest Hres) as (H1 & H2 & H3 & H4 & H5).
      simpl. repeat split; auto.
  Qed.

  Lemma node_dup_sub : forall p dup tr v t xs, R tr -> wf_value v = true ->
    conforms s tr dup v = true -> wf_path p = true ->
    resolve_path s tr v p = Some (RDup t xs) -> dup = true.
  Proof.
    induction p as [|e rest IH]; intros dup tr v t xs Htr Hwf Hc Hp Hres.
    - simpl in Hres. discriminate.
    - apply wf_path_cons in Hp. destruct Hp as [He Hrest].
      destruct (node_step dup tr v e rest _ Htr Hwf Hc He Hres)
        as [(c & Hct & Hwc & Hcc & _ & _ & Hq)|(_ & Hd & _)]; [|exact Hd].
      rewrite Hq in Hres. apply (IH dup _ c t xs Hct Hwc Hcc Hrest Hres).
  Qed.

  (* no duplicate group in a duplicate-free object *)
  Lemma no_rdup : forall p tr v t xs, R tr -> wf_value v = true ->
    conforms s tr false v = true -> wf_path p = true ->
    resolve_path s tr v p <> Some (RDup t xs).
  Proof.
    intros p tr v t xs Htr Hwf Hc Hp Hres.
    pose proof (node_dup_sub p false tr v t xs Htr Hwf Hc Hp Hres). discriminate.
  Qed.

  (* the type a path designates depends on the path only *)
  Lemma node_type_det : forall p d1 d2 tr v1 v2 t1 x1 t2 x2, R tr ->
    wf_value v1 = true -> wf_value v2 = true ->
    conforms s tr d1 v1 = true -> conforms s tr d2 v2 = true -> wf_path p = true ->
    resolve_path s tr v1 p = Some (RNode t1 x1) -> resolve_path s tr v2 p = Some (RNode t2 x2) ->
    t1 = t2.
  Proof.
    intros p d1 d2 tr v1 v2 t1 x1 t2 x2 Htr Hw1 Hw2 Hc1 Hc2 Hp H1 H2.
    destruct (node_sub p d1 tr v1 t1 x1 Htr Hw1 Hc1 Hp H1) as (E1 & _).
    destruct (node_sub p d2 tr v2 t2 x2 Htr Hw2 Hc2 Hp H2) as (E2 & _).
    congruence.
  Qed.
End Base.
