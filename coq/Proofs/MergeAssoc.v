(* C12: merge is not associative across a change of kind (finding F18).  The witness is the
   one the thorough correspondence run found on the implementation. *)
From Coq Require Import List ZArith String Bool.
From SMD Require Import Model.Value Model.Order Model.Schema Model.Validate Model.Merge Spec.Resolve Spec.RefValid.
Import ListNotations.
Open Scope string_scope.

Definition ded_named (n : string) : typeref := TR (Some n) empty_atom None.
(* the schemaless types of typed.DeducedParser *)
Definition ded_schema : schema :=
  [("atomic", Atom (Some SUntyped) (Some (ListT (ded_named "atomic") RAtomic [])) (Some (MapT [] (ded_named "atomic") RAtomic)));
   ("deduced", Atom (Some SUntyped) (Some (ListT (ded_named "atomic") RAtomic [])) (Some (MapT [] (ded_named "deduced") RSeparable)))].

Definition assoc_L := VMap [("ka", VMap [("kb", VInt 1)])].
Definition assoc_R := VMap [("ka", VBool false)].
Definition assoc_X := VMap [("ka", VMap [("ka", VStr "b")])].

Theorem merge_not_associative_across_kinds :
  let s := ded_schema in let tr := ded_named "deduced" in
  conforms s tr false assoc_L = true /\ conforms s tr false assoc_R = true /\ conforms s tr false assoc_X = true /\
  plain assoc_L = true /\ plain assoc_R = true /\ plain assoc_X = true /\
  exists lr rx a b,
    merge s tr assoc_L assoc_R = Some (Some lr) /\ merge s tr assoc_R assoc_X = Some (Some rx) /\
    merge s tr lr assoc_X = Some (Some a) /\ merge s tr assoc_L rx = Some (Some b) /\
    veq_assoc s tr a b = false.
Proof.
  cbv zeta.
  split; [vm_compute; reflexivity|]. split; [vm_compute; reflexivity|]. split; [vm_compute; reflexivity|].
  split; [reflexivity|]. split; [reflexivity|]. split; [reflexivity|].
  exists (VMap [("ka", VBool false)]), (VMap [("ka", VMap [("ka", VStr "b")])]),
         (VMap [("ka", VMap [("ka", VStr "b")])]), (VMap [("ka", VMap [("ka", VStr "b"); ("kb", VInt 1)])]).
  split; [vm_compute; reflexivity|]. split; [vm_compute; reflexivity|].
  split; [vm_compute; reflexivity|]. split; [vm_compute; reflexivity|].
  vm_compute. reflexivity.
Qed.
