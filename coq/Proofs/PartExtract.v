(* C14, partition: what extraction (typed/remove.go with extract = true) keeps.
   For a plain valid object v and a selection T whose members designate leaves of v (or lie
   beneath one) and which holds the key fields of the list members it reaches ([xsel]):
     - [xt_struct]: the extraction is null when T is empty, and otherwise a plain valid
       granular object;
     - [xt_keeps]: a leaf of v at or above a member of T ([ext]) is in the extraction;
     - [xt_sound]: every node of the extraction is a node of v at or above a member of T,
       and a leaf of the extraction is the same leaf of v. *)
From Coq Require Import List ZArith String Bool Arith Lia.
From SMD Require Import Model.Value Model.Order Model.PathElem Model.PathSet Model.Schema Model.Walk
  Model.Validate Model.FieldSet Model.Remove
  Spec.PathsAsSets Spec.RefValid Spec.Resolve Spec.Agree
  Proofs.OrderLaws Proofs.KeyLaws Proofs.PathSetLaws Proofs.ValidateLaws Proofs.SchemaOk
  Proofs.FieldSetMirrors Proofs.FieldSetBase Proofs.FieldSetShape Proofs.FieldSetPaths
  Proofs.FieldSetLaws Proofs.RemoveBase Proofs.ExtractBase Proofs.ExtractLaws Proofs.RemoveAbsent
  Proofs.RemoveWf Proofs.ResolveLaws Proofs.ReconcileBase Proofs.RemoveFrame
  Proofs.NodeSet Proofs.KeyFields Proofs.TreeFacts.
From SMD Require Proofs.MergeBase Proofs.MergeAgree Proofs.MergeDescent.
Import ListNotations.
Open Scope bool_scope.
Open Scope list_scope.

Local Arguments ps_has : simpl never.
Local Arguments ps_with_prefix : simpl never.
Local Arguments ps_empty : simpl never.

(* ================= paths at or above a member ================= *)

(* p is a member of T or a proper prefix of one *)
Fixpoint ext (p : path) (T : pset) : bool :=
  match p with
  | [] => negb (ps_empty T)
  | e :: rest =>
      match rest with [] => ps_has [e] T | _ => false end || ext rest (ps_with_prefix e T)
  end.

Lemma ext_iff : forall p T, ps_ok T = true -> wf_path p = true ->
  (ext p T = true <-> exists q, wf_path q = true /\ ps_has (p ++ q) T = true).
Proof.
  induction p as [|e rest IH]; intros T HT Hp.
  - cbn [ext app]. rewrite negb_true_iff. split.
    + intros He. destruct (ps_nonempty_witness T HT He) as (q & Hq & Hh). exists q. auto.
    + intros (q & _ & Hh). eapply ps_has_nonempty; eauto.
  - apply wf_path_cons in Hp. destruct Hp as [He Hrest].
    destruct (ps_with_prefix_spec e T HT He) as [HT' Hw].
    cbn [ext]. rewrite orb_true_iff, (IH _ HT' Hrest). split.
    + intros [H|(q & Hq & Hh)].
      * destruct rest; [|discriminate]. exists []. split; [reflexivity|exact H].
      * exists q. split; [exact Hq|]. cbn [app].
        assert (Hne : rest ++ q <> []) by (intros E; rewrite E, ps_has_nil in Hh; discriminate).
        rewrite <- Hw; auto. apply wf_path_app. auto.
    + intros (q & Hq & Hh). cbn [app] in Hh.
      destruct (rest ++ q) as [|r0 rq] eqn:Erq.
      * apply app_eq_nil in Erq. destruct Erq as [-> ->]. left. exact Hh.
      * right. exists q. split; [exact Hq|]. rewrite Erq. rewrite Hw; auto.
        -- rewrite <- Erq. apply wf_path_app. auto.
        -- discriminate.
Qed.

Lemma ext_self : forall p T, ps_ok T = true -> wf_path p = true -> ps_has p T = true -> ext p T = true.
Proof.
  intros p T HT Hp Hh. apply ext_iff; auto. exists []. rewrite app_nil_r. auto.
Qed.

Lemma ext_nonempty : forall p T, ps_ok T = true -> wf_path p = true -> ext p T = true ->
  ps_empty T = false.
Proof.
  intros p T HT Hp He. apply (ext_iff p T HT Hp) in He. destruct He as (q & _ & Hh).
  eapply ps_has_nonempty; eauto.
Qed.

(* ================= the loops of extraction as flat_maps ================= *)

Definition xt_item (s : schema) (T : pset) (t : listT) (x : value) : list value :=
  let e := list_item_pe_or_zero s t x in
  if ps_has [e] T && ps_empty (ps_with_prefix e T)
  then [remove_items s true (list_elem t) (ps_with_prefix e T) x]
  else if negb (ps_empty (ps_with_prefix e T))
       then [remove_items s true (list_elem t) (ps_with_prefix e T) x]
       else [].

Lemma rm_list_go_xt : forall s T t l, rm_list_go s true T t l = flat_map (xt_item s T t) l.
Proof.
  intros s T t l. induction l as [|x l IH]; [reflexivity|].
  rewrite rm_list_go_cons, IH.
  change (flat_map (xt_item s T t) (x :: l)) with (xt_item s T t x ++ flat_map (xt_item s T t) l).
  generalize (flat_map (xt_item s T t) l). intros rest.
  unfold rm_list_step, xt_item, rm_has, rm_subset. cbv zeta.
  set (e := list_item_pe_or_zero s t x).
  destruct (ps_has [e] T); destruct (ps_empty (ps_with_prefix e T)); reflexivity.
Qed.

Definition xt_entry (s : schema) (T : pset) (t : mapT) (kv : string * value) : list (string * value) :=
  let k := fst kv in
  if ps_has [PEField k] T then [(k, remove_items s true (field_type t k) (ps_with_prefix (PEField k) T) (snd kv))]
  else if negb (ps_empty (ps_with_prefix (PEField k) T))
       then [(k, remove_items s true (field_type t k) (ps_with_prefix (PEField k) T) (snd kv))]
       else [].

Lemma rm_map_go_xt : forall s T t m, rm_map_go s true T t m = flat_map (xt_entry s T t) m.
Proof.
  intros s T t m. induction m as [|[k c] m IH]; [reflexivity|].
  rewrite rm_map_go_cons, IH.
  change (flat_map (xt_entry s T t) ((k, c) :: m))
    with (xt_entry s T t (k, c) ++ flat_map (xt_entry s T t) m).
  generalize (flat_map (xt_entry s T t) m). intros rest.
  unfold rm_map_step, xt_entry. cbn [fst snd].
  destruct (ps_has [PEField k] T); [reflexivity|].
  destruct (ps_empty (ps_with_prefix (PEField k) T)); reflexivity.
Qed.

(* what extraction makes of the value of field k *)
Definition xt_value (s : schema) (T : pset) (t : mapT) (k : string) (c : value) : option value :=
  if ps_has [PEField k] T then Some (remove_items s true (field_type t k) (ps_with_prefix (PEField k) T) c)
  else if negb (ps_empty (ps_with_prefix (PEField k) T))
       then Some (remove_items s true (field_type t k) (ps_with_prefix (PEField k) T) c)
       else None.

Lemma xt_map_assoc_get : forall s T t k m,
  assoc_get k (flat_map (xt_entry s T t) m) =
  match assoc_get k m with
  | None => None
  | Some c => xt_value s T t k c
  end.
Proof.
  intros s T t k m. induction m as [|[k' c'] m IH]; [reflexivity|].
  cbn [flat_map]. unfold xt_entry at 1. cbn [fst snd].
  simpl assoc_get at 2. destruct (String.eqb_spec k k') as [E|E].
  - subst k'. unfold xt_value.
    destruct (ps_has [PEField k] T) eqn:Eh.
    + simpl. rewrite String.eqb_refl. reflexivity.
    + destruct (negb (ps_empty (ps_with_prefix (PEField k) T))) eqn:Ee.
      * simpl. rewrite String.eqb_refl. reflexivity.
      * simpl. rewrite IH. destruct (assoc_get k m); [|reflexivity].
        unfold xt_value. rewrite Eh, Ee. reflexivity.
  - assert (Hneq : String.eqb k k' = false) by (apply String.eqb_neq; exact E).
    destruct (ps_has [PEField k'] T); [simpl; rewrite Hneq; exact IH|].
    destruct (negb (ps_empty (ps_with_prefix (PEField k') T))); simpl; [rewrite Hneq|]; exact IH.
Qed.

(* ================= leaves are extracted whole ================= *)

Lemma xt_leafy : forall s tr T v, conforms s tr false v = true -> plain v = true ->
  leafy s tr v -> remove_items s true tr T v = v.
Proof.
  intros s tr T v Hc Hpl Hl. pose proof Hc as Hc'. rewrite conforms_eq in Hc'.
  destruct (resolve s tr) as [[sc li ma]|] eqn:Er; [|discriminate].
  destruct v as [|b|z|q0|str|l|m]; try discriminate;
    try (destruct sc; [|discriminate]; rewrite remove_items_eq, Er; reflexivity).
  - destruct li as [t|]; [|discriminate].
    rewrite (remove_items_vlist' _ _ _ _ _ _ _ _ Er (plain_list_ne l Hpl)).
    unfold leafy, kind_of in Hl. rewrite Er in Hl.
    destruct (rel_is_atomic (list_rel t)); [reflexivity|].
    destruct l; [discriminate|contradiction].
  - destruct ma as [t|]; [|discriminate].
    rewrite (remove_items_vmap' _ _ _ _ _ _ _ _ Er (plain_map_ne m Hpl)).
    unfold leafy, kind_of in Hl. rewrite Er in Hl.
    destruct (rel_is_atomic (map_rel t)); [reflexivity|].
    destruct m; [discriminate|contradiction].
Qed.

(* ================= selections ================= *)

Record xsel (s : schema) (tr : typeref) (v : value) (T : pset) : Prop := mkXsel {
  xs_ok : ps_ok T = true;
  (* a member that designates something designates a leaf *)
  xs_leaf : forall p n, wf_path p = true -> ps_has p T = true ->
    resolve_path s tr v p = Some n -> rnode_is_leaf s n = true;
  (* every member is at or beneath a leaf of v *)
  xs_hit : forall p, wf_path p = true -> ps_has p T = true ->
    exists j tr' x, 1 <= j <= List.length p /\
      resolve_path s tr v (firstn j p) = Some (RNode tr' x) /\ leafy s tr' x;
  (* the key fields of a list member reached by T are members *)
  xs_keys : forall pre fl rest k, wf_path (pre ++ PEKey fl :: rest) = true -> rest <> [] ->
    ps_has (pre ++ PEKey fl :: rest) T = true -> In k (map fst fl) ->
    ps_has (pre ++ [PEKey fl; PEField k]) T = true
}.

Lemma leafy_not_granular : forall s tr v, leafy s tr v -> granular s tr v -> False.
Proof. intros s tr v Hl Hg. unfold leafy, granular in *. destruct (kind_of s tr v); contradiction. Qed.

Lemma rnode_leaf_leafy : forall s tr x, rnode_is_leaf s (RNode tr x) = true -> leafy s tr x.
Proof. intros s tr x H. unfold leafy. simpl in H. destruct (kind_of s tr x); try discriminate; exact I. Qed.

Lemma leafy_rnode_leaf : forall s tr x, leafy s tr x -> rnode_is_leaf s (RNode tr x) = true.
Proof. intros s tr x H. unfold leafy in H. simpl. destruct (kind_of s tr x); try contradiction; reflexivity. Qed.

Lemma granular_not_leaf : forall s tr x, granular s tr x -> rnode_is_leaf s (RNode tr x) = false.
Proof. intros s tr x H. unfold granular in H. simpl. destruct (kind_of s tr x); try contradiction; reflexivity. Qed.

(* the selection passed to a child: generic *)
Lemma xsel_child : forall s tr v T e ft c,
  xsel s tr v T -> wf_pe e = true ->
  (forall rest, resolve_path s tr v (e :: rest) = resolve_path s ft c rest) ->
  granular s ft c -> xsel s ft c (ps_with_prefix e T).
Proof.
  intros s tr v T e ft c [HT Hl Hh Hk] He Hstep Hg.
  destruct (ps_with_prefix_spec e T HT He) as [HT' Hw].
  split; [exact HT'| | |].
  - intros p n Hp Hhas Hres. pose proof (has_nonnil _ _ Hhas) as Hne.
    rewrite Hw in Hhas by auto.
    apply (Hl (e :: p) n); [apply wf_path_cons; auto|exact Hhas|]. rewrite Hstep. exact Hres.
  - intros p Hp Hhas. pose proof (has_nonnil _ _ Hhas) as Hne. rewrite Hw in Hhas by auto.
    destruct (Hh (e :: p) ltac:(apply wf_path_cons; auto) Hhas) as (j & tr' & x & Hj & Hres & Hlx).
    destruct j as [|[|j]]; [lia| |].
    + exfalso. cbn [firstn] in Hres. rewrite Hstep in Hres. simpl in Hres.
      inversion Hres; subst tr' x. exact (leafy_not_granular _ _ _ Hlx Hg).
    + exists (S j), tr', x. cbn [firstn] in Hres. rewrite Hstep in Hres.
      split; [simpl in Hj; lia|]. split; [exact Hres|exact Hlx].
  - intros pre fl rest k Hp Hrne Hhas Hin.
    rewrite Hw in Hhas by (auto; destruct pre; discriminate).
    rewrite Hw.
    + apply (Hk (e :: pre) fl rest k); auto. simpl. apply wf_path_cons. auto.
    + apply wf_path_app in Hp. destruct Hp as [H1 H2]. apply wf_path_cons in H2.
      apply wf_path_app. split; [exact H1|]. apply wf_path_cons. split; [tauto|reflexivity].
    + destruct pre; discriminate.
Qed.

(* ================= generic facts ================= *)

Lemma flat_map_ext_in' : forall (A B : Type) (f g : A -> list B) l,
  (forall x, In x l -> f x = g x) -> flat_map f l = flat_map g l.
Proof.
  intros A B f g l. induction l as [|x l IH]; intros H; [reflexivity|].
  simpl. rewrite (H x) by (simpl; auto). rewrite IH; [reflexivity|].
  intros y Hy. apply H. simpl. auto.
Qed.

Lemma all_distinct_filter : forall s t (f : value -> bool) l,
  all_distinct (pes_of s t l) = true -> all_distinct (pes_of s t (filter f l)) = true.
Proof.
  intros s t f l. induction l as [|x l IH]; intros H; [reflexivity|].
  unfold pes_of in H. simpl in H. fold (pes_of s t l) in H.
  assert (Hsub : forall e, In e (pes_of s t (filter f l)) -> In e (pes_of s t l)).
  { intros e He. unfold pes_of in *. apply in_flat_map in He. destruct He as (y & Hy & He).
    apply filter_In in Hy. apply in_flat_map. exists y. tauto. }
  destruct (list_item_to_pe s t x) as [ex|] eqn:Ex.
  - simpl in H. apply andb_true_iff in H. destruct H as [Hnx Hd].
    simpl. destruct (f x); [|apply IH; exact Hd].
    unfold pes_of. simpl. rewrite Ex. simpl. fold (pes_of s t (filter f l)).
    rewrite (IH Hd), andb_true_r. apply negb_true_iff. apply negb_true_iff in Hnx.
    destruct (existsb (peeqb ex) (pes_of s t (filter f l))) eqn:E; [|reflexivity].
    apply existsb_exists in E. destruct E as (e & He & Heq).
    assert (existsb (peeqb ex) (pes_of s t l) = true) by (apply existsb_exists; exists e; auto).
    congruence.
  - simpl in H. simpl. destruct (f x); [|apply IH; exact H].
    unfold pes_of. simpl. rewrite Ex. simpl. apply IH. exact H.
Qed.

Lemma pes_of_map_same : forall s t (g : value -> value) l,
  (forall x, In x l -> list_item_to_pe s t (g x) = list_item_to_pe s t x) ->
  pes_of s t (map g l) = pes_of s t l.
Proof.
  intros s t g l. induction l as [|x l IH]; intros H; [reflexivity|].
  unfold pes_of in *. simpl. rewrite (H x) by (simpl; auto). f_equal. apply IH.
  intros y Hy. apply H. simpl. auto.
Qed.

Lemma occ_map_same : forall s t e (g : value -> value) l,
  (forall x, In x l -> list_item_to_pe s t (g x) = list_item_to_pe s t x) ->
  occ s t e (map g l) = map g (occ s t e l).
Proof.
  intros s t e g l. induction l as [|x l IH]; intros H; [reflexivity|].
  simpl map. rewrite !occ_cons. unfold pe_matches. rewrite (H x) by (simpl; auto).
  rewrite IH by (intros y Hy; apply H; simpl; auto).
  destruct (list_item_to_pe s t x) as [ex|]; [|reflexivity].
  destruct (peeqb ex e); reflexivity.
Qed.

Lemma occ_filter_comm : forall s t e (f : value -> bool) l,
  occ s t e (filter f l) = filter f (occ s t e l).
Proof.
  intros s t e f l. unfold occ. induction l as [|x l IH]; [reflexivity|].
  simpl. destruct (f x) eqn:Ef; destruct (pe_matches s t e x) eqn:Em; simpl;
    rewrite ?Ef, ?Em, IH; reflexivity.
Qed.

Section XT.
  Variables (s : schema) (R : typeref -> Prop).
  Hypothesis Hok : schema_ok s R.
  Hypothesis Hfam : family_refs s R.
  Hypothesis Hnd : keys_nodefault s R.

  Lemma ext_cong : forall p A B, ps_ok A = true -> ps_ok B = true -> wf_path p = true ->
    (forall q, wf_path q = true -> q <> [] -> ps_has q A = ps_has q B) -> ext p A = ext p B.
  Proof.
    intros p A B HA HB Hp Hext.
    assert (Hiff : ext p A = true <-> ext p B = true).
    { rewrite (ext_iff p A HA Hp), (ext_iff p B HB Hp).
      split; intros (q & Hq & H); exists q; (split; [exact Hq|]);
        [rewrite <- Hext|rewrite Hext]; auto; try (apply wf_path_app; auto);
        apply (has_nonnil _ _ H). }
    destruct (ext p A), (ext p B); try reflexivity;
      [destruct Hiff as [H _]; specialize (H eq_refl); discriminate
      |destruct Hiff as [_ H]; specialize (H eq_refl); discriminate].
  Qed.

  Lemma empty_cong : forall A B, ps_ok A = true -> ps_ok B = true ->
    (forall q, wf_path q = true -> q <> [] -> ps_has q A = ps_has q B) -> ps_empty A = ps_empty B.
  Proof.
    intros A B HA HB Hext. pose proof (ext_cong [] A B HA HB eq_refl Hext) as H. cbn [ext] in H.
    destruct (ps_empty A), (ps_empty B); try reflexivity; discriminate.
  Qed.

  Lemma wp_empty : forall T e, ps_ok T = true -> wf_pe e = true -> ps_empty T = true ->
    ps_empty (ps_with_prefix e T) = true.
  Proof.
    intros T e HT He Hem. destruct (ps_with_prefix_spec e T HT He) as [HT' Hw].
    destruct (ps_empty (ps_with_prefix e T)) eqn:E; [reflexivity|]. exfalso.
    destruct (ps_nonempty_witness _ HT' E) as (p & Hp & Hh).
    rewrite Hw in Hh by (auto; apply (has_nonnil _ _ Hh)).
    rewrite (ps_empty_has T _ Hem) in Hh. discriminate.
  Qed.

  (* ---------- members of a conforming granular list / map ---------- *)

  Lemma list_member_facts : forall tr t l x, R tr -> wf_value (VList l) = true ->
    conforms s tr false (VList l) = true -> kind_of s tr (VList l) = KList t l -> In x l ->
    exists ex, list_item_to_pe s t x = Some ex /\ wf_pe ex = true /\ is_keyval ex = true /\
      occ s t ex l = [x] /\ R (list_elem t) /\ wf_value x = true /\
      conforms s (list_elem t) false x = true /\
      (forall rest, resolve_path s tr (VList l) (ex :: rest) = resolve_path s (list_elem t) x rest).
  Proof.
    intros tr t l x Htr Hwf Hc Ek Hx.
    destruct (conf_list_facts s R Hok Hfam tr false t l Htr Hc Ek)
      as (sc & ma & Hr & Hte & Hna & Hne & Hhp & Hcs & Hd).
    cbn [orb] in Hd.
    assert (Hiw : items_wf s t l) by (eapply items_wf_R; eauto).
    pose proof Hhp as Hhp'. rewrite forallb_forall in Hhp'. pose proof (Hhp' x Hx) as Hpx.
    unfold has_pe in Hpx. destruct (list_item_to_pe s t x) as [ex|] eqn:Ex; [|discriminate].
    assert (Hwex : wf_pe ex = true) by (apply (Hiw x ex Hx Ex)).
    assert (Hkv : is_keyval ex = true) by (eapply lipe_keyval; eauto).
    assert (Hocc : occ s t ex l = [x]).
    { apply length_lt2_in; [|apply distinct_occ; auto].
      apply In_occ; [exact Hx|]. unfold pe_matches. rewrite Ex. apply peeqb_refl. exact Hwex. }
    exists ex. repeat split; auto.
    - apply (wf_value_list_in l x Hwf Hx).
    - rewrite forallb_forall in Hcs. exact (Hcs x Hx).
    - intros rest.
      rewrite (resolve_path_list_occ s R Hok tr _ t l ex rest Htr Hwf Ek Hwex), Hhp, Hkv, Hocc.
      reflexivity.
  Qed.

  Lemma map_member_facts : forall tr t m k c, R tr -> wf_value (VMap m) = true ->
    conforms s tr false (VMap m) = true -> kind_of s tr (VMap m) = KMap t m ->
    assoc_get k m = Some c ->
    In (k, c) m /\ R (field_type t k) /\ wf_value c = true /\
    conforms s (field_type t k) false c = true /\
    (forall rest, resolve_path s tr (VMap m) (PEField k :: rest) = resolve_path s (field_type t k) c rest).
  Proof.
    intros tr t m k c Htr Hwf Hc Ek Eg.
    destruct (kind_map_inv _ _ _ _ _ Ek) as (a & Hr & Ham & _ & Hna & Hmne).
    pose proof (assoc_get_In m k c Eg) as Hin.
    split; [exact Hin|]. split; [eapply (so_map s R Hok); eauto|].
    split; [apply (wf_value_map_in m k c Hwf Hin)|]. split.
    - rewrite conforms_eq, Hr in Hc. destruct a as [sc li ma]. simpl in Ham. subst ma.
      eapply cmap_each_in; eauto.
    - intros rest. rewrite (resolve_path_map _ _ _ _ _ _ _ Ek), Eg. reflexivity.
  Qed.

  (* ---------- what extraction makes of a list member ---------- *)

  Definition xf (T : pset) (t : listT) (x : value) : bool :=
    let e := list_item_pe_or_zero s t x in
    ps_has [e] T || negb (ps_empty (ps_with_prefix e T)).

  Definition xg (T : pset) (t : listT) (x : value) : value :=
    remove_items s true (list_elem t) (ps_with_prefix (list_item_pe_or_zero s t x) T) x.

  Section InList.
    Variables (tr : typeref) (t : listT) (l : list value) (T : pset).
    Hypothesis Htr : R tr.
    Hypothesis Hwf : wf_value (VList l) = true.
    Hypothesis Hc : conforms s tr false (VList l) = true.
    Hypothesis Hpl : plain (VList l) = true.
    Hypothesis Ek : kind_of s tr (VList l) = KList t l.
    Hypothesis Hsel : xsel s tr (VList l) T.

    Lemma member_has_leafy : forall x ex, In x l -> list_item_to_pe s t x = Some ex ->
      ps_has [ex] T = true -> leafy s (list_elem t) x.
    Proof.
      intros x ex Hx Hex Hh.
      destruct (list_member_facts tr t l x Htr Hwf Hc Ek Hx)
        as (ex' & Hex' & Hwex & Hkv & Hocc & Hte & Hwx & Hcx & Hstep).
      rewrite Hex in Hex'. inversion Hex'; subst ex'.
      apply rnode_leaf_leafy.
      apply (xs_leaf _ _ _ _ Hsel [ex] (RNode (list_elem t) x)); auto.
      - apply wf_path_cons. auto.
      - rewrite Hstep. reflexivity.
    Qed.

    Lemma xt_item_form : forall x, In x l ->
      xt_item s T t x = if xf T t x then [xg T t x] else [].
    Proof.
      intros x Hx.
      destruct (list_member_facts tr t l x Htr Hwf Hc Ek Hx)
        as (ex & Hex & Hwex & Hkv & Hocc & Hte & Hwx & Hcx & Hstep).
      unfold xt_item, xf, xg. rewrite (list_item_pe_or_zero_some s t x ex Hex). cbv zeta.
      destruct (ps_has [ex] T) eqn:Eh; cbn [andb orb].
      - destruct (ps_empty (ps_with_prefix ex T)) eqn:Ee; cbn [negb]; [|reflexivity].
        pose proof (member_has_leafy x ex Hx Hex Eh) as Hl.
        pose proof (plain_list_in l x Hpl Hx) as Hpx.
        rewrite !(xt_leafy s (list_elem t) _ x Hcx Hpx Hl). reflexivity.
      - destruct (ps_empty (ps_with_prefix ex T)); reflexivity.
    Qed.

    Lemma xt_list_form : rm_list_go s true T t l = map (xg T t) (filter (xf T t) l).
    Proof.
      rewrite rm_list_go_xt, <- flat_map_if_map. apply flat_map_ext_in'. exact xt_item_form.
    Qed.

    (* a member that is kept keeps its path element *)
    Lemma xt_kept_pe : forall x, In x l -> xf T t x = true ->
      list_item_to_pe s t (xg T t x) = list_item_to_pe s t x.
    Proof.
      intros x Hx Hf.
      destruct (list_member_facts tr t l x Htr Hwf Hc Ek Hx)
        as (ex & Hex & Hwex & Hkv & Hocc & Hte & Hwx & Hcx & Hstep).
      pose proof (plain_list_in l x Hpl Hx) as Hpx.
      unfold xf, xg in *. rewrite (list_item_pe_or_zero_some s t x ex Hex) in *. cbv zeta in Hf.
      destruct (leafy_or_granular s (list_elem t) x) as [Hl|Hg];
        [rewrite (xt_leafy s (list_elem t) _ x Hcx Hpx Hl); reflexivity|].
      pose proof (xs_ok _ _ _ _ Hsel) as HT.
      destruct (ps_with_prefix_spec ex T HT Hwex) as [HT' Hw].
      set (T' := ps_with_prefix ex T) in *.
      assert (Hno : ps_has [ex] T = false).
      { destruct (ps_has [ex] T) eqn:Eh; [|reflexivity]. exfalso.
        exact (leafy_not_granular _ _ _ (member_has_leafy x ex Hx Hex Eh) Hg). }
      rewrite Hno in Hf. cbn [orb] in Hf. apply negb_true_iff in Hf.
      destruct (ps_nonempty_witness _ HT' Hf) as (q & Hq & Hhq).
      pose proof (has_nonnil _ _ Hhq) as Hqne. rewrite Hw in Hhq by auto.
      destruct (conf_list_facts s R Hok Hfam tr false t l Htr Hc Ek)
        as (sc & ma & Hr & _ & Hna & Hne & _ & _ & _).
      rewrite Hex. pose proof Hex as Hex0. unfold list_item_to_pe in Hex |- *.
      destruct (negb (rel_is_assoc (list_rel t))); [discriminate|].
      destruct (list_keys t) as [|k0 ks] eqn:Ekeys.
      { (* a set member is a scalar, hence a leaf *)
        exfalso. assert (Hs : is_scalar x = true) by (destruct x; simpl in Hex; try discriminate; reflexivity).
        exact (leafy_not_granular _ _ _ (scalar_leafy s (list_elem t) x Hs) Hg). }
      destruct x as [| | | | |lx|m]; try (simpl in Hex; discriminate).
      pose proof (kind_vmap_cases s (list_elem t) m) as Hkc. unfold granular in Hg.
      destruct (kind_of s (list_elem t) (VMap m)) as [|t' m'|t' l'|] eqn:Ekind; try contradiction.
      destruct (kind_map_inv _ _ _ _ _ Ekind) as (a' & Hr' & Ham' & Hv & Hna' & Hmne).
      inversion Hv; subst m'. clear Hv.
      destruct a' as [sc' li' ma']. simpl in Ham'. subst ma'.
      rewrite keyed_item_to_pe_eq in Hex.
      destruct (keyed_go s t m (list_keys t)) as [fl|] eqn:Eg; [|discriminate].
      inversion Hex as [Hexeq]. clear Hex.
      assert (Hnames : forall k, In k (list_keys t) -> In k (map fst (fl_sort fl))).
      { intros k Hk. apply fl_sort_names. rewrite (keyed_go_names _ _ _ _ _ Eg). exact Hk. }
      assert (Hexpl : forall k, In k (list_keys t) -> assoc_get k m <> None).
      { apply (keyed_go_explicit s t m (list_keys t) fl Eg).
        intros k' d Hk'. apply (Hnd tr _ t k' d Htr Hr eq_refl Hk'). }
      (* every key field is selected and its value is a leaf *)
      assert (Hkeys : forall k, In k (list_keys t) ->
                exists c, assoc_get k m = Some c /\ xt_value s T' t' k c = Some c).
      { intros k Hk. destruct (assoc_get k m) as [c|] eqn:Egk; [|exfalso; exact (Hexpl k Hk Egk)].
        exists c. split; [reflexivity|].
        assert (Hmem : ps_has [ex; PEField k] T = true).
        { subst ex. apply (xs_keys _ _ _ _ Hsel [] (fl_sort fl) q k);
            [cbn [app]; apply wf_path_cons; auto|exact Hqne|exact Hhq|apply Hnames; exact Hk]. }
        assert (Hmem' : ps_has [PEField k] T' = true).
        { unfold T'. rewrite Hw; [exact Hmem|reflexivity|discriminate]. }
        destruct (map_member_facts (list_elem t) t' m k c Hte Hwx Hcx Ekind Egk)
          as (Hin & Hft & Hwc & Hcc & Hstepc).
        assert (Hlc : leafy s (field_type t' k) c).
        { apply rnode_leaf_leafy.
          apply (xs_leaf _ _ _ _ Hsel [ex; PEField k] (RNode (field_type t' k) c)); auto.
          - apply wf_path_cons. split; [exact Hwex|reflexivity].
          - rewrite Hstep, Hstepc. reflexivity. }
        unfold xt_value. rewrite Hmem'.
        rewrite (xt_leafy s (field_type t' k) _ c Hcc (plain_map_in m k c Hpx Hin) Hlc). reflexivity. }
      rewrite (remove_items_vmap' s true (list_elem t) T' sc' li' t' m Hr' Hmne), Hna', rm_map_go_xt.
      assert (Hget : forall k, In k (list_keys t) ->
                assoc_get k (flat_map (xt_entry s T' t') m) = assoc_get k m).
      { intros k Hk. destruct (Hkeys k Hk) as (c & Egk & Hxv).
        rewrite xt_map_assoc_get, Egk. exact Hxv. }
      destruct (flat_map (xt_entry s T' t') m) as [|o out] eqn:Eout.
      { exfalso. apply (Hexpl k0); [rewrite Ekeys; simpl; auto|].
        rewrite <- Hget by (rewrite Ekeys; simpl; auto). reflexivity. }
      rewrite keyed_item_to_pe_eq, <- Eout.
      rewrite (keyed_go_ext s t _ m (list_keys t)); [rewrite Eg, Hexeq; reflexivity|].
      rewrite Eout. exact Hget.
    Qed.
  End InList.
End XT.

(* ================= entries of a map ================= *)

Lemma xt_entry_value : forall s T t k c,
  xt_entry s T t (k, c) = match xt_value s T t k c with Some c' => [(k, c')] | None => [] end.
Proof.
  intros s T t k c. unfold xt_entry, xt_value. cbn [fst snd].
  destruct (ps_has [PEField k] T); [reflexivity|].
  destruct (negb (ps_empty (ps_with_prefix (PEField k) T))); reflexivity.
Qed.

Lemma cmap_each_xt : forall s dup t T m,
  (forall k c c', In (k, c) m -> xt_value s T t k c = Some c' ->
     conforms s (field_type t k) dup c = true -> conforms s (field_type t k) dup c' = true) ->
  cmap_each s dup t m = true -> cmap_each s dup t (flat_map (xt_entry s T t) m) = true.
Proof.
  intros s dup t T m. induction m as [|[k c] m IH]; intros Hkept Hc; [reflexivity|].
  cbn [flat_map]. rewrite xt_entry_value.
  cbn [cmap_each] in Hc. apply andb_true_iff in Hc. destruct Hc as [Hkc Hc].
  assert (IH' : cmap_each s dup t (flat_map (xt_entry s T t) m) = true).
  { apply IH; [|exact Hc]. intros k' c0 c' Hin. apply Hkept. right. exact Hin. }
  destruct (xt_value s T t k c) as [c'|] eqn:Ev; [|exact IH'].
  pose proof (Hkept k c c' (or_introl eq_refl) Ev) as Hk.
  cbn [app cmap_each]. rewrite IH', andb_true_r.
  destruct (has_field t k) eqn:Ehf.
  - exact (Hk Hkc).
  - apply andb_true_iff in Hkc. destruct Hkc as [Hne Hkc]. rewrite Hne. cbn [andb].
    rewrite (field_type_nofield t k Ehf) in Hk. exact (Hk Hkc).
Qed.

Section XT2.
  Variables (s : schema) (R : typeref -> Prop).
  Hypothesis Hok : schema_ok s R.
  Hypothesis Hfam : family_refs s R.
  Hypothesis Hnd : keys_nodefault s R.

  Section InMap.
    Variables (tr : typeref) (t : mapT) (m : list (string * value)) (T : pset).
    Hypothesis Htr : R tr.
    Hypothesis Hwf : wf_value (VMap m) = true.
    Hypothesis Hc : conforms s tr false (VMap m) = true.
    Hypothesis Hpl : plain (VMap m) = true.
    Hypothesis Ek : kind_of s tr (VMap m) = KMap t m.
    Hypothesis Hsel : xsel s tr (VMap m) T.

    Lemma xt_value_cases : forall k c c', assoc_get k m = Some c -> xt_value s T t k c = Some c' ->
      (leafy s (field_type t k) c /\ c' = c) \/
      (granular s (field_type t k) c /\ ps_has [PEField k] T = false /\
       ps_empty (ps_with_prefix (PEField k) T) = false /\
       c' = remove_items s true (field_type t k) (ps_with_prefix (PEField k) T) c /\
       xsel s (field_type t k) c (ps_with_prefix (PEField k) T)).
    Proof.
      intros k c c' Eg Hv.
      destruct (map_member_facts s R Hok tr t m k c Htr Hwf Hc Ek Eg) as (Hin & Hft & Hwc & Hcc & Hstep).
      pose proof (plain_map_in m k c Hpl Hin) as Hpc.
      destruct (leafy_or_granular s (field_type t k) c) as [Hl|Hg].
      - left. split; [exact Hl|]. unfold xt_value in Hv.
        destruct (ps_has [PEField k] T).
        + inversion Hv. apply (xt_leafy s _ _ c Hcc Hpc Hl).
        + destruct (negb (ps_empty (ps_with_prefix (PEField k) T))); [|discriminate].
          inversion Hv. apply (xt_leafy s _ _ c Hcc Hpc Hl).
      - right. split; [exact Hg|].
        assert (Hno : ps_has [PEField k] T = false).
        { destruct (ps_has [PEField k] T) eqn:Eh; [|reflexivity]. exfalso.
          apply (leafy_not_granular s (field_type t k) c); [|exact Hg].
          apply rnode_leaf_leafy.
          apply (xs_leaf _ _ _ _ Hsel [PEField k] (RNode (field_type t k) c)); auto.
          rewrite Hstep. reflexivity. }
        unfold xt_value in Hv. rewrite Hno in Hv.
        destruct (ps_empty (ps_with_prefix (PEField k) T)) eqn:Ee; [discriminate|]. cbn [negb] in Hv.
        inversion Hv. split; [exact Hno|]. split; [reflexivity|]. split; [reflexivity|].
        apply (xsel_child s tr (VMap m) T (PEField k) (field_type t k) c Hsel eq_refl Hstep Hg).
    Qed.

    (* a non-empty selection keeps an entry *)
    Lemma xt_map_nonempty : ps_empty T = false -> flat_map (xt_entry s T t) m <> [].
    Proof.
      intros Hne Hnil. pose proof (xs_ok _ _ _ _ Hsel) as HT.
      destruct (ps_nonempty_witness T HT Hne) as (p & Hp & Hh).
      destruct (xs_hit _ _ _ _ Hsel p Hp Hh) as (j & tr' & x & Hj & Hres & _).
      destruct p as [|e p']; [simpl in Hj; lia|].
      destruct j as [|j]; [lia|]. cbn [firstn] in Hres.
      destruct e as [k|fl|ev|i];
        try (rewrite (resolve_path_map_other _ _ _ _ _ _ _ Ek) in Hres by exact I; discriminate).
      rewrite (resolve_path_map _ _ _ _ _ _ _ Ek) in Hres.
      destruct (assoc_get k m) as [c|] eqn:Eg; [|discriminate].
      pose proof (xt_map_assoc_get s T t k m) as Hget. rewrite Hnil, Eg in Hget. simpl in Hget.
      unfold xt_value in Hget.
      destruct (ps_has [PEField k] T) eqn:Eh; [discriminate|].
      destruct p' as [|e2 p2]; [congruence|].
      apply wf_path_cons in Hp. destruct Hp as [_ Hp'].
      destruct (ps_with_prefix_spec (PEField k) T HT eq_refl) as [_ Hw].
      rewrite <- Hw in Hh by (auto; discriminate).
      rewrite (ps_has_nonempty _ _ Hh) in Hget. discriminate.
    Qed.
  End InMap.

  Section InList2.
    Variables (tr : typeref) (t : listT) (l : list value) (T : pset).
    Hypothesis Htr : R tr.
    Hypothesis Hwf : wf_value (VList l) = true.
    Hypothesis Hc : conforms s tr false (VList l) = true.
    Hypothesis Hpl : plain (VList l) = true.
    Hypothesis Ek : kind_of s tr (VList l) = KList t l.
    Hypothesis Hsel : xsel s tr (VList l) T.

    Lemma xg_cases : forall x ex, In x l -> list_item_to_pe s t x = Some ex -> xf s T t x = true ->
      (leafy s (list_elem t) x /\ xg s T t x = x) \/
      (granular s (list_elem t) x /\ ps_has [ex] T = false /\
       ps_empty (ps_with_prefix ex T) = false /\
       xg s T t x = remove_items s true (list_elem t) (ps_with_prefix ex T) x /\
       xsel s (list_elem t) x (ps_with_prefix ex T)).
    Proof.
      intros x ex Hx Hex Hf.
      destruct (list_member_facts s R Hok Hfam tr t l x Htr Hwf Hc Ek Hx)
        as (ex' & Hex' & Hwex & Hkv & Hocc & Hte & Hwx & Hcx & Hstep).
      rewrite Hex in Hex'. inversion Hex'; subst ex'. clear Hex'.
      pose proof (plain_list_in l x Hpl Hx) as Hpx.
      unfold xf, xg in *. rewrite (list_item_pe_or_zero_some s t x ex Hex) in *. cbv zeta in Hf.
      destruct (leafy_or_granular s (list_elem t) x) as [Hl|Hg].
      - left. split; [exact Hl|]. apply (xt_leafy s _ _ x Hcx Hpx Hl).
      - right. split; [exact Hg|].
        assert (Hno : ps_has [ex] T = false).
        { destruct (ps_has [ex] T) eqn:Eh; [|reflexivity]. exfalso.
          exact (leafy_not_granular _ _ _
                   (member_has_leafy s R Hok Hfam tr t l T Htr Hwf Hc Ek Hsel x ex Hx Hex Eh) Hg). }
        rewrite Hno in Hf. cbn [orb] in Hf. apply negb_true_iff in Hf.
        split; [exact Hno|]. split; [exact Hf|]. split; [reflexivity|].
        apply (xsel_child s tr (VList l) T ex (list_elem t) x Hsel Hwex Hstep Hg).
    Qed.

    (* the member a path of v goes through *)
    Lemma list_step_member : forall e rest n, wf_pe e = true ->
      resolve_path s tr (VList l) (e :: rest) = Some n ->
      exists x ex, In x l /\ list_item_to_pe s t x = Some ex /\ wf_pe ex = true /\
        peeqb ex e = true /\ occ s t e l = [x] /\ is_keyval e = true /\
        resolve_path s (list_elem t) x rest = Some n.
    Proof.
      intros e rest n He Hres.
      destruct (conf_list_facts s R Hok Hfam tr false t l Htr Hc Ek)
        as (sc & ma & Hr & Hte & Hna & Hne & Hhp & Hcs & Hd).
      cbn [orb] in Hd.
      assert (Hiw : items_wf s t l) by (eapply items_wf_R; eauto).
      rewrite (resolve_path_list_occ s R Hok tr _ t l e rest Htr Hwf Ek He), Hhp in Hres.
      destruct (is_keyval e) eqn:Ekv; [|discriminate]. cbn [andb] in Hres.
      pose proof (distinct_occ s t l e Hd Hiw He) as Hlen.
      destruct (occ s t e l) as [|x [|y more]] eqn:Eo; [discriminate| |simpl in Hlen; discriminate].
      assert (Hxo : In x (occ s t e l)) by (rewrite Eo; left; reflexivity).
      apply occ_In in Hxo. destruct Hxo as [Hx Hm]. unfold pe_matches in Hm.
      destruct (list_item_to_pe s t x) as [ex|] eqn:Ex; [|discriminate].
      exists x, ex. repeat split; auto. apply (Hiw x ex Hx Ex).
    Qed.

    Lemma has_cong : forall e e', wf_pe e = true -> wf_pe e' = true -> peeqb e e' = true ->
      ps_has [e] T = ps_has [e'] T.
    Proof.
      intros e e' He He' Heq. apply ps_has_patheqb; auto; try (apply wf_path_cons; auto).
      - apply (xs_ok _ _ _ _ Hsel).
      - simpl. rewrite Heq. reflexivity.
    Qed.

    Lemma xt_list_nonempty : ps_empty T = false -> filter (xf s T t) l <> [].
    Proof.
      intros Hne Hnil. pose proof (xs_ok _ _ _ _ Hsel) as HT.
      destruct (ps_nonempty_witness T HT Hne) as (p & Hp & Hh).
      destruct (xs_hit _ _ _ _ Hsel p Hp Hh) as (j & tr' & y & Hj & Hres & _).
      destruct p as [|e p']; [simpl in Hj; lia|].
      destruct j as [|j]; [lia|]. cbn [firstn] in Hres.
      apply wf_path_cons in Hp. destruct Hp as [He Hp'].
      destruct (list_step_member e _ _ He Hres) as (x & ex & Hx & Hex & Hwex & Heq & _).
      assert (Hf : xf s T t x = true).
      { unfold xf. rewrite (list_item_pe_or_zero_some s t x ex Hex). cbv zeta.
        destruct p' as [|e2 p2].
        - rewrite (has_cong ex e Hwex He Heq), Hh. reflexivity.
        - destruct (ps_with_prefix_spec ex T HT Hwex) as [_ Hw].
          assert (Hh' : ps_has (e2 :: p2) (ps_with_prefix ex T) = true).
          { rewrite Hw by (auto; discriminate). rewrite <- Hh.
            apply ps_has_patheqb; auto; try (apply wf_path_cons; auto).
            change (peeqb ex e && patheqb (e2 :: p2) (e2 :: p2) = true).
            rewrite Heq. apply patheqb_refl. exact Hp'. }
          rewrite (ps_has_nonempty _ _ Hh'). apply orb_true_r. }
      assert (Hin : In x (filter (xf s T t) l)) by (apply filter_In; auto).
      rewrite Hnil in Hin. contradiction.
    Qed.
  End InList2.

  (* ---------- the extraction of a granular object ---------- *)

  Theorem xt_struct : forall v tr T, R tr -> wf_value v = true ->
    conforms s tr false v = true -> plain v = true -> granular s tr v -> xsel s tr v T ->
    (ps_empty T = true -> remove_items s true tr T v = VNull) /\
    (ps_empty T = false ->
       conforms s tr false (remove_items s true tr T v) = true /\
       plain (remove_items s true tr T v) = true /\
       granular s tr (remove_items s true tr T v)).
  Proof.
    intros v. induction v as [|b|z|q0|str|l IHl|m IHm] using value_ind';
      intros tr T Htr Hwf Hc Hpl Hg Hsel; try discriminate;
      try (exfalso; eapply leafy_not_granular; [|exact Hg]; apply scalar_leafy; reflexivity).
    - (* list *)
      pose proof (xs_ok _ _ _ _ Hsel) as HT.
      unfold granular in Hg.
      destruct (kind_of s tr (VList l)) as [|t m|t l'|] eqn:Ek; try contradiction.
      { destruct (kind_map_inv _ _ _ _ _ Ek) as (_ & _ & _ & Hv & _). discriminate. }
      destruct (kind_list_inv _ _ _ _ _ Ek) as (a0 & _ & _ & Hv & _). inversion Hv; subst l'. clear Hv.
      destruct (conf_list_facts s R Hok Hfam tr false t l Htr Hc Ek)
        as (sc & ma & Hr & Hte & Hna & Hne & Hhp & Hcs & Hd).
      cbn [orb] in Hd.
      rewrite (remove_items_vlist' s true tr T sc t ma l Hr Hne), Hna.
      rewrite (xt_list_form s R Hok Hfam tr t l T Htr Hwf Hc Hpl Ek Hsel).
      split.
      + intros Hem. rewrite MergeDescent.filter_none; [reflexivity|].
        intros x Hx. destruct (list_member_facts s R Hok Hfam tr t l x Htr Hwf Hc Ek Hx)
          as (ex & Hex & Hwex & _).
        unfold xf. rewrite (list_item_pe_or_zero_some s t x ex Hex). cbv zeta.
        rewrite (ps_empty_has T _ Hem), (wp_empty T ex HT Hwex Hem). reflexivity.
      + intros Hem.
        pose proof (xt_list_nonempty tr t l T Htr Hwf Hc Ek Hsel Hem) as Hfne.
        set (l' := map (xg s T t) (filter (xf s T t) l)).
        assert (Hl'ne : l' <> []).
        { unfold l'. destruct (filter (xf s T t) l); [congruence|discriminate]. }
        assert (Hmem : forall y, In y l' -> exists x, In x l /\ xf s T t x = true /\ y = xg s T t x).
        { intros y Hy. unfold l' in Hy. apply in_map_iff in Hy. destruct Hy as (x & <- & Hx).
          apply filter_In in Hx. exists x. tauto. }
        assert (Hpes : forall x, In x (filter (xf s T t) l) ->
                  list_item_to_pe s t (xg s T t x) = list_item_to_pe s t x).
        { intros x Hx. apply filter_In in Hx. destruct Hx as [Hx Hf].
          apply (xt_kept_pe s R Hok Hfam Hnd tr t l T Htr Hwf Hc Hpl Ek Hsel x Hx Hf). }
        assert (Heach : forall y, In y l' ->
                  conforms s (list_elem t) false y = true /\ plain y = true).
        { intros y Hy. destruct (Hmem y Hy) as (x & Hx & Hf & ->).
          destruct (list_member_facts s R Hok Hfam tr t l x Htr Hwf Hc Ek Hx)
            as (ex & Hex & Hwex & Hkv & Hocc & _ & Hwx & Hcx & Hstep).
          pose proof (plain_list_in l x Hpl Hx) as Hpx.
          destruct (xg_cases tr t l T Htr Hwf Hc Hpl Ek Hsel x ex Hx Hex Hf)
            as [[Hl ->]|(Hgx & Hno & Hne' & -> & Hselx)]; [auto|].
          rewrite Forall_forall in IHl.
          destruct (IHl x Hx (list_elem t) (ps_with_prefix ex T) Hte Hwx Hcx Hpx Hgx Hselx) as [_ H2].
          destruct (H2 Hne') as (H3 & H4 & _). auto. }
        destruct (Hfam tr _ t Htr Hr eq_refl) as [Hrel|Hrel]; [|rewrite Hrel in Hna; discriminate].
        destruct l' as [|y0 ys] eqn:El'; [congruence|]. rewrite <- El' in *.
        split; [|split].
        * rewrite conforms_eq, Hr, Hrel. cbn [orb]. apply andb_true_iff. split; [apply andb_true_iff; split|].
          -- apply forallb_forall. intros y Hy. destruct (Hmem y Hy) as (x & Hx & Hf & ->).
             unfold has_pe. rewrite Hpes by (apply filter_In; auto).
             rewrite forallb_forall in Hhp. exact (Hhp x Hx).
          -- apply forallb_forall. intros y Hy. apply (Heach y Hy).
          -- unfold l'. rewrite (pes_of_map_same s t _ _ Hpes). apply all_distinct_filter. exact Hd.
        * rewrite El'. change (forallb plain (y0 :: ys) = true). rewrite <- El'.
          apply forallb_forall. intros y Hy. apply (Heach y Hy).
        * unfold granular. rewrite (MergeDescent.kind_of_list s tr _ t l' Hr eq_refl Hna Hl'ne). exact I.
    - (* map *)
      pose proof (xs_ok _ _ _ _ Hsel) as HT.
      unfold granular in Hg.
      destruct (kind_of s tr (VMap m)) as [|t m'|t l'|] eqn:Ek; try contradiction.
      2:{ destruct (kind_list_inv _ _ _ _ _ Ek) as (_ & _ & _ & Hv & _). discriminate. }
      destruct (kind_map_inv _ _ _ _ _ Ek) as (a & Hr & Ham & Hv & Hna & Hmne).
      inversion Hv; subst m'. clear Hv.
      destruct a as [sc li ma]. simpl in Ham. subst ma.
      rewrite (remove_items_vmap' s true tr T sc li t m Hr Hmne), Hna, rm_map_go_xt.
      assert (Hsorted : sorted_keys m = true).
      { simpl in Hwf. apply andb_true_iff in Hwf. apply Hwf. }
      split.
      + intros Hem. rewrite flat_map_nil_all; [reflexivity|].
        intros [k c] _. rewrite xt_entry_value. unfold xt_value.
        rewrite (ps_empty_has T _ Hem), (wp_empty T (PEField k) HT eq_refl Hem). reflexivity.
      + intros Hem.
        pose proof (xt_map_nonempty tr t m T Ek Hsel Hem) as Hone.
        set (out := flat_map (xt_entry s T t) m) in *.
        assert (Heach : forall k c c', In (k, c) m -> xt_value s T t k c = Some c' ->
                  conforms s (field_type t k) false c' = true /\ plain c' = true).
        { intros k c c' Hin Hv.
          pose proof (assoc_get_in_sorted m k c Hsorted Hin) as Eg.
          destruct (map_member_facts s R Hok tr t m k c Htr Hwf Hc Ek Eg) as (_ & Hft & Hwc & Hcc & _).
          pose proof (plain_map_in m k c Hpl Hin) as Hpc.
          destruct (xt_value_cases tr t m T Htr Hwf Hc Hpl Ek Hsel k c c' Eg Hv)
            as [[Hl ->]|(Hgc & Hno & Hne' & -> & Hselc)]; [auto|].
          rewrite Forall_forall in IHm.
          destruct (IHm (k, c) Hin (field_type t k) (ps_with_prefix (PEField k) T) Hft Hwc Hcc Hpc Hgc Hselc)
            as [_ H2].
          destruct (H2 Hne') as (H3 & H4 & _). auto. }
        destruct out as [|o0 os] eqn:Eo; [congruence|]. rewrite <- Eo in *.
        split; [|split].
        * rewrite conforms_eq, Hr. apply cmap_each_xt.
          -- intros k c c' Hin Hv _. apply (Heach k c c' Hin Hv).
          -- rewrite conforms_eq, Hr in Hc. exact Hc.
        * rewrite Eo. change (forallb (fun kv => plain (snd kv)) (o0 :: os) = true). rewrite <- Eo.
          apply forallb_forall. intros [k c'] Hy. unfold out in Hy. apply in_flat_map in Hy.
          destruct Hy as ([k0 c] & Hin & Hy). rewrite xt_entry_value in Hy.
          destruct (xt_value s T t k0 c) as [c0|] eqn:Ev; [|contradiction].
          destruct Hy as [Hy|[]]. inversion Hy; subst k0 c0. apply (Heach k c c' Hin Ev).
        * unfold granular.
          rewrite (MergeDescent.kind_of_map s tr _ t out Hr eq_refl Hna); [exact I|].
          rewrite Eo. discriminate.
  Qed.
End XT2.

(* ================= one step of resolution through an extraction ================= *)

Lemma xt_resolve_map : forall s tr t m T k rest, kind_of s tr (VMap m) = KMap t m ->
  resolve_path s tr (remove_items s true tr T (VMap m)) (PEField k :: rest) =
  match assoc_get k m with
  | None => None
  | Some c => match xt_value s T t k c with
              | Some c' => resolve_path s (field_type t k) c' rest
              | None => None
              end
  end.
Proof.
  intros s tr t m T k rest Ek.
  destruct (kind_map_inv _ _ _ _ _ Ek) as (a & Hr & Ham & _ & Hna & Hne).
  destruct a as [sc li ma]. simpl in Ham. subst ma.
  rewrite (remove_items_vmap' s true tr T sc li t m Hr Hne), Hna, rm_map_go_xt.
  pose proof (xt_map_assoc_get s T t k m) as Hg.
  destruct (flat_map (xt_entry s T t) m) as [|o out] eqn:Eo.
  - rewrite resolve_path_leaf by apply kind_null.
    simpl in Hg. destruct (assoc_get k m) as [c|]; [|reflexivity].
    destruct (xt_value s T t k c); [discriminate|reflexivity].
  - rewrite <- Eo in *.
    assert (Hk : kind_of s tr (VMap (flat_map (xt_entry s T t) m)) = KMap t (flat_map (xt_entry s T t) m)).
    { unfold kind_of. rewrite Hr, Hna, Eo. reflexivity. }
    rewrite (resolve_path_map _ _ _ _ _ _ _ Hk), Hg.
    destruct (assoc_get k m) as [c|]; [|reflexivity].
    destruct (xt_value s T t k c); reflexivity.
Qed.

Lemma xt_resolve_map_other : forall s tr t m T e rest,
  kind_of s tr (VMap m) = KMap t m ->
  match e with PEField _ => False | _ => True end ->
  resolve_path s tr (remove_items s true tr T (VMap m)) (e :: rest) = None.
Proof.
  intros s tr t m T e rest Ek He.
  destruct (kind_map_inv _ _ _ _ _ Ek) as (a & Hr & Ham & _ & Hna & Hne).
  destruct a as [sc li ma]. simpl in Ham. subst ma.
  rewrite (remove_items_vmap' s true tr T sc li t m Hr Hne), Hna.
  destruct (rm_map_go s true T t m) as [|o out] eqn:Eo.
  - apply resolve_path_leaf. apply kind_null.
  - apply (resolve_path_map_other s tr _ t (o :: out)); [|exact He].
    unfold kind_of. rewrite Hr, Hna. reflexivity.
Qed.

Section XT3.
  Variables (s : schema) (R : typeref -> Prop).
  Hypothesis Hok : schema_ok s R.
  Hypothesis Hfam : family_refs s R.
  Hypothesis Hnd : keys_nodefault s R.

  Lemma xt_resolve_list : forall tr t l T e rest, R tr -> wf_value (VList l) = true ->
    conforms s tr false (VList l) = true -> plain (VList l) = true ->
    kind_of s tr (VList l) = KList t l -> xsel s tr (VList l) T -> wf_pe e = true ->
    resolve_path s tr (remove_items s true tr T (VList l)) (e :: rest) =
    if is_keyval e then
      match occ s t e l with
      | [x] => if xf s T t x then resolve_path s (list_elem t) (xg s T t x) rest else None
      | _ => None
      end
    else None.
  Proof.
    intros tr t l T e rest Htr Hwf Hc Hpl Ek Hsel He.
    destruct (conf_list_facts s R Hok Hfam tr false t l Htr Hc Ek)
      as (sc & ma & Hr & Hte & Hna & Hne & Hhp & Hcs & Hd).
    cbn [orb] in Hd.
    assert (Hiw : items_wf s t l) by (eapply items_wf_R; eauto).
    pose proof (remove_items_wf s true (VList l) tr T Hwf) as Hwf'.
    rewrite (remove_items_vlist' s true tr T sc t ma l Hr Hne), Hna in *.
    rewrite (xt_list_form s R Hok Hfam tr t l T Htr Hwf Hc Hpl Ek Hsel) in *.
    set (l' := map (xg s T t) (filter (xf s T t) l)) in *.
    assert (Hpes : forall x, In x (filter (xf s T t) l) ->
              list_item_to_pe s t (xg s T t x) = list_item_to_pe s t x).
    { intros x Hx. apply filter_In in Hx. destruct Hx as [Hx Hf].
      apply (xt_kept_pe s R Hok Hfam Hnd tr t l T Htr Hwf Hc Hpl Ek Hsel x Hx Hf). }
    assert (Hocc : occ s t e l' = map (xg s T t) (filter (xf s T t) (occ s t e l))).
    { unfold l'. rewrite (occ_map_same s t e _ _ Hpes), occ_filter_comm. reflexivity. }
    pose proof (distinct_occ s t l e Hd Hiw He) as Hlen.
    destruct l' as [|y0 ys] eqn:El'.
    - rewrite resolve_path_leaf by apply kind_null.
      destruct (is_keyval e); [|reflexivity].
      destruct (occ s t e l) as [|x [|y more]]; try reflexivity.
      simpl in Hocc. destruct (xf s T t x); [discriminate|reflexivity].
    - rewrite <- El' in *.
      assert (Hk' : kind_of s tr (VList l') = KList t l').
      { unfold kind_of. rewrite Hr, Hna, El'. reflexivity. }
      assert (Hhp' : forallb (has_pe s t) l' = true).
      { apply forallb_forall. intros y Hy. unfold l' in Hy. apply in_map_iff in Hy.
        destruct Hy as (x & <- & Hx). unfold has_pe. rewrite (Hpes x Hx).
        apply filter_In in Hx. rewrite forallb_forall in Hhp. exact (Hhp x (proj1 Hx)). }
      rewrite (resolve_path_list_occ s R Hok tr (VList l') t l' e rest Htr Hwf' Hk' He), Hhp', Hocc.
      cbn [andb]. destruct (is_keyval e); [|reflexivity].
      destruct (occ s t e l) as [|x [|y more]]; [reflexivity| |simpl in Hlen; discriminate].
      cbn [filter]. destruct (xf s T t x); reflexivity.
  Qed.

  Lemma ext_wp_cong : forall T e e' rest, ps_ok T = true -> wf_pe e = true -> wf_pe e' = true ->
    peeqb e e' = true -> wf_path rest = true ->
    ext rest (ps_with_prefix e T) = ext rest (ps_with_prefix e' T).
  Proof.
    intros T e e' rest HT He He' Heq Hrest.
    destruct (ps_with_prefix_spec e T HT He) as [H1 _].
    destruct (ps_with_prefix_spec e' T HT He') as [H2 _].
    apply (ext_cong rest _ _ H1 H2 Hrest). apply (with_prefix_cong T e e' HT He He' Heq).
  Qed.

  (* ---------- what the extraction keeps ---------- *)

  Theorem xt_keeps : forall p v tr T n, R tr -> wf_value v = true ->
    conforms s tr false v = true -> plain v = true -> granular s tr v -> xsel s tr v T ->
    wf_path p = true -> p <> [] -> resolve_path s tr v p = Some n -> rnode_is_leaf s n = true ->
    ext p T = true -> resolve_path s tr (remove_items s true tr T v) p = Some n.
  Proof.
    induction p as [|e rest IH]; intros v tr T n Htr Hwf Hc Hpl Hg Hsel Hp Hne Hres Hleaf Hext;
      [congruence|].
    apply wf_path_cons in Hp. destruct Hp as [He Hrest].
    pose proof (xs_ok _ _ _ _ Hsel) as HT.
    cbn [ext] in Hext.
    unfold granular in Hg. destruct (kind_of s tr v) as [|t m|t l|] eqn:Ek; try contradiction.
    - destruct (kind_map_inv _ _ _ _ _ Ek) as (a & Hr & Ham & Hv & Hna & Hmne). subst v.
      destruct e as [k|fl|ev|i];
        try (rewrite (resolve_path_map_other _ _ _ _ _ _ _ Ek) in Hres by exact I; discriminate).
      rewrite (resolve_path_map _ _ _ _ _ _ _ Ek) in Hres.
      destruct (assoc_get k m) as [c|] eqn:Eg; [|discriminate].
      rewrite (xt_resolve_map s tr t m T k rest Ek), Eg.
      destruct (ps_with_prefix_spec (PEField k) T HT eq_refl) as [HT' _].
      destruct (xt_value s T t k c) as [c'|] eqn:Ev.
      + destruct (xt_value_cases s R Hok tr t m T Htr Hwf Hc Hpl Ek Hsel k c c' Eg Ev)
          as [[Hl ->]|(Hgc & Hno & Hne' & -> & Hselc)]; [exact Hres|].
        destruct (map_member_facts s R Hok tr t m k c Htr Hwf Hc Ek Eg) as (Hin & Hft & Hwc & Hcc & _).
        destruct rest as [|r0 rest'].
        { exfalso. simpl in Hres. inversion Hres; subst n.
          rewrite (granular_not_leaf s _ _ Hgc) in Hleaf. discriminate. }
        cbn [orb] in Hext.
        apply (IH c (field_type t k) (ps_with_prefix (PEField k) T) n); auto.
        * apply (plain_map_in m k c Hpl Hin).
        * discriminate.
      + exfalso. unfold xt_value in Ev.
        destruct (ps_has [PEField k] T) eqn:Eh; [discriminate|].
        assert (Hx : ext rest (ps_with_prefix (PEField k) T) = true).
        { destruct rest; exact Hext. }
        rewrite (ext_nonempty rest _ HT' Hrest Hx) in Ev. discriminate.
    - destruct (kind_list_inv _ _ _ _ _ Ek) as (a & Hr0 & Hal & Hv & _ & _). subst v.
      destruct (list_step_member s R Hok Hfam tr t l Htr Hwf Hc Ek e rest n He Hres)
        as (x & ex & Hx & Hex & Hwex & Heq & Hocc & Hkv & Hresx).
      rewrite (xt_resolve_list tr t l T e rest Htr Hwf Hc Hpl Ek Hsel He), Hkv, Hocc.
      destruct (ps_with_prefix_spec ex T HT Hwex) as [HTx _].
      assert (Hext' : match rest with [] => ps_has [ex] T | _ => false end
                      || ext rest (ps_with_prefix ex T) = true).
      { rewrite (has_cong s tr l T Hsel ex e Hwex He Heq).
        rewrite (ext_wp_cong T ex e rest HT Hwex He Heq Hrest). exact Hext. }
      assert (Hf : xf s T t x = true).
      { unfold xf. rewrite (list_item_pe_or_zero_some s t x ex Hex). cbv zeta.
        apply orb_true_iff in Hext'. destruct Hext' as [H|H].
        - destruct rest; [rewrite H; reflexivity|discriminate].
        - rewrite (ext_nonempty rest _ HTx Hrest H). apply orb_true_r. }
      rewrite Hf.
      destruct (xg_cases s R Hok Hfam tr t l T Htr Hwf Hc Hpl Ek Hsel x ex Hx Hex Hf)
        as [[Hl ->]|(Hgx & Hno & Hne' & -> & Hselx)]; [exact Hresx|].
      destruct (list_member_facts s R Hok Hfam tr t l x Htr Hwf Hc Ek Hx)
        as (ex' & _ & _ & _ & _ & Hte & Hwx & Hcx & _).
      destruct rest as [|r0 rest'].
      { exfalso. simpl in Hresx. inversion Hresx; subst n.
        rewrite (granular_not_leaf s _ _ Hgx) in Hleaf. discriminate. }
      cbn [orb] in Hext'.
      apply (IH x (list_elem t) (ps_with_prefix ex T) n); auto.
      + apply (plain_list_in l x Hpl Hx).
      + discriminate.
  Qed.

  (* ---------- every node of the extraction is a selected node of the object ---------- *)

  Theorem xt_sound : forall p v tr T n', R tr -> wf_value v = true ->
    conforms s tr false v = true -> plain v = true -> granular s tr v -> xsel s tr v T ->
    wf_path p = true -> p <> [] ->
    resolve_path s tr (remove_items s true tr T v) p = Some n' ->
    ext p T = true /\
    exists n, resolve_path s tr v p = Some n /\
      (rnode_is_leaf s n = true -> n' = n) /\
      (rnode_is_leaf s n' = true -> rnode_is_leaf s n = true).
  Proof.
    induction p as [|e rest IH]; intros v tr T n' Htr Hwf Hc Hpl Hg Hsel Hp Hne Hres; [congruence|].
    apply wf_path_cons in Hp. destruct Hp as [He Hrest].
    pose proof (xs_ok _ _ _ _ Hsel) as HT.
    cbn [ext].
    unfold granular in Hg. destruct (kind_of s tr v) as [|t m|t l|] eqn:Ek; try contradiction.
    - destruct (kind_map_inv _ _ _ _ _ Ek) as (a & Hr & Ham & Hv & Hna & Hmne). subst v.
      destruct e as [k|fl|ev|i];
        try (rewrite (xt_resolve_map_other s tr t m T _ rest Ek) in Hres by exact I; discriminate).
      rewrite (xt_resolve_map s tr t m T k rest Ek) in Hres.
      destruct (assoc_get k m) as [c|] eqn:Eg; [|discriminate].
      destruct (xt_value s T t k c) as [c'|] eqn:Ev; [|discriminate].
      rewrite (resolve_path_map _ _ _ _ _ _ _ Ek), Eg.
      assert (Hkeep : ps_has [PEField k] T || negb (ps_empty (ps_with_prefix (PEField k) T)) = true).
      { unfold xt_value in Ev. destruct (ps_has [PEField k] T); [reflexivity|].
        destruct (negb (ps_empty (ps_with_prefix (PEField k) T))); [reflexivity|discriminate]. }
      destruct (map_member_facts s R Hok tr t m k c Htr Hwf Hc Ek Eg) as (Hin & Hft & Hwc & Hcc & _).
      pose proof (plain_map_in m k c Hpl Hin) as Hpc.
      destruct (xt_value_cases s R Hok tr t m T Htr Hwf Hc Hpl Ek Hsel k c c' Eg Ev)
        as [[Hl ->]|(Hgc & Hno & Hne' & -> & Hselc)].
      + destruct rest as [|r0 rest']; [|rewrite resolve_path_leaf in Hres by exact Hl; discriminate].
        split; [exact Hkeep|]. exists n'. cbn [resolve_path] in *. split; [exact Hres|]. auto.
      + destruct rest as [|r0 rest'].
        * split; [exact Hkeep|]. exists (RNode (field_type t k) c). split; [reflexivity|].
          simpl in Hres. inversion Hres; subst n'. split.
          -- intros Hlf. rewrite (granular_not_leaf s _ _ Hgc) in Hlf. discriminate.
          -- intros Hlf. exfalso.
             destruct (xt_struct s R Hok Hfam Hnd c (field_type t k) _ Hft Hwc Hcc Hpc Hgc Hselc) as [_ H2].
             destruct (H2 Hne') as (_ & _ & Hg').
             rewrite (granular_not_leaf s _ _ Hg') in Hlf. discriminate.
        * destruct (IH c (field_type t k) (ps_with_prefix (PEField k) T) n' Hft Hwc Hcc Hpc Hgc Hselc
                      Hrest ltac:(discriminate) Hres) as (Hx & n & Hn).
          split; [rewrite Hx; apply orb_true_r|]. exists n. exact Hn.
    - destruct (kind_list_inv _ _ _ _ _ Ek) as (a & Hr0 & Hal & Hv & _ & _). subst v.
      rewrite (xt_resolve_list tr t l T e rest Htr Hwf Hc Hpl Ek Hsel He) in Hres.
      destruct (is_keyval e) eqn:Ekv; [|discriminate].
      destruct (occ s t e l) as [|x [|y more]] eqn:Eo; try discriminate.
      destruct (xf s T t x) eqn:Hf; [|discriminate].
      assert (Hxo : In x (occ s t e l)) by (rewrite Eo; left; reflexivity).
      apply occ_In in Hxo. destruct Hxo as [Hx Hm]. unfold pe_matches in Hm.
      destruct (list_item_to_pe s t x) as [ex|] eqn:Hex; [|discriminate].
      destruct (list_member_facts s R Hok Hfam tr t l x Htr Hwf Hc Ek Hx)
        as (ex' & Hex' & Hwex & _ & _ & Hte & Hwx & Hcx & _).
      rewrite Hex in Hex'. inversion Hex'; subst ex'. clear Hex'.
      pose proof (plain_list_in l x Hpl Hx) as Hpx.
      destruct (conf_list_facts s R Hok Hfam tr false t l Htr Hc Ek)
        as (sc & ma & Hr & _ & Hna & Hne0 & Hhp & _ & _).
      rewrite (resolve_path_list_occ s R Hok tr _ t l e rest Htr Hwf Ek He), Hhp, Ekv, Eo. cbn [andb].
      rewrite <- (has_cong s tr l T Hsel ex e Hwex He Hm).
      rewrite <- (ext_wp_cong T ex e rest HT Hwex He Hm Hrest).
      assert (Hkeep : ps_has [ex] T || negb (ps_empty (ps_with_prefix ex T)) = true).
      { unfold xf in Hf. rewrite (list_item_pe_or_zero_some s t x ex Hex) in Hf. exact Hf. }
      destruct (xg_cases s R Hok Hfam tr t l T Htr Hwf Hc Hpl Ek Hsel x ex Hx Hex Hf)
        as [[Hl Hgx]|(Hgx & Hno & Hne' & Hgeq & Hselx)]; rewrite ?Hgx, ?Hgeq in Hres.
      + destruct rest as [|r0 rest']; [|rewrite resolve_path_leaf in Hres by exact Hl; discriminate].
        split; [exact Hkeep|]. exists n'. cbn [resolve_path] in *. split; [exact Hres|]. auto.
      + destruct rest as [|r0 rest'].
        * split; [exact Hkeep|]. exists (RNode (list_elem t) x). split; [reflexivity|].
          simpl in Hres. inversion Hres; subst n'. split.
          -- intros Hlf. rewrite (granular_not_leaf s _ _ Hgx) in Hlf. discriminate.
          -- intros Hlf. exfalso.
             destruct (xt_struct s R Hok Hfam Hnd x (list_elem t) _ Hte Hwx Hcx Hpx Hgx Hselx) as [_ H2].
             destruct (H2 Hne') as (_ & _ & Hg').
             rewrite (granular_not_leaf s _ _ Hg') in Hlf. discriminate.
        * destruct (IH x (list_elem t) (ps_with_prefix ex T) n' Hte Hwx Hcx Hpx Hgx Hselx
                      Hrest ltac:(discriminate) Hres) as (Hxx & n & Hn).
          split; [rewrite Hxx; apply orb_true_r|]. exists n. exact Hn.
  Qed.
End XT3.

(* ================= shapes ================= *)

(* removal and extraction turn a map into a map (or null), a list into a list (or null) *)
Lemma remove_items_shape : forall s ex tr T x,
  remove_items s ex tr T x = VNull \/
  (is_map (remove_items s ex tr T x) = is_map x /\ is_list (remove_items s ex tr T x) = is_list x).
Proof.
  intros s ex tr T x. rewrite remove_items_eq.
  destruct (resolve s tr) as [a|]; [|left; reflexivity].
  destruct (handle_atom (deduce_atom a (Some x))) as [t|t|t|]; [| |  |left; reflexivity].
  - destruct x as [| | | | |l|[|kv m]]; try (left; reflexivity).
    destruct (rel_is_atomic (map_rel t)); [destruct ex; [right; split; reflexivity|left; reflexivity]|].
    cbv zeta. destruct (rm_map_go s ex T t (kv :: m)); [left; reflexivity|right; split; reflexivity].
  - right. split; reflexivity.
  - destruct x as [| | | | |[|x0 l]|m]; try (left; reflexivity).
    destruct (rel_is_atomic (list_rel t)); [destruct ex; [right; split; reflexivity|left; reflexivity]|].
    cbv zeta. destruct (rm_list_go s ex T t (x0 :: l)); [left; reflexivity|right; split; reflexivity].
Qed.

Lemma granular_shape : forall s tr x, granular s tr x -> x <> VNull.
Proof.
  intros s tr x Hg ->. unfold granular, kind_of in Hg. destruct (resolve s tr) as [[sc li ma]|]; contradiction.
Qed.

Section XT4.
  Variables (s : schema) (R : typeref -> Prop).
  Hypothesis Hok : schema_ok s R.
  Hypothesis Hfam : family_refs s R.
  Hypothesis Hnd : keys_nodefault s R.

  (* the node of the extraction at a path of v is the extraction of some set from v's node *)
  Theorem xt_node : forall p v tr T t0 x0 n', R tr -> wf_value v = true ->
    conforms s tr false v = true -> plain v = true -> granular s tr v -> xsel s tr v T ->
    wf_path p = true -> p <> [] ->
    resolve_path s tr v p = Some (RNode t0 x0) ->
    resolve_path s tr (remove_items s true tr T v) p = Some n' ->
    exists T', n' = RNode t0 (remove_items s true t0 T' x0).
  Proof.
    induction p as [|e rest IH]; intros v tr T t0 x0 n' Htr Hwf Hc Hpl Hg Hsel Hp Hne Hresv Hres;
      [congruence|].
    apply wf_path_cons in Hp. destruct Hp as [He Hrest].
    pose proof (xs_ok _ _ _ _ Hsel) as HT.
    unfold granular in Hg. destruct (kind_of s tr v) as [|t m|t l|] eqn:Ek; try contradiction.
    - destruct (kind_map_inv _ _ _ _ _ Ek) as (a & Hr & Ham & Hv & Hna & Hmne). subst v.
      destruct e as [k|fl|ev|i];
        try (rewrite (xt_resolve_map_other s tr t m T _ rest Ek) in Hres by exact I; discriminate).
      rewrite (xt_resolve_map s tr t m T k rest Ek) in Hres.
      rewrite (resolve_path_map _ _ _ _ _ _ _ Ek) in Hresv.
      destruct (assoc_get k m) as [c|] eqn:Eg; [|discriminate].
      destruct (xt_value s T t k c) as [c'|] eqn:Ev; [|discriminate].
      destruct (map_member_facts s R Hok tr t m k c Htr Hwf Hc Ek Eg) as (Hin & Hft & Hwc & Hcc & _).
      pose proof (plain_map_in m k c Hpl Hin) as Hpc.
      destruct (xt_value_cases s R Hok tr t m T Htr Hwf Hc Hpl Ek Hsel k c c' Eg Ev)
        as [[Hl ->]|(Hgc & Hno & Hne' & -> & Hselc)].
      + destruct rest as [|r0 rest']; [|rewrite resolve_path_leaf in Hres by exact Hl; discriminate].
        simpl in Hres, Hresv. inversion Hres; subst n'. inversion Hresv; subst t0 x0.
        exists T. rewrite (xt_leafy s _ T c Hcc Hpc Hl). reflexivity.
      + destruct rest as [|r0 rest'].
        * simpl in Hres, Hresv. inversion Hres; subst n'. inversion Hresv; subst t0 x0.
          exists (ps_with_prefix (PEField k) T). reflexivity.
        * apply (IH c (field_type t k) (ps_with_prefix (PEField k) T) t0 x0 n'); auto. discriminate.
    - destruct (kind_list_inv _ _ _ _ _ Ek) as (a & Hr0 & Hal & Hv & _ & _). subst v.
      rewrite (xt_resolve_list s R Hok Hfam Hnd tr t l T e rest Htr Hwf Hc Hpl Ek Hsel He) in Hres.
      destruct (is_keyval e) eqn:Ekv; [|discriminate].
      destruct (occ s t e l) as [|x [|y more]] eqn:Eo; try discriminate.
      destruct (xf s T t x) eqn:Hf; [|discriminate].
      assert (Hxo : In x (occ s t e l)) by (rewrite Eo; left; reflexivity).
      apply occ_In in Hxo. destruct Hxo as [Hx Hm]. unfold pe_matches in Hm.
      destruct (list_item_to_pe s t x) as [ex|] eqn:Hex; [|discriminate].
      destruct (list_member_facts s R Hok Hfam tr t l x Htr Hwf Hc Ek Hx)
        as (ex' & Hex' & Hwex & _ & _ & Hte & Hwx & Hcx & _).
      rewrite Hex in Hex'. inversion Hex'; subst ex'. clear Hex'.
      pose proof (plain_list_in l x Hpl Hx) as Hpx.
      destruct (conf_list_facts s R Hok Hfam tr false t l Htr Hc Ek)
        as (sc & ma & Hr & _ & Hna & Hne0 & Hhp & _ & _).
      rewrite (resolve_path_list_occ s R Hok tr _ t l e rest Htr Hwf Ek He), Hhp, Ekv, Eo in Hresv.
      cbn [andb] in Hresv.
      destruct (xg_cases s R Hok Hfam tr t l T Htr Hwf Hc Hpl Ek Hsel x ex Hx Hex Hf)
        as [[Hl Hgx]|(Hgx & Hno & Hne' & Hgeq & Hselx)]; rewrite ?Hgx, ?Hgeq in Hres.
      + destruct rest as [|r0 rest']; [|rewrite resolve_path_leaf in Hres by exact Hl; discriminate].
        simpl in Hres, Hresv. inversion Hres; subst n'. inversion Hresv; subst t0 x0.
        exists T. rewrite (xt_leafy s _ T x Hcx Hpx Hl). reflexivity.
      + destruct rest as [|r0 rest'].
        * simpl in Hres, Hresv. inversion Hres; subst n'. inversion Hresv; subst t0 x0.
          exists (ps_with_prefix ex T). reflexivity.
        * apply (IH x (list_elem t) (ps_with_prefix ex T) t0 x0 n'); auto. discriminate.
  Qed.
End XT4.
