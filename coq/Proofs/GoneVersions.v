(* C20: "managers recorded at a version the converter reports as gone are dropped without
   error and without affecting anything else" (statements of
   Proofs/GoneVersions_statements.v, all four proved VERBATIM, nothing refuted, nothing
   left out).  In the implementation the reconciliation that opens every
   operation skips -- and thereby drops -- every record whose version the converter reports as
   missing; everything after it works on the remaining records.  Hence: an operation behaves
   exactly as if the gone records had not been there, and its result holds none of them.
   The converter's answers must not depend on the call index (the gone records cost extra
   conversion calls).

   How it is proved.
   - [reconcile_ignores_gone]: [reconcile_managed c n live mf] and
     [reconcile_managed c n' live (drop_gone mf)] return the same map (or the same error);
     only the returned call counters differ (one more call per gone record).
   - Proofs/GoneVersionsBase.v: under [index_free] prune (with add-back and dangling items)
     and update_core return the same result whatever counter they are started with
     ([prune_er], [update_core_er]); [er] forgets the returned counter.  apply_op and
     update_op do not return the counter, which gives the two stated equalities.
   - [reconcile_no_gone]: the reconciled map holds no gone record; mf_set at [ver], mf_del
     and update_core (which keeps, shrinks or deletes records: [update_core_allrec]) do not
     introduce one.

   Stronger forms are also delivered, because the proofs do not use every hypothesis of the
   statements: [apply_ignores_gone_records_strong] / [update_ignores_gone_records_strong]
   need only [reports_gone] and [index_free] (not mf_ok, nor that [ver] and the live
   version are not gone), and [apply_result_has_no_gone_record_strong] /
   [update_result_has_no_gone_record_strong] need only [reports_gone] and [gone ver = false]
   (not [index_free]).  The stated theorems are corollaries.

   Why [index_free] cannot be dropped from the first two: [index_free_needed] shows a
   converter that fails on its second call only; with one gone record in the map the apply
   (and the update) fails, without it it succeeds.

   Example (section GoneExample): [gx_config] is ex_config with version "v2" gone
   (converter [fun _ _ to v => if to = "v2" then CMissing else COk v]); the state is the
   reachable state [hx_obj] of Proofs/History.v with the records [hx_mf] (at "v1") plus two
   records at "v2" (manager "b2" owning the member y's value and "e" owning the number).
   A non-forced apply by "a" that changes the number and an update by "d" are evaluated
   with and without the "v2" records: equal results, no "v2" record left -- by the theorems
   and by evaluation ([gx_apply_value], [gx_update_value]).  Had "e"'s record counted, the
   apply would have been a conflict ([gx_conflict_if_not_gone]). *)
From Coq Require Import List ZArith String Bool Arith Lia.
From SMD Require Import Model.Value Model.Order Model.PathElem Model.PathSet Model.Schema Model.Walk
  Model.Validate Model.FieldSet Model.Remove Model.Merge Model.Compare Model.Matcher Model.Reconcile
  Model.Updater
  Spec.PathsAsSets Proofs.OrderLaws Proofs.PathSetLaws Proofs.UpdaterLaws Proofs.UpdaterLaws2
  Proofs.GoneVersionsBase.
Import ListNotations.
Open Scope bool_scope.
Open Scope list_scope.

Section GoneVersions.
  Variables (c : config) (gone : string -> bool).

  (* the converter reports the versions of [gone] as missing, whatever it is asked to convert *)
  Definition reports_gone : Prop :=
    forall n from to v, gone to = true -> cfg_convert c n from to v = CMissing.
  (* its answers do not depend on the call index *)
  Definition index_free : Prop :=
    forall n n' from to v, cfg_convert c n from to v = cfg_convert c n' from to v.

  Definition drop_gone (mf : managed) : managed :=
    filter (fun mr : string * mrec => negb (gone (mr_ver (snd mr)))) mf.

  (* ---- reconciliation ---- *)

  Lemma fold_rstep_ignores_gone : forall live mf res n n',
    reports_gone -> index_free ->
    er (fold_left (rstep c live) mf (UOk (res, n))) =
    er (fold_left (rstep c live) (drop_gone mf) (UOk (res, n'))).
  Proof.
    intros live mf res n n' Hg Hif. revert res n n'.
    induction mf as [|[m r] mf IH]; intros res n n'; [reflexivity|].
    unfold drop_gone. cbn [filter snd]. fold (drop_gone mf).
    destruct (gone (mr_ver r)) eqn:G; cbn [negb].
    - cbn [fold_left]. unfold rstep at 2, convert. cbn [snd fst].
      rewrite (Hg n (fst live) (mr_ver r) (snd live) G). apply IH.
    - cbn [fold_left]. unfold rstep at 2 4, convert. cbn [snd fst].
      rewrite (Hif n n').
      destruct (cfg_convert c n' (fst live) (mr_ver r) (snd live)) as [v| |].
      + destruct (reconcile_field_set (schema_of c (mr_ver r)) (tr_of c (mr_ver r)) (mr_set r))
          as [[s'|]|].
        * apply IH.
        * apply IH.
        * rewrite !fold_rstep_err. reflexivity.
      + apply IH.
      + rewrite !fold_rstep_err. reflexivity.
  Qed.

  Lemma reconcile_ignores_gone : forall live mf n n',
    reports_gone -> index_free ->
    er (reconcile_managed c n live mf) = er (reconcile_managed c n' live (drop_gone mf)).
  Proof.
    intros live mf n n' Hg Hif. rewrite !reconcile_managed_unfold.
    apply fold_rstep_ignores_gone; assumption.
  Qed.

  Definition not_gone (r : mrec) : Prop := gone (mr_ver r) = false.

  Lemma not_gone_ver : forall r r', mr_ver r = mr_ver r' -> not_gone r -> not_gone r'.
  Proof. intros r r' H G. unfold not_gone in *. rewrite <- H. exact G. Qed.

  Lemma fold_rstep_no_gone : forall live mf res n res' n',
    reports_gone -> allrec not_gone res ->
    fold_left (rstep c live) mf (UOk (res, n)) = UOk (res', n') -> allrec not_gone res'.
  Proof.
    intros live mf res n res' n' Hg. revert res n.
    induction mf as [|[m r] mf IH]; intros res n Hres E.
    - inversion E; subst; exact Hres.
    - cbn [fold_left] in E. unfold rstep at 2, convert in E. cbn [snd fst] in E.
      destruct (cfg_convert c n (fst live) (mr_ver r) (snd live)) as [v| |] eqn:Ec.
      + assert (gone (mr_ver r) = false) as G.
        { destruct (gone (mr_ver r)) eqn:G; [|reflexivity].
          rewrite (Hg n (fst live) (mr_ver r) (snd live) G) in Ec. discriminate Ec. }
        destruct (reconcile_field_set (schema_of c (mr_ver r)) (tr_of c (mr_ver r)) (mr_set r))
          as [[s'|]|].
        * eapply IH; [|exact E]. unfold allrec. apply Forall_app. split; [exact Hres|].
          constructor; [exact G|constructor].
        * eapply IH; [|exact E]. unfold allrec. apply Forall_app. split; [exact Hres|].
          constructor; [exact G|constructor].
        * rewrite fold_rstep_err in E. discriminate E.
      + eapply IH; [exact Hres|exact E].
      + rewrite fold_rstep_err in E. discriminate E.
  Qed.

  (* the reconciled map holds no gone record *)
  Lemma reconcile_no_gone : forall live mf n mf0 n0,
    reports_gone -> reconcile_managed c n live mf = UOk (mf0, n0) -> allrec not_gone mf0.
  Proof.
    intros live mf n mf0 n0 Hg E. rewrite reconcile_managed_unfold in E.
    eapply fold_rstep_no_gone; [exact Hg| |exact E]. constructor.
  Qed.

  (* ---- the operations: strong forms ---- *)

  Theorem apply_ignores_gone_records_strong : forall live cfg ver mf mgr force,
    reports_gone -> index_free ->
    apply_op c live cfg ver mf mgr force = apply_op c live cfg ver (drop_gone mf) mgr force.
  Proof.
    intros live cfg ver mf mgr force Hg Hif. unfold apply_op.
    pose proof (reconcile_ignores_gone live mf 0 0 Hg Hif) as H.
    split_er H; [|reflexivity].
    destruct (merge (schema_of c (fst live)) (tr_of c (fst live)) (snd live) (snd cfg))
      as [[nv|]|]; try reflexivity.
    destruct (to_fs c cfg) as [set0|]; [|reflexivity].
    destruct (ignore_filter_for c ver) as [f|]; [|reflexivity].
    match goal with
    | |- match prune c ?k ?a ?b ?d ?l with _ => _ end = match prune c ?k' _ _ _ _ with _ => _ end =>
        pose proof (prune_er c Hif k k' a b d l) as H
    end.
    split_er H; [|reflexivity].
    match goal with
    | |- match update_core c ?k ?a ?b ?d ?l ?w ?f with _ => _ end =
         match update_core c ?k' _ _ _ _ _ _ with _ => _ end =>
        pose proof (update_core_er c Hif k k' a b d l w f) as H
    end.
    split_er H; reflexivity.
  Qed.

  Theorem update_ignores_gone_records_strong : forall live obj ver mf mgr,
    reports_gone -> index_free ->
    update_op c live obj ver mf mgr = update_op c live obj ver (drop_gone mf) mgr.
  Proof.
    intros live obj ver mf mgr Hg Hif. unfold update_op.
    pose proof (reconcile_ignores_gone live mf 0 0 Hg Hif) as H.
    split_er H; [|reflexivity].
    match goal with
    | |- match update_core c ?k ?a ?b ?d ?l ?w ?f with _ => _ end =
         match update_core c ?k' _ _ _ _ _ _ with _ => _ end =>
        pose proof (update_core_er c Hif k k' a b d l w f) as H
    end.
    split_er H; reflexivity.
  Qed.

  Theorem apply_result_has_no_gone_record_strong : forall live cfg ver mf mgr force o mf' m r,
    reports_gone -> gone ver = false ->
    apply_op c live cfg ver mf mgr force = UOk (o, mf') ->
    mf_get m mf' = Some r -> gone (mr_ver r) = false.
  Proof.
    intros live cfg ver mf mgr force o mf' m r Hg Hver E Hget. unfold apply_op in E.
    destruct (reconcile_managed c 0 live mf) as [[mf0 n0]|e0] eqn:Er; [|discriminate E].
    pose proof (reconcile_no_gone live mf 0 mf0 n0 Hg Er) as H0.
    destruct (merge (schema_of c (fst live)) (tr_of c (fst live)) (snd live) (snd cfg))
      as [[nv|]|]; try discriminate E.
    destruct (to_fs c cfg) as [set0|]; [|discriminate E].
    destruct (ignore_filter_for c ver) as [f|]; [|discriminate E].
    match type of E with
    | match ?x with _ => _ end = _ => destruct x as [[pruned n1]|e1]; [|discriminate E]
    end.
    match type of E with
    | match ?x with _ => _ end = _ => destruct x as [[[mf2 cmp] n2]|e2] eqn:Eu; [|discriminate E]
    end.
    assert (mf' = mf2) as Hmf.
    { destruct (negb (cfg_return_input_on_noop c) && veqb (snd live) (snd pruned));
        inversion E; reflexivity. }
    subst mf'.
    apply (allrec_get not_gone m r mf2); [|exact Hget].
    eapply (update_core_allrec not_gone not_gone_ver); [|exact Eu].
    apply allrec_set; [exact H0|exact Hver].
  Qed.

  Theorem update_result_has_no_gone_record_strong : forall live obj ver mf mgr o mf' m r,
    reports_gone -> gone ver = false ->
    update_op c live obj ver mf mgr = UOk (o, mf') ->
    mf_get m mf' = Some r -> gone (mr_ver r) = false.
  Proof.
    intros live obj ver mf mgr o mf' m r Hg Hver E Hget. unfold update_op in E.
    destruct (reconcile_managed c 0 live mf) as [[mf0 n0]|e0] eqn:Er; [|discriminate E].
    pose proof (reconcile_no_gone live mf 0 mf0 n0 Hg Er) as H0.
    match type of E with
    | match ?x with _ => _ end = _ => destruct x as [[[mf1 cmp] n1]|e1] eqn:Eu; [|discriminate E]
    end.
    pose proof (update_core_allrec not_gone not_gone_ver _ _ _ _ _ _ _ _ _ _ _ H0 Eu) as H1.
    destruct (ignore_filter_for c ver) as [f|]; [|discriminate E].
    apply (allrec_get not_gone m r mf'); [|exact Hget].
    match type of E with
    | UOk (_, if ?b then _ else _) = _ => destruct b
    end; inversion E; subst.
    - apply allrec_del. exact H1.
    - apply allrec_set; [exact H1|exact Hver].
  Qed.

  (* ---- the statements of Proofs/GoneVersions_statements.v, verbatim ---- *)

  Theorem apply_ignores_gone_records : forall live cfg ver mf mgr force,
    reports_gone -> index_free -> mf_ok mf -> gone ver = false -> gone (fst live) = false ->
    apply_op c live cfg ver mf mgr force = apply_op c live cfg ver (drop_gone mf) mgr force.
  Proof.
    intros live cfg ver mf mgr force Hg Hif _ _ _.
    apply apply_ignores_gone_records_strong; assumption.
  Qed.

  Theorem update_ignores_gone_records : forall live obj ver mf mgr,
    reports_gone -> index_free -> mf_ok mf -> gone ver = false -> gone (fst live) = false ->
    update_op c live obj ver mf mgr = update_op c live obj ver (drop_gone mf) mgr.
  Proof.
    intros live obj ver mf mgr Hg Hif _ _ _.
    apply update_ignores_gone_records_strong; assumption.
  Qed.

  Theorem apply_result_has_no_gone_record : forall live cfg ver mf mgr force o mf' m r,
    reports_gone -> index_free -> mf_ok mf -> gone ver = false -> gone (fst live) = false ->
    apply_op c live cfg ver mf mgr force = UOk (o, mf') ->
    mf_get m mf' = Some r -> gone (mr_ver r) = false.
  Proof.
    intros live cfg ver mf mgr force o mf' m r Hg _ _ Hver _ E Hget.
    eapply apply_result_has_no_gone_record_strong; eassumption.
  Qed.

  Theorem update_result_has_no_gone_record : forall live obj ver mf mgr o mf' m r,
    reports_gone -> index_free -> mf_ok mf -> gone ver = false -> gone (fst live) = false ->
    update_op c live obj ver mf mgr = UOk (o, mf') ->
    mf_get m mf' = Some r -> gone (mr_ver r) = false.
  Proof.
    intros live obj ver mf mgr o mf' m r Hg _ _ Hver _ E Hget.
    eapply update_result_has_no_gone_record_strong; eassumption.
  Qed.
End GoneVersions.

(* ================= example and non-vacuity ================= *)
From SMD Require Import Spec.Examples Proofs.History.

Section GoneExample.
  Open Scope string_scope.

  Definition gx_config : config :=
    mkConfig (fun _ => (ex_schema, ex_rt))
             (fun _ _ to v => if String.eqb to "v2" then CMissing else COk v)
             None None false (fun l => l).
  Definition gx_gone (s : string) : bool := String.eqb s "v2".

  Let Ky := PEKey [("name", VStr "y")].

  (* the records of the reachable state hx_mf (all at "v1"), and two records at "v2" *)
  Definition gx_mf : managed :=
    mf_set "e" (mkRec (ps_of_paths [[PEField "aa"]]) "v2" true)
      (mf_set "b2" (mkRec (ps_of_paths [[PEField "items"; Ky; PEField "vv"]]) "v2" false) hx_mf).

  Definition gx_live : tv := ("v1", hx_obj).
  Definition gx_cfg : tv :=
    ("v1", VMap [("aa", VInt 3); ("items", VList [VMap [("name", VStr "y")]])]).
  Definition gx_obj : tv :=
    ("v1", VMap [("aa", VInt 2);
                 ("items", VList [VMap [("name", VStr "y"); ("vv", VInt 8)];
                                  VMap [("name", VStr "z"); ("vv", VInt 3)]]);
                 ("mm", VMap [("k", VInt 2)])]).

  Lemma gx_reports_gone : reports_gone gx_config gx_gone.
  Proof.
    intros n from to v H. unfold gx_gone in H. cbn [gx_config cfg_convert]. rewrite H. reflexivity.
  Qed.

  Lemma gx_index_free : index_free gx_config.
  Proof. intros n n' from to v. reflexivity. Qed.

  Lemma gx_mf_ok : mf_ok gx_mf.
  Proof. split; vm_compute; reflexivity. Qed.

  (* the state without the v2 records is the reachable state of Proofs/History.v, also under
     the configuration in which v2 is gone *)
  Lemma gx_reachable : run gx_config "v1" hx_ops = (hx_obj, hx_mf) /\ drop_gone gx_gone gx_mf = hx_mf.
  Proof. split; vm_compute; reflexivity. Qed.

  Lemma gx_has_gone_records :
    map (fun mr : string * mrec => (fst mr, mr_ver (snd mr))) gx_mf =
    [("a", "v1"); ("b", "v1"); ("b2", "v2"); ("c", "v1"); ("d", "v1"); ("e", "v2")].
  Proof. vm_compute. reflexivity. Qed.

  (* by the theorems *)
  Example gx_apply_by_theorem :
    apply_op gx_config gx_live gx_cfg "v1" gx_mf "a" false =
    apply_op gx_config gx_live gx_cfg "v1" hx_mf "a" false /\
    forall o mf' m r, apply_op gx_config gx_live gx_cfg "v1" gx_mf "a" false = UOk (o, mf') ->
      mf_get m mf' = Some r -> gx_gone (mr_ver r) = false.
  Proof.
    split.
    - rewrite <- (proj2 gx_reachable).
      apply apply_ignores_gone_records;
        [exact gx_reports_gone|exact gx_index_free|exact gx_mf_ok|reflexivity|reflexivity].
    - intros o mf' m r E Hget.
      eapply (apply_result_has_no_gone_record gx_config gx_gone);
        [exact gx_reports_gone|exact gx_index_free|exact gx_mf_ok| | |exact E|exact Hget]; reflexivity.
  Qed.

  Example gx_update_by_theorem :
    update_op gx_config gx_live gx_obj "v1" gx_mf "d" =
    update_op gx_config gx_live gx_obj "v1" hx_mf "d" /\
    forall o mf' m r, update_op gx_config gx_live gx_obj "v1" gx_mf "d" = UOk (o, mf') ->
      mf_get m mf' = Some r -> gx_gone (mr_ver r) = false.
  Proof.
    split.
    - rewrite <- (proj2 gx_reachable).
      apply update_ignores_gone_records;
        [exact gx_reports_gone|exact gx_index_free|exact gx_mf_ok|reflexivity|reflexivity].
    - intros o mf' m r E Hget.
      eapply (update_result_has_no_gone_record gx_config gx_gone);
        [exact gx_reports_gone|exact gx_index_free|exact gx_mf_ok| | |exact E|exact Hget]; reflexivity.
  Qed.

  (* by evaluation: both operations succeed, with equal results, and leave records at "v1" only *)
  Example gx_apply_value :
    exists o mf',
      apply_op gx_config gx_live gx_cfg "v1" gx_mf "a" false = UOk (Some o, mf') /\
      apply_op gx_config gx_live gx_cfg "v1" hx_mf "a" false = UOk (Some o, mf') /\
      snd o = VMap [("aa", VInt 3);
                    ("items", VList [VMap [("name", VStr "y"); ("vv", VInt 7)];
                                     VMap [("name", VStr "z"); ("vv", VInt 3)]]);
                    ("mm", VMap [("k", VInt 2)])] /\
      map (fun mr : string * mrec => (fst mr, mr_ver (snd mr))) mf' =
      [("a", "v1"); ("b", "v1"); ("c", "v1"); ("d", "v1")].
  Proof. eexists. eexists. vm_compute. repeat split; reflexivity. Qed.

  Example gx_update_value :
    exists mf',
      update_op gx_config gx_live gx_obj "v1" gx_mf "d" = UOk (gx_obj, mf') /\
      update_op gx_config gx_live gx_obj "v1" hx_mf "d" = UOk (gx_obj, mf') /\
      map (fun mr : string * mrec => (fst mr, mr_ver (snd mr))) mf' =
      [("a", "v1"); ("b", "v1"); ("c", "v1"); ("d", "v1")].
  Proof. eexists. vm_compute. repeat split; reflexivity. Qed.

  (* the gone records are not inert by accident: under the identity converter (v2 alive,
     same schema) the record of "e" makes the same apply a conflict *)
  Example gx_conflict_if_not_gone :
    apply_op ex_config gx_live gx_cfg "v1" gx_mf "a" false =
    UErr (EConflict [("e", [PEField "aa"])]).
  Proof. vm_compute. reflexivity. Qed.

  (* [index_free] is needed for the first two theorems: a converter that reports v2 as gone
     and fails on its second call, whatever the versions *)
  Definition gx_config2 : config :=
    mkConfig (fun _ => (ex_schema, ex_rt))
             (fun n _ to v => if String.eqb to "v2" then CMissing
                              else if Nat.eqb n 1 then CFail else COk v)
             None None false (fun l => l).
  Definition gx_mf2 : managed :=
    [("a", mkRec (ps_of_paths [[PEField "aa"]]) "v2" true);
     ("b", mkRec (ps_of_paths [[PEField "mm"; PEField "k"]]) "v1" true)].

  Theorem index_free_needed :
    reports_gone gx_config2 gx_gone /\ ~ index_free gx_config2 /\ mf_ok gx_mf2 /\
    gx_gone "v1" = false /\
    apply_op gx_config2 gx_live ("v1", VMap [("aa", VInt 2)]) "v1" gx_mf2 "c" false = UErr EOther /\
    (exists r, apply_op gx_config2 gx_live ("v1", VMap [("aa", VInt 2)]) "v1"
                 (drop_gone gx_gone gx_mf2) "c" false = UOk r) /\
    update_op gx_config2 gx_live gx_obj "v1" gx_mf2 "c" = UErr EOther /\
    (exists r, update_op gx_config2 gx_live gx_obj "v1" (drop_gone gx_gone gx_mf2) "c" = UOk r).
  Proof.
    split.
    { intros n from to v H. unfold gx_gone in H. cbn [gx_config2 cfg_convert]. rewrite H. reflexivity. }
    split.
    { intros H. specialize (H 0 1 "v1" "v1" VNull). vm_compute in H. discriminate H. }
    split; [split; vm_compute; reflexivity|].
    split; [reflexivity|].
    split; [vm_compute; reflexivity|].
    split; [eexists; vm_compute; reflexivity|].
    split; [vm_compute; reflexivity|].
    eexists; vm_compute; reflexivity.
  Qed.
End GoneExample.

